#!/usr/bin/env python3
"""Regenerate /verif/MANIFEST.json from lib/registry.d/*.json (+ lib/not_applicable.json)."""
import json
import os
import sys

sys.path.insert(0, os.path.dirname(os.path.abspath(__file__)))
from registry import CHECKS  # noqa: E402

VERIF = os.path.dirname(os.path.dirname(os.path.abspath(__file__)))
props = [json.loads(l)["id"] for l in open(os.path.join(VERIF, "properties.jsonl"))]
na_path = os.path.join(VERIF, "lib", "not_applicable.json")
na = json.load(open(na_path)) if os.path.exists(na_path) else {}

checks = []
for pid in props:
    if pid not in CHECKS:
        continue
    c = CHECKS[pid]
    m = c.get("manifest", {})
    checks.append({
        "property_id": pid,
        "quick_cmd": f"./check {pid} --tier quick",
        "thorough_cmd": f"./check {pid} --tier thorough",
        "evidence_file": f"/verif/evidence/{pid}.json",
        "replay_cmd_template": f"./check {pid} --replay {{path}}",
        "engine": "check",
        "level_claimed": {"category": c.get("level", "exploration"), "text": m.get("level_text", ""), "design_ref": m.get("design_ref", f"DESIGN.md {pid}")},
        "level_note": m.get("level_note", ""),
        "technique": m.get("technique", "runtime monitoring"),
    })
not_app = []
for pid in props:
    if pid not in CHECKS:
        not_app.append({"property_id": pid, "reason": na.get(pid, "no check registered yet (work in progress): not claimed")})
man = {
    "version": 1,
    "setup_cmd": "./setup.sh",
    "hooks": {
        "guard": "verif",
        "enable": "go build/test -tags verif on a scratch copy of /repo (rsync + go generate + /verif/overlay copied in); see lib/driver.py",
        "baseline_off_cmd": "cd /repo && go test -vet=off -count=1 ./internal/util/javascript/... ./tools/langlint/...",
        "source_commits": json.load(open(os.path.join(VERIF, "lib", "hook_commits.json"))) if os.path.exists(os.path.join(VERIF, "lib", "hook_commits.json")) else [],
        "add_only": True,
    },
    "engines": [{"name": "check", "path": "/verif/check", "serves_properties": [c["property_id"] for c in checks],
                 "kind_free_text": "python driver + Go harness packages (overlay copied into a scratch copy of the repository) run as child processes; monitors: Go race detector, testing/synctest virtual clock, strace injection, SQLite driver hooks, reference implementations (Go, Node, SQLite EXPLAIN), porcupine"}],
    "checks": checks,
    "notes": "Every check rebuilds from /repo's current working tree into a scratch copy under /tmp/verif-scratch (removed on exit). known findings: /verif/known_findings.txt.",
    "not_applicable": not_app,
}
json.dump(man, open(os.path.join(VERIF, "MANIFEST.json"), "w"), indent=1)
print(f"{len(checks)} checks, {len(not_app)} not claimed")
