#!/usr/bin/env python3
"""Run a property's check against a seeded (property-breaking) patch.

    lib/seedrun.py <ID> <patch.diff> [--tier quick|thorough] [--seed N]

Works on a private copy of /repo (so concurrent work on /repo is undisturbed): rsync,
`patch -p1`, VERIF_REPO=<copy> ./check <ID>, evidence and replays redirected to a temp
dir. Prints one JSON line: {"property","patch","rc","caught","violation_keys",...}.
The final record of which check catches which change is made by applying the patch to
/repo itself (git -C /repo apply; ./check; git -C /repo checkout -- .) — see DESIGN.md.
"""
import argparse, json, os, shutil, subprocess, sys, tempfile, time

VERIF = os.path.dirname(os.path.dirname(os.path.abspath(__file__)))
ap = argparse.ArgumentParser()
ap.add_argument("prop"); ap.add_argument("patch")
ap.add_argument("--tier", default="quick"); ap.add_argument("--seed", default="1")
a = ap.parse_args()
tmp = tempfile.mkdtemp(prefix=f"seedrun-{a.prop}-", dir="/tmp")
try:
    repo = os.path.join(tmp, "repo")
    subprocess.run(["rsync", "-a", "--exclude", ".git", "/repo/", repo + "/"], check=True)
    r = subprocess.run(["patch", "-p1", "-s", "-i", os.path.abspath(a.patch)], cwd=repo, capture_output=True, text=True)
    if r.returncode != 0:
        print(json.dumps({"property": a.prop, "patch": a.patch, "error": "patch failed: " + r.stdout + r.stderr}))
        sys.exit(2)
    env = dict(os.environ, VERIF_REPO=repo, VERIF_EVIDENCE_DIR=os.path.join(tmp, "ev"), VERIF_REPLAY_DIR=os.path.join(tmp, "rp"),
               VERIF_SEED=a.seed, VERIF_SCRATCH_ROOT=os.path.join(tmp, "scratch"))
    t0 = time.time()
    r = subprocess.run([os.path.join(VERIF, "check"), a.prop, "--tier", a.tier], cwd=VERIF, env=env, capture_output=True, text=True)
    keys = [l.strip() for l in r.stdout.splitlines() if l.strip().startswith("key=")]
    viol = [l for l in r.stdout.splitlines() if l.startswith("VIOLATION")]
    res = {"property": a.prop, "patch": a.patch, "tier": a.tier, "seed": a.seed, "rc": r.returncode, "caught": r.returncode == 1 and bool(viol),
           "violations": len(viol), "violation_keys": [k[:300] for k in keys[:8]], "wall_s": round(time.time() - t0, 1),
           "verif_commit": subprocess.run(["git", "-C", VERIF, "rev-parse", "--short", "HEAD"], capture_output=True, text=True).stdout.strip(),
           "repo_commit": subprocess.run(["git", "-C", "/repo", "rev-parse", "--short", "HEAD"], capture_output=True, text=True).stdout.strip(),
           "stderr_tail": r.stderr[-600:] if r.returncode not in (0, 1) else ""}
    print(json.dumps(res))
    store = os.path.join(VERIF, "seeded", os.path.basename(os.path.dirname(os.path.abspath(a.patch))))
    if os.path.isdir(store) and os.path.abspath(os.path.dirname(a.patch)) == store:
        hist = os.path.join(store, "results.jsonl")
        with open(hist, "a") as f:
            f.write(json.dumps(res) + "\n")
finally:
    shutil.rmtree(tmp, ignore_errors=True)
