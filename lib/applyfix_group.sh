#!/bin/bash
# usage: lib/applyfix_group.sh <name>...   (proposed/<name>.diff + /tmp/msgs/<name>.txt)
# Commits each fix separately in /repo, then builds and tests all touched packages and the
# pinned baseline ONCE on a scratch copy (every fix was already tested alone by its author).
export GOFLAGS=-mod=mod GOPROXY=off
cd /repo; test -z "$(git status --porcelain)" || { echo "repo not clean"; exit 1; }
start=$(git rev-parse HEAD)
for n in "$@"; do
  if patch -p1 -s --no-backup-if-mismatch < /verif/proposed/$n.diff; then
    git add -A && git commit -q -F /tmp/msgs/$n.txt && echo "$n $(git rev-parse --short HEAD)"
  else
    echo "$n PATCH-FAILED"; git checkout -- .; git clean -fdq
  fi
done
PK=$(git diff --name-only $start HEAD | grep '\.go$' | xargs -n1 dirname | sort -u | sed 's|^|./|' | tr '\n' ' ')
D=/tmp/devfix/ego; rsync -a --exclude .git /repo/ $D/
cd $D && go build ./... 2>&1 | tail -20 && echo BUILD-DONE && go vet $PK 2>&1 | grep -v '^#' | head -20; go test -count=1 $PK 2>&1 | grep -v '^ok\|no test files' | head -40; echo PKGTEST-DONE; go test -vet=off -count=1 ./internal/util/javascript/... ./tools/langlint/... 2>&1 | tail -3
