#!/bin/bash
# usage: lib/sweep.sh <seed> <ids...>  -> one line per check: id rc wall last-line
S=$1; shift
for id in "$@"; do
  t0=$(date +%s)
  out=$(VERIF_SEED=$S VERIF_EVIDENCE_DIR=/tmp/sweep-ev ./check $id 2>/tmp/sweep-$id.err)
  rc=$?
  t1=$(date +%s)
  echo "$id seed=$S rc=$rc wall=$((t1-t0))s :: $(echo "$out" | grep -E '^(OK|VIOLATION|KNOWN)' | head -3 | tr '\n' '|' | cut -c1-300)"
done
