"""Registry of checks: one JSON file per property under lib/registry.d/."""
import glob
import json
import os

CHECKS = {}
for _p in sorted(glob.glob(os.path.join(os.path.dirname(os.path.abspath(__file__)), "registry.d", "*.json"))):
    _d = json.load(open(_p))
    for _part in _d.get("parts", []):
        if "timeout" in _part:
            _part["timeout"] = tuple(_part["timeout"])
    CHECKS[_d["id"]] = _d
