#!/bin/bash
# usage: lib/sweep_par.sh <seed> <evidence-dir or "-" for /verif/evidence> <jobs> [ids...]
# Runs the quick check of every (or the given) property, <jobs> at a time; one summary line each in /tmp/sweep-<seed>.log
S=$1; EV=$2; J=$3; shift 3
cd /verif
IDS="$@"; [ -z "$IDS" ] && IDS=$(python3 -c "import json; print(' '.join(json.loads(l)['id'] for l in open('properties.jsonl')))")
run1() {
  id=$1; t0=$(date +%s)
  if [ "$EV" = "-" ]; then out=$(VERIF_SEED=$S ./check $id 2>/tmp/sweep-$S-$id.err); rc=$?
  else out=$(VERIF_SEED=$S VERIF_EVIDENCE_DIR=$EV VERIF_REPLAY_DIR=$EV/replays ./check $id 2>/tmp/sweep-$S-$id.err); rc=$?; fi
  t1=$(date +%s)
  echo "$id seed=$S rc=$rc wall=$((t1-t0))s :: $(echo "$out" | grep -E '^(OK|VIOLATION)' | head -2 | tr '\n' '|' | cut -c1-220) known=$(echo "$out" | grep -c '^KNOWN-FINDING')"
}
export -f run1; export S EV
echo $IDS | tr ' ' '\n' | xargs -P $J -I{} bash -c 'run1 {}' >> /tmp/sweep-$S.log
echo "sweep seed=$S done" >> /tmp/sweep-$S.log
