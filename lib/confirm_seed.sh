#!/bin/bash
# usage: lib/confirm_seed.sh <ID> <k>
# Confirms a seeded change from /tmp/seeded-out/<ID>-<k>/ in a fresh scratch worktree of /repo:
#   clean tree: demo passes; patched tree: builds, baseline + touched packages' tests pass, demo fails.
# On success copies it to /verif/seeded/<ID>-<k>/ and writes confirm.json there. The worktree is removed.
ID=$1; K=$2; SRC=/tmp/seeded-out/$ID-$K; W=/tmp/cw-$ID-$K
export GOFLAGS=-mod=mod GOPROXY=off
set -u
res() { echo "{\"id\":\"$ID-$K\",\"ok\":$1,\"why\":\"$2\"}"; }
test -f $SRC/patch.diff -a -f $SRC/demo.sh || { res false "missing patch.diff or demo.sh"; exit 1; }
git -C /repo worktree remove --force $W >/dev/null 2>&1; rm -rf $W
git -C /repo worktree add -q --detach $W HEAD || { res false "worktree"; exit 1; }
trap 'git -C /repo worktree remove --force $W >/dev/null 2>&1; rm -rf $W' EXIT
cd $W && go generate ./... >/dev/null 2>&1
( cd $SRC && cp -r . $W/.seeded-src )
run_demo() { ( cd $W && SEEDED_DIR=$W/.seeded-src bash $W/.seeded-src/demo.sh ) > $W/.demo.log 2>&1; echo $?; }
# demo scripts may reference /tmp/seeded-out/<ID>-<k> absolute paths; that is fine (files still there)
c0=$(run_demo)
[ "$c0" = "0" ] || { tail -5 $W/.demo.log; res false "demo does not pass on clean tree (rc=$c0)"; exit 1; }
git apply $SRC/patch.diff || { res false "patch does not apply"; exit 1; }
go build -trimpath ./... > $W/.build.log 2>&1 || { tail -5 $W/.build.log; res false "does not build"; exit 1; }
PK=$(git status --porcelain | awk '{print $2}' | grep '\.go$' | grep -v zz_seeded | xargs -n1 dirname | sort -u | sed 's|^|./|' | tr '\n' ' ')
go test -vet=off -count=1 ./internal/util/javascript/... ./tools/langlint/... > $W/.base.log 2>&1 || { tail -5 $W/.base.log; res false "baseline tests fail"; exit 1; }
go test -count=1 $PK > $W/.pkg.log 2>&1 || { grep -E '^(--- FAIL|FAIL)' $W/.pkg.log | head -5; res false "touched package tests fail: $PK"; exit 1; }
c1=$(run_demo)
[ "$c1" != "0" ] || { res false "demo does not fail with the patch"; exit 1; }
mkdir -p /verif/seeded/$ID-$K && cp $SRC/patch.diff $SRC/demo.sh $SRC/meta.json /verif/seeded/$ID-$K/ 2>/dev/null
cp $SRC/*.go $SRC/*.ego $SRC/*.sh $SRC/*.py /verif/seeded/$ID-$K/ 2>/dev/null
echo "{\"confirmed_by\":\"coordinator\",\"clean_demo_rc\":$c0,\"patched_demo_rc\":$c1,\"packages_tested\":\"$PK\",\"baseline\":\"pass\",\"repo_head\":\"$(git -C /repo rev-parse --short HEAD)\"}" > /verif/seeded/$ID-$K/confirm.json
res true "confirmed; tested $PK"
