#!/usr/bin/env python3
"""Merge known_findings.d/*.txt into the single committed known_findings.txt (run once at integration time)."""
import glob, os, re
V = os.path.dirname(os.path.dirname(os.path.abspath(__file__)))
main = os.path.join(V, "known_findings.txt")
head = []
for l in open(main).read().splitlines():
    if l.startswith("#"):
        head.append(l)
    else:
        break
body = [l for l in open(main).read().splitlines() if not l.startswith("#") and l.strip()]
sections = {}
for l in body:
    m = re.search(r"property=(C\d+)", l)
    sections.setdefault(m.group(1) if m else "misc", []).append(l)
for p in sorted(glob.glob(os.path.join(V, "known_findings.d", "*.txt"))):
    pid = os.path.basename(p)[:-4]
    for l in open(p).read().splitlines():
        if l.strip():
            sections.setdefault(pid, []).append(l)
out = head + [""]
for pid in sorted(sections):
    out.append(f"# ---------------- {pid} ----------------")
    out += sections[pid]
    out.append("")
open(main, "w").write("\n".join(out))
for p in glob.glob(os.path.join(V, "known_findings.d", "*")):
    os.remove(p)
print("merged", len(sections), "sections")
