#!/bin/bash
# usage: lib/seedpipe.sh <ID-k>...  : confirm on current HEAD, then run the property's quick check against it; results in seeded/<ID-k>/
cd /verif
for s in "$@"; do
  id=${s%-*}; k=${s#*-}
  if [ -f /tmp/seeded-out/$s/NEUTRALIZED.txt ]; then mkdir -p seeded/$s; cp /tmp/seeded-out/$s/NEUTRALIZED.txt /tmp/seeded-out/$s/meta.json seeded/$s/ 2>/dev/null; echo "$s neutralized"; continue; fi
  c=$(lib/confirm_seed.sh $id $k 2>&1 | tail -1)
  echo "$s confirm: $c"
  case "$c" in *'"ok":true'*) lib/seedrun.py $id seeded/$s/patch.diff | cut -c1-400 ;; esac
done
