#!/usr/bin/env python3
"""Regenerate the generated sections of DESIGN.md (findings list, seeded-change matrix)
from known_findings.txt (+ known_findings.d), proposed/APPLIED.txt and seeded/*/ files."""
import glob
import json
import os
import re
import sys

sys.path.insert(0, os.path.dirname(os.path.abspath(__file__)))
import driver  # noqa: E402

VERIF = driver.VERIF


def findings_md():
    recs = driver.known_findings()
    by = {}
    for r in recs:
        by.setdefault(r["property"], {"known": [], "fixed": []})[r["status"]].append(r)
    applied = []
    p = os.path.join(VERIF, "proposed", "APPLIED.txt")
    if os.path.exists(p):
        for line in open(p):
            line = line.strip()
            if line and not line.startswith("#"):
                parts = line.split()
                applied.append((parts[0], parts[-1]))
    out = ["## 11. Genuine defects found on the unchanged tree", "",
           "Every entry below was reproduced against the real code by the monitor that found it (the witness is the probe kept in that monitor).",
           f"**{len(applied)} repairs** were committed to /repo as separate `fix:` commits (diff name → commit; the diffs are kept under `/verif/proposed/`);",
           f"**{sum(len(v['known']) for v in by.values())} findings** are recorded as `known:` lines because their repair is a design decision or not small.", "",
           "### 11.1 Repairs (`fix:` commits)", "", "| proposed diff | commit |", "|---|---|"]
    for name, commit in applied:
        out.append(f"| {name} | {commit} |")
    out += ["", "### 11.2 Known findings (recorded, not repaired) — per property", ""]
    for pid in sorted(by):
        k = by[pid]["known"]
        if not k:
            continue
        out.append(f"**{pid}** ({len(k)}):")
        for r in k:
            d = r["description"]
            out.append(f"* `{r['key']}` — {d[:260]}{'…' if len(d) > 260 else ''}")
        out.append("")
    return "\n".join(out)


def seeded_md():
    rows = []
    for d in sorted(glob.glob(os.path.join(VERIF, "seeded", "C*-*"))):
        name = os.path.basename(d)
        meta = {}
        try:
            meta = json.load(open(os.path.join(d, "meta.json")))
        except Exception:
            pass
        status = "confirmed" if os.path.exists(os.path.join(d, "confirm.json")) else "unconfirmed"
        if os.path.exists(os.path.join(d, "NEUTRALIZED.txt")):
            status = "neutralized by a fix"
        res = []
        rp = os.path.join(d, "results.jsonl")
        if os.path.exists(rp):
            res = [json.loads(l) for l in open(rp) if l.strip()]
        last = res[-1] if res else None
        first_quick = next((r for r in res if r.get("tier") == "quick"), None)
        note = ""
        np_ = os.path.join(d, "note.txt")
        if os.path.exists(np_):
            note = open(np_).read().strip().replace("\n", " ")
        summ = (meta.get("summary") or meta.get("mechanism") or "")
        summ = re.sub(r"\s+", " ", str(summ))[:150]
        if last is None:
            verdict = "not run"
        else:
            verdict = ("caught (" + last.get("tier", "?") + ")") if last.get("caught") else ("MISSED (" + last.get("tier", "?") + ")")
            if first_quick is not None and first_quick is not last and not first_quick.get("caught") and last.get("caught"):
                verdict += " — missed before the check was strengthened"
        keys = ""
        if last and last.get("violation_keys"):
            keys = last["violation_keys"][0].split(" ")[0].replace("key=", "")[:60]
        rows.append((name, summ, status, verdict, keys, note))
    out = ["## 12. Seeded property-breaking changes and which checks catch them", "",
           "Each change was written by a fresh sub-agent that saw only the property text and a scratch worktree, then confirmed by the coordinator in a",
           "separate scratch worktree (`lib/confirm_seed.sh`: clean tree → demo passes; patched → builds, pinned baseline and touched packages' tests pass, demo fails)",
           "and kept under `/verif/seeded/<ID>-<k>/` (patch.diff, demo, meta.json, confirm.json, results.jsonl). The verdict column is the property's own check run against the patched tree.", "",
           "| change | what it does | status | check verdict | first key reported | note |", "|---|---|---|---|---|---|"]
    for r in rows:
        out.append("| " + " | ".join(x.replace("|", "/") for x in r) + " |")
    n = len(rows)
    caught = sum(1 for r in rows if r[3].startswith("caught"))
    missed = sum(1 for r in rows if r[3].startswith("MISSED"))
    out += ["", f"Totals: {n} changes kept, {caught} caught, {missed} missed, {n - caught - missed} not run / neutralized."]
    # per-round honesty table: verdict of the FIRST run of each change (before any strengthening aimed at it) vs the last run
    def rnd(name):
        return 1 if int(name.rsplit("-", 1)[1]) <= 2 else 2
    out += ["", "Per round (round 1 = changes `-1`/`-2`, written while the checks were being built; round 2 = changes `-3`/`-4`, written by fresh sub-agents after all",
            "checks existed and never shown to the checks' authors before their first run). \"first run\" is the check as it was when the change was first tried;",
            "\"last run\" is after the author of the check was told which *class of input* it had not generated (never the patch) and extended the workload.", "",
            "| round | changes | caught at first run | caught at last run | still missed | neutralized by a later fix / not run |", "|---|---|---|---|---|---|"]
    for rd in (1, 2):
        rs = [r for r in rows if rnd(r[0]) == rd]
        neut = [r for r in rs if r[2].startswith("neutralized")]
        rs_live = [r for r in rs if not r[2].startswith("neutralized")]
        first_c = sum(1 for r in rs_live if r[3].startswith("caught") and "missed before" not in r[3])
        last_c = sum(1 for r in rs_live if r[3].startswith("caught"))
        ms = sum(1 for r in rs_live if r[3].startswith("MISSED"))
        out.append(f"| {rd} | {len(rs)} | {first_c} | {last_c} | {ms} | {len(rs) - last_c - ms} |")
    return "\n".join(out)


def main():
    p = os.path.join(VERIF, "DESIGN.md")
    s = open(p).read()
    for tag, body in (("findings", findings_md()), ("seeded", seeded_md())):
        b, e = f"<!-- BEGIN GENERATED: {tag} -->", f"<!-- END GENERATED: {tag} -->"
        i, j = s.index(b), s.index(e)
        s = s[: i + len(b)] + "\n" + body + "\n" + s[j:]
    open(p, "w").write(s)
    print("DESIGN.md tables regenerated")


if __name__ == "__main__":
    main()
