#!/bin/bash
# usage: lib/applyfix.sh <patch.diff> <commit message file>
# Applies a proposed fix to /repo, runs the touched packages' unit tests and the pinned
# baseline on a scratch copy, and commits it in /repo as a separate "fix:" commit.
set -e
P=$(readlink -f "$1"); M=$(readlink -f "$2")
export GOFLAGS=-mod=mod GOPROXY=off
cd /repo
test -z "$(git status --porcelain)" || { echo "repo not clean"; exit 1; }
patch -p1 -s --no-backup-if-mismatch < "$P"
PK=$(git status --porcelain | awk '{print $2}' | grep '\.go$' | xargs -n1 dirname | sort -u | sed 's|^|./|')
D=/tmp/devfix/ego
rsync -a --exclude .git /repo/ $D/
( cd $D && go build -trimpath ./... && go test -count=1 $PK 2>&1 | tail -15 && go test -vet=off -count=1 ./internal/util/javascript/... ./tools/langlint/... 2>&1 | tail -3 ) || { echo "TESTS FAILED - reverting"; git checkout -- .; git clean -fdq; exit 1; }
if ( cd $D && go test -count=1 $PK 2>&1 | grep -q '^FAIL\|^---' ); then echo "TESTS FAILED - reverting"; git checkout -- .; git clean -fdq; exit 1; fi
git add -A && git commit -q -F "$M" && git log --oneline | head -1
