#!/usr/bin/env python3
import glob, json, os
V=os.path.dirname(os.path.dirname(os.path.abspath(__file__)))
for d in sorted(glob.glob(os.path.join(V,'seeded','C*-*'))):
    n=os.path.basename(d); st='confirmed' if os.path.exists(d+'/confirm.json') else 'unconfirmed'
    if os.path.exists(d+'/NEUTRALIZED.txt'): st='neutralized'
    rs=[json.loads(l) for l in open(d+'/results.jsonl')] if os.path.exists(d+'/results.jsonl') else []
    hist=' '.join(('C' if r['caught'] else ('M' if r['rc']==0 else 'E%d'%r['rc'])) for r in rs)
    last=rs[-1] if rs else None
    print(f"{n:7s} {st:12s} {hist:12s} {((last or {}).get('violation_keys') or [''])[0][:90]}")
