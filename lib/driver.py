#!/usr/bin/env python3
"""Driver for the /verif runtime monitors.

    ./check <ID> [--tier quick|thorough] [--replay path] [--keep]

Builds a scratch copy of /repo's *current working tree* (outside /repo and
/verif, removed on exit), runs `go generate`, copies /verif/overlay into it,
builds the property's harness (go test -c -tags verif [-race]) and runs it.
The harness writes a vh.Report JSON; this driver merges the parts, applies
/verif/known_findings.jsonl, writes /verif/evidence/<id>.json, prints
KNOWN-FINDING / VIOLATION lines and sets the exit code.

Exit codes: 0 held (possibly with KNOWN-FINDING lines), 1 violation,
2 harness error / nothing observed (no VIOLATION line is printed).
"""
import atexit
import hashlib
import json
import os
import shutil
import signal
import subprocess
import sys
import tempfile
import time

VERIF = os.path.dirname(os.path.dirname(os.path.abspath(__file__)))
REPO = os.environ.get("VERIF_REPO", "/repo")
SCRATCH_ROOT = os.environ.get("VERIF_SCRATCH_ROOT", "/tmp/verif-scratch")

_cleanup = []


def _do_cleanup():
    for p in _cleanup:
        shutil.rmtree(p, ignore_errors=True)


atexit.register(_do_cleanup)
for _s in (signal.SIGTERM, signal.SIGINT, signal.SIGHUP):
    signal.signal(_s, lambda *a: sys.exit(143))


def log(*a):
    print("[check]", *a, file=sys.stderr, flush=True)


def goenv(extra=None):
    env = dict(os.environ)
    env["GOFLAGS"] = "-mod=mod"
    env["GOPROXY"] = "off"
    env["GONOSUMDB"] = "github.com/anishathalye/*,go.etcd.io/*"
    env["GONOSUMCHECK"] = "1"
    env["GONOSUMVERIFY"] = "1"
    env.pop("GOSUMDB", None)  # GOSUMDB=off breaks the go1.26.1 toolchain switch
    env.pop("GOTOOLCHAIN", None)
    env.setdefault("HOME", "/root")
    if extra:
        env.update(extra)
    return env


class Scratch:
    """A scratch copy of the repository with the overlay applied."""

    def __init__(self, ident, keep=False, porcupine=False):
        os.makedirs(SCRATCH_ROOT, exist_ok=True)
        self.root = tempfile.mkdtemp(prefix=f"{ident}-", dir=SCRATCH_ROOT)
        if not keep:
            _cleanup.append(self.root)
        self.ego = os.path.join(self.root, "ego")
        self.bin = os.path.join(self.root, "bin")
        self.out = os.path.join(self.root, "out")
        self.arena = os.path.join(self.root, "arena")
        for d in (self.bin, self.out, self.arena):
            os.makedirs(d)
        t0 = time.time()
        subprocess.run(["rsync", "-a", "--exclude", ".git", REPO + "/", self.ego + "/"], check=True)
        self._generate()
        subprocess.run(["rsync", "-a", os.path.join(VERIF, "overlay") + "/", self.ego + "/"], check=True)
        if porcupine:
            self.go(["mod", "edit", "-require", "github.com/anishathalye/porcupine@v1.3.0"])
        log(f"scratch {self.root} ready in {time.time()-t0:.1f}s")

    def go(self, args, env=None, check=True, **kw):
        return subprocess.run(["go"] + args, cwd=self.ego, env=goenv(env), check=check, **kw)

    def _generate(self):
        r = self.go(["generate", "./..."], check=False, stdout=subprocess.PIPE, stderr=subprocess.STDOUT, text=True)
        if r.returncode != 0:
            print(r.stdout)
            raise SystemExit(2)

    def build_test(self, pkg, name, race=False, tags="verif"):
        """go test -c for one harness package; returns the binary path."""
        out = os.path.join(self.bin, name + (".race" if race else "") + ".test")
        if os.path.exists(out):
            return out
        args = ["test", "-c", "-trimpath", "-vet=off", "-tags", tags, "-o", out]
        if race:
            args.append("-race")
        args.append(pkg)
        t0 = time.time()
        r = self.go(args, check=False, stdout=subprocess.PIPE, stderr=subprocess.STDOUT, text=True)
        if r.returncode != 0 or not os.path.exists(out):
            print(r.stdout)
            log(f"BUILD FAILED for {pkg}")
            raise SystemExit(2)
        log(f"built {pkg} race={race} in {time.time()-t0:.1f}s")
        return out

    def build_bin(self, pkg, name, race=False, tags="verif"):
        out = os.path.join(self.bin, name + (".race" if race else ""))
        if os.path.exists(out):
            return out
        args = ["build", "-trimpath", "-tags", tags, "-o", out]
        if race:
            args.append("-race")
        args.append(pkg)
        t0 = time.time()
        r = self.go(args, check=False, stdout=subprocess.PIPE, stderr=subprocess.STDOUT, text=True)
        if r.returncode != 0:
            print(r.stdout)
            log(f"BUILD FAILED for {pkg}")
            raise SystemExit(2)
        log(f"built {pkg} race={race} in {time.time()-t0:.1f}s")
        return out


def known_findings():
    """Parse /verif/known_findings.txt.

    known: property=<id> key=<key> <what fails>
    fixed: property=<id> <commit> key=<key> <what failed>
    Only `known:` lines suppress anything; `fixed:` lines are a record.
    """
    out = []
    import glob
    files = [os.path.join(VERIF, "known_findings.txt")] + sorted(glob.glob(os.path.join(VERIF, "known_findings.d", "*.txt")))
    for p in files:
        if not os.path.exists(p):
            continue
        for line in open(p):
            line = line.strip()
            if not line or line.startswith("#"):
                continue
            status, _, rest = line.partition(":")
            status = status.strip()
            if status not in ("known", "fixed"):
                continue
            rec = {"status": status, "description": rest.strip()}
            for tok in rest.split():
                if tok.startswith("property=") and "property" not in rec:
                    rec["property"] = tok[len("property="):]
                elif tok.startswith("key=") and "key" not in rec:
                    rec["key"] = tok[len("key="):]
            if "property" in rec and "key" in rec:
                rec["description"] = rest.split("key=" + rec["key"], 1)[1].strip()
                out.append(rec)
    return out


def _known_concat(sc):
    """One file with every known-findings line (main file + known_findings.d/*), for the Go side."""
    import glob
    dst = os.path.join(sc.out, "known_findings.all.txt")
    if not os.path.exists(dst):
        with open(dst, "w") as f:
            for p in [os.path.join(VERIF, "known_findings.txt")] + sorted(glob.glob(os.path.join(VERIF, "known_findings.d", "*.txt"))):
                if os.path.exists(p):
                    f.write(open(p).read() + "\n")
    return dst


def run_part(sc, binary, test, part, tier, seed, timeout, env=None, replay=None, cwd=None, gomaxprocs=None):
    """Run one harness test function as a child process; returns (report|None, logpath, status)."""
    outp = os.path.join(sc.out, f"{part}.json")
    logp = os.path.join(sc.out, f"{part}.log")
    e = goenv({
        "VERIF_OUT": outp, "VERIF_TIER": tier, "VERIF_SEED": str(seed),
        "VERIF_KNOWN": _known_concat(sc),
        "VERIF_ARENA": sc.arena, "VERIF_SCRATCH": sc.root, "VERIF_EGO_SRC": sc.ego,
        "VERIF_DIR": VERIF, "VERIF_BIN": sc.bin,
        "VERIF_HOME": os.path.join(sc.root, "home-" + part),
    })
    os.makedirs(e["VERIF_HOME"], exist_ok=True)
    if replay:
        e["VERIF_REPLAY"] = os.path.abspath(replay)
    if gomaxprocs:
        e["GOMAXPROCS"] = str(gomaxprocs)
    if env:
        e.update(env)
    cmd = ["timeout", "-s", "QUIT", str(timeout), binary, "-test.run", f"^{test}$", "-test.timeout", "0", "-test.count", "1", "-test.v"]
    t0 = time.time()
    # The child runs in its own session so that everything it started (worker processes, servers,
    # ego binaries) can be removed with it, also when this driver itself is told to stop.
    with open(logp, "w") as lf:
        proc = subprocess.Popen(cmd, cwd=cwd or sc.root, env=e, stdout=lf, stderr=subprocess.STDOUT, start_new_session=True)
        try:
            proc.wait()
        finally:
            try:
                os.killpg(proc.pid, signal.SIGKILL)
            except (ProcessLookupError, PermissionError):
                pass
            try:
                proc.wait(timeout=30)
            except Exception:  # noqa
                pass
    r = proc
    dt = time.time() - t0
    rep = None
    if os.path.exists(outp):
        try:
            rep = json.load(open(outp))
        except Exception as ex:  # noqa
            log(f"unreadable report {outp}: {ex}")
    status = "ok"
    if r.returncode == 124 or r.returncode == 131 or r.returncode == -3:
        status = "timeout"
    elif r.returncode != 0:
        status = "died"
    log(f"part {part}: rc={r.returncode} status={status} {dt:.1f}s evaluations={rep and rep.get('evaluations')}")
    return rep, logp, status


def merge_reports(reps):
    m = {"evaluations": 0, "distinct_nontrivial": 0, "rule": "", "samples": [], "violations": [], "inconclusive": [],
         "counters": {}, "assumptions": [], "notes": [], "probes_run": [], "exhaustive": True, "parts": []}
    rules = []
    for r in reps:
        m["evaluations"] += r.get("evaluations", 0)
        m["distinct_nontrivial"] += r.get("distinct_nontrivial", 0)
        if r.get("rule"):
            rules.append(f"[{r.get('part')}] {r['rule']}")
        m["samples"] += [{"part": r.get("part"), "case": s} for s in (r.get("samples") or [])[:4]]
        m["violations"] += r.get("violations") or []
        m["inconclusive"] += [f"[{r.get('part')}] {s}" for s in (r.get("inconclusive") or [])]
        for k, v in (r.get("counters") or {}).items():
            m["counters"][f"{r.get('part')}.{k}"] = v
        for a in r.get("assumptions") or []:
            if a not in m["assumptions"]:
                m["assumptions"].append(a)
        m["notes"] += [f"[{r.get('part')}] {s}" for s in (r.get("notes") or [])]
        m["probes_run"] += r.get("probes_run") or []
        m["exhaustive"] = m["exhaustive"] and bool(r.get("exhaustive"))
        m["parts"].append({"part": r.get("part"), "evaluations": r.get("evaluations"), "wall_s": r.get("wall_s")})
    m["rule"] = " ; ".join(rules)
    return m


def race_blocks(logpaths):
    """Count and deduplicate WARNING: DATA RACE blocks in race logs / child logs."""
    blocks = []
    for p in logpaths:
        if not os.path.exists(p):
            continue
        txt = open(p, errors="replace").read()
        parts = txt.split("WARNING: DATA RACE")
        for b in parts[1:]:
            end = b.find("==================")
            blocks.append(b[: end if end > 0 else 4000])
    dedup = {}
    for b in blocks:
        # key: first two ego frames (function names), line numbers stripped
        frames = [ln.strip() for ln in b.splitlines() if "github.com/tucats/ego/" in ln and "(" in ln]
        # keep the whole function name, e.g. symbols.(*SymbolTable).Get: strip only the trailing "(...)" argument list
        frames = [f.rsplit("(", 1)[0].replace("github.com/tucats/ego/internal/", "") for f in frames if "verifh" not in f][:2]
        key = "race:" + "|".join(frames) if frames else "race:unknown"
        dedup.setdefault(key, b)
    return len(blocks), dedup


def finish(prop, tier, seed, level, merged, t0, extra_cov=None, min_evals=1, replay=False):
    """Apply known findings, write evidence and replays, print verdict lines, return exit code."""
    known = [k for k in known_findings() if k.get("property") == prop]
    known_keys = {k["key"]: k for k in known if k.get("status") == "known"}
    viol_new, viol_known = [], {}
    for v in merged["violations"]:
        if v.get("key") in known_keys:
            viol_known.setdefault(v["key"], v)
        else:
            viol_new.append(v)
    rc = 0
    rpdir = os.environ.get("VERIF_REPLAY_DIR") or os.path.join(VERIF, "replays")
    os.makedirs(os.path.join(rpdir, prop), exist_ok=True)
    for key, v in sorted(viol_known.items()):
        print(f"KNOWN-FINDING: property={prop} key={key} {known_keys[key].get('description','')}")
    for key, k in sorted(known_keys.items()):
        if key not in viol_known and key in set(merged.get("probes_run", [])):
            log(f"note: known finding {key} did not reproduce in this run (its probe passed)")
    seen_keys = set()
    for v in viol_new:
        if v.get("key") in seen_keys:
            continue
        seen_keys.add(v.get("key"))
        h = hashlib.sha256(json.dumps(v, sort_keys=True, default=str).encode()).hexdigest()[:12]
        path = os.path.join(rpdir, prop, f"{h}.json")
        with open(path, "w") as f:
            json.dump({"property": prop, "seed": seed, "tier": tier, **v}, f, indent=1, default=str)
        print(f"VIOLATION property={prop} replay={path}")
        print(f"  key={v.get('key')} {str(v.get('desc'))[:400]}")
        rc = 1
    cov = {
        "evaluations": int(merged["evaluations"]),
        "distinct_nontrivial": int(merged["distinct_nontrivial"]),
        "rule": merged["rule"],
        "samples": merged["samples"][:12] or ["(none)"],
        "counters": merged["counters"],
        "inconclusive": merged["inconclusive"][:40],
        "known_findings_reproduced": sorted(viol_known.keys()),
        "probes_run": sorted(set(merged.get("probes_run", [])))[:200],
        "new_violation_keys": sorted(seen_keys),
        "parts": merged.get("parts", []),
        "notes": merged["notes"][:40],
    }
    if merged.get("exhaustive"):
        cov["exhaustive"] = True
    if extra_cov:
        cov.update(extra_cov)
    ev = {
        "property_id": prop, "tier": tier, "seed": int(seed), "level": level, "coverage": cov,
        "assumptions": merged["assumptions"], "wall_s": round(time.time() - t0, 2), "violations": len(seen_keys),
    }
    evdir = os.environ.get("VERIF_EVIDENCE_DIR") or os.path.join(VERIF, "evidence")
    os.makedirs(evdir, exist_ok=True)
    evname = f"{prop}.replay.json" if replay else f"{prop}.json"
    with open(os.path.join(evdir, evname), "w") as f:
        json.dump(ev, f, indent=1, default=str)
    if replay:
        if rc == 0:
            print(f"REPLAY property={prop}: the recorded case no longer violates")
        return rc
    if rc == 0 and (cov["evaluations"] < min_evals or cov["distinct_nontrivial"] < 2):
        log(f"ERROR: run observed too little (evaluations={cov['evaluations']}, distinct={cov['distinct_nontrivial']}); not a verdict")
        return 2
    if rc == 0:
        print(f"OK property={prop} tier={tier} seed={seed} evaluations={cov['evaluations']} distinct_nontrivial={cov['distinct_nontrivial']} "
              f"known_findings={len(viol_known)} inconclusive={len(merged['inconclusive'])}")
    return rc
