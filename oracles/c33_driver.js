// C33 oracle driver: node c33_driver.js <batch.json> <out.json>
//
// batch = { timeoutMs: per-script watchdog (default 5000; its firing is reported as thrown: 'TIMEOUT'),
//           run:   [ {id, variants: {name: source, ...}} ],     // every variant is parsed and executed
//           parse: [ {id, variants: {name: source, ...}} ] }    // every variant is only parsed
//
// Each executed variant runs in a FRESH vm context with a recording console and a few inert
// host stubs. Reported per variant: parse error (if any), the console log, the name of an
// uncaught error, and the own property names the script added to the global object.
'use strict';
const vm = require('vm');
const fs = require('fs');

function sandbox(log) {
  const rec = (level) => (...args) => {
    log.push(level + ':' + args.map((a) => {
      if (typeof a === 'string') return a;
      try { return JSON.stringify(a) === undefined ? String(a) : JSON.stringify(a); } catch (e) { return String(a); }
    }).join(' '));
  };
  const inert = () => undefined;
  const element = { style: {}, classList: { add: inert, remove: inert, toggle: inert }, addEventListener: inert, appendChild: inert, setAttribute: inert };
  const sb = {
    console: { log: rec('log'), warn: rec('warn'), error: rec('error'), info: rec('info'), debug: rec('debug') },
    document: { getElementById: () => element, querySelector: () => element, querySelectorAll: () => [], createElement: () => element, addEventListener: inert, body: element },
    // host-provided globals that no script declares (C33 name-collision cases read them)
    hostValue: 41,
    hostLabel: 'host',
    hostList: [4, 5, 6],
  };
  sb.window = sb;
  sb.globalThis = sb;
  return sb;
}

function runOne(source, timeoutMs) {
  const res = { parseError: null, log: [], thrown: null, globals: [] };
  let script;
  try {
    script = new vm.Script(source, { filename: 'case.js' });
  } catch (e) {
    res.parseError = String(e && e.name) + ': ' + String(e && e.message);
    return res;
  }
  const sb = sandbox(res.log);
  const before = new Set(Object.getOwnPropertyNames(sb));
  const ctx = vm.createContext(sb);
  try {
    script.runInContext(ctx, { timeout: timeoutMs });
  } catch (e) {
    res.thrown = (e && e.name) ? String(e.name) : 'non-error:' + String(e);
    if (e && e.code === 'ERR_SCRIPT_EXECUTION_TIMEOUT') res.thrown = 'TIMEOUT';
  }
  res.globals = Object.getOwnPropertyNames(sb).filter((n) => !before.has(n)).sort();
  return res;
}

function parseOnly(source) {
  try {
    new vm.Script(source, { filename: 'asset.js' });
    return null;
  } catch (e) {
    return String(e && e.name) + ': ' + String(e && e.message);
  }
}

const batch = JSON.parse(fs.readFileSync(process.argv[2], 'utf8'));
const timeoutMs = batch.timeoutMs || 5000;
const out = { node: process.version, run: [], parse: [] };
for (const c of batch.run || []) {
  const r = { id: c.id, variants: {} };
  for (const name of Object.keys(c.variants)) r.variants[name] = runOne(c.variants[name], timeoutMs);
  out.run.push(r);
}
for (const c of batch.parse || []) {
  const r = { id: c.id, variants: {} };
  for (const name of Object.keys(c.variants)) r.variants[name] = { parseError: parseOnly(c.variants[name]) };
  out.parse.push(r);
}
fs.writeFileSync(process.argv[3], JSON.stringify(out));
