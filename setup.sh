#!/bin/sh
# Run once after a fresh restore, offline. Nothing is fetched: the harnesses are Go
# sources under overlay/ that each check builds into a scratch copy of /repo. This only
# verifies the toolchain and warms the Go build cache so the first check is not slow.
set -e
cd "$(dirname "$0")"
export GOFLAGS=-mod=mod GOPROXY=off
mkdir -p evidence replays /tmp/verif-scratch
go version
python3 -c 'import json,sys; json.load(open("MANIFEST.json")); print("manifest ok")'
S=$(mktemp -d /tmp/verif-scratch/setup-XXXXXX)
trap 'rm -rf "$S"' EXIT
rsync -a --exclude .git /repo/ "$S/ego/"
( cd "$S/ego" && go generate ./... >/dev/null && rsync -a /verif/overlay/ ./ && \
  GONOSUMDB='github.com/anishathalye/*' go mod edit -require github.com/anishathalye/porcupine@v1.3.0 && \
  go build -trimpath -tags verif ./... && go vet -tags verif ./internal/verifh/... >/dev/null 2>&1 || true )
echo "setup done"
