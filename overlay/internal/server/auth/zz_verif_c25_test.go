package auth

// C25 — Passwords are accepted exactly when they match.
//
// Events: the boolean result of the real ValidatePassword for every cell
// (store backend x stored credential format x plaintext setting x permissions x
// password length class x user-name spelling x candidate class), evaluated twice in a
// row on a freshly written credential, with the stored credential read back after each
// evaluation; then, for credentials that a successful login rewrote, the result for
// every candidate class against the rewritten credential.
// Oracle: the sentence of the property as a function — accept iff the user exists
// (name compared case-insensitively) and the candidate equals the password the stored
// credential was made from (bcrypt / SHA-256 hex / {plaintext} with the plaintext setting
// on) and the user holds logon or root. A rewritten credential must be a bcrypt hash of
// the same password and must not change any candidate's result.
import (
	"encoding/json"
	"fmt"
	"math/rand"
	"os"
	"path/filepath"
	"strings"
	"testing"
	"unicode"

	"github.com/google/uuid"
	"github.com/tucats/ego/internal/caches"
	"github.com/tucats/ego/internal/cli/settings"
	"github.com/tucats/ego/internal/defs"
	egostrings "github.com/tucats/ego/internal/util/strings"
	"github.com/tucats/ego/internal/verifh/vh"
	"golang.org/x/crypto/bcrypt"
)

type c25Scenario struct {
	Backend   string `json:"backend"`   // file | sqlite
	Format    string `json:"format"`    // bcrypt | legacy-sha256 | plaintext
	Plaintext bool   `json:"plaintext"` // ego.server.plaintext.passwords
	Perms     string `json:"perms"`     // logon | root | neither | both
	PwKind    string `json:"pw_kind"`   // short | len72 | len100
	NameCase  string `json:"name_case"` // lower | upper | mixed
	User      string `json:"user"`      // stored name (lower case, as every creation path writes it)
	Password  string `json:"password"`  // the password the stored credential is made from
}

func (s c25Scenario) id() string {
	return fmt.Sprintf("%s/%s/plaintext=%v/%s/%s/%s/%s/%s", s.Backend, s.Format, s.Plaintext, s.Perms, s.PwKind, s.NameCase, s.User, vh.Hash(s.Password))
}

type c25Case struct {
	Kind     string      `json:"kind"`
	Scenario c25Scenario `json:"scenario"`
	Cand     string      `json:"candidate_class,omitempty"`
	Phase    string      `json:"phase,omitempty"`
}

func c25SwapCase(s string) string {
	out := []rune(s)
	for i, ch := range out {
		switch {
		case unicode.IsUpper(ch):
			out[i] = unicode.ToLower(ch)
		case unicode.IsLower(ch):
			out[i] = unicode.ToUpper(ch)
		}
	}

	return string(out)
}

// candidate classes and their strings for a given right password
func c25Candidates(s c25Scenario) ([]string, map[string]string) {
	pw := s.Password
	m := map[string]string{
		"right":          pw,
		"wrong":          fmt.Sprintf("not-the-password-%d", len(pw)),
		"empty":          "",
		"case-changed":   c25SwapCase(pw),
		"trailing-space": pw + " ",
	}
	order := []string{"right", "wrong", "empty", "case-changed", "trailing-space"}

	switch s.PwKind {
	case "len72":
		// bcrypt reads at most 72 bytes of a password
		m["right-plus-suffix-beyond-72"] = pw + "x"
		order = append(order, "right-plus-suffix-beyond-72")
		m["first-71-bytes"] = pw[:71]
		order = append(order, "first-71-bytes")
	case "len100":
		m["first-72-bytes"] = pw[:72]
		order = append(order, "first-72-bytes")
	default:
		m["right-plus-suffix"] = pw + "x"
		order = append(order, "right-plus-suffix")
	}

	return order, m
}

func c25Perms(kind string) []string {
	switch kind {
	case "logon":
		return []string{defs.LogonPermission, "ego.table.read"}
	case "root":
		return []string{defs.RootPermission}
	case "both":
		return []string{defs.RootPermission, defs.LogonPermission}
	}

	return []string{"ego.table.read", "payroll"}
}

func c25Stored(s c25Scenario) string {
	switch s.Format {
	case "bcrypt":
		return vHash4(s.Password)
	case "legacy-sha256":
		return egostrings.HashString(s.Password)
	}

	return "{" + s.Password + "}"
}

func c25Spell(name, how string) string {
	switch how {
	case "upper":
		return strings.ToUpper(name)
	case "mixed":
		return strings.ToUpper(name[:1]) + name[1:len(name)-1] + strings.ToUpper(name[len(name)-1:])
	}

	return name
}

// c25Want is the property's sentence.
func c25Want(s c25Scenario, userExists bool, candClass string) bool {
	matches := candClass == "right" // every other class is a different string by construction
	formatSupported := s.Format != "plaintext" || s.Plaintext
	holds := s.Perms == "logon" || s.Perms == "root" || s.Perms == "both"

	return userExists && matches && formatSupported && holds
}

type c25Env struct {
	r        *vh.Report
	backends map[string]userIOService
}

func (e *c25Env) write(s c25Scenario, stored string) error {
	svc := e.backends[s.Backend]

	return svc.WriteUser(0, defs.User{Name: s.User, ID: uuid.MustParse("99999999-8888-7777-6666-555555555555"), Password: stored, Permissions: c25Perms(s.Perms)})
}

func (e *c25Env) readBack(s c25Scenario) string {
	u, err := e.backends[s.Backend].ReadUser(0, s.User, true)
	if err != nil {
		return "<unreadable: " + err.Error() + ">"
	}

	return u.Password
}

func c25FormatOf(stored string) string {
	switch {
	case IsBcryptHash(stored):
		return "bcrypt"
	case strings.HasPrefix(stored, "{") && strings.HasSuffix(stored, "}"):
		return "plaintext"
	case len(stored) == 64:
		return "legacy-sha256"
	}

	return "other"
}

// c25Scenario evaluates all cells of one scenario.
func c25Run(e *c25Env, s c25Scenario, only string) {
	r := e.r
	AuthService = e.backends[s.Backend]

	settings.SetDefault(defs.PlaintextPasswordSetting, fmt.Sprint(s.Plaintext))

	order, cands := c25Candidates(s)
	original := c25Stored(s)
	name := c25Spell(s.User, s.NameCase)

	// A candidate longer than 72 bytes whose first 72 bytes are those of the right password is
	// one construct (bcrypt reads 72 bytes), whatever class produced it: it gets its own key part
	// so that e.g. a trailing-space defect on ordinary passwords is never filed under it.
	keyClass := func(cc string) string {
		c := cands[cc]
		if cc != "right" && len(c) > 72 && len(s.Password) >= 72 && c[:72] == s.Password[:72] {
			return "shares-first-72-bytes"
		}

		return cc
	}

	violate := func(key, desc, cc, phase string, exp, obs any) {
		if i := strings.LastIndex(key, ":"); i >= 0 && key[i+1:] == cc {
			key = key[:i+1] + keyClass(cc)
		}

		r.Violate(vh.Violation{Key: key, Desc: desc + " [" + s.id() + " candidate=" + cc + "]", Case: c25Case{Kind: "cell", Scenario: s, Cand: cc, Phase: phase}, Expected: exp, Observed: obs})
	}

	for _, cc := range order {
		if only != "" && only != cc {
			continue
		}

		cand := cands[cc]
		if cc != "right" && cand == s.Password {
			r.Inconcl("c25: candidate class " + cc + " equals the right password; cell skipped")

			continue
		}

		if err := e.write(s, original); err != nil {
			r.Inconcl("c25: WriteUser failed: " + err.Error())

			return
		}

		want := c25Want(s, true, cc)
		r.Eval(s.id()+"/"+cc, true)
		r.Count("cells", 1)
		r.Count("cells.format."+s.Format, 1)
		r.Count("cells.candidate."+cc, 1)

		if want {
			r.Count("cells.expected-accept", 1)
		}

		got1 := ValidatePassword(0, name, cand)
		stored1 := e.readBack(s)
		got2 := ValidatePassword(0, name, cand)
		stored2 := e.readBack(s)

		r.Count("evaluations.validate", 2)

		if got1 {
			r.Count("accepted", 1)
		} else {
			r.Count("rejected", 1)
		}

		if got1 != want {
			violate("accept-mismatch:"+s.Format+":"+cc, fmt.Sprintf("ValidatePassword(%q, <%s>) = %v on a fresh %s credential", name, cc, got1, s.Format), cc, "first", want, got1)
		}

		rewritten := stored1 != original
		if rewritten {
			r.Count("migrations.observed", 1)
			r.Count("migrations.from."+s.Format, 1)

			// only a matching password may rewrite, and only into a bcrypt hash of that password
			switch {
			case cc != "right":
				violate("migration:rewrite-without-match:"+s.Format, "a non-matching candidate caused the stored credential to be rewritten", cc, "first", original, stored1)
			case !IsBcryptHash(stored1) || bcrypt.CompareHashAndPassword([]byte(stored1), []byte(s.Password)) != nil:
				violate("migration:not-a-bcrypt-hash-of-the-password:"+s.Format, "the rewritten credential is not a bcrypt hash that verifies the password", cc, "first", "bcrypt hash of the password", stored1)
			}
		} else if cc == "right" && s.Format != "bcrypt" && (s.Format != "plaintext" || s.Plaintext) {
			if len(s.Password) > 72 {
				r.Count("migrations.skipped-password-longer-than-72", 1)
			} else {
				r.Count("migrations.expected-but-not-observed", 1)
			}
		}

		if got2 != want {
			key := "accept-mismatch:" + s.Format + ":" + cc
			if rewritten {
				key = "migration-changed-acceptance:" + s.Format + ":" + cc
			}

			violate(key, fmt.Sprintf("second ValidatePassword(%q, <%s>) = %v (stored credential now %s)", name, cc, got2, c25FormatOf(stored1)), cc, "second", want, got2)
		}

		if stored2 != stored1 {
			if c25FormatOf(stored1) == "bcrypt" {
				violate("migration:rewritten-twice:"+s.Format, "the second evaluation rewrote a credential that was already bcrypt", cc, "second", stored1, stored2)
			}
		}

		r.Count("stored-after."+c25FormatOf(stored2), 1)
	}

	// a user that does not exist, with the right password
	if only == "" || only == "unknown-user" {
		r.Eval(s.id()+"/unknown-user", true)
		r.Count("cells", 1)
		r.Count("cells.candidate.unknown-user", 1)
		r.Count("evaluations.validate", 1)

		if ValidatePassword(0, c25Spell("nobody", s.NameCase), s.Password) {
			violate("accept-mismatch:"+s.Format+":unknown-user", "ValidatePassword accepted a user that is not in the store", "unknown-user", "first", false, true)
		}
	}

	// the rewritten credential must give every candidate the same result as before
	if only != "" && only != "post-migration" {
		return
	}

	if err := e.write(s, original); err != nil {
		return
	}

	_ = ValidatePassword(0, name, s.Password)

	migrated := e.readBack(s)
	if migrated == original {
		return
	}

	r.Count("post-migration.tables", 1)

	for _, cc := range order {
		want := c25Want(s, true, cc)
		got := ValidatePassword(0, name, cands[cc])

		r.Eval(s.id()+"/post-migration/"+cc, true)
		r.Count("post-migration.evaluations", 1)
		r.Count("evaluations.validate", 1)

		if got != want {
			violate("migration-changed-acceptance:"+s.Format+":"+cc, fmt.Sprintf("after the login that rewrote the %s credential to bcrypt, ValidatePassword(%q, <%s>) = %v", s.Format, name, cc, got), cc, "post-migration", want, got)
		}
	}

	if now := e.readBack(s); now != migrated {
		violate("migration:rewritten-twice:"+s.Format, "a later evaluation rewrote the already migrated credential", "all", "post-migration", migrated, now)
	}
}

func c25Grid() []c25Scenario {
	out := []c25Scenario{}

	for _, be := range []string{"file", "sqlite"} {
		for _, f := range []string{"bcrypt", "legacy-sha256", "plaintext"} {
			for _, pt := range []bool{true, false} {
				for _, p := range []string{"logon", "root", "neither", "both"} {
					for _, k := range []string{"short", "len72", "len100"} {
						if f == "bcrypt" && k == "len100" {
							continue // bcrypt.GenerateFromPassword refuses more than 72 bytes: no such stored hash
						}

						for _, nc := range []string{"lower", "upper", "mixed"} {
							out = append(out, c25Scenario{Backend: be, Format: f, Plaintext: pt, Perms: p, PwKind: k, NameCase: nc})
						}
					}
				}
			}
		}
	}

	return out
}

func c25Password(rng *rand.Rand, kind string) string {
	words := []string{"Secret-pw1", "Tr0ub4dor&3", "correct Horse battery", "pässWörd-é1", "Zork{42}", "$2a$not-a-hash", "a'b\"c-Quote"}
	base := words[rng.Intn(len(words))]

	fill := func(n int) string {
		var b strings.Builder

		b.WriteString(base)

		for b.Len() < n {
			b.WriteByte("abcdefghijkmnpqrstuvwxyzABCDEFGHJKLMNPQRSTUVWXYZ23456789"[rng.Intn(56)])
		}

		return b.String()[:n]
	}

	switch kind {
	case "len72":
		return fill(72)
	case "len100":
		return fill(100)
	}

	return base
}

func TestVerifC25(t *testing.T) {
	r := vh.New("C25", "cells")
	r.Rule = "a cell is (store backend, stored format, plaintext setting, permission class, password length class, user-name spelling, user, password) x candidate class " +
		"(right, wrong, empty, case-changed, trailing-space, and by length class right+suffix / right+suffix-beyond-72 / first-71-bytes / first-72-bytes, unknown-user); each is evaluated twice on a freshly written credential, " +
		"then every candidate once more against a credential rewritten by a successful login; distinct = distinct cell; all cells count as non-trivial (each has a definite expected result)"
	r.Assume("stored user names are lower case, as every creation path (auth.SetUser, the admin handlers) writes them")
	r.Assume("users whose own password is empty are outside the cells: ValidatePassword rejects the empty candidate by design")
	r.Assume("a stored bcrypt credential is bcrypt.GenerateFromPassword(password), so no stored hash belongs to a password longer than 72 bytes")

	saved := AuthService
	savedPT := settings.Get(defs.PlaintextPasswordSetting)

	defer func() {
		AuthService = saved

		settings.SetDefault(defs.PlaintextPasswordSetting, savedPT)
	}()

	dir := filepath.Join(vArena(), "c25")
	if err := os.MkdirAll(dir, 0o700); err != nil {
		t.Fatal(err)
	}

	e := &c25Env{r: r, backends: map[string]userIOService{}}

	fsvc, err := NewFileService(filepath.Join(dir, fmt.Sprintf("users-%d.json", os.Getpid())), defs.DefaultAdminUsername, defs.DefaultAdminPassword)
	if err != nil {
		t.Fatal(err)
	}

	caches.Purge(caches.AuthCache)

	dsvc, err := NewDatabaseService("sqlite://"+filepath.Join(dir, fmt.Sprintf("users-%d.db", os.Getpid())), defs.DefaultAdminUsername, defs.DefaultAdminPassword)
	if err != nil {
		t.Fatal(err)
	}

	e.backends["file"], e.backends["sqlite"] = fsvc, dsvc

	defer func() {
		_ = fsvc.Close()
		_ = dsvc.Close()
	}()

	if raw := vh.ReplayCase(); raw != nil {
		var c c25Case
		if err := json.Unmarshal(raw, &c); err != nil {
			t.Fatal(err)
		}

		only := c.Cand
		if c.Phase == "post-migration" {
			only = "post-migration"
		}

		c25Run(e, c.Scenario, only)

		r.Distinct += 2
		_ = r.Write()

		return
	}

	// Scenario list: the grid in a PRNG order; the quick tier takes a prefix that still holds
	// every (backend, format, length class) combination first.
	rng := vh.Rand("c25-cells")
	grid := c25Grid()
	rng.Shuffle(len(grid), func(i, j int) { grid[i], grid[j] = grid[j], grid[i] })

	seen := map[string]bool{}
	head, tail := []c25Scenario{}, []c25Scenario{}

	for _, s := range grid {
		k := s.Backend + s.Format + s.PwKind + fmt.Sprint(s.Plaintext)
		if !seen[k] {
			seen[k] = true
			head = append(head, s)
		} else {
			tail = append(tail, s)
		}
	}

	grid = append(head, tail...)
	users := []string{"alice", "bob-smith", "carol"}
	cellsWanted := vh.N(400, 8000)

	for i := 0; int(r.Counters["cells"]) < cellsWanted; i++ {
		s := grid[i%len(grid)]
		s.User = users[rng.Intn(len(users))]
		s.Password = c25Password(rng, s.PwKind)
		c25Run(e, s, "")

		if i%9 == 2 {
			r.Sample(map[string]any{"scenario": s.id()})
		}
	}

	if r.Counters["accepted"] == 0 || r.Counters["rejected"] == 0 || r.Counters["migrations.observed"] == 0 {
		t.Fatalf("observed too little: %v", r.Counters)
	}

	if err := r.Write(); err != nil {
		t.Fatal(err)
	}
}
