package auth

// C31 — User stores agree and persist.
//
// Events: the answers (user record or error, list, permission list) of every call of
// the userIOService interface and of setPermission / GetPermission / GetPermissions on
// a file-backed service (NewFileService, JSON file in the arena) and a database-backed
// service (NewDatabaseService, SQLite), both fed the same PRNG history.
// Oracle: (1) at every read/list/permission step the two backends give equal answers;
// (2) after flush + close + reopen each backend's full listing equals its own listing
// taken just before the close. Passwords are written already hashed (bcrypt cost 4,
// legacy SHA-256, {plaintext}), so equal answers means equal stored strings; for bcrypt
// values the monitor additionally checks that both verify the same candidate passwords.
import (
	"bytes"
	"database/sql"
	"encoding/json"
	"fmt"
	"math/rand"
	"os"
	"path/filepath"
	"reflect"
	"sort"
	"strings"
	"testing"

	"github.com/google/uuid"
	"github.com/tucats/ego/internal/caches"
	"github.com/tucats/ego/internal/defs"
	egostrings "github.com/tucats/ego/internal/util/strings"
	"github.com/tucats/ego/internal/verifh/vh"
	"golang.org/x/crypto/bcrypt"
)

func vArena() string {
	if a := os.Getenv("VERIF_ARENA"); a != "" {
		return a
	}

	return os.TempDir()
}

func vAvoid(prop string) []string {
	out := []string{}
	for k := range vh.KnownKeys(prop) {
		out = append(out, k)
	}

	sort.Strings(out)

	return out
}

// vHash4 makes a bcrypt hash at the minimum cost: the stores never hash themselves
// (only the default user's password is hashed by the constructors), so the work
// factor of stored values is the writer's choice.
func vHash4(pw string) string {
	b, err := bcrypt.GenerateFromPassword([]byte(pw), bcrypt.MinCost)
	if err != nil {
		panic(err)
	}

	return string(b)
}

// c31Backend is one store under test plus how to reopen it.
type c31Backend struct {
	name string
	svc  userIOService
	open func() (userIOService, error)
}

// c31User is the normalized, comparable form of an answer.
type c31User struct {
	Name        string   `json:"name"`
	ID          string   `json:"id"`
	Password    string   `json:"password"`
	Permissions []string `json:"permissions"`
	Passkeys    string   `json:"passkeys"`
	LastTokenAt string   `json:"last_token_at"`
}

// normalization: a nil and an empty permission list are the same answer (the JSON file
// omits both); passkeys are compared as compact JSON (the file store re-indents them);
// a password consisting only of '*' is "suppressed" whatever its length (the file store
// masks with 10 asterisks, the database store with 8; callers drop the field anyway).
func c31Norm(u defs.User) c31User {
	out := c31User{Name: u.Name, ID: u.ID.String(), Password: u.Password, Permissions: append([]string{}, u.Permissions...), LastTokenAt: u.LastTokenAt}

	if len(u.Passkeys) > 0 {
		var b bytes.Buffer
		if err := json.Compact(&b, u.Passkeys); err == nil {
			out.Passkeys = b.String()
		} else {
			out.Passkeys = string(u.Passkeys)
		}
	}

	if out.Password != "" && strings.Trim(out.Password, "*") == "" {
		out.Password = "<suppressed>"
	}

	return out
}

func c31NormList(m map[string]defs.User) map[string]c31User {
	out := map[string]c31User{}
	for k, v := range m {
		out[k] = c31Norm(v)
	}

	return out
}

type c31Case struct {
	Kind  string   `json:"kind"`
	HSeed int64    `json:"hseed"`
	Steps int      `json:"steps"`
	DB    string   `json:"db"` // memory | file
	Avoid []string `json:"avoid"`
	Trace []string `json:"trace,omitempty"`
}

type c31Env struct {
	r        *vh.Report
	file     *c31Backend
	dbs      map[string]*c31Backend
	keeper   *sql.DB
	hashes   map[string]string // plaintext -> bcrypt cost 4
	pwPool   []string
	adminPW  string
	adminUID uuid.UUID
}

func c31Setup(t *testing.T, r *vh.Report) *c31Env {
	dir := filepath.Join(vArena(), "c31")
	if err := os.MkdirAll(dir, 0o700); err != nil {
		t.Fatal(err)
	}

	e := &c31Env{r: r, dbs: map[string]*c31Backend{}, hashes: map[string]string{}}
	for _, pw := range []string{"pw-one", "Pw-Two", "third password", "admin-secret"} {
		e.hashes[pw] = vHash4(pw)
	}

	e.adminPW = e.hashes["admin-secret"]
	e.adminUID = uuid.MustParse("11111111-2222-3333-4444-555555555555")
	e.pwPool = []string{e.hashes["pw-one"], e.hashes["Pw-Two"], e.hashes["third password"], egostrings.HashString("legacy-pw"), "{plain-pw}", ""}

	jsonPath := filepath.Join(dir, fmt.Sprintf("users-%d.json", os.Getpid()))
	e.file = &c31Backend{name: "file", open: func() (userIOService, error) {
		return NewFileService(jsonPath, defs.DefaultAdminUsername, defs.DefaultAdminPassword)
	}}

	dbPath := filepath.Join(dir, fmt.Sprintf("users-%d.db", os.Getpid()))
	e.dbs["file"] = &c31Backend{name: "sqlite-file", open: func() (userIOService, error) {
		caches.Purge(caches.AuthCache) // a reopened store is a restarted server: nothing cached

		return NewDatabaseService("sqlite://"+dbPath, defs.DefaultAdminUsername, defs.DefaultAdminPassword)
	}}

	// A shared-cache memory database lives as long as one connection to it is open: the
	// monitor holds one, so the service can be closed and reopened without a disk.
	memURI := fmt.Sprintf("file:c31mem%d?mode=memory&cache=shared", os.Getpid())

	keeper, err := sql.Open("sqlite", memURI)
	if err == nil {
		err = keeper.Ping()
	}

	if err != nil {
		t.Fatal("cannot open the keeper connection: ", err)
	}

	keeper.SetMaxIdleConns(1)
	e.keeper = keeper
	e.dbs["memory"] = &c31Backend{name: "sqlite-memory", open: func() (userIOService, error) {
		caches.Purge(caches.AuthCache)

		return NewDatabaseService("sqlite://"+memURI, defs.DefaultAdminUsername, defs.DefaultAdminPassword)
	}}

	for _, b := range []*c31Backend{e.file, e.dbs["file"], e.dbs["memory"]} {
		svc, err := b.open()
		if err != nil || svc == nil {
			t.Fatalf("cannot create the %s user service: %v", b.name, err)
		}

		b.svc = svc
	}

	return e
}

// reset brings a backend to the common start state through its own interface: only
// the default user, with a credential the monitor knows (a fresh store gives it a
// random or empty password, differently per backend).
func (e *c31Env) reset(b *c31Backend) error {
	for name := range b.svc.ListUsers(true) {
		if name != defs.DefaultAdminUsername {
			if err := b.svc.DeleteUser(0, name); err != nil {
				return err
			}
		}
	}

	if err := b.svc.WriteUser(0, defs.User{Name: defs.DefaultAdminUsername, ID: e.adminUID, Password: e.adminPW,
		Permissions: []string{defs.RootPermission, defs.LogonPermission}}); err != nil {
		return err
	}

	return b.svc.Flush()
}

type c31Tracer struct {
	r        *vh.Report
	c        c31Case
	trace    []string
	violated bool
}

func (t *c31Tracer) step(format string, a ...any) {
	t.trace = append(t.trace, fmt.Sprintf("%02d ", len(t.trace))+fmt.Sprintf(format, a...))
}

func (t *c31Tracer) violate(key, desc string, exp, obs any) {
	cc := t.c
	cc.Trace = append([]string{}, t.trace...)
	t.r.Violate(vh.Violation{Key: key, Desc: desc, Case: cc, Expected: exp, Observed: obs})
	t.violated = true
}

func c31JSON(v any) string {
	b, _ := json.Marshal(v)

	return string(b)
}

// withService runs f with the package-level AuthService pointing at one backend
// (setPermission / GetPermission(s) use the global).
func withService(svc userIOService, f func()) {
	saved := AuthService
	AuthService = svc

	defer func() { AuthService = saved }()

	f()
}

func c31History(e *c31Env, c c31Case) *c31Tracer {
	r := e.r
	t := &c31Tracer{r: r, c: c}
	rng := rand.New(rand.NewSource(c.HSeed))
	avoid := map[string]bool{}

	for _, k := range c.Avoid {
		avoid[k] = true
	}

	fb, db := e.file, e.dbs[c.DB]
	pair := []*c31Backend{fb, db}

	for _, b := range pair {
		if err := e.reset(b); err != nil {
			r.Inconcl("c31: reset of " + b.name + " failed: " + err.Error())

			return t
		}
	}

	caches.Purge(caches.AuthCache)

	stored := []string{defs.DefaultAdminUsername, "alice", "bob", "Carol"}
	spellings := func(n string) string {
		switch rng.Intn(4) {
		case 0:
			return strings.ToUpper(n)
		case 1:
			return strings.ToLower(n)
		case 2:
			return strings.ToUpper(n[:1]) + strings.ToLower(n[1:])
		}

		return n
	}
	permPool := [][]string{nil, {}, {"logon"}, {"root", "logon"}, {"ego.table.read", "logon"}, {"Logon"}, {"custom perm", "é"}}
	keyPool := []string{"", `[]`, `[{"id":"AQID","n":1}]`, `[ {"id": "AQID"}, {"id": "BAUG"} ]`}
	privPool := []string{"logon", "root", "ROOT", "ego.dsn.admin", "custom perm"}
	uid := func() uuid.UUID {
		var b [16]byte

		rng.Read(b[:])
		u, _ := uuid.FromBytes(b[:])

		return u
	}

	// compare the full listing of both backends (passwords included)
	compareLists := func(op string) {
		a, b := c31NormList(fb.svc.ListUsers(false)), c31NormList(db.svc.ListUsers(false))
		r.Count("lists.compared", 1)
		r.Max("users.max", int64(len(a)))

		if !reflect.DeepEqual(a, b) {
			t.violate("disagree:state-after:"+op, "after "+op+" the file-backed and the database-backed store list different users", c31JSON(a), c31JSON(b))
		}
	}

	mutated, readHit := false, false

	for i := 0; i < c.Steps && !t.violated; i++ {
		name := stored[rng.Intn(len(stored))]

		switch op := rng.Intn(20); op {
		case 0, 1, 2, 3:
			u := defs.User{Name: name, ID: uid(), Password: e.pwPool[rng.Intn(len(e.pwPool))], Permissions: permPool[rng.Intn(len(permPool))],
				LastTokenAt: []string{"", "2025-01-02T03:04:05Z"}[rng.Intn(2)]}
			if k := keyPool[rng.Intn(len(keyPool))]; k != "" {
				u.Passkeys = json.RawMessage(k)
			}

			if u.Permissions != nil {
				u.Permissions = append([]string{}, u.Permissions...)
			}

			t.step("WriteUser(%s)", c31JSON(c31Norm(u)))
			r.Count("op.write", 1)

			for _, b := range pair {
				cp := u
				cp.Permissions = append([]string(nil), u.Permissions...)

				if u.Permissions != nil && cp.Permissions == nil {
					cp.Permissions = []string{}
				}

				if err := b.svc.WriteUser(0, cp); err != nil {
					t.violate("write-failed:"+b.name, "WriteUser failed: "+err.Error(), "nil", err.Error())
				}
			}

			mutated = true

			compareLists("write")

		case 4, 5:
			// update password or permissions of an existing user: read, change, write (as the admin handlers do)
			what := []string{"password", "permissions"}[rng.Intn(2)]
			pw := e.pwPool[rng.Intn(len(e.pwPool))]
			perms := permPool[rng.Intn(len(permPool))]
			t.step("update %s of %q (pw=%s perms=%v)", what, name, vh.Trunc(pw, 12), perms)
			r.Count("op.update-"+what, 1)

			found := []bool{}

			for _, b := range pair {
				u, err := b.svc.ReadUser(0, name, true)
				found = append(found, err == nil)

				if err != nil {
					continue
				}

				if what == "password" {
					u.Password = pw
				} else {
					u.Permissions = append([]string{}, perms...)
				}

				if err := b.svc.WriteUser(0, u); err != nil {
					t.violate("write-failed:"+b.name, "WriteUser failed: "+err.Error(), "nil", err.Error())
				}
			}

			if found[0] != found[1] {
				t.violate("disagree:read", fmt.Sprintf("ReadUser(%q) found the user in one store only", name), found[0], found[1])
			}

			if found[0] {
				mutated = true
			}

			compareLists("update")

		case 6, 7:
			if name == defs.DefaultAdminUsername && avoid["default-user:recreated-on-reopen"] {
				continue
			}

			t.step("DeleteUser(%q)", name)
			r.Count("op.delete", 1)

			errs := []string{}

			for _, b := range pair {
				errs = append(errs, fmt.Sprint(b.svc.DeleteUser(0, name) == nil))
			}

			if errs[0] != errs[1] {
				t.violate("disagree:delete", fmt.Sprintf("DeleteUser(%q) succeeded in one store only", name), errs[0], errs[1])
			}

			compareLists("delete")

		case 8, 9, 10, 11:
			q := spellings(name)
			t.step("ReadUser(%q)", q)
			r.Count("op.read", 1)

			ans := []string{}

			for _, b := range pair {
				u, err := b.svc.ReadUser(0, q, rng.Intn(2) == 0)
				if err != nil {
					ans = append(ans, "not found")
				} else {
					ans = append(ans, c31JSON(c31Norm(u)))
					readHit = true

					r.Count("read.hit", 1)
				}
			}

			if ans[0] != ans[1] {
				t.violate("disagree:read", fmt.Sprintf("ReadUser(%q) answers differ", q), ans[0], ans[1])
			}

			// equal bcrypt strings verify the same candidates — shown, not assumed
			if ans[0] != "not found" && ans[0] == ans[1] {
				var cu c31User

				_ = json.Unmarshal([]byte(ans[0]), &cu)

				if IsBcryptHash(cu.Password) {
					for cand := range e.hashes {
						_ = bcrypt.CompareHashAndPassword([]byte(cu.Password), []byte(cand))

						r.Count("password.candidates-verified", 1)
					}
				}
			}

		case 12, 13:
			suppress := rng.Intn(2) == 0
			t.step("ListUsers(suppress=%v)", suppress)
			r.Count("op.list", 1)

			a, b := c31NormList(fb.svc.ListUsers(suppress)), c31NormList(db.svc.ListUsers(suppress))
			if !reflect.DeepEqual(a, b) {
				t.violate("disagree:list", fmt.Sprintf("ListUsers(%v) answers differ", suppress), c31JSON(a), c31JSON(b))
			}

			if suppress {
				for n, u := range a {
					if u.Password != "<suppressed>" || b[n].Password != "<suppressed>" {
						t.violate("list:password-not-suppressed", "ListUsers(true) returned a password for "+n, "<suppressed>", u.Password+" / "+b[n].Password)
					}
				}
			}

		case 14, 15, 16:
			q := name
			if rng.Intn(3) == 0 {
				q = spellings(name)
			}

			priv := privPool[rng.Intn(len(privPool))]
			enable := rng.Intn(3) > 0

			// the state the call starts from: does the user have an empty permission list?
			emptyBefore := false
			if u, err := fb.svc.ReadUser(0, q, true); err == nil && len(u.Permissions) == 0 {
				emptyBefore = true
			}

			if emptyBefore && avoid["set-permission:empty-permission-list"] {
				continue
			}

			t.step("setPermission(%q, %q, %v)", q, priv, enable)
			r.Count("op.set-permission", 1)

			if emptyBefore {
				r.Count("set-permission.on-empty-list", 1)
			}

			errs := []string{}

			for _, b := range pair {
				withService(b.svc, func() { errs = append(errs, fmt.Sprint(setPermission(0, q, priv, enable) == nil)) })
			}

			if errs[0] != errs[1] {
				t.violate("disagree:set-permission", fmt.Sprintf("setPermission(%q,%q,%v) succeeded in one store only", q, priv, enable), errs[0], errs[1])
			}

			if errs[0] == "true" {
				mutated = true
			}

			if emptyBefore {
				// one construct, one key: the user had no permissions when setPermission ran
				a, b := c31NormList(fb.svc.ListUsers(false)), c31NormList(db.svc.ListUsers(false))
				r.Count("lists.compared", 1)

				if !reflect.DeepEqual(a, b) {
					t.violate("set-permission:empty-permission-list", fmt.Sprintf("setPermission(%q,%q,%v) on a user whose permission list is empty gives different lists in the two stores", q, priv, enable), c31JSON(a[q]), c31JSON(b[q]))
				}
			} else {
				compareLists("set-permission")
			}

		case 17:
			q := spellings(name)
			priv := privPool[rng.Intn(len(privPool))]
			t.step("GetPermissions(%q); GetPermission(%q, %q)", q, q, priv)
			r.Count("op.get-permissions", 1)

			ans := []string{}

			for _, b := range pair {
				withService(b.svc, func() {
					p := append([]string{}, GetPermissions(0, q)...)
					ans = append(ans, fmt.Sprintf("%q %v", p, GetPermission(0, q, priv)))
				})
			}

			if ans[0] != ans[1] {
				t.violate("disagree:get-permissions", fmt.Sprintf("GetPermissions/GetPermission(%q) answers differ", q), ans[0], ans[1])
			}

		case 18:
			t.step("Flush()")
			r.Count("op.flush", 1)

			for _, b := range pair {
				if err := b.svc.Flush(); err != nil {
					t.violate("flush-failed:"+b.name, "Flush failed: "+err.Error(), "nil", err.Error())
				}
			}

		case 19:
			t.step("Flush(); Close(); reopen")
			r.Count("op.reopen", 1)

			for _, b := range pair {
				before := c31NormList(b.svc.ListUsers(false))

				if err := b.svc.Flush(); err != nil {
					t.violate("flush-failed:"+b.name, "Flush failed: "+err.Error(), "nil", err.Error())
				}

				if err := b.svc.Close(); err != nil {
					t.violate("close-failed:"+b.name, "Close failed: "+err.Error(), "nil", err.Error())
				}

				svc, err := b.open()
				if err != nil || svc == nil {
					t.violate("reopen-failed:"+b.name, fmt.Sprintf("reopening the store failed: %v", err), "nil", fmt.Sprint(err))

					r.Inconcl("c31: " + b.name + " could not be reopened; the rest of the run uses a broken store")

					return t
				}

				b.svc = svc
				after := c31NormList(b.svc.ListUsers(false))
				r.Count("reopen.compared."+b.name, 1)

				if !reflect.DeepEqual(before, after) {
					key := "reopen-changed:" + b.name
					if _, had := before[defs.DefaultAdminUsername]; !had {
						if _, has := after[defs.DefaultAdminUsername]; has {
							key = "default-user:recreated-on-reopen"
						}
					}

					t.violate(key, "the listing of the "+b.name+" store after flush+close+reopen differs from the listing before the close", c31JSON(before), c31JSON(after))
				}
			}

			if !t.violated {
				compareLists("reopen")
			}
		}
	}

	if mutated && readHit {
		r.Count("histories.nontrivial", 1)
	}

	t.c.Kind = map[bool]string{true: "history", false: "history-trivial"}[mutated && readHit]

	return t
}

// c31Probes: directed minimal histories for constructs the generator may be told to avoid.
func c31Probes(e *c31Env) {
	r := e.r

	// the default user deleted, another user kept, then flush+close+reopen
	r.Probe("default-user:recreated-on-reopen")

	for _, b := range []*c31Backend{e.file, e.dbs["memory"]} {
		if err := e.reset(b); err != nil {
			r.Inconcl("c31 probe: reset failed: " + err.Error())

			return
		}

		_ = b.svc.WriteUser(0, defs.User{Name: "alice", ID: e.adminUID, Password: e.pwPool[0], Permissions: []string{"logon"}})
		_ = b.svc.DeleteUser(0, defs.DefaultAdminUsername)
		before := c31NormList(b.svc.ListUsers(false))
		_ = b.svc.Flush()
		_ = b.svc.Close()

		svc, err := b.open()
		if err != nil {
			r.Inconcl("c31 probe: reopen failed: " + err.Error())

			return
		}

		b.svc = svc
		after := c31NormList(b.svc.ListUsers(false))
		r.Eval("probe:default-user:"+b.name, true)

		if !reflect.DeepEqual(before, after) {
			r.Violate(vh.Violation{Key: "default-user:recreated-on-reopen",
				Desc:     "history: write alice; delete admin; flush; close; reopen — the " + b.name + " store lists a user that was deleted before the close (the file store keeps it deleted unless no user at all is left)",
				Case:     c31Case{Kind: "probe"},
				Expected: c31JSON(before), Observed: c31JSON(after)})
		}

		_ = e.reset(b)
	}
}

// setPermission on a user stored with an empty (non-nil) permission list, after a restart
func c31ProbeEmptyPerms(e *c31Env) {
	r := e.r
	r.Probe("set-permission:empty-permission-list")

	ans := []string{}

	for _, b := range []*c31Backend{e.file, e.dbs["memory"]} {
		if err := e.reset(b); err != nil {
			r.Inconcl("c31 probe: reset failed: " + err.Error())

			return
		}

		_ = b.svc.WriteUser(0, defs.User{Name: "alice", ID: e.adminUID, Password: e.pwPool[0], Permissions: []string{}})
		_ = b.svc.Flush()
		_ = b.svc.Close()

		svc, err := b.open()
		if err != nil {
			r.Inconcl("c31 probe: reopen failed: " + err.Error())

			return
		}

		b.svc = svc

		withService(b.svc, func() {
			_ = setPermission(0, "alice", "ego.dsn.admin", true)
			ans = append(ans, fmt.Sprintf("%q", GetPermissions(0, "alice")))
		})

		_ = e.reset(b)
	}

	r.Eval("probe:set-permission:empty", true)

	if ans[0] != ans[1] {
		r.Violate(vh.Violation{Key: "set-permission:empty-permission-list",
			Desc:     "history: WriteUser(alice, Permissions: []string{}); flush; close; reopen; setPermission(alice, ego.dsn.admin, true); GetPermissions(alice) — file store vs database store",
			Case:     c31Case{Kind: "probe"},
			Expected: ans[0], Observed: ans[1]})
	}
}

// the empty history: two fresh stores created with the same default user and password
func c31ProbeDefaultUser(e *c31Env) {
	r := e.r
	r.Probe("default-user:password-rule-differs")

	dir := filepath.Join(vArena(), "c31")

	for i, given := range []string{"given-secret", ""} {
		fsvc, err1 := NewFileService(filepath.Join(dir, fmt.Sprintf("fresh-%d-%d.json", os.Getpid(), i)), defs.DefaultAdminUsername, given)

		caches.Purge(caches.AuthCache)

		dsvc, err2 := NewDatabaseService(fmt.Sprintf("sqlite://file:c31fresh%d_%d?mode=memory&cache=shared", os.Getpid(), i), defs.DefaultAdminUsername, given)
		if err1 != nil || err2 != nil {
			r.Inconcl(fmt.Sprintf("c31 probe: cannot create fresh stores: %v / %v", err1, err2))

			return
		}

		fu, ferr := fsvc.ReadUser(0, defs.DefaultAdminUsername, true)
		du, derr := dsvc.ReadUser(0, defs.DefaultAdminUsername, true)
		fOK := ferr == nil && bcrypt.CompareHashAndPassword([]byte(fu.Password), []byte(given)) == nil
		dOK := derr == nil && bcrypt.CompareHashAndPassword([]byte(du.Password), []byte(given)) == nil

		_ = dsvc.Close()

		caches.Purge(caches.AuthCache)
		r.Eval(fmt.Sprintf("probe:default-user:fresh:%q", given), true)
		r.Count("fresh-stores.compared", 1)

		if fOK != dOK {
			r.Violate(vh.Violation{Key: "default-user:password-rule-differs",
				Desc: fmt.Sprintf("fresh stores created with default user admin and password %q: the file store's admin credential verifies that password = %v, the database store's = %v "+
					"(users_file.go replaces a GIVEN password by a random one and keeps the empty one; users_sqldb.go does the opposite)", given, fOK, dOK),
				Case: c31Case{Kind: "probe"}, Expected: fmt.Sprintf("file store verifies %q: %v", given, fOK), Observed: fmt.Sprintf("database store verifies %q: %v", given, dOK)})
		}
	}
}

func TestVerifC31(t *testing.T) {
	r := vh.New("C31", "agree-persist")
	r.Rule = "a case is one PRNG history of 40 steps over the users admin, alice, bob, Carol (write, update password / permissions, delete, read with mixed-case spellings, list with and without password suppression, " +
		"setPermission, GetPermission(s), flush, flush+close+reopen) applied to a file-backed and a SQLite-backed service; distinct = distinct step trace; non-trivial = the history changed a stored user and a read found one"
	r.Assume("answers are compared after normalization: nil = empty permission list, passkeys as compact JSON, any all-asterisk password = suppressed (file masks with 10, database with 8 asterisks)")
	r.Assume("the database store's AuthCache is emptied when the store is reopened, as a restarted server would start")
	r.Note("the constructors hash the default user's password themselves (a random one when none is given), so the two fresh stores never hold the same default credential; " +
		"histories therefore start by writing the default user with a credential the monitor knows in both stores. The rule itself is compared by the probe default-user:password-rule-differs.")

	saved := AuthService

	defer func() { AuthService = saved }()

	e := c31Setup(t, r)

	defer func() {
		for _, b := range []*c31Backend{e.file, e.dbs["file"], e.dbs["memory"]} {
			_ = b.svc.Close()
		}

		_ = e.keeper.Close()
	}()

	if raw := vh.ReplayCase(); raw != nil {
		var c c31Case
		if err := json.Unmarshal(raw, &c); err != nil {
			t.Fatal(err)
		}

		if c.Kind == "probe" {
			c31Probes(e)
			c31ProbeEmptyPerms(e)
			c31ProbeDefaultUser(e)
		} else {
			c.Trace = nil
			tr := c31History(e, c)
			r.Eval(vh.Hash(tr.trace), true)
			t.Log(strings.Join(tr.trace, "\n"))
		}

		r.Distinct += 2
		_ = r.Write()

		return
	}

	avoid := vAvoid("C31")
	if len(avoid) > 0 {
		r.Note("kept out of the random stream because listed as known findings (each still runs as a directed probe): " + strings.Join(avoid, ", "))
	}

	c31Probes(e)
	c31ProbeEmptyPerms(e)
	c31ProbeDefaultUser(e)

	seeds := vh.Rand("c31-histories")
	n := vh.N(200, 10000)

	for i := 0; i < n; i++ {
		c := c31Case{Kind: "history", HSeed: seeds.Int63()&0x7fffffffffff + 1, Steps: 40, DB: "memory", Avoid: avoid}
		if i%8 == 0 {
			c.DB = "file"
		}

		tr := c31History(e, c)
		r.Eval(vh.Hash(tr.trace), tr.c.Kind == "history")
		r.Count("histories.db-"+c.DB, 1)

		if i%67 == 5 && !tr.violated {
			s := tr.trace
			if len(s) > 8 {
				s = s[:8]
			}

			r.Sample(map[string]any{"hseed": c.HSeed, "db": c.DB, "first_steps": s})
		}
	}

	if r.Counters["lists.compared"] == 0 || r.Counters["op.read"] == 0 {
		t.Fatal("observed nothing")
	}

	if err := r.Write(); err != nil {
		t.Fatal(err)
	}
}
