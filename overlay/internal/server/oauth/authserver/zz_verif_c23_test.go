package authserver

// C23 — OAuth codes and refresh tokens are single-use.
//
// In-package runtime monitor (needs storeCode, clients, asGlobalConfig). Built with -race.
//
// Contention rounds: an authorization code (or a refresh token) is issued, then
// N in {2,4,8,16} goroutines are released by one barrier and each sends the same
// well-formed token request through the real TokenHandler. The monitor counts the
// responses that carry tokens: at most one per code / refresh token. Every call is
// stamped (call, return) from one atomic counter and an OnEvict listener on the
// caches package stamps the moment the entry is actually deleted, so the evidence
// says in how many rounds two or more requests were already inside the handler
// when the entry was deleted (the window in which a find-then-delete implementation
// double-redeems). A run in which that never happened is inconclusive.
//
// PKCE cells: a code issued with an S256 challenge is presented with the right
// verifier (control), with near-misses of it, with other verifiers of every length
// 43..128 and character class, empty and absent: tokens only for the exact verifier.

import (
	"crypto/sha256"
	"encoding/base64"
	"encoding/json"
	"fmt"
	"html"
	"math/rand"
	"net/http"
	"net/http/httptest"
	"net/url"
	"os"
	"path/filepath"
	"regexp"
	"runtime"
	"strings"
	"sync"
	"sync/atomic"
	"testing"
	"time"

	"github.com/tucats/ego/internal/caches"
	"github.com/tucats/ego/internal/defs"
	"github.com/tucats/ego/internal/router"
	auth "github.com/tucats/ego/internal/server/auth"
	"github.com/tucats/ego/internal/verifh/vh"
	"golang.org/x/crypto/bcrypt"
)

const (
	c23Redirect   = "https://app.example.com/cb"
	c23ConfSecret = "s3cret-for-conf"
)

func c23Setup(t *testing.T) {
	t.Helper()

	dir := os.Getenv("VERIF_ARENA")
	if dir == "" {
		dir = t.TempDir()
	}

	if err := loadOrGenerateKey(filepath.Join(dir, fmt.Sprintf("c23-%d.pem", os.Getpid()))); err != nil {
		t.Fatalf("key setup: %v", err)
	}

	asGlobalConfig = asConfig{Issuer: "https://ego.test", TokenExpiration: time.Hour, RefreshExpiration: time.Hour, CodeExpiration: 5 * time.Minute}

	// cost-4 hash made here: the default cost would dominate every request under -race
	hash, err := bcrypt.GenerateFromPassword([]byte(c23ConfSecret), bcrypt.MinCost)
	if err != nil {
		t.Fatal(err)
	}

	clients = []OAuthClient{
		{ClientID: "pub", RedirectURIs: []string{c23Redirect}, GrantTypes: []string{"authorization_code", "refresh_token"}, Scopes: []string{"openid"}},
		{ClientID: "conf", ClientSecretHash: string(hash), RedirectURIs: []string{c23Redirect}, GrantTypes: []string{"authorization_code", "refresh_token"}, Scopes: []string{"openid"}},
	}

	// what RegisterRoutes does for the two single-use caches
	_ = caches.SetExpiration(caches.OAuthCodeCache, "300s")
	_ = caches.SetExpiration(caches.OAuthRefreshCache, "3600s")
}

func c23Challenge(verifier string) string {
	h := sha256.Sum256([]byte(verifier))

	return base64.RawURLEncoding.EncodeToString(h[:])
}

// c23Post sends one form through the real TokenHandler; ok = the response carries tokens.
func c23Post(id int, form url.Values) (ok bool, status int, resp tokenResponse) {
	req := httptest.NewRequest(http.MethodPost, "/oauth2/token", strings.NewReader(form.Encode()))
	req.Header.Set("Content-Type", "application/x-www-form-urlencoded")

	w := httptest.NewRecorder()
	status = TokenHandler(&router.Session{ID: id}, w, req)

	if w.Code == http.StatusOK {
		_ = json.Unmarshal(w.Body.Bytes(), &resp)
	}

	return w.Code == http.StatusOK && resp.AccessToken != "", status, resp
}

const c23Verifier = "dBjftJeZ4CVP-mB92K27uhbUJU1p1r_wW1gFWFOEjXk"

// c23IssueCode stores a pending authorization exactly as AuthorizePostHandler does.
func c23IssueCode(client string, pkce bool) (code string, form url.Values) {
	code, _ = generateCode()
	p := PendingAuthorization{ClientID: client, RedirectURI: c23Redirect, Scopes: []string{"openid"}, Username: "alice", IssuedAt: time.Now()}

	form = url.Values{}
	form.Set("grant_type", "authorization_code")
	form.Set("client_id", client)
	form.Set("code", code)
	form.Set("redirect_uri", c23Redirect)

	if client == "conf" {
		form.Set("client_secret", c23ConfSecret)
	}

	if pkce {
		p.CodeChallenge, p.CodeChallengeMethod = c23Challenge(c23Verifier), "S256"
		form.Set("code_verifier", c23Verifier)
	}

	storeCode(code, p)

	return code, form
}

type c23Round struct {
	Kind   string `json:"kind"`   // "code" | "refresh"
	N      int    `json:"n"`      // concurrent presenters
	Client string `json:"client"` // "pub" (PKCE) | "conf" | "conf+pkce"
	Via    string `json:"via"`    // refresh token obtained "exchange" (from a real code exchange) | "direct" (generateRefreshToken)
}

type c23Outcome struct {
	successes     int
	deleteReports int
	enteredBefore int // calls whose call stamp precedes the first delete
	statuses      map[int]int
	setupFailed   bool
}

var (
	c23Stamp       atomic.Int64
	c23Target      atomic.Value // string: cache key watched in this round
	c23FirstDelete atomic.Int64
	c23Deletes     atomic.Int32
)

func c23Listener(id int, key any, _ any) {
	if id != caches.OAuthCodeCache && id != caches.OAuthRefreshCache {
		return
	}

	if k, _ := key.(string); k != "" && k == c23Target.Load().(string) {
		c23FirstDelete.CompareAndSwap(0, c23Stamp.Add(1))
		c23Deletes.Add(1)
	}
}

type c23Rec struct {
	call, ret int64
	ok        bool
	status    int
}

type c23Job struct {
	form        url.Values
	id          int
	start       chan struct{}
	ready, done *sync.WaitGroup
	rec         *c23Rec
}

// a fixed pool of 16 presenter goroutines (creating goroutines per round is the
// dominant cost under the race detector); each round hands a job to N of them.
var (
	c23Jobs     [16]chan c23Job
	c23PoolOnce sync.Once
)

func c23StartPool() {
	c23PoolOnce.Do(func() {
		for g := range c23Jobs {
			c23Jobs[g] = make(chan c23Job)

			go func(ch chan c23Job) {
				for job := range ch {
					job.ready.Done()
					<-job.start

					call := c23Stamp.Add(1)
					ok, status, _ := c23Post(job.id, job.form)
					*job.rec = c23Rec{call: call, ret: c23Stamp.Add(1), ok: ok, status: status}

					job.done.Done()
				}
			}(c23Jobs[g])
		}
	})
}

func c23Run(rd c23Round, seq int) c23Outcome {
	out := c23Outcome{statuses: map[int]int{}}
	client := strings.TrimSuffix(rd.Client, "+pkce")
	pkce := rd.Client == "pub" || strings.HasSuffix(rd.Client, "+pkce")

	var (
		form   url.Values
		target string
	)

	switch rd.Kind {
	case "code":
		target, form = c23IssueCode(client, pkce)
	case "refresh":
		if rd.Via == "exchange" {
			_, cform := c23IssueCode(client, pkce)

			ok, _, resp := c23Post(seq, cform)
			if !ok || resp.RefreshToken == "" {
				out.setupFailed = true

				return out
			}

			target = resp.RefreshToken
		} else {
			target, _ = generateRefreshToken(client, "alice", []string{"openid"})
		}

		form = url.Values{}
		form.Set("grant_type", "refresh_token")
		form.Set("client_id", client)
		form.Set("refresh_token", target)

		if client == "conf" {
			form.Set("client_secret", c23ConfSecret)
		}
	}

	c23Target.Store(target)
	c23FirstDelete.Store(0)
	c23Deletes.Store(0)

	var (
		ready, done sync.WaitGroup
		start       = make(chan struct{})
		recs        = make([]c23Rec, rd.N)
	)

	ready.Add(rd.N)
	done.Add(rd.N)
	c23StartPool()

	for g := 0; g < rd.N; g++ {
		c23Jobs[g] <- c23Job{form: form, id: seq*100 + g, start: start, ready: &ready, done: &done, rec: &recs[g]}
	}

	ready.Wait() // every presenter is parked on the barrier
	close(start)
	done.Wait()

	first := c23FirstDelete.Load()
	out.deleteReports = int(c23Deletes.Load())

	for _, rc := range recs {
		if rc.ok {
			out.successes++
		}

		out.statuses[rc.status]++

		if first != 0 && rc.call < first {
			out.enteredBefore++
		}
	}

	// the tokens issued in this round are of no further use; keep the caches small
	caches.PurgeLocal(caches.OAuthRefreshCache)
	caches.PurgeLocal(caches.OAuthCodeCache)
	_ = caches.SetExpiration(caches.OAuthCodeCache, "300s")
	_ = caches.SetExpiration(caches.OAuthRefreshCache, "3600s")

	return out
}

func c23GenRound(rng *rand.Rand) c23Round {
	rd := c23Round{N: []int{2, 4, 8, 16}[rng.Intn(4)], Kind: "code", Via: "-"}
	rd.Client = "pub"

	// confidential clients in 1 round of 16: the bcrypt check of the client secret costs
	// ~15 ms per request under the race detector and precedes the code lookup
	if p := rng.Intn(16); p == 0 {
		rd.Client = "conf"
	} else if p == 1 {
		rd.Client = "conf+pkce"
	}

	if rng.Intn(2) == 0 {
		rd.Kind = "refresh"
		rd.Via = []string{"exchange", "direct"}[rng.Intn(2)]
	}

	return rd
}

func TestC23Contention(t *testing.T) {
	r := vh.New("C23", "contention")
	r.Rule = "round = (code|refresh token, N in {2,4,8,16} presenters, client in {public+PKCE, confidential, confidential+PKCE}, refresh token from a real exchange or generateRefreshToken); all N send the same well-formed request through TokenHandler after one barrier; " +
		"distinct = (round configuration, number of calls inside the handler before the first delete); non-trivial = at least two calls had entered the handler before the entry was deleted"
	r.Assume("codes are issued with the package's own storeCode (what AuthorizePostHandler calls); a response 'carries tokens' when it is 200 with a non-empty access_token")
	r.Assume("the OnEvict listener of internal/caches reports the instant of the actual deletion; per-call stamps come from one atomic counter")

	c23Setup(t)
	caches.SetOnEvict(c23Listener)

	defer caches.SetOnEvict(nil)

	c23Target.Store("")

	doRound := func(rd c23Round, seq int) {
		o := c23Run(rd, seq)
		if o.setupFailed {
			r.Count("rounds.setup_failed", 1)

			return
		}

		contended := o.enteredBefore >= 2
		r.Eval(fmt.Sprintf("%+v/%d", rd, o.enteredBefore), contended)
		r.Count("rounds", 1)
		r.Count(fmt.Sprintf("rounds.%s.n%d", rd.Kind, rd.N), 1)
		r.Count("calls", int64(rd.N))
		r.Count("responses_with_tokens", int64(o.successes))
		r.Count("delete_reports", int64(o.deleteReports))

		if contended {
			r.Count("rounds.two_or_more_calls_inside_before_first_delete", 1)
			r.Count("rounds.two_or_more_calls_inside_before_first_delete."+rd.Kind, 1)
		}

		if o.successes == 0 {
			r.Count("rounds.no_success_at_all", 1)
		}

		if o.successes > 1 {
			r.Count("rounds.redeemed_more_than_once."+rd.Kind, 1)
			r.Violate(vh.Violation{Key: "double-redemption:" + rd.Kind,
				Desc:     fmt.Sprintf("%d of %d concurrent token requests presenting the same %s received tokens (statuses %v; %d calls were inside the handler before the entry was deleted)", o.successes, rd.N, map[string]string{"code": "authorization code", "refresh": "refresh token"}[rd.Kind], o.statuses, o.enteredBefore),
				Case:     rd,
				Expected: "at most 1 response with tokens", Observed: fmt.Sprintf("%d responses with tokens", o.successes)})
		}

		if o.deleteReports > 1 {
			r.Violate(vh.Violation{Key: "deleted-twice:" + rd.Kind, Desc: fmt.Sprintf("the cache reported %d deletions of one %s entry", o.deleteReports, rd.Kind), Case: rd})
		}

		if r.Evaluations%499 == 1 {
			r.Sample(map[string]any{"round": rd, "responses_with_tokens": o.successes, "statuses": o.statuses, "calls_inside_before_first_delete": o.enteredBefore, "delete_reports": o.deleteReports})
		}
	}

	if c := vh.ReplayCase(); c != nil {
		var rd c23Round
		if err := json.Unmarshal(c, &rd); err != nil || rd.N == 0 {
			r.Note("replay case is not a contention round; this part ran nothing")
			_ = r.Write()

			return
		}

		for i := 0; i < 2000; i++ { // a schedule cannot be replayed: the configuration is rerun
			doRound(rd, i)
		}

		r.Distinct = 2
		_ = r.Write()

		return
	}

	rng := vh.Rand("c23-rounds")
	n := vh.N(2000, 40000) // per GOMAXPROCS variant (thorough runs 3 variants: 120 000 rounds; 3 x 70 000 took 100 min on a loaded 16-core box)

	for i := 0; i < n; i++ {
		doRound(c23GenRound(rng), i)

		if i%20000 == 19999 {
			_ = r.Write()
		}
	}

	r.Count("gomaxprocs", int64(runtime.GOMAXPROCS(0)))

	if r.Counters["rounds.two_or_more_calls_inside_before_first_delete.code"] == 0 || r.Counters["rounds.two_or_more_calls_inside_before_first_delete.refresh"] == 0 {
		r.Inconcl("in no round were two requests inside the handler before the entry was deleted: the contended interleaving was not reached")
	}

	if r.Counters["responses_with_tokens"] == 0 {
		t.Fatal("observed nothing: no token request ever succeeded")
	}

	if err := r.Write(); err != nil {
		t.Fatal(err)
	}
}

// ---------------------------------------------------------------------------
// PKCE cells
// ---------------------------------------------------------------------------

const c23Unreserved = "ABCDEFGHIJKLMNOPQRSTUVWXYZabcdefghijklmnopqrstuvwxyz0123456789-._~"

func c23RandVerifier(rng *rand.Rand, n int, alphabet string) string {
	b := make([]byte, n)
	for i := range b {
		b[i] = alphabet[rng.Intn(len(alphabet))]
	}

	return string(b)
}

type c23Cell struct {
	Client    string `json:"client"`
	Verifier  string `json:"verifier"`  // the one the challenge was made from
	Presented string `json:"presented"` // what the token request sends
	Absent    bool   `json:"absent"`    // no code_verifier field at all
	Class     string `json:"class"`
}

func TestC23PKCE(t *testing.T) {
	r := vh.New("C23", "pkce")
	r.Rule = "cell = (client, verifier V of every length 43..128 over the unreserved alphabet and over single-class alphabets, presented W); W ranges over V (control) and near-misses: one character substituted / case-flipped / dropped / appended / two swapped, surrounding blank, other verifier of the same length, the challenge itself, empty, absent; " +
		"distinct = (client, V, W); non-trivial = W differs from V (a refusal is demanded)"
	r.Assume("S256(W) = S256(V) only for W = V (SHA-256 collision resistance)")

	c23Setup(t)

	check := func(c c23Cell) {
		code, _ := generateCode()
		storeCode(code, PendingAuthorization{ClientID: c.Client, RedirectURI: c23Redirect, Scopes: []string{"openid"}, Username: "alice",
			CodeChallenge: c23Challenge(c.Verifier), CodeChallengeMethod: "S256", IssuedAt: time.Now()})

		form := url.Values{}
		form.Set("grant_type", "authorization_code")
		form.Set("client_id", c.Client)
		form.Set("code", code)
		form.Set("redirect_uri", c23Redirect)

		if c.Client == "conf" {
			form.Set("client_secret", c23ConfSecret)
		}

		if !c.Absent {
			form.Set("code_verifier", c.Presented)
		}

		ok, status, _ := c23Post(1, form)
		match := !c.Absent && c.Presented == c.Verifier

		r.Eval(vh.Hash(c.Client, c.Verifier, c.Presented, c.Absent), !match)
		r.Count("cells."+c.Class, 1)

		switch {
		case ok && !match:
			r.Violate(vh.Violation{Key: "pkce:tokens-without-matching-verifier:" + c.Class,
				Desc: fmt.Sprintf("code issued with challenge S256(%q) yielded tokens for code_verifier %q (absent=%v)", c.Verifier, c.Presented, c.Absent), Case: c,
				Expected: "no tokens", Observed: fmt.Sprintf("status %d with access_token", status)})
		case ok:
			r.Count("control.accepted", 1)
		case match:
			r.Count("control.refused", 1)
			r.Note(fmt.Sprintf("control refused (status %d): the exact verifier of length %d (class %s) did not yield tokens — outside the property's 'only with', recorded for information", status, len(c.Verifier), c.Class))
		default:
			r.Count("refused", 1)
		}

		if r.Evaluations%997 == 1 {
			r.Sample(map[string]any{"cell": c, "tokens": ok, "status": status})
		}

		caches.PurgeLocal(caches.OAuthRefreshCache)
	}

	if c := vh.ReplayCase(); c != nil {
		var cell c23Cell
		if err := json.Unmarshal(c, &cell); err != nil || cell.Class == "" {
			r.Note("replay case is not a PKCE cell; this part ran nothing")
			_ = r.Write()

			return
		}

		check(cell)
		r.Distinct = 2
		_ = r.Write()

		return
	}

	rng := vh.Rand("c23-pkce")
	alphabets := map[string]string{"unreserved": c23Unreserved, "upper": c23Unreserved[:26], "lower": c23Unreserved[26:52], "digits": c23Unreserved[52:62], "punct": "-._~"}
	reps := vh.N(1, 12)

	for rep := 0; rep < reps; rep++ {
		for n := 43; n <= 128; n++ {
			for _, an := range []string{"unreserved", "upper", "lower", "digits", "punct"} {
				if an != "unreserved" && (n+rep)%4 != 0 && n != 43 && n != 128 {
					continue // single-class alphabets: every 4th length plus both ends
				}

				v := c23RandVerifier(rng, n, alphabets[an])
				client := []string{"pub", "conf"}[rng.Intn(2)]

				if client == "conf" && n%8 != 0 {
					client = "pub" // bcrypt on every confidential request is the cost driver
				}

				i := rng.Intn(n)
				sub := v[:i] + string(c23Unreserved[(strings.IndexByte(c23Unreserved, v[i])+1)%len(c23Unreserved)]) + v[i+1:]
				flip := v[:i] + strings.ToUpper(v[i:i+1]) + v[i+1:]

				if flip == v {
					flip = v[:i] + strings.ToLower(v[i:i+1]) + v[i+1:]
				}

				j := (i + 1) % n
				sw := []byte(v)
				sw[i], sw[j] = sw[j], sw[i]

				cells := []c23Cell{
					{Presented: v, Class: "exact"},
					{Presented: sub, Class: "one-char-substituted"},
					{Presented: flip, Class: "case-flipped"},
					{Presented: v[:i] + v[i+1:], Class: "one-char-dropped"},
					{Presented: v[:n-1], Class: "last-char-dropped"},
					{Presented: v + "A", Class: "one-char-appended"},
					{Presented: string(sw), Class: "two-chars-swapped"},
					{Presented: v + " ", Class: "trailing-blank"},
					{Presented: " " + v, Class: "leading-blank"},
					{Presented: v + "\n", Class: "trailing-newline"},
					{Presented: c23RandVerifier(rng, n, alphabets[an]), Class: "other-same-length"},
					{Presented: c23Challenge(v), Class: "the-challenge-itself"},
					{Presented: url.QueryEscape(v + "%"), Class: "escaped-form"},
					{Presented: "", Class: "empty"},
					{Absent: true, Class: "absent"},
				}

				for _, c := range cells {
					if c.Presented == v && c.Class != "exact" {
						continue // e.g. swap of two equal characters, case flip of a digit
					}

					c.Client, c.Verifier = client, v
					check(c)
				}
			}
		}
	}

	if r.Counters["control.accepted"] == 0 {
		r.Inconcl("no control cell (exact verifier) was accepted: refusals observed prove nothing")
	}

	if r.Evaluations == 0 {
		t.Fatal("observed nothing")
	}

	if err := r.Write(); err != nil {
		t.Fatal(err)
	}
}

// ---------------------------------------------------------------------------
// issuance cells: how the code was ISSUED (through the real authorize handlers),
// and single-use across spellings of one code / refresh token
// ---------------------------------------------------------------------------

type c23UserStore struct {
	mu    sync.Mutex
	users map[string]defs.User
}

func (s *c23UserStore) ReadUser(_ int, name string, _ bool) (defs.User, error) {
	s.mu.Lock()
	defer s.mu.Unlock()

	if u, ok := s.users[name]; ok {
		return u, nil
	}

	return defs.User{}, fmt.Errorf("no such user %q", name)
}

func (s *c23UserStore) WriteUser(_ int, u defs.User) error {
	s.mu.Lock()
	defer s.mu.Unlock()

	s.users[u.Name] = u

	return nil
}

func (s *c23UserStore) DeleteUser(int, string) error        { return nil }
func (s *c23UserStore) ListUsers(bool) map[string]defs.User { return nil }
func (s *c23UserStore) Flush() error                        { return nil }
func (s *c23UserStore) Close() error                        { return nil }

const c23UserPassword = "alice-pw-Zq9"

func c23SetupUser(t *testing.T) {
	t.Helper()

	h, err := bcrypt.GenerateFromPassword([]byte(c23UserPassword), bcrypt.MinCost)
	if err != nil {
		t.Fatal(err)
	}

	auth.AuthService = &c23UserStore{users: map[string]defs.User{
		"alice": {Name: "alice", Password: string(h), Permissions: []string{defs.LogonPermission}},
	}}
}

var c23HiddenInput = regexp.MustCompile(`<input type="hidden" name="([a-z_]+)"\s+value="([^"]*)">`)

// c23Authorize runs one authorization request through the real handlers: GET
// /oauth2/authorize (login form + CSRF cookie), then POST of that form with alice's
// credentials. It returns the code from the redirect, or where the server stopped.
func c23Authorize(id int, client, challenge, method string, sendMethod bool) (code string, stage string) {
	q := url.Values{}
	q.Set("response_type", "code")
	q.Set("client_id", client)
	q.Set("redirect_uri", c23Redirect)
	q.Set("scope", "openid")
	q.Set("state", "st-"+fmt.Sprint(id))

	if challenge != "" {
		q.Set("code_challenge", challenge)
	}

	if sendMethod {
		q.Set("code_challenge_method", method)
	}

	greq := httptest.NewRequest(http.MethodGet, "/oauth2/authorize?"+q.Encode(), nil)
	gw := httptest.NewRecorder()

	if AuthorizeGetHandler(&router.Session{ID: id}, gw, greq); gw.Code != http.StatusOK {
		return "", fmt.Sprintf("refused-at-form:%d", gw.Code)
	}

	form := url.Values{}
	for _, m := range c23HiddenInput.FindAllStringSubmatch(gw.Body.String(), -1) {
		form.Set(m[1], html.UnescapeString(m[2]))
	}

	form.Set("username", "alice")
	form.Set("password", c23UserPassword)

	preq := httptest.NewRequest(http.MethodPost, "/oauth2/authorize", strings.NewReader(form.Encode()))
	preq.Header.Set("Content-Type", "application/x-www-form-urlencoded")

	for _, ck := range gw.Result().Cookies() {
		preq.AddCookie(ck)
	}

	pw := httptest.NewRecorder()

	if AuthorizePostHandler(&router.Session{ID: id}, pw, preq); pw.Code != http.StatusFound {
		return "", fmt.Sprintf("refused-at-login:%d", pw.Code)
	}

	loc, err := url.Parse(pw.Header().Get("Location"))
	if err != nil || loc.Query().Get("code") == "" {
		return "", "no-code-in-redirect"
	}

	return loc.Query().Get("code"), "issued"
}

type c23Issue struct {
	Kind      string `json:"kind"` // "issuance"
	Client    string `json:"client"`
	Challenge string `json:"challenge"` // what the authorization request carried
	ChKind    string `json:"challenge_kind"`
	Method    string `json:"method"`
	MClass    string `json:"method_class"` // S256 omitted plain wrong-case unknown
	Verifier  string `json:"verifier"`     // V, the verifier the client holds
	Presented string `json:"presented"`
	Absent    bool   `json:"absent"`
	WClass    string `json:"presented_class"`
}

type c23Spell struct {
	Kind      string   `json:"kind"` // "spellings"
	What      string   `json:"what"` // code | refresh
	Spellings []string `json:"spellings"`
	Parallel  bool     `json:"parallel"`
}

func c23SpellingsOf(rng *rand.Rand, v string) []string {
	names := []string{"exact", "exact", "trailing-blank", "leading-blank", "trailing-newline", "trailing-tab", "literal-%20", "percent-encoded-first-char",
		"upper", "lower", "trailing-=", "trailing-NUL", "doubled"}
	rng.Shuffle(len(names), func(i, j int) { names[i], names[j] = names[j], names[i] })

	return names
}

func c23Spell1(name, v string) string {
	switch name {
	case "trailing-blank":
		return v + " "
	case "leading-blank":
		return " " + v
	case "trailing-newline":
		return v + "\n"
	case "trailing-tab":
		return v + "\t"
	case "literal-%20":
		return v + "%20"
	case "percent-encoded-first-char":
		return fmt.Sprintf("%%%02X", v[0]) + v[1:]
	case "upper":
		return strings.ToUpper(v)
	case "lower":
		return strings.ToLower(v)
	case "trailing-=":
		return v + "="
	case "trailing-NUL":
		return v + "\x00"
	case "doubled":
		return v + v
	}

	return v
}

func TestC23Issuance(t *testing.T) {
	r := vh.New("C23", "issuance")
	r.Rule = "issuance cell = (client public|confidential, code_challenge in {S256(V), V itself, short text}, code_challenge_method in {S256, omitted, plain, s256, S512, none}) sent through the real AuthorizeGetHandler + AuthorizePostHandler, then the issued code is presented to TokenHandler with verifier in {V, absent, empty, another verifier, the challenge itself, V case-flipped}; " +
		"spelling cell = one issued code (or refresh token) presented under 13 spellings (exact twice, surrounding blanks, newline, tab, literal %20, percent-encoded, upper, lower, '=', NUL, doubled) in PRNG order, sequentially or all at once; " +
		"distinct = distinct cell; non-trivial = a code was issued with a non-empty challenge and the presented verifier does not match it (issuance), or the spelling list (spellings)"
	r.Assume("a verifier W 'matches' a stored challenge C when S256(W)=C, or — only if the request did not say S256 — when W=C (RFC 7636 plain, the default when the method is omitted); refusing is always allowed")
	r.Assume("alice's password is checked by the real validatePassword against a user store installed by the monitor (cost-4 bcrypt)")

	c23Setup(t)
	c23SetupUser(t)

	serial := 0

	checkIssue := func(c c23Issue) {
		serial++
		code, stage := c23Authorize(serial, c.Client, c.Challenge, c.Method, c.MClass != "omitted")
		r.Count("authorize."+strings.SplitN(stage, ":", 2)[0], 1)

		if code == "" {
			r.Eval(vh.Hash(c), false)
			r.Count("authorize.refused.method-"+c.MClass, 1)

			return
		}

		// what the authorize handler stored for this code (a lookup does not consume it)
		stored := "not-found"

		if v, found := caches.Find(caches.OAuthCodeCache, code); found {
			if p, isPending := v.(PendingAuthorization); isPending {
				switch {
				case p.CodeChallenge == c.Challenge && p.CodeChallengeMethod == c.Method:
					stored = "verbatim"
				case p.CodeChallenge == "" && c.Challenge != "":
					stored = "challenge-dropped"
				default:
					stored = "rewritten"
				}
			}
		}

		r.Count("issuance.stored."+stored, 1)

		form := url.Values{}
		form.Set("grant_type", "authorization_code")
		form.Set("client_id", c.Client)
		form.Set("code", code)
		form.Set("redirect_uri", c23Redirect)

		if c.Client == "conf" {
			form.Set("client_secret", c23ConfSecret)
		}

		if !c.Absent {
			form.Set("code_verifier", c.Presented)
		}

		ok, status, _ := c23Post(serial, form)

		w := c.Presented
		matches := !c.Absent && w != "" && (c23Challenge(w) == c.Challenge || (c.MClass != "S256" && w == c.Challenge))
		demanded := c.Challenge != "" && !matches

		r.Eval(vh.Hash(c), demanded)
		r.Count("issuance.cells", 1)
		r.Count("issuance.method-"+c.MClass, 1)

		switch {
		case ok && demanded:
			key := "pkce:issued-method-" + c.MClass + ":tokens-for-" + c.WClass + "-verifier"
			if stored == "challenge-dropped" {
				key = "pkce:challenge-dropped-at-issuance:method-" + c.MClass + ":tokens-for-" + c.WClass + "-verifier"
			}

			r.Violate(vh.Violation{Key: key,
				Desc: fmt.Sprintf("authorization request carried code_challenge=%q (%s) with code_challenge_method %s; the issued code yielded tokens for code_verifier %q (absent=%v), which does not match that challenge",
					c.Challenge, c.ChKind, map[bool]string{true: "omitted", false: fmt.Sprintf("%q", c.Method)}[c.MClass == "omitted"], c.Presented, c.Absent),
				Case: c, Expected: "no tokens", Observed: fmt.Sprintf("status %d with access_token", status)})
		case ok:
			r.Count("issuance.tokens_where_the_property_allows", 1)
		case demanded:
			r.Count("issuance.refusal_demanded_and_observed", 1)
		default:
			r.Count("issuance.refused_although_matching.method-"+c.MClass, 1) // allowed
		}

		if r.Counters["issuance.cells"]%53 == 1 {
			r.Sample(map[string]any{"cell": c, "tokens": ok, "status": status})
		}

		caches.PurgeLocal(caches.OAuthRefreshCache)
	}

	checkSpell := func(c c23Spell, rng *rand.Rand) {
		serial++

		var target string

		code, stage := c23Authorize(serial, "pub", c23Challenge(c23Verifier), "S256", true)
		if code == "" {
			t.Fatalf("cannot issue a code for the spelling cells: %s", stage)
		}

		base := url.Values{}
		base.Set("client_id", "pub")

		field := "code"

		if c.What == "code" {
			target = code
			base.Set("grant_type", "authorization_code")
			base.Set("redirect_uri", c23Redirect)
			base.Set("code_verifier", c23Verifier)
		} else {
			f := url.Values{}
			for k, v := range base {
				f[k] = v
			}

			f.Set("grant_type", "authorization_code")
			f.Set("redirect_uri", c23Redirect)
			f.Set("code_verifier", c23Verifier)
			f.Set("code", code)

			ok, _, resp := c23Post(serial, f)
			if !ok || resp.RefreshToken == "" {
				t.Fatalf("cannot obtain a refresh token for the spelling cells")
			}

			target = resp.RefreshToken
			field = "refresh_token"
			base.Set("grant_type", "refresh_token")
		}

		forms := make([]url.Values, len(c.Spellings))
		for i, name := range c.Spellings {
			f := url.Values{}
			for k, v := range base {
				f[k] = v
			}

			f.Set(field, c23Spell1(name, target))
			forms[i] = f
		}

		successes := 0
		which := []string{}

		if c.Parallel {
			var (
				ready, done sync.WaitGroup
				start       = make(chan struct{})
				recs        = make([]c23Rec, len(forms))
			)

			ready.Add(len(forms))
			done.Add(len(forms))
			c23StartPool()

			for g := range forms {
				c23Jobs[g] <- c23Job{form: forms[g], id: serial*100 + g, start: start, ready: &ready, done: &done, rec: &recs[g]}
			}

			ready.Wait()
			close(start)
			done.Wait()

			for g, rc := range recs {
				if rc.ok {
					successes++
					which = append(which, c.Spellings[g])
				}
			}
		} else {
			for g, f := range forms {
				if ok, _, _ := c23Post(serial*100+g, f); ok {
					successes++
					which = append(which, c.Spellings[g])
				}
			}
		}

		r.Eval(vh.Hash(c), true)
		r.Count("spellings.cells."+c.What, 1)
		r.Count("spellings.presentations", int64(len(forms)))
		r.Count("spellings.responses_with_tokens", int64(successes))

		for _, w := range which {
			r.Count("spellings.tokens_for."+w, 1)
		}

		if successes > 1 {
			r.Violate(vh.Violation{Key: "single-use:spellings:" + c.What,
				Desc: fmt.Sprintf("one issued %s yielded tokens %d times across its spellings: %v (parallel=%v)", c.What, successes, which, c.Parallel), Case: c,
				Expected: "at most 1 response with tokens over all spellings", Observed: fmt.Sprintf("%d", successes)})
		}

		caches.PurgeLocal(caches.OAuthRefreshCache)
		caches.PurgeLocal(caches.OAuthCodeCache)
		_ = caches.SetExpiration(caches.OAuthCodeCache, "300s")
		_ = caches.SetExpiration(caches.OAuthRefreshCache, "3600s")
	}

	if c := vh.ReplayCase(); c != nil {
		var kind struct {
			Kind string `json:"kind"`
		}

		_ = json.Unmarshal(c, &kind)

		switch kind.Kind {
		case "issuance":
			var cell c23Issue

			_ = json.Unmarshal(c, &cell)
			checkIssue(cell)
			r.Distinct = 2
		case "spellings":
			var cell c23Spell

			_ = json.Unmarshal(c, &cell)

			for i := 0; i < 50; i++ {
				checkSpell(cell, nil)
			}

			r.Distinct = 2
		default:
			r.Note("replay case is not an issuance or spelling cell; this part ran nothing")
		}

		_ = r.Write()

		return
	}

	rng := vh.Rand("c23-issuance")
	methods := []struct{ m, class string }{{"S256", "S256"}, {"", "omitted"}, {"plain", "plain"}, {"s256", "wrong-case"}, {"S512", "unknown"}, {"none", "unknown"}}
	reps := vh.N(1, 10)

	for rep := 0; rep < reps; rep++ {
		for _, client := range []string{"pub", "conf"} {
			for _, chKind := range []string{"S256-of-verifier", "verifier-itself", "short-text", "none"} {
				for _, m := range methods {
					v := c23RandVerifier(rng, 43+rng.Intn(86), c23Unreserved)
					other := c23RandVerifier(rng, len(v), c23Unreserved)

					challenge := ""

					switch chKind {
					case "S256-of-verifier":
						challenge = c23Challenge(v)
					case "verifier-itself":
						challenge = v
					case "short-text":
						challenge = "abc"
					}

					flip := strings.ToUpper(v[:1]) + v[1:]
					if flip == v {
						flip = strings.ToLower(v[:1]) + v[1:]
					}

					for _, p := range []c23Issue{
						{Presented: v, WClass: "exact"}, {Absent: true, WClass: "absent"}, {Presented: "", WClass: "empty"}, {Presented: other, WClass: "other"},
						{Presented: challenge, WClass: "challenge-itself"}, {Presented: flip, WClass: "case-flipped"},
					} {
						if flip == v && p.WClass == "case-flipped" {
							continue
						}

						if chKind == "none" && p.WClass == "challenge-itself" {
							continue
						}

						p.Kind, p.Client, p.Challenge, p.ChKind, p.Method, p.MClass, p.Verifier = "issuance", client, challenge, chKind, m.m, m.class, v
						checkIssue(p)
					}
				}
			}
		}
	}

	nspell := vh.N(60, 2000)
	for i := 0; i < nspell; i++ {
		what := []string{"code", "refresh"}[i%2]
		checkSpell(c23Spell{Kind: "spellings", What: what, Spellings: c23SpellingsOf(rng, ""), Parallel: i%4 >= 2}, rng)
	}

	if r.Counters["issuance.tokens_where_the_property_allows"] == 0 {
		r.Inconcl("no issued code ever yielded tokens for its matching verifier: refusals observed prove nothing")
	}

	if r.Counters["spellings.responses_with_tokens"] == 0 {
		r.Inconcl("no spelling of any code or refresh token ever yielded tokens")
	}

	if r.Counters["authorize.issued"] == 0 {
		t.Fatal("observed nothing: the authorize handlers never issued a code")
	}

	if err := r.Write(); err != nil {
		t.Fatal(err)
	}
}
