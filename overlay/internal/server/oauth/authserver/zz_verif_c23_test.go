package authserver

// C23 — OAuth codes and refresh tokens are single-use.
//
// In-package runtime monitor (needs storeCode, clients, asGlobalConfig). Built with -race.
//
// Contention rounds: an authorization code (or a refresh token) is issued, then
// N in {2,4,8,16} goroutines are released by one barrier and each sends the same
// well-formed token request through the real TokenHandler. The monitor counts the
// responses that carry tokens: at most one per code / refresh token. Every call is
// stamped (call, return) from one atomic counter and an OnEvict listener on the
// caches package stamps the moment the entry is actually deleted, so the evidence
// says in how many rounds two or more requests were already inside the handler
// when the entry was deleted (the window in which a find-then-delete implementation
// double-redeems). A run in which that never happened is inconclusive.
//
// PKCE cells: a code issued with an S256 challenge is presented with the right
// verifier (control), with near-misses of it, with other verifiers of every length
// 43..128 and character class, empty and absent: tokens only for the exact verifier.

import (
	"crypto/sha256"
	"encoding/base64"
	"encoding/json"
	"fmt"
	"math/rand"
	"net/http"
	"net/http/httptest"
	"net/url"
	"os"
	"path/filepath"
	"runtime"
	"strings"
	"sync"
	"sync/atomic"
	"testing"
	"time"

	"github.com/tucats/ego/internal/caches"
	"github.com/tucats/ego/internal/router"
	"github.com/tucats/ego/internal/verifh/vh"
	"golang.org/x/crypto/bcrypt"
)

const (
	c23Redirect   = "https://app.example.com/cb"
	c23ConfSecret = "s3cret-for-conf"
)

func c23Setup(t *testing.T) {
	t.Helper()

	dir := os.Getenv("VERIF_ARENA")
	if dir == "" {
		dir = t.TempDir()
	}

	if err := loadOrGenerateKey(filepath.Join(dir, fmt.Sprintf("c23-%d.pem", os.Getpid()))); err != nil {
		t.Fatalf("key setup: %v", err)
	}

	asGlobalConfig = asConfig{Issuer: "https://ego.test", TokenExpiration: time.Hour, RefreshExpiration: time.Hour, CodeExpiration: 5 * time.Minute}

	// cost-4 hash made here: the default cost would dominate every request under -race
	hash, err := bcrypt.GenerateFromPassword([]byte(c23ConfSecret), bcrypt.MinCost)
	if err != nil {
		t.Fatal(err)
	}

	clients = []OAuthClient{
		{ClientID: "pub", RedirectURIs: []string{c23Redirect}, GrantTypes: []string{"authorization_code", "refresh_token"}, Scopes: []string{"openid"}},
		{ClientID: "conf", ClientSecretHash: string(hash), RedirectURIs: []string{c23Redirect}, GrantTypes: []string{"authorization_code", "refresh_token"}, Scopes: []string{"openid"}},
	}

	// what RegisterRoutes does for the two single-use caches
	_ = caches.SetExpiration(caches.OAuthCodeCache, "300s")
	_ = caches.SetExpiration(caches.OAuthRefreshCache, "3600s")
}

func c23Challenge(verifier string) string {
	h := sha256.Sum256([]byte(verifier))

	return base64.RawURLEncoding.EncodeToString(h[:])
}

// c23Post sends one form through the real TokenHandler; ok = the response carries tokens.
func c23Post(id int, form url.Values) (ok bool, status int, resp tokenResponse) {
	req := httptest.NewRequest(http.MethodPost, "/oauth2/token", strings.NewReader(form.Encode()))
	req.Header.Set("Content-Type", "application/x-www-form-urlencoded")

	w := httptest.NewRecorder()
	status = TokenHandler(&router.Session{ID: id}, w, req)

	if w.Code == http.StatusOK {
		_ = json.Unmarshal(w.Body.Bytes(), &resp)
	}

	return w.Code == http.StatusOK && resp.AccessToken != "", status, resp
}

const c23Verifier = "dBjftJeZ4CVP-mB92K27uhbUJU1p1r_wW1gFWFOEjXk"

// c23IssueCode stores a pending authorization exactly as AuthorizePostHandler does.
func c23IssueCode(client string, pkce bool) (code string, form url.Values) {
	code, _ = generateCode()
	p := PendingAuthorization{ClientID: client, RedirectURI: c23Redirect, Scopes: []string{"openid"}, Username: "alice", IssuedAt: time.Now()}

	form = url.Values{}
	form.Set("grant_type", "authorization_code")
	form.Set("client_id", client)
	form.Set("code", code)
	form.Set("redirect_uri", c23Redirect)

	if client == "conf" {
		form.Set("client_secret", c23ConfSecret)
	}

	if pkce {
		p.CodeChallenge, p.CodeChallengeMethod = c23Challenge(c23Verifier), "S256"
		form.Set("code_verifier", c23Verifier)
	}

	storeCode(code, p)

	return code, form
}

type c23Round struct {
	Kind   string `json:"kind"`   // "code" | "refresh"
	N      int    `json:"n"`      // concurrent presenters
	Client string `json:"client"` // "pub" (PKCE) | "conf" | "conf+pkce"
	Via    string `json:"via"`    // refresh token obtained "exchange" (from a real code exchange) | "direct" (generateRefreshToken)
}

type c23Outcome struct {
	successes     int
	deleteReports int
	enteredBefore int // calls whose call stamp precedes the first delete
	statuses      map[int]int
	setupFailed   bool
}

var (
	c23Stamp       atomic.Int64
	c23Target      atomic.Value // string: cache key watched in this round
	c23FirstDelete atomic.Int64
	c23Deletes     atomic.Int32
)

func c23Listener(id int, key any, _ any) {
	if id != caches.OAuthCodeCache && id != caches.OAuthRefreshCache {
		return
	}

	if k, _ := key.(string); k != "" && k == c23Target.Load().(string) {
		c23FirstDelete.CompareAndSwap(0, c23Stamp.Add(1))
		c23Deletes.Add(1)
	}
}

type c23Rec struct {
	call, ret int64
	ok        bool
	status    int
}

type c23Job struct {
	form        url.Values
	id          int
	start       chan struct{}
	ready, done *sync.WaitGroup
	rec         *c23Rec
}

// a fixed pool of 16 presenter goroutines (creating goroutines per round is the
// dominant cost under the race detector); each round hands a job to N of them.
var (
	c23Jobs     [16]chan c23Job
	c23PoolOnce sync.Once
)

func c23StartPool() {
	c23PoolOnce.Do(func() {
		for g := range c23Jobs {
			c23Jobs[g] = make(chan c23Job)

			go func(ch chan c23Job) {
				for job := range ch {
					job.ready.Done()
					<-job.start

					call := c23Stamp.Add(1)
					ok, status, _ := c23Post(job.id, job.form)
					*job.rec = c23Rec{call: call, ret: c23Stamp.Add(1), ok: ok, status: status}

					job.done.Done()
				}
			}(c23Jobs[g])
		}
	})
}

func c23Run(rd c23Round, seq int) c23Outcome {
	out := c23Outcome{statuses: map[int]int{}}
	client := strings.TrimSuffix(rd.Client, "+pkce")
	pkce := rd.Client == "pub" || strings.HasSuffix(rd.Client, "+pkce")

	var (
		form   url.Values
		target string
	)

	switch rd.Kind {
	case "code":
		target, form = c23IssueCode(client, pkce)
	case "refresh":
		if rd.Via == "exchange" {
			_, cform := c23IssueCode(client, pkce)

			ok, _, resp := c23Post(seq, cform)
			if !ok || resp.RefreshToken == "" {
				out.setupFailed = true

				return out
			}

			target = resp.RefreshToken
		} else {
			target, _ = generateRefreshToken(client, "alice", []string{"openid"})
		}

		form = url.Values{}
		form.Set("grant_type", "refresh_token")
		form.Set("client_id", client)
		form.Set("refresh_token", target)

		if client == "conf" {
			form.Set("client_secret", c23ConfSecret)
		}
	}

	c23Target.Store(target)
	c23FirstDelete.Store(0)
	c23Deletes.Store(0)

	var (
		ready, done sync.WaitGroup
		start       = make(chan struct{})
		recs        = make([]c23Rec, rd.N)
	)

	ready.Add(rd.N)
	done.Add(rd.N)
	c23StartPool()

	for g := 0; g < rd.N; g++ {
		c23Jobs[g] <- c23Job{form: form, id: seq*100 + g, start: start, ready: &ready, done: &done, rec: &recs[g]}
	}

	ready.Wait() // every presenter is parked on the barrier
	close(start)
	done.Wait()

	first := c23FirstDelete.Load()
	out.deleteReports = int(c23Deletes.Load())

	for _, rc := range recs {
		if rc.ok {
			out.successes++
		}

		out.statuses[rc.status]++

		if first != 0 && rc.call < first {
			out.enteredBefore++
		}
	}

	// the tokens issued in this round are of no further use; keep the caches small
	caches.PurgeLocal(caches.OAuthRefreshCache)
	caches.PurgeLocal(caches.OAuthCodeCache)
	_ = caches.SetExpiration(caches.OAuthCodeCache, "300s")
	_ = caches.SetExpiration(caches.OAuthRefreshCache, "3600s")

	return out
}

func c23GenRound(rng *rand.Rand) c23Round {
	rd := c23Round{N: []int{2, 4, 8, 16}[rng.Intn(4)], Kind: "code", Via: "-"}
	rd.Client = "pub"

	// confidential clients in 1 round of 16: the bcrypt check of the client secret costs
	// ~15 ms per request under the race detector and precedes the code lookup
	if p := rng.Intn(16); p == 0 {
		rd.Client = "conf"
	} else if p == 1 {
		rd.Client = "conf+pkce"
	}

	if rng.Intn(2) == 0 {
		rd.Kind = "refresh"
		rd.Via = []string{"exchange", "direct"}[rng.Intn(2)]
	}

	return rd
}

func TestC23Contention(t *testing.T) {
	r := vh.New("C23", "contention")
	r.Rule = "round = (code|refresh token, N in {2,4,8,16} presenters, client in {public+PKCE, confidential, confidential+PKCE}, refresh token from a real exchange or generateRefreshToken); all N send the same well-formed request through TokenHandler after one barrier; " +
		"distinct = (round configuration, number of calls inside the handler before the first delete); non-trivial = at least two calls had entered the handler before the entry was deleted"
	r.Assume("codes are issued with the package's own storeCode (what AuthorizePostHandler calls); a response 'carries tokens' when it is 200 with a non-empty access_token")
	r.Assume("the OnEvict listener of internal/caches reports the instant of the actual deletion; per-call stamps come from one atomic counter")

	c23Setup(t)
	caches.SetOnEvict(c23Listener)

	defer caches.SetOnEvict(nil)

	c23Target.Store("")

	doRound := func(rd c23Round, seq int) {
		o := c23Run(rd, seq)
		if o.setupFailed {
			r.Count("rounds.setup_failed", 1)

			return
		}

		contended := o.enteredBefore >= 2
		r.Eval(fmt.Sprintf("%+v/%d", rd, o.enteredBefore), contended)
		r.Count("rounds", 1)
		r.Count(fmt.Sprintf("rounds.%s.n%d", rd.Kind, rd.N), 1)
		r.Count("calls", int64(rd.N))
		r.Count("responses_with_tokens", int64(o.successes))
		r.Count("delete_reports", int64(o.deleteReports))

		if contended {
			r.Count("rounds.two_or_more_calls_inside_before_first_delete", 1)
			r.Count("rounds.two_or_more_calls_inside_before_first_delete."+rd.Kind, 1)
		}

		if o.successes == 0 {
			r.Count("rounds.no_success_at_all", 1)
		}

		if o.successes > 1 {
			r.Count("rounds.redeemed_more_than_once."+rd.Kind, 1)
			r.Violate(vh.Violation{Key: "double-redemption:" + rd.Kind,
				Desc:     fmt.Sprintf("%d of %d concurrent token requests presenting the same %s received tokens (statuses %v; %d calls were inside the handler before the entry was deleted)", o.successes, rd.N, map[string]string{"code": "authorization code", "refresh": "refresh token"}[rd.Kind], o.statuses, o.enteredBefore),
				Case:     rd,
				Expected: "at most 1 response with tokens", Observed: fmt.Sprintf("%d responses with tokens", o.successes)})
		}

		if o.deleteReports > 1 {
			r.Violate(vh.Violation{Key: "deleted-twice:" + rd.Kind, Desc: fmt.Sprintf("the cache reported %d deletions of one %s entry", o.deleteReports, rd.Kind), Case: rd})
		}

		if r.Evaluations%499 == 1 {
			r.Sample(map[string]any{"round": rd, "responses_with_tokens": o.successes, "statuses": o.statuses, "calls_inside_before_first_delete": o.enteredBefore, "delete_reports": o.deleteReports})
		}
	}

	if c := vh.ReplayCase(); c != nil {
		var rd c23Round
		if err := json.Unmarshal(c, &rd); err != nil || rd.N == 0 {
			r.Note("replay case is not a contention round; this part ran nothing")
			_ = r.Write()

			return
		}

		for i := 0; i < 2000; i++ { // a schedule cannot be replayed: the configuration is rerun
			doRound(rd, i)
		}

		r.Distinct = 2
		_ = r.Write()

		return
	}

	rng := vh.Rand("c23-rounds")
	n := vh.N(2000, 70000) // per GOMAXPROCS variant (thorough runs 3 variants: 210 000 rounds)

	for i := 0; i < n; i++ {
		doRound(c23GenRound(rng), i)

		if i%20000 == 19999 {
			_ = r.Write()
		}
	}

	r.Count("gomaxprocs", int64(runtime.GOMAXPROCS(0)))

	if r.Counters["rounds.two_or_more_calls_inside_before_first_delete.code"] == 0 || r.Counters["rounds.two_or_more_calls_inside_before_first_delete.refresh"] == 0 {
		r.Inconcl("in no round were two requests inside the handler before the entry was deleted: the contended interleaving was not reached")
	}

	if r.Counters["responses_with_tokens"] == 0 {
		t.Fatal("observed nothing: no token request ever succeeded")
	}

	if err := r.Write(); err != nil {
		t.Fatal(err)
	}
}

// ---------------------------------------------------------------------------
// PKCE cells
// ---------------------------------------------------------------------------

const c23Unreserved = "ABCDEFGHIJKLMNOPQRSTUVWXYZabcdefghijklmnopqrstuvwxyz0123456789-._~"

func c23RandVerifier(rng *rand.Rand, n int, alphabet string) string {
	b := make([]byte, n)
	for i := range b {
		b[i] = alphabet[rng.Intn(len(alphabet))]
	}

	return string(b)
}

type c23Cell struct {
	Client    string `json:"client"`
	Verifier  string `json:"verifier"`  // the one the challenge was made from
	Presented string `json:"presented"` // what the token request sends
	Absent    bool   `json:"absent"`    // no code_verifier field at all
	Class     string `json:"class"`
}

func TestC23PKCE(t *testing.T) {
	r := vh.New("C23", "pkce")
	r.Rule = "cell = (client, verifier V of every length 43..128 over the unreserved alphabet and over single-class alphabets, presented W); W ranges over V (control) and near-misses: one character substituted / case-flipped / dropped / appended / two swapped, surrounding blank, other verifier of the same length, the challenge itself, empty, absent; " +
		"distinct = (client, V, W); non-trivial = W differs from V (a refusal is demanded)"
	r.Assume("S256(W) = S256(V) only for W = V (SHA-256 collision resistance)")

	c23Setup(t)

	check := func(c c23Cell) {
		code, _ := generateCode()
		storeCode(code, PendingAuthorization{ClientID: c.Client, RedirectURI: c23Redirect, Scopes: []string{"openid"}, Username: "alice",
			CodeChallenge: c23Challenge(c.Verifier), CodeChallengeMethod: "S256", IssuedAt: time.Now()})

		form := url.Values{}
		form.Set("grant_type", "authorization_code")
		form.Set("client_id", c.Client)
		form.Set("code", code)
		form.Set("redirect_uri", c23Redirect)

		if c.Client == "conf" {
			form.Set("client_secret", c23ConfSecret)
		}

		if !c.Absent {
			form.Set("code_verifier", c.Presented)
		}

		ok, status, _ := c23Post(1, form)
		match := !c.Absent && c.Presented == c.Verifier

		r.Eval(vh.Hash(c.Client, c.Verifier, c.Presented, c.Absent), !match)
		r.Count("cells."+c.Class, 1)

		switch {
		case ok && !match:
			r.Violate(vh.Violation{Key: "pkce:tokens-without-matching-verifier:" + c.Class,
				Desc: fmt.Sprintf("code issued with challenge S256(%q) yielded tokens for code_verifier %q (absent=%v)", c.Verifier, c.Presented, c.Absent), Case: c,
				Expected: "no tokens", Observed: fmt.Sprintf("status %d with access_token", status)})
		case ok:
			r.Count("control.accepted", 1)
		case match:
			r.Count("control.refused", 1)
			r.Note(fmt.Sprintf("control refused (status %d): the exact verifier of length %d (class %s) did not yield tokens — outside the property's 'only with', recorded for information", status, len(c.Verifier), c.Class))
		default:
			r.Count("refused", 1)
		}

		if r.Evaluations%997 == 1 {
			r.Sample(map[string]any{"cell": c, "tokens": ok, "status": status})
		}

		caches.PurgeLocal(caches.OAuthRefreshCache)
	}

	if c := vh.ReplayCase(); c != nil {
		var cell c23Cell
		if err := json.Unmarshal(c, &cell); err != nil || cell.Class == "" {
			r.Note("replay case is not a PKCE cell; this part ran nothing")
			_ = r.Write()

			return
		}

		check(cell)
		r.Distinct = 2
		_ = r.Write()

		return
	}

	rng := vh.Rand("c23-pkce")
	alphabets := map[string]string{"unreserved": c23Unreserved, "upper": c23Unreserved[:26], "lower": c23Unreserved[26:52], "digits": c23Unreserved[52:62], "punct": "-._~"}
	reps := vh.N(1, 12)

	for rep := 0; rep < reps; rep++ {
		for n := 43; n <= 128; n++ {
			for _, an := range []string{"unreserved", "upper", "lower", "digits", "punct"} {
				if an != "unreserved" && (n+rep)%4 != 0 && n != 43 && n != 128 {
					continue // single-class alphabets: every 4th length plus both ends
				}

				v := c23RandVerifier(rng, n, alphabets[an])
				client := []string{"pub", "conf"}[rng.Intn(2)]

				if client == "conf" && n%8 != 0 {
					client = "pub" // bcrypt on every confidential request is the cost driver
				}

				i := rng.Intn(n)
				sub := v[:i] + string(c23Unreserved[(strings.IndexByte(c23Unreserved, v[i])+1)%len(c23Unreserved)]) + v[i+1:]
				flip := v[:i] + strings.ToUpper(v[i:i+1]) + v[i+1:]

				if flip == v {
					flip = v[:i] + strings.ToLower(v[i:i+1]) + v[i+1:]
				}

				j := (i + 1) % n
				sw := []byte(v)
				sw[i], sw[j] = sw[j], sw[i]

				cells := []c23Cell{
					{Presented: v, Class: "exact"},
					{Presented: sub, Class: "one-char-substituted"},
					{Presented: flip, Class: "case-flipped"},
					{Presented: v[:i] + v[i+1:], Class: "one-char-dropped"},
					{Presented: v[:n-1], Class: "last-char-dropped"},
					{Presented: v + "A", Class: "one-char-appended"},
					{Presented: string(sw), Class: "two-chars-swapped"},
					{Presented: v + " ", Class: "trailing-blank"},
					{Presented: " " + v, Class: "leading-blank"},
					{Presented: v + "\n", Class: "trailing-newline"},
					{Presented: c23RandVerifier(rng, n, alphabets[an]), Class: "other-same-length"},
					{Presented: c23Challenge(v), Class: "the-challenge-itself"},
					{Presented: url.QueryEscape(v + "%"), Class: "escaped-form"},
					{Presented: "", Class: "empty"},
					{Absent: true, Class: "absent"},
				}

				for _, c := range cells {
					if c.Presented == v && c.Class != "exact" {
						continue // e.g. swap of two equal characters, case flip of a digit
					}

					c.Client, c.Verifier = client, v
					check(c)
				}
			}
		}
	}

	if r.Counters["control.accepted"] == 0 {
		r.Inconcl("no control cell (exact verifier) was accepted: refusals observed prove nothing")
	}

	if r.Evaluations == 0 {
		t.Fatal("observed nothing")
	}

	if err := r.Write(); err != nil {
		t.Fatal(err)
	}
}
