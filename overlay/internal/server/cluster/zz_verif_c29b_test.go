package cluster

// C29, node part, histories with OVERLAPPING purges and membership changes.
//
// overlap: the membership list has >= 2 active peers and one that is NOT first in the list
//   runs script "hold": it records a flush on arrival and answers only when the monitor
//   releases it. Purge P1 is issued; once its broadcast is parked at the held peer (every
//   live broadcast goroutine has a request parked there: decided from runtime.Stack and the
//   peer's own counter, not from the clock) the monitor issues P2 (same cache class), P3
//   (another class) and sometimes P4 (the first class again) while P1's broadcast is still
//   in progress. Then the held peer is released and the node runs to quiescence.
// join / leave: P1 runs to quiescence; "another process" (a second connection to the system
//   database) inserts an active peer row / marks a peer removed; P2 follows at once.
//
// Every purge call and every flush arrival is stamped from ONE counter (c29Log.seq).
// Oracle per purge P and per active peer Q (member when P was called): Q received at least
// one flush for P's cache whose arrival stamp is greater than P's stamp. Bound: per cache
// class and peer, flushes <= purges of that class (so <= peers per purge). A peer that
// joined before P2 must get a flush stamped after P2; a peer removed before P2 must get
// nothing stamped after the removal.
import (
	"database/sql"
	"fmt"
	"math/rand"
	"runtime"
	"strings"
	"time"

	"github.com/tucats/ego/internal/caches"
	"github.com/tucats/ego/internal/verifh/vh"
)

func (l *c29Log) stamp() int64 {
	l.mu.Lock()
	defer l.mu.Unlock()

	l.seq++

	return l.seq
}

// c29LiveBroadcasts counts the goroutines started by caches.purge that still exist
// (running the hook, or not yet scheduled).
func c29LiveBroadcasts() int {
	n := runtime.Stack(c29StackBuf, true)
	count := 0

	for _, g := range strings.Split(string(c29StackBuf[:n]), "\n\n") {
		if strings.Contains(g, "created by github.com/tucats/ego/internal/caches.purge") ||
			strings.Contains(g, "created by github.com/tucats/ego/internal/caches.Purge") {
			count++
		}
	}

	return count
}

// parked waits until every live broadcast has a request parked at the held peer (or none
// is alive). false = watchdog.
func (e *c29Env) parked(hold *c29Peer) bool {
	deadline := time.Now().Add(60 * time.Second)

	for i := 0; ; i++ {
		live := c29LiveBroadcasts()
		if int64(live) == hold.held.Load() {
			return true
		}

		if time.Now().After(deadline) {
			return false
		}

		if i < 50 {
			runtime.Gosched()
		} else {
			time.Sleep(300 * time.Microsecond)
		}
	}
}

type c29Stamped struct {
	c29Purge
	Stamp int64
}

// checkStamped applies the per-purge oracle. members(i) says whether row i was an active
// member when purge k was called.
func (e *c29Env) checkStamped(c c29Case, purges []c29Stamped, msgs []c29Msg, member func(purge int, row c29Row) bool, keyPrefix string) {
	r := e.r

	for k, p := range purges {
		for _, row := range c.Rows {
			if row.Self || row.Cluster != c29ClusterName || row.State != ActiveState || row.Peer < 0 || !member(k, row) {
				continue
			}

			found := false

			for _, m := range msgs {
				if m.Peer == row.Peer && m.Path == c29FlushPath && !m.BadDoc && m.Req.CacheID == p.CacheID && m.Seq > p.Stamp {
					found = true

					break
				}
			}

			r.Count(keyPrefix+".per_purge_peer_checks", 1)

			if !found {
				key := keyPrefix + ":peer-got-no-flush-after-purge"
				if row.Late {
					key = keyPrefix + ":new-peer-missed"
				}

				r.Violate(vh.Violation{Key: key,
					Desc: fmt.Sprintf("purge #%d (cache %d, stamp %d): active peer %s (script %s) received no flush for that cache arriving after the purge was called, although the node is quiescent",
						k+1, p.CacheID, p.Stamp, row.NodeID, row.Mode),
					Case: c, Expected: ">=1 flush with arrival stamp > purge stamp", Observed: c29Arrivals(msgs, row.Peer, p.CacheID)})
			}
		}
	}

	// bound: per cache class and listener, flushes <= purges of that class; nothing for other classes
	perClass := map[int]int{}
	for _, p := range purges {
		perClass[p.CacheID]++
	}

	type pc struct{ peer, cache int }

	counts := map[pc]int{}

	for _, m := range msgs {
		if m.Path != c29FlushPath || m.BadDoc {
			continue
		}

		r.Count(keyPrefix+".flush_messages", 1)

		counts[pc{m.Peer, m.Req.CacheID}]++

		if m.Req.SenderID != NodeID {
			r.Violate(vh.Violation{Key: "origin:sender-id-not-origin", Desc: fmt.Sprintf("flush carries sender_id %q", m.Req.SenderID), Case: c})
		}
	}

	for k, n := range counts {
		if n > perClass[k.cache] {
			r.Violate(vh.Violation{Key: keyPrefix + ":more-flushes-than-purges",
				Desc: fmt.Sprintf("listener %d received %d flushes for cache %d, which was purged %d time(s)", k.peer, n, k.cache, perClass[k.cache]), Case: c,
				Expected: fmt.Sprintf("<=%d", perClass[k.cache]), Observed: n})
		}
	}

	for _, row := range c.Rows {
		if row.Peer < 0 || (!row.Self && row.Cluster == c29ClusterName && (row.State == ActiveState || row.Late)) {
			continue
		}

		for k, n := range counts {
			if k.peer == row.Peer && n > 0 {
				r.Violate(vh.Violation{Key: "origin:flush-to-non-peer:" + map[bool]string{true: "self", false: "inactive-or-other"}[row.Self],
					Desc: fmt.Sprintf("%d flush(es) for cache %d sent to row %s (cluster %s, state %s, self %v)", n, k.cache, row.NodeID, row.Cluster, row.State, row.Self), Case: c})
			}
		}
	}
}

func c29Arrivals(msgs []c29Msg, peer, cache int) []int64 {
	out := []int64{}

	for _, m := range msgs {
		if m.Peer == peer && m.Req.CacheID == cache && m.Path == c29FlushPath {
			out = append(out, m.Seq)
		}
	}

	return out
}

func (e *c29Env) purgeStamped(p c29Purge) c29Stamped {
	if p.Populate {
		caches.Add(p.CacheID, "k", "v")
	}

	s := c29Stamped{c29Purge: p, Stamp: e.log.stamp()}

	caches.Purge(p.CacheID)

	return s
}

func (e *c29Env) runOverlap(c c29Case) {
	r := e.r
	e.writeRows(c.Rows)

	defer e.releaseHangs()

	var hold *c29Peer

	for _, row := range c.Rows {
		if row.Mode == c29ModeHold && row.Peer >= 0 {
			hold = e.peers[row.Peer]
		}
	}

	if hold == nil || len(c.Purges) < 2 {
		return
	}

	mark := e.log.mark()
	e.caseMark = mark

	var stamped []c29Stamped

	stamped = append(stamped, e.purgeStamped(c.Purges[0]))

	if !e.parked(hold) {
		r.Inconcl("overlap: first broadcast did not park at the held peer within the watchdog")

		return
	}

	inProgress := hold.held.Load()

	for _, p := range c.Purges[1:] {
		stamped = append(stamped, e.purgeStamped(p))
	}

	if !e.parked(hold) {
		r.Inconcl("overlap: later broadcasts did not park within the watchdog")

		return
	}

	parkedNow := hold.held.Load()

	e.releaseHangs()

	if !e.quiesce() {
		r.Inconcl("overlap: node did not become quiescent within the watchdog")

		return
	}

	msgs := e.log.since(mark)

	r.Eval("overlap/"+vh.Hash(c), true)
	r.Count("overlap.cases", 1)
	r.Count("overlap.purges", int64(len(stamped)))
	r.Max("overlap.max_broadcasts_parked_at_once", parkedNow)

	if inProgress >= 1 {
		r.Count("overlap.later_purges_issued_while_first_in_progress", int64(len(stamped)-1))
	} else {
		r.Count("overlap.first_broadcast_not_in_progress(no overlap observed)", 1)
	}

	for _, p := range stamped {
		if n := caches.Size(p.CacheID); n != 0 {
			r.Violate(vh.Violation{Key: "origin:local-cache-kept", Desc: fmt.Sprintf("caches.Purge(%d) left %d items in the local cache", p.CacheID, n), Case: c})
		}
	}

	e.checkStamped(c, stamped, msgs, func(int, c29Row) bool { return true }, "overlap")

	if r.Counters["overlap.cases"]%17 == 1 {
		r.Sample(map[string]any{"case": c, "purge_stamps": stamped, "arrivals_at_held_peer": c29Arrivals(msgs, hold.idx, c.Purges[0].CacheID), "parked_at_once": parkedNow})
	}
}

func (e *c29Env) other() *sql.DB {
	if e.otherDB == nil {
		db, err := sql.Open("sqlite", e.dbPath)
		if err != nil {
			e.t.Fatalf("second connection: %v", err)
		}

		db.SetMaxOpenConns(1) // so that the pragma below holds for every statement
		_, _ = db.Exec("PRAGMA busy_timeout=10000;")
		e.otherDB = db
	}

	return e.otherDB
}

// runMembership: P1 to quiescence, a membership change made by "another process", P2 at once.
func (e *c29Env) runMembership(c c29Case) {
	r := e.r
	e.writeRows(c.Rows)

	defer e.releaseHangs()

	if len(c.Purges) != 2 {
		return
	}

	mark := e.log.mark()
	e.caseMark = mark

	p1 := e.purgeStamped(c.Purges[0])

	if !e.quiesce() {
		r.Inconcl("membership: node did not become quiescent within the watchdog")

		return
	}

	// the change, through a connection of its own
	for i, row := range c.Rows {
		switch {
		case row.Late:
			ts := time.Date(2024, 1, 1, 0, 0, i, 0, time.UTC).Format(time.RFC3339)
			port := e.closed

			if row.Peer >= 0 {
				port = e.peers[row.Peer].port
			}

			if _, err := e.other().Exec(`INSERT INTO cluster (name, node_id, host, port, scheme, joined_at, last_seen, state) VALUES (?,?,?,?,?,?,?,?)`,
				row.Cluster, row.NodeID, "127.0.0.1", port, "http", ts, ts, ActiveState); err != nil {
				e.t.Fatalf("insert late row: %v", err)
			}
		case row.Leaves:
			if _, err := e.other().Exec(`UPDATE cluster SET state = 'removed' WHERE node_id = ?`, row.NodeID); err != nil {
				e.t.Fatalf("remove row: %v", err)
			}
		}
	}

	changed := e.log.stamp()
	p2 := e.purgeStamped(c.Purges[1])

	if !e.quiesce() {
		r.Inconcl("membership: node did not become quiescent within the watchdog")

		return
	}

	msgs := e.log.since(mark)

	r.Eval(c.Kind+"/"+vh.Hash(c), true)
	r.Count("membership.cases:"+c.Kind, 1)

	member := func(k int, row c29Row) bool {
		if row.Late {
			return k == 1 && row.State == ActiveState
		}

		if row.Leaves {
			return k == 0
		}

		return row.State == ActiveState
	}

	// perClass bound uses both purges; a late/leaving peer is entitled to one of them only
	e.checkStamped(c, []c29Stamped{p1, p2}, msgs, member, "membership")

	for _, row := range c.Rows {
		if row.Peer < 0 {
			continue
		}

		for _, m := range msgs {
			if m.Peer != row.Peer || m.Path != c29FlushPath {
				continue
			}

			if row.Leaves && m.Seq > changed {
				r.Violate(vh.Violation{Key: "membership:flush-to-removed-peer",
					Desc: fmt.Sprintf("peer %s was marked removed (stamp %d) before the second purge (stamp %d) and still received a flush at stamp %d", row.NodeID, changed, p2.Stamp, m.Seq), Case: c})
			}

			if row.Late && m.Seq < changed {
				r.Violate(vh.Violation{Key: "membership:flush-before-join", Desc: fmt.Sprintf("peer %s received a flush (stamp %d) before its row existed (stamp %d)", row.NodeID, m.Seq, changed), Case: c})
			}
		}

		if row.Leaves {
			r.Count("membership.removed_peer_checks", 1)
		}

		if row.Late {
			r.Count("membership.new_peer_checks", 1)
		}
	}

	if r.Counters["membership.cases:"+c.Kind]%13 == 1 {
		r.Sample(map[string]any{"case": c, "stamps": map[string]int64{"purge1": p1.Stamp, "change": changed, "purge2": p2.Stamp}, "messages": len(msgs)})
	}
}

// runHistories generates and runs the overlap / join / leave cases.
func (e *c29Env) runHistories(rng *rand.Rand, cacheIDs []int) {
	answering := []string{c29ModeOK, c29ModeOK, c29Mode500, c29ModeDrop, c29ModeSlow}

	nOverlap := vh.N(40, 400)
	for i := 0; i < nOverlap; i++ {
		nPeers := 2 + rng.Intn(3)
		holdAt := 1 + rng.Intn(nPeers-1) // never first in the list
		rows := []c29Row{{NodeID: NodeID, Cluster: c29ClusterName, State: ActiveState, Peer: 0, Mode: c29ModeOK, Self: true}}

		for j := 0; j < nPeers; j++ {
			mode := answering[rng.Intn(len(answering))]
			if j == holdAt {
				mode = c29ModeHold
			}

			rows = append(rows, c29Row{NodeID: fmt.Sprintf("ov-%d-%d", i, j), Cluster: c29ClusterName, State: ActiveState, Peer: 1 + j, Mode: mode})
		}

		if rng.Intn(3) == 0 {
			rows = append(rows, c29Row{NodeID: fmt.Sprintf("ov-%d-gone", i), Cluster: c29ClusterName, State: RemovedState, Peer: 1 + nPeers, Mode: c29ModeOK})
		}

		// the node's own row may sit anywhere; peers keep their relative order (holdAt stays >= 1 among peers)
		self := rows[0]
		rest := rows[1:]
		at := rng.Intn(len(rest) + 1)
		rows = append(append(append([]c29Row{}, rest[:at]...), self), rest[at:]...)

		perm := rng.Perm(len(cacheIDs))
		x, y := cacheIDs[perm[0]], cacheIDs[perm[1]]
		purges := []c29Purge{{CacheID: x, Populate: rng.Intn(2) == 0}, {CacheID: x, Populate: rng.Intn(2) == 0}}

		if rng.Intn(4) > 0 {
			purges = append(purges, c29Purge{CacheID: y, Populate: rng.Intn(2) == 0})
		}

		if rng.Intn(3) == 0 {
			purges = append(purges, c29Purge{CacheID: x, Populate: true})
		}

		rng.Shuffle(len(purges)-1, func(a, b int) { purges[1+a], purges[1+b] = purges[1+b], purges[1+a] })

		e.runOverlap(c29Case{Kind: "overlap", Rows: rows, Purges: purges})
	}

	nMember := vh.N(30, 300)
	for i := 0; i < nMember; i++ {
		kind := []string{"join", "leave"}[i%2]
		nPeers := 1 + rng.Intn(3)
		rows := []c29Row{{NodeID: NodeID, Cluster: c29ClusterName, State: ActiveState, Peer: 0, Mode: c29ModeOK, Self: true}}

		for j := 0; j < nPeers; j++ {
			rows = append(rows, c29Row{NodeID: fmt.Sprintf("mb-%d-%d", i, j), Cluster: c29ClusterName, State: ActiveState, Peer: 1 + j, Mode: answering[rng.Intn(len(answering))]})
		}

		if kind == "join" {
			rows = append(rows, c29Row{NodeID: fmt.Sprintf("mb-%d-new", i), Cluster: c29ClusterName, State: ActiveState, Peer: 1 + nPeers, Mode: answering[rng.Intn(len(answering))], Late: true})
		} else {
			rows[1+rng.Intn(nPeers)].Leaves = true
		}

		rng.Shuffle(len(rows), func(a, b int) { rows[a], rows[b] = rows[b], rows[a] })

		x := cacheIDs[rng.Intn(len(cacheIDs))]
		y := x

		if rng.Intn(3) == 0 {
			y = cacheIDs[rng.Intn(len(cacheIDs))]
		}

		e.runMembership(c29Case{Kind: kind, Rows: rows, Purges: []c29Purge{{CacheID: x, Populate: true}, {CacheID: y, Populate: rng.Intn(2) == 0}}})
	}
}
