package cluster

// C29, node part, histories with the REAL health checker running (StartHealthChecker with
// ego.cluster.ping.interval = 300ms, ping timeout 1.5s).
//
// ping-failed: a peer fails one or two consecutive pings (answers 503 / closes the connection /
//   lets the ping time out), which is fewer than the eviction threshold, so it stays an active
//   member; a purge is issued as soon as the peer has seen the failed ping. Oracle as for every
//   purge: the peer was an active member when the purge was called (state read from the system
//   database before and after), so a flush for that cache must arrive at it after the call.
// evicted: the peer fails every ping until the checker marks it removed; a purge issued after
//   the removal was observed must send it nothing.
//
// Waiting for "the checker has pinged" is waiting for an event of the real-time checker; the
// deadline is a watchdog (inconclusive), no verdict depends on a duration.
import (
	"fmt"
	"math/rand"
	"net/http"
	"time"

	"github.com/tucats/ego/internal/cli/settings"
	"github.com/tucats/ego/internal/defs"
	"github.com/tucats/ego/internal/verifh/vh"
)

func (p *c29Peer) servePing(w http.ResponseWriter, r *http.Request) {
	if p.pingFail.Load() > 0 {
		kind, _ := p.pingKind.Load().(string)

		switch kind {
		case "close":
			if hj, ok := w.(http.Hijacker); ok {
				if conn, _, err := hj.Hijack(); err == nil {
					_ = conn.Close()
				}
			}
		case "timeout":
			<-r.Context().Done()
		default:
			w.WriteHeader(http.StatusServiceUnavailable)
		}

		p.pingFail.Add(-1)
		p.pingsBad.Add(1)

		return
	}

	w.WriteHeader(http.StatusOK)
	_, _ = w.Write([]byte(`{"status":200}`))
	p.pingsOK.Add(1)
}

func (e *c29Env) rowState(nodeID string) string {
	var state string

	_ = e.other().QueryRow(`SELECT state FROM cluster WHERE node_id = ?`, nodeID).Scan(&state)

	return state
}

// waitUntil polls cond; false = watchdog.
func waitUntil(cond func() bool, limit time.Duration) bool {
	deadline := time.Now().Add(limit)

	for !cond() {
		if time.Now().After(deadline) {
			return false
		}

		time.Sleep(2 * time.Millisecond)
	}

	return true
}

func (e *c29Env) runHealthHistories(rng *rand.Rand, cacheIDs []int) {
	r := e.r

	settings.SetDefault(defs.ClusterPingIntervalSetting, "300ms")
	settings.SetDefault(defs.ClusterPingTimeoutSetting, "1500ms")

	// a quiet table while the checker starts
	e.writeRows([]c29Row{{NodeID: NodeID, Cluster: c29ClusterName, State: ActiveState, Peer: 0, Mode: c29ModeOK, Self: true}})

	stop := make(chan struct{})
	done := make(chan struct{})

	go func() {
		StartHealthChecker(stop)
		close(done)
	}()

	defer func() {
		close(stop)

		select {
		case <-done:
		case <-time.After(30 * time.Second):
		}
	}()

	kinds := []string{"503", "close", "timeout"}
	n := vh.N(8, 60)

	for i := 0; i < n; i++ {
		evict := i%4 == 3
		kind := kinds[i%3]
		nPeers := 2 + rng.Intn(2)
		victim := rng.Intn(nPeers)
		rows := []c29Row{{NodeID: NodeID, Cluster: c29ClusterName, State: ActiveState, Peer: 0, Mode: c29ModeOK, Self: true}}

		for j := 0; j < nPeers; j++ {
			rows = append(rows, c29Row{NodeID: fmt.Sprintf("hc-%d-%d-%d", vh.Seed(), i, j), Cluster: c29ClusterName, State: ActiveState, Peer: 1 + j, Mode: c29ModeOK})
		}

		for _, p := range e.peers {
			p.pingFail.Store(0)
		}

		c := c29Case{Kind: "ping-failed", Rows: rows, CacheID: cacheIDs[rng.Intn(len(cacheIDs))], Token: kind}
		if evict {
			c.Kind = "evicted"
		}

		c.Purges = []c29Purge{{CacheID: c.CacheID, Populate: true}}
		e.writeRows(rows)

		vp := e.peers[1+victim]
		vrow := rows[1+victim]
		vp.pingKind.Store(kind)

		bad0, ok0 := vp.pingsBad.Load(), vp.pingsOK.Load()

		// the peer is pinged successfully once first, so the failure is "its last ping failed", not "never seen"
		if !waitUntil(func() bool { return vp.pingsOK.Load() > ok0 }, 30*time.Second) {
			r.Inconcl("health: the checker did not ping the peer within the watchdog")

			continue
		}

		if evict {
			vp.pingFail.Store(1000)
		} else {
			vp.pingFail.Store(int64(1 + rng.Intn(maxConsecutiveFailures-1))) // 1..threshold-1 consecutive failures
		}

		if !waitUntil(func() bool { return vp.pingsBad.Load() > bad0 }, 30*time.Second) {
			r.Inconcl("health: no failed ping observed within the watchdog")

			continue
		}

		mark := e.log.mark()
		e.caseMark = mark

		if evict {
			if !waitUntil(func() bool { return e.rowState(vrow.NodeID) != ActiveState }, 60*time.Second) {
				r.Inconcl("health: the failing peer was not evicted within the watchdog")

				continue
			}

			vp.pingFail.Store(0)

			changed := e.log.stamp()
			p := e.purgeStamped(c.Purges[0])

			if !e.quiesce() {
				r.Inconcl("health: node not quiescent within the watchdog")

				continue
			}

			msgs := e.log.since(mark)

			if e.othersEvicted(rows, 1+victim) {
				r.Count("health.other_peer_evicted_by_slow_pings(no expectation)", 1)

				continue
			}

			r.Eval("evicted/"+kind+"/"+vh.Hash(c), true)
			r.Count("health.evicted_cases", 1)

			for _, m := range msgs {
				if m.Peer == vrow.Peer && m.Path == c29FlushPath && m.Seq > changed {
					r.Violate(vh.Violation{Key: "health:flush-to-evicted-peer", Desc: fmt.Sprintf("peer %s had been evicted by the health checker (state %s) before the purge and still received a flush", vrow.NodeID, e.rowState(vrow.NodeID)), Case: c})
				}
			}

			others := c
			others.Rows = append([]c29Row{}, rows...)
			others.Rows[1+victim].State = RemovedState
			e.checkStamped(others, []c29Stamped{p}, msgs, func(int, c29Row) bool { return true }, "health")

			continue
		}

		// the peer's last ping failed; it has failed fewer pings than the threshold: still a member
		okAtPurge := vp.pingsOK.Load()
		before := e.rowState(vrow.NodeID)
		p := e.purgeStamped(c.Purges[0])

		if !e.quiesce() {
			r.Inconcl("health: node not quiescent within the watchdog")

			continue
		}

		after := e.rowState(vrow.NodeID)
		msgs := e.log.since(mark)

		r.Eval("ping-failed/"+kind+"/"+vh.Hash(c), true)
		r.Count("health.ping_failed_cases:"+kind, 1)

		if vp.pingsOK.Load() == okAtPurge {
			r.Count("health.purge_completed_before_next_successful_ping", 1)
		}

		if before != ActiveState || after != ActiveState || e.othersEvicted(rows, 1+victim) {
			r.Count("health.peer_not_active_around_purge(no expectation)", 1)

			continue
		}

		e.checkStamped(c, []c29Stamped{p}, msgs, func(int, c29Row) bool { return true }, "health")

		if len(r.Samples) < 6 && i < 2 {
			r.Sample(map[string]any{"case": c, "failed_pings_seen": vp.pingsBad.Load() - bad0, "state_before": before, "state_after": after, "flush_arrivals": c29Arrivals(msgs, vrow.Peer, c.CacheID)})
		}
	}

	for _, p := range e.peers {
		p.pingFail.Store(0)
	}
}

// othersEvicted: did the checker evict a peer other than the scripted one (pings slower than the
// ping timeout on a loaded machine)? Then the membership during the purge is not what the case says.
func (e *c29Env) othersEvicted(rows []c29Row, except int) bool {
	for i, row := range rows {
		if i != except && !row.Self && e.rowState(row.NodeID) != ActiveState {
			return true
		}
	}

	return false
}
