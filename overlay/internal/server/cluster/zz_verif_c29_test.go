package cluster

// C29 — Cluster cache invalidation is bounded and complete (quick part: one real
// node, simulated peers).
//
// The node is the real package state produced by the real Initialize(): a temporary
// SQLite system database, this node's own membership row and the caches.OnPurge hook
// that Initialize installs. Peers are loopback HTTP listeners owned by the monitor;
// each records every request it receives (at handler entry) and then answers per a
// PRNG script: 200, 500, slow 200, drop (connection closed without an answer), hang
// (never answers, the sender's own 5 s timeout ends the exchange) or refuse (the row
// names a closed port).
//
// Origin role:  caches.Purge(id) on the node  =>  every active peer of this cluster
//               that can be observed received >= 1 flush for id, the total number of
//               flushes for id is <= the number of active peers, and no flush reached
//               this node's own address, a removed/inactive row, or a row of another
//               cluster.
// Receiver role: a flush handed to FlushCacheHandler  =>  zero messages leave the node
//               (and the broadcast hook is not entered); when the cluster token is valid
//               and the hop count is within the limit the local cache is gone afterwards.
//
// Completion of the asynchronous broadcast ("go OnPurge(id)") is decided without the
// clock: the node is quiescent when no goroutine created by caches.purge or by
// FlushCacheHandler exists and no goroutine is inside BroadcastCacheFlush/SendCacheFlush
// (runtime.Stack of all goroutines). SendCacheFlush returns only after the peer answered
// or closed the connection, so at quiescence every delivered message has been recorded.
import (
	"bytes"
	"database/sql"
	"encoding/json"
	"fmt"
	"io"
	"math/rand"
	"net"
	"net/http"
	"net/http/httptest"
	"os"
	"path/filepath"
	"runtime"
	"sort"
	"strings"
	"sync"
	"sync/atomic"
	"testing"
	"time"

	"github.com/tucats/ego/internal/caches"
	"github.com/tucats/ego/internal/cli/cli"
	"github.com/tucats/ego/internal/cli/settings"
	"github.com/tucats/ego/internal/defs"
	"github.com/tucats/ego/internal/router"
	"github.com/tucats/ego/internal/verifh/vh"
)

const (
	c29ModeOK      = "200"
	c29Mode500     = "500"
	c29ModeSlow    = "slow"
	c29ModeDrop    = "drop"
	c29ModeHang    = "hang"
	c29ModeHold    = "hold" // records, then answers 200 only when the monitor releases it
	c29ModeRefuse  = "refuse" // row points at a closed port: nothing can be observed
	c29FlushPath   = "/services/cluster/flush"
	c29ClusterName = "c29"
	c29NPeers      = 8
)

type c29Msg struct {
	Seq    int64
	Peer   int
	Method string
	Path   string
	Auth   string
	Raw    string
	Req    defs.ClusterFlushRequest
	BadDoc bool
}

type c29Peer struct {
	idx     int
	ln      net.Listener
	port    int
	mode    atomic.Value // string
	release atomic.Value // chan struct{}
	held    atomic.Int64 // requests currently parked in script hold
	// health pings (GET /services/up): the next pingFail pings fail in the way pingKind says
	pingFail  atomic.Int64
	pingKind  atomic.Value // "503" | "close" | "timeout"
	pingsOK   atomic.Int64
	pingsBad  atomic.Int64
	log     *c29Log
}

type c29Log struct {
	mu   sync.Mutex
	seq  int64
	msgs []c29Msg
	cond *sync.Cond
}

func (l *c29Log) add(m c29Msg) {
	l.mu.Lock()
	l.seq++
	m.Seq = l.seq
	l.msgs = append(l.msgs, m)
	l.cond.Broadcast()
	l.mu.Unlock()
}

func (l *c29Log) mark() int64 {
	l.mu.Lock()
	defer l.mu.Unlock()

	return l.seq
}

func (l *c29Log) since(mark int64) []c29Msg {
	l.mu.Lock()
	defer l.mu.Unlock()

	var out []c29Msg

	for _, m := range l.msgs {
		if m.Seq > mark {
			out = append(out, m)
		}
	}

	return out
}

func (p *c29Peer) ServeHTTP(w http.ResponseWriter, r *http.Request) {
	if r.URL.Path == "/services/up" {
		p.servePing(w, r)

		return
	}

	body, _ := io.ReadAll(r.Body)
	m := c29Msg{Peer: p.idx, Method: r.Method, Path: r.URL.Path, Auth: r.Header.Get("Authorization"), Raw: string(body)}

	if err := json.Unmarshal(body, &m.Req); err != nil {
		m.BadDoc = true
	}

	p.log.add(m)

	switch p.mode.Load().(string) {
	case c29Mode500:
		w.WriteHeader(http.StatusInternalServerError)
		_, _ = w.Write([]byte(`{"status":500,"msg":"scripted failure"}`))
	case c29ModeSlow:
		time.Sleep(30 * time.Millisecond) // peer behaviour, not an oracle
		w.WriteHeader(http.StatusOK)
		_, _ = w.Write([]byte(`{"status":200}`))
	case c29ModeDrop:
		if hj, ok := w.(http.Hijacker); ok {
			if conn, _, err := hj.Hijack(); err == nil {
				_ = conn.Close()

				return
			}
		}

		w.WriteHeader(http.StatusBadGateway)
	case c29ModeHang:
		rel, _ := p.release.Load().(chan struct{})
		select {
		case <-r.Context().Done():
		case <-rel:
		}
	case c29ModeHold:
		rel, _ := p.release.Load().(chan struct{})

		p.held.Add(1)

		select {
		case <-r.Context().Done():
		case <-rel:
		}

		p.held.Add(-1)
		w.WriteHeader(http.StatusOK)
		_, _ = w.Write([]byte(`{"status":200}`))
	default:
		w.WriteHeader(http.StatusOK)
		_, _ = w.Write([]byte(`{"status":200}`))
	}
}

// c29Row is one row of the cluster table as the monitor writes it for a case.
type c29Row struct {
	NodeID  string `json:"node_id"`
	Cluster string `json:"cluster"`
	State   string `json:"state"`
	Peer    int    `json:"listener"` // index of the listener the row points at; -1 = closed port
	Mode    string `json:"mode"`
	Self    bool   `json:"self"`
	Late    bool   `json:"late,omitempty"`   // not in the table at first: inserted by "another process" between two purges
	Leaves  bool   `json:"leaves,omitempty"` // marked removed by "another process" between two purges
}

func (r c29Row) eligible() bool {
	return !r.Self && r.Cluster == c29ClusterName && r.State == ActiveState
}

type c29Purge struct {
	CacheID  int  `json:"cache_id"`
	Populate bool `json:"populate"`
}

type c29Case struct {
	Kind   string     `json:"kind"` // origin | purgeall | receiver | overlap | join | leave
	Rows   []c29Row   `json:"rows"`
	Purges []c29Purge `json:"purges,omitempty"`
	// receiver role
	Token    string `json:"token,omitempty"` // valid | none | wrong | othercluster | truncated
	Hops     int    `json:"hops"`
	CacheID  int    `json:"cache_id"`
	NoHops   bool   `json:"no_hops_field,omitempty"`
	SenderID string `json:"sender_id,omitempty"`
}

type c29Env struct {
	t         *testing.T
	r         *vh.Report
	peers     []*c29Peer
	log       *c29Log
	closed    int // a port nobody listens on
	hookStart atomic.Int64
	hookEnd   atomic.Int64
	hooked    bool
	caseMark  int64
	dbPath    string
	otherDB   *sql.DB // a second connection to the system database: "another process"
}

var c29StackBuf = make([]byte, 2<<20)

// pending reports whether any goroutine that could still emit a flush exists.
func c29Pending() (bool, string) {
	n := runtime.Stack(c29StackBuf, true)
	buf := c29StackBuf

	for _, g := range strings.Split(string(buf[:n]), "\n\n") {
		if strings.Contains(g, "cluster.c29Pending") {
			continue
		}

		for _, pat := range []string{
			"internal/server/cluster.BroadcastCacheFlush(",
			"internal/server/cluster.SendCacheFlush(",
			"created by github.com/tucats/ego/internal/caches.purge",
			"created by github.com/tucats/ego/internal/caches.Purge",
			"created by github.com/tucats/ego/internal/server/cluster.FlushCacheHandler",
			"created by github.com/tucats/ego/internal/server/cluster.writeFlushResponse",
		} {
			if strings.Contains(g, pat) {
				return true, pat
			}
		}
	}

	return false, ""
}

// quiesce waits until the node can emit nothing more. false = watchdog fired (inconclusive).
func (e *c29Env) quiesce() bool {
	deadline := time.Now().Add(90 * time.Second) // watchdog only
	for i := 0; ; i++ {
		busy, _ := c29Pending()
		if !busy && e.hookStart.Load() == e.hookEnd.Load() {
			return true
		}

		if time.Now().After(deadline) {
			return false
		}

		if i < 50 {
			runtime.Gosched()
		} else {
			time.Sleep(500 * time.Microsecond)
		}
	}
}

// writeRows rewrites the membership table. The health checker (when running) writes the same
// database through pooled connections that carry no busy timeout, so a busy database is retried.
func (e *c29Env) writeRows(rows []c29Row) {
	var err error

	for attempt := 0; attempt < 400; attempt++ {
		if err = e.writeRowsOnce(rows); err == nil {
			return
		}

		if !strings.Contains(err.Error(), "locked") && !strings.Contains(err.Error(), "BUSY") {
			break
		}

		time.Sleep(5 * time.Millisecond)
	}

	e.t.Fatalf("write membership table: %v", err)
}

func (e *c29Env) writeRowsOnce(rows []c29Row) error {
	tx, err := systemDB.Begin()
	if err != nil {
		return fmt.Errorf("begin: %v", err)
	}

	defer func() { _ = tx.Rollback() }()

	if _, err := tx.Exec(`DELETE FROM cluster`); err != nil {
		return fmt.Errorf("reset cluster table: %v", err)
	}

	rel := make(chan struct{})

	for i, row := range rows {
		port := e.closed
		if row.Peer >= 0 {
			e.peers[row.Peer].mode.Store(row.Mode)
			e.peers[row.Peer].release.Store(rel)
		}

		if row.Late {
			continue
		}

		if row.Peer >= 0 {
			p := e.peers[row.Peer]
			port = p.port
			p.mode.Store(row.Mode)
			p.release.Store(rel)
		}

		ts := time.Date(2024, 1, 1, 0, 0, i, 0, time.UTC).Format(time.RFC3339)

		if _, err := tx.Exec(`INSERT INTO cluster (name, node_id, host, port, scheme, joined_at, last_seen, state) VALUES (?,?,?,?,?,?,?,?)`,
			row.Cluster, row.NodeID, "127.0.0.1", port, "http", ts, ts, row.State); err != nil {
			return fmt.Errorf("insert row: %v", err)
		}
	}

	if err := tx.Commit(); err != nil {
		return fmt.Errorf("commit: %v", err)
	}

	return nil
}

func (e *c29Env) releaseHangs() {
	for _, p := range e.peers {
		if rel, ok := p.release.Load().(chan struct{}); ok && rel != nil {
			select {
			case <-rel:
			default:
				close(rel)
			}

			return // all peers share one channel per case
		}
	}
}

// genRows builds a membership table: this node, 0..4 active peers, distractors.
func c29GenRows(rng *rand.Rand, caseNo int, allowHang bool) []c29Row {
	rows := []c29Row{{NodeID: NodeID, Cluster: c29ClusterName, State: ActiveState, Peer: 0, Mode: c29ModeOK, Self: true}}
	next := 1
	nActive := rng.Intn(5)

	for i := 0; i < nActive; i++ {
		mode := []string{c29ModeOK, c29ModeOK, c29ModeOK, c29Mode500, c29ModeSlow, c29ModeDrop, c29ModeRefuse}[rng.Intn(7)]
		if allowHang && i == 0 && rng.Intn(2) == 0 {
			mode = c29ModeHang
		}

		row := c29Row{NodeID: fmt.Sprintf("peer-%d-%d", caseNo, i), Cluster: c29ClusterName, State: ActiveState, Peer: next, Mode: mode}
		if mode == c29ModeRefuse {
			row.Peer = -1
		} else {
			next++
		}

		rows = append(rows, row)
	}

	nDis := rng.Intn(3)
	for i := 0; i < nDis && next < c29NPeers; i++ {
		row := c29Row{NodeID: fmt.Sprintf("dis-%d-%d", caseNo, i), Cluster: c29ClusterName, Peer: next, Mode: c29ModeOK}

		switch rng.Intn(3) {
		case 0:
			row.State = RemovedState
		case 1:
			row.State = InactiveState
		default:
			row.State = ActiveState
			row.Cluster = "other-" + c29ClusterName
		}

		next++

		rows = append(rows, row)
	}

	// the table order the node sees is by joined_at = slice order: shuffle everything
	rng.Shuffle(len(rows), func(i, j int) { rows[i], rows[j] = rows[j], rows[i] })

	return rows
}

func c29Shape(c c29Case) string {
	var act, dis int

	modes := map[string]int{}

	for _, r := range c.Rows {
		if r.eligible() {
			act++
			modes[r.Mode]++
		} else if !r.Self {
			dis++
		}
	}

	keys := make([]string, 0, len(modes))
	for k, n := range modes {
		keys = append(keys, fmt.Sprintf("%s%d", k, n))
	}

	sort.Strings(keys)

	return fmt.Sprintf("%s/a%d/d%d/%s/p%d", c.Kind, act, dis, strings.Join(keys, ","), len(c.Purges))
}

// checkFlushes applies the origin-role oracle to the messages of one purge (one cache id).
func (e *c29Env) checkFlushes(c c29Case, cacheID int, msgs []c29Msg) {
	r := e.r
	perPeer := map[int]int{}
	total := 0

	for _, m := range msgs {
		if m.Path != c29FlushPath || m.BadDoc || m.Req.CacheID != cacheID {
			continue
		}

		perPeer[m.Peer]++
		total++

		r.Count("origin.flush_messages", 1)

		if m.Method != http.MethodPost {
			r.Violate(vh.Violation{Key: "origin:flush-not-post", Desc: "flush message sent with method " + m.Method, Case: c})
		}

		if m.Req.SenderID != NodeID {
			r.Violate(vh.Violation{Key: "origin:sender-id-not-origin", Desc: fmt.Sprintf("flush carries sender_id %q, the origin is %q", m.Req.SenderID, NodeID), Case: c})
		}
	}

	eligible := 0

	for _, row := range c.Rows {
		n := 0
		if row.Peer >= 0 {
			n = perPeer[row.Peer]
		}

		switch {
		case row.eligible():
			eligible++

			if row.Peer < 0 {
				r.Count("origin.peer_unobservable(refuse)", 1)

				continue
			}

			if n == 0 && row.Mode == c29ModeHang {
				// the only script whose record may trail the sender: wait for it under a watchdog
				if !e.waitFor(row.Peer, cacheID) {
					r.Inconcl(fmt.Sprintf("hang peer %s: no flush record within the watchdog", row.NodeID))

					continue
				}

				n = 1
				total++
			}

			r.Count("origin.peer_checks", 1)

			if n == 0 {
				r.Violate(vh.Violation{Key: "origin:active-peer-missed",
					Desc:     fmt.Sprintf("caches.Purge(%d): active peer %s (script %s) received no flush although the broadcast had ended", cacheID, row.NodeID, row.Mode),
					Case:     c, Expected: ">=1 flush", Observed: "0"})
			}
		default:
			if n > 0 {
				what := "inactive-or-removed"
				if row.Self {
					what = "self"
				} else if row.Cluster != c29ClusterName {
					what = "other-cluster"
				}

				r.Violate(vh.Violation{Key: "origin:flush-to-non-peer:" + what,
					Desc: fmt.Sprintf("caches.Purge(%d): %d flush(es) sent to row %s (cluster %s, state %s, self %v)", cacheID, n, row.NodeID, row.Cluster, row.State, row.Self),
					Case: c, Expected: "0", Observed: n})
			}

			r.Count("origin.nonpeer_checks", 1)
		}
	}

	if total > eligible {
		r.Violate(vh.Violation{Key: "origin:more-flushes-than-peers",
			Desc: fmt.Sprintf("caches.Purge(%d): %d flush messages for %d active peers", cacheID, total, eligible), Case: c, Expected: fmt.Sprintf("<=%d", eligible), Observed: total})
	}
}

// waitFor blocks until listener peer has a flush record for cacheID in the current case window (watchdog 20 s).
func (e *c29Env) waitFor(peer, cacheID int) bool {
	deadline := time.Now().Add(20 * time.Second)

	for {
		for _, m := range e.log.since(e.caseMark) {
			if m.Peer == peer && m.Req.CacheID == cacheID && m.Path == c29FlushPath {
				return true
			}
		}

		if time.Now().After(deadline) {
			return false
		}

		time.Sleep(2 * time.Millisecond)
	}
}

func (e *c29Env) runOrigin(c c29Case) {
	r := e.r
	e.writeRows(c.Rows)

	defer e.releaseHangs()

	for _, p := range c.Purges {
		if p.Populate {
			caches.Add(p.CacheID, "k1", "v1")
			caches.Add(p.CacheID, "k2", 2)
		}
	}

	mark := e.log.mark()
	e.caseMark = mark
	h0 := e.hookStart.Load()

	if c.Kind == "purgeall" {
		caches.PurgeAll()
	} else if len(c.Purges) == 1 {
		caches.Purge(c.Purges[0].CacheID)
	} else {
		var wg sync.WaitGroup
		for _, p := range c.Purges {
			wg.Add(1)

			go func(id int) {
				defer wg.Done()
				caches.Purge(id)
			}(p.CacheID)
		}

		wg.Wait()
	}

	if !e.quiesce() {
		r.Inconcl("origin case: node did not become quiescent within the watchdog")

		return
	}

	msgs := e.log.since(mark)
	nonTrivial := false

	for _, row := range c.Rows {
		if row.eligible() {
			nonTrivial = true
		}
	}

	r.Eval(c29Shape(c)+"/"+vh.Hash(c), nonTrivial)
	r.Count("origin.cases", 1)
	r.Count("origin.kind:"+c.Kind, 1)

	if e.hooked {
		want := int64(len(c.Purges))
		if c.Kind == "purgeall" {
			want = 0
			for _, p := range c.Purges {
				if p.Populate {
					want++
				}
			}
		}

		r.Count("origin.hook_entries", e.hookStart.Load()-h0)

		if got := e.hookStart.Load() - h0; got < want {
			r.Violate(vh.Violation{Key: "origin:purge-hook-not-fired", Desc: fmt.Sprintf("%d purge(s) entered the broadcast hook %d time(s)", want, got), Case: c})
		}
	}

	for _, p := range c.Purges {
		if c.Kind == "purgeall" && !p.Populate {
			continue
		}

		r.Count("origin.purges", 1)

		if n := caches.Size(p.CacheID); n != 0 {
			r.Violate(vh.Violation{Key: "origin:local-cache-kept", Desc: fmt.Sprintf("caches.Purge(%d) left %d items in the local cache", p.CacheID, n), Case: c})
		}

		e.checkFlushes(c, p.CacheID, msgs)
	}

	// anything the listeners saw that is not a flush for one of the purged ids
	ids := map[int]bool{}
	for _, p := range c.Purges {
		ids[p.CacheID] = true
	}

	for _, m := range msgs {
		if m.Path != c29FlushPath || m.BadDoc {
			r.Count("origin.other_requests", 1)
		} else if !ids[m.Req.CacheID] {
			r.Violate(vh.Violation{Key: "origin:flush-for-unpurged-cache", Desc: fmt.Sprintf("flush for cache %d which was not purged", m.Req.CacheID), Case: c})
		}

		if m.Req.Hops > 1 {
			r.Count("origin.hops_gt_1", 1)
		}
	}

	// closed loop: what the origin sends must be acted upon by a receiver running the same code
	for _, m := range msgs {
		if m.Path == c29FlushPath && !m.BadDoc {
			e.loopBack(c, m)

			break
		}
	}

	if r.Counters["origin.cases"]%97 == 1 {
		r.Sample(map[string]any{"case": c, "messages": len(msgs)})
	}
}

// loopBack hands a message the node really sent to the node's own FlushCacheHandler.
func (e *c29Env) loopBack(c c29Case, m c29Msg) {
	caches.Add(m.Req.CacheID, "loop", "back")

	req := httptest.NewRequest(m.Method, m.Path, strings.NewReader(m.Raw))
	req.Header.Set("Content-Type", "application/json")
	req.Header.Set("Authorization", m.Auth)

	w := httptest.NewRecorder()
	status := FlushCacheHandler(&router.Session{ID: 7, Language: "en"}, w, req)

	e.r.Count("origin.loopback_checks", 1)

	if status != http.StatusOK || caches.Size(m.Req.CacheID) != 0 {
		e.r.Violate(vh.Violation{Key: "origin:own-flush-not-accepted",
			Desc: fmt.Sprintf("a flush exactly as sent by the node (hops=%d) was answered %d by the same node's handler and left %d items", m.Req.Hops, status, caches.Size(m.Req.CacheID)),
			Case: c})
	}

	caches.PurgeLocal(m.Req.CacheID)
}

func (e *c29Env) runReceiver(c c29Case) {
	r := e.r
	e.writeRows(c.Rows)

	defer e.releaseHangs()

	caches.PurgeLocal(c.CacheID)
	caches.Add(c.CacheID, "seed-a", "value")
	caches.Add(c.CacheID, "seed-b", 42)

	doc := map[string]any{"cache_id": c.CacheID, "sender_id": c.SenderID}
	if !c.NoHops {
		doc["hops"] = c.Hops
	}

	body, _ := json.Marshal(doc)
	req := httptest.NewRequest(http.MethodPost, c29FlushPath, bytes.NewReader(body))
	req.Header.Set("Content-Type", "application/json")

	valid := false

	switch c.Token {
	case "valid":
		req.Header.Set("Authorization", ClusterAuthHeader())

		valid = true
	case "none":
	case "wrong":
		req.Header.Set("Authorization", "Bearer cluster-"+strings.Repeat("0", 64))
	case "othercluster":
		saved := ClusterName
		ClusterName = "not-" + saved
		h := ClusterAuthHeader()
		ClusterName = saved

		req.Header.Set("Authorization", h)
	case "truncated":
		h := ClusterAuthHeader()
		req.Header.Set("Authorization", h[:len(h)-1])
	}

	mark := e.log.mark()
	h0 := e.hookStart.Load()
	w := httptest.NewRecorder()
	status := FlushCacheHandler(&router.Session{ID: 11, Language: "en"}, w, req)

	if !e.quiesce() {
		r.Inconcl("receiver case: node did not become quiescent within the watchdog")

		return
	}

	hops := c.Hops
	if c.NoHops {
		hops = 0
	}

	within := hops <= maxFlushHops
	left := caches.Size(c.CacheID)
	msgs := e.log.since(mark)
	hookCalls := e.hookStart.Load() - h0

	r.Eval(fmt.Sprintf("receiver/%s/h%d/%v/c%d/%s", c.Token, hops, c.NoHops, c.CacheID, c29Shape(c)), true)
	r.Count("receiver.cases", 1)
	r.Count(fmt.Sprintf("receiver.token=%s.within=%v.status=%d.discarded=%v", c.Token, within, status, left == 0), 1)

	if len(msgs) != 0 || hookCalls != 0 {
		r.Violate(vh.Violation{Key: "receiver:rebroadcast",
			Desc:     fmt.Sprintf("a received flush (token %s, hops %d) made the node send %d message(s) and enter the broadcast hook %d time(s)", c.Token, hops, len(msgs), hookCalls),
			Case:     c, Expected: "0 outgoing messages", Observed: len(msgs)})
	}

	r.Count("receiver.zero_outgoing_checks", 1)

	if valid && within {
		r.Count("receiver.discard_checks", 1)

		if left != 0 || status != http.StatusOK {
			r.Violate(vh.Violation{Key: fmt.Sprintf("receiver:authorised-flush-not-applied:hops%d", hops),
				Desc:     fmt.Sprintf("authorised flush with hops=%d (limit %d): status %d, %d items still cached", hops, maxFlushHops, status, left),
				Case:     c, Expected: "cache discarded, 200", Observed: fmt.Sprintf("status %d, %d items", status, left)})
		}
	}

	if r.Counters["receiver.cases"]%61 == 1 {
		r.Sample(map[string]any{"case": c, "status": status, "items_left": left, "outgoing": len(msgs)})
	}

	caches.PurgeLocal(c.CacheID)
}

func TestVerifC29Node(t *testing.T) {
	r := vh.New("C29", "node")
	r.Rule = "case = membership table (this node + 0..4 active peers with scripts 200/500/slow/drop/hang/refuse + removed/inactive/other-cluster rows, random join order) x " +
		"{1..3 concurrent caches.Purge of distinct cache ids | PurgeAll | one inbound flush with token in {valid,none,wrong,othercluster,truncated} and hops 0..6 | " +
		"overlap: 2..4 purges (same and other cache class) issued while the first broadcast is parked at a held peer that is not first in the list | " +
		"join/leave: a peer row inserted / marked removed through a second database connection between two back-to-back purges}; " +
		"distinct = hash of the whole case; non-trivial = at least one active peer (origin) / every receiver case"

	defer func() {
		if err := r.Write(); err != nil {
			t.Fatal(err)
		}
	}()

	arena := os.Getenv("VERIF_ARENA")
	if arena == "" {
		arena = t.TempDir()
	}

	arena = filepath.Join(arena, "c29node")
	_ = os.RemoveAll(arena)

	if err := os.MkdirAll(arena, 0o700); err != nil {
		t.Fatal(err)
	}

	// the real start-up path of a cluster node
	settings.SetDefault(defs.ServerTokenKeySetting, strings.Repeat("c2", 32))
	settings.SetDefault(defs.InsecureServerSetting, "true")

	defs.InstanceID = "0c29c29c-0000-4000-8000-00000000c029"
	ctx := &cli.Context{Grammar: []cli.Option{
		{LongName: "cluster", OptionType: cli.StringType, Found: true, Value: c29ClusterName},
		{LongName: "users", OptionType: cli.StringType, Found: true, Value: "sqlite3://" + filepath.Join(arena, "system.db")},
		{LongName: "port", OptionType: cli.IntType, Found: true, Value: 1},
		{LongName: "not-secure", OptionType: cli.BooleanType, Found: true, Value: true},
	}}

	caches.Active(true)

	if err := Initialize(ctx); err != nil {
		t.Fatalf("cluster.Initialize: %v", err)
	}

	if systemDB == nil || ClusterName != c29ClusterName || NodeID == "" {
		t.Fatalf("Initialize left the node unconfigured: db=%v name=%q id=%q", systemDB != nil, ClusterName, NodeID)
	}

	defer systemDB.Close()

	e := &c29Env{t: t, r: r, log: &c29Log{}, dbPath: filepath.Join(arena, "system.db")}
	e.log.cond = sync.NewCond(&e.log.mu)

	if caches.OnPurge != nil {
		orig := caches.OnPurge
		caches.OnPurge = func(id int) {
			e.hookStart.Add(1)
			defer e.hookEnd.Add(1)
			orig(id)
		}
		e.hooked = true
	} else {
		r.Note("Initialize installed no caches.OnPurge hook")
	}

	for i := 0; i < c29NPeers; i++ {
		ln, err := net.Listen("tcp", "127.0.0.1:0")
		if err != nil {
			t.Fatal(err)
		}

		p := &c29Peer{idx: i, ln: ln, port: ln.Addr().(*net.TCPAddr).Port, log: e.log}
		p.mode.Store(c29ModeOK)
		p.release.Store(make(chan struct{}))
		e.peers = append(e.peers, p)

		srv := &http.Server{Handler: p}

		go func() { _ = srv.Serve(ln) }()

		defer srv.Close()
	}

	if ln, err := net.Listen("tcp", "127.0.0.1:0"); err == nil {
		e.closed = ln.Addr().(*net.TCPAddr).Port
		_ = ln.Close()
	} else {
		t.Fatal(err)
	}

	r.Assume("a flush can only leave the node from BroadcastCacheFlush/SendCacheFlush or from a goroutine started by caches.purge or FlushCacheHandler (quiescence = none of these exists in runtime.Stack)")
	r.Assume("peers record a request at handler entry; SendCacheFlush returns only after the peer answered or closed the connection (scripts 200/500/slow/drop), so a missing record at quiescence means the message was not sent")
	r.Assume("rows that point at a closed port (script refuse) cannot be observed and carry no expectation")

	if raw := vh.ReplayCase(); raw != nil {
		var c c29Case
		if err := json.Unmarshal(raw, &c); err != nil || c.Kind == "" {
			r.Note("the replay case belongs to another part of C29")

			return
		}

		for i := range c.Rows {
			if c.Rows[i].Self {
				c.Rows[i].NodeID = NodeID
			}
		}

		switch c.Kind {
		case "receiver":
			e.runReceiver(c)
		case "overlap":
			e.runOverlap(c)
		case "join", "leave":
			e.runMembership(c)
		case "ping-failed", "evicted":
			e.runHealthHistories(vh.Rand("c29-node-replay"), []int{c.CacheID})
		default:
			e.runOrigin(c)
		}

		r.Distinct = 2

		return
	}

	rng := vh.Rand("c29-node")
	nPurges := vh.N(300, 3000)
	nRecv := vh.N(180, 1800)
	hangs := vh.N(1, 4)
	cacheIDs := []int{caches.DSNCache, caches.AuthCache, caches.UserCache, caches.TokenCache, caches.BlacklistCache, caches.SchemaCache,
		caches.SymbolTableCache, caches.DebugSessionCache, caches.WebAuthnChallengeCache, caches.OAuthJWTCache, 42}

	done := 0
	for caseNo := 0; done < nPurges; caseNo++ {
		allowHang := hangs > 0 && caseNo%37 == 5
		c := c29Case{Kind: "origin", Rows: c29GenRows(rng, caseNo, allowHang)}

		k := 1 + rng.Intn(3)
		if rng.Intn(10) == 0 {
			c.Kind = "purgeall"
			k = 1 + rng.Intn(4)
		}

		hasHang := false

		for _, row := range c.Rows {
			if row.Mode == c29ModeHang && row.eligible() {
				hasHang = true
			}
		}

		if hasHang {
			hangs--
			k = 1
			c.Kind = "origin"
		}

		perm := rng.Perm(len(cacheIDs))
		for i := 0; i < k; i++ {
			c.Purges = append(c.Purges, c29Purge{CacheID: cacheIDs[perm[i]], Populate: c.Kind == "purgeall" || rng.Intn(3) > 0})
		}

		e.runOrigin(c)

		done += k
	}

	e.runHistories(rng, cacheIDs)
	e.runHealthHistories(rng, cacheIDs)

	tokens := []string{"valid", "valid", "valid", "none", "wrong", "othercluster", "truncated"}
	for i := 0; i < nRecv; i++ {
		c := c29Case{Kind: "receiver", Rows: c29GenRows(rng, 100000+i, false), Token: tokens[rng.Intn(len(tokens))], Hops: rng.Intn(7),
			CacheID: cacheIDs[rng.Intn(len(cacheIDs))], SenderID: fmt.Sprintf("peer-%d", rng.Intn(5))}
		if i < 14 { // the full token x hops grid at least once for valid tokens
			c.Token = "valid"
			c.Hops = i % 7
		}

		if c.Hops == 0 {
			c.NoHops = rng.Intn(2) == 0
		}

		if rng.Intn(8) == 0 && len(c.Rows) > 1 {
			c.SenderID = c.Rows[rng.Intn(len(c.Rows))].NodeID // includes "from myself"
		}

		e.runReceiver(c)
	}

	// directed probe: PurgeAll while another goroutine has just populated a cache.
	// The two accesses are ordered in time (no simultaneous map access) but not by any
	// synchronisation, which is exactly what a request handler and DELETE /admin/caches do.
	if r.Evaluations == 0 {
		t.Fatal("observed nothing")
	}
}
