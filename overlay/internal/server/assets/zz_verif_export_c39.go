//go:build verif

package assets

// Scratch-copy-only export for the /verif C39 monitor (never part of tucats/ego):
// the monitor computes the documented Markdown rendering of a known file with the
// handler's own renderer.
func VerifMdToHTML(md []byte) []byte { return mdToHTML(append([]byte(nil), md...)) }

// VerifIsCached reports whether the asset cache holds an entry for the request path.
func VerifIsCached(path string) bool {
	AssetMux.Lock()
	defer AssetMux.Unlock()

	_, ok := AssetCache[normalizeCachePath(path)]

	return ok
}
