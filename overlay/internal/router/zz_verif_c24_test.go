package router

// C24 — Failed logins lock the account as configured.
//
// In-package runtime monitor (needs loginAttempts, scanOnce, pruneLoginAttempts).
//
// Part "histories" (TestC24Histories, no -race): generated histories of Basic logins
// (right / wrong / empty / near-miss password, lower- and upper-case spelling of the
// name) for 3 stored users and one name that does not exist, virtual-time advances
// aimed at the lockout boundary (d-1s, d, d+1s, 2d, 2d+1s ...) and explicit prune
// ticks, for limits 0..6 and lockout durations {1s, 90s, 15m}. Every login goes through
// the real Session.Authenticate inside a testing/synctest bubble, so the rate limiter's
// time.Now() is the virtual clock. "Without checking its password" is observed: the
// user store is a counting wrapper, and a refused login must have caused zero ReadUser
// calls for that name. The oracle is a lockout automaton per user; it is
// nondeterministic exactly where the property is silent (attempt exactly at the
// boundary instant; whether the failure count restarts when a lockout has run out;
// whether a prune tick forgets a stale, unlocked record).
//
// Part "race" (TestC24Race, -race): a 5% sample of the same histories, plus bursts in
// which one goroutine per user drives its own account to lockout concurrently (real
// time, 15m lockout): each user's outcomes must be those of the automaton run alone.

import (
	"encoding/json"
	"fmt"
	"math/rand"
	"net/http"
	"net/http/httptest"
	"strconv"
	"strings"
	"sync"
	"testing"
	"testing/synctest"
	"time"

	"github.com/tucats/ego/internal/cli/settings"
	"github.com/tucats/ego/internal/defs"
	auth "github.com/tucats/ego/internal/server/auth"
	"github.com/tucats/ego/internal/verifh/vh"
	"golang.org/x/crypto/bcrypt"
)

// ---------------------------------------------------------------------------
// counting user store
// ---------------------------------------------------------------------------

type c24Store struct {
	mu    sync.Mutex
	users map[string]defs.User
	reads map[string]int
}

func (s *c24Store) ReadUser(_ int, name string, _ bool) (defs.User, error) {
	s.mu.Lock()
	defer s.mu.Unlock()

	s.reads[name]++

	if u, ok := s.users[name]; ok {
		return u, nil
	}

	return defs.User{}, fmt.Errorf("no such user %q", name)
}

func (s *c24Store) WriteUser(_ int, u defs.User) error {
	s.mu.Lock()
	defer s.mu.Unlock()

	s.users[u.Name] = u

	return nil
}

func (s *c24Store) DeleteUser(_ int, name string) error {
	s.mu.Lock()
	defer s.mu.Unlock()

	delete(s.users, name)

	return nil
}

func (s *c24Store) ListUsers(bool) map[string]defs.User { return nil }
func (s *c24Store) Flush() error                        { return nil }
func (s *c24Store) Close() error                        { return nil }

func (s *c24Store) snapshot() map[string]int {
	s.mu.Lock()
	defer s.mu.Unlock()

	out := make(map[string]int, len(s.reads))
	for k, v := range s.reads {
		out[k] = v
	}

	return out
}

var c24Names = []string{"alice", "bob", "carol", "ghost"} // ghost is not in the store

func c24Password(u int) string { return "pw-of-" + c24Names[u] + "-Zq9" }

func c24Setup(t *testing.T) *c24Store {
	t.Helper()

	// The rate limiter starts a process-lifetime goroutine (time.Sleep(5m) forever) behind
	// scanOnce the first time it is used. Such a goroutine can neither live inside a bubble
	// (the bubble would never end) nor usefully outside one (it would prune bubble-dated
	// records by the real clock). The monitor therefore consumes the Once and calls the
	// package's own pruneLoginAttempts() itself, at instants chosen by the generator.
	scanOnce.Do(func() {})

	st := &c24Store{users: map[string]defs.User{}, reads: map[string]int{}}

	for u, name := range c24Names[:3] {
		// cost-4 hashes made here; the server default (12) would cost ~0.25 s per check
		h, err := bcrypt.GenerateFromPassword([]byte(c24Password(u)), bcrypt.MinCost)
		if err != nil {
			t.Fatal(err)
		}

		st.users[name] = defs.User{Name: name, Password: string(h), Permissions: []string{defs.LogonPermission}}
	}

	auth.AuthService = st

	return st
}

// ---------------------------------------------------------------------------
// histories
// ---------------------------------------------------------------------------

type c24Op struct {
	Op    string `json:"op"` // login | advance | prune
	U     int    `json:"u"`
	Upper bool   `json:"upper,omitempty"` // name sent in upper case
	Pw    string `json:"pw,omitempty"`    // right | wrong | empty | near
	D     string `json:"d,omitempty"`
}

func (o c24Op) String() string {
	switch o.Op {
	case "login":
		n := c24Names[o.U]
		if o.Upper {
			n = strings.ToUpper(n)
		}

		return fmt.Sprintf("login(%s,%s)", n, o.Pw)
	case "advance":
		return "advance(" + o.D + ")"
	}

	return o.Op
}

type c24Hist struct {
	Kind    string  `json:"kind"`
	Limit   int     `json:"limit"`
	Lockout string  `json:"lockout"`
	Ops     []c24Op `json:"ops"`
}

type c24Obs struct {
	Auth       bool          `json:"auth"`
	LockedOut  bool          `json:"locked_out"`
	RetryAfter int           `json:"retry_after,omitempty"`
	Reads      int           `json:"reads"`       // ReadUser calls for the attempted name
	ReadsOther int           `json:"reads_other"` // ReadUser calls for any other name
	Now        time.Duration `json:"now"`
}

func c24Login(st *c24Store, op c24Op, id int) c24Obs {
	name := c24Names[op.U]
	if op.Upper {
		name = strings.ToUpper(name)
	}

	pw := ""

	switch op.Pw {
	case "right":
		pw = c24Password(op.U)
	case "wrong":
		pw = "not-the-password-" + strconv.Itoa(id)
	case "near":
		pw = c24Password(op.U) + "x"
	}

	r := httptest.NewRequest(http.MethodGet, "/services/admin/heartbeat", nil)
	r.SetBasicAuth(name, pw)

	before := st.snapshot()

	s := (&Session{ID: id}).Authenticate(r)

	obs := c24Obs{Auth: s.Authenticated, LockedOut: s.LockedOut, RetryAfter: s.RetryAfter}

	for n, c := range st.snapshot() {
		if n == c24Names[op.U] {
			obs.Reads += c - before[n]
		} else {
			obs.ReadsOther += c - before[n] // only meaningful when nothing else runs concurrently
		}
	}

	return obs
}

// ---------------------------------------------------------------------------
// the lockout automaton
// ---------------------------------------------------------------------------

type c24State struct {
	fails    int
	lastFail time.Duration
	locked   bool // a lockout was started at some point and not cleared by a success
	until    time.Duration
}

type c24Model struct {
	limit int
	d     time.Duration
	now   time.Duration
	st    [4][]c24State
	// evidence
	lockouts, refusedLocked, relockAfterExpiry, boundaryAttempts, pruneForgot, pruneKept int
}

func newC24Model(limit int, d time.Duration) *c24Model {
	m := &c24Model{limit: limit, d: d}
	for u := range m.st {
		m.st[u] = []c24State{{}}
	}

	return m
}

func c24Dedup(in []c24State) []c24State {
	seen := map[c24State]bool{}

	var out []c24State

	for _, s := range in {
		if !s.locked {
			s.until = 0
		}

		if s.fails == 0 {
			s = c24State{}
		}

		if !seen[s] {
			seen[s] = true
			out = append(out, s)
		}
	}

	return out
}

type c24Fail struct {
	Key, Desc string
	Step      int
}

func (m *c24Model) describe(u int) string {
	var parts []string
	for _, s := range m.st[u] {
		parts = append(parts, fmt.Sprintf("{fails=%d lastFail=+%v locked=%v until=+%v}", s.fails, s.lastFail, s.locked, s.until))
	}

	return fmt.Sprintf("now=+%v limit=%d lockout=%v %s: %s", m.now, m.limit, m.d, c24Names[u], strings.Join(parts, " or "))
}

// afterFailure returns the possible records after a checked, failed attempt at m.now.
func (m *c24Model) afterFailure(s c24State) []c24State {
	counts := []int{s.fails + 1}
	if s.locked {
		// the lockout has run out (the attempt was checked): the property does not say
		// whether the count of consecutive failures restarts there.
		counts = append(counts, 1)
	}

	var out []c24State

	for _, n := range counts {
		ns := c24State{fails: n, lastFail: m.now}
		if n >= m.limit {
			ns.locked, ns.until = true, m.now+m.d
		}

		out = append(out, ns)
	}

	// An attempt made exactly at the instant the lockout ends is where "has passed" can
	// be read either way; the same goes for whether a failure at that very instant
	// already starts the next lockout. Only a second-granular virtual clock ever hits it.
	if s.locked && m.now == s.until {
		out = append(out, c24State{fails: s.fails + 1, lastFail: m.now, locked: true, until: s.until})
	}

	return out
}

func (m *c24Model) login(op c24Op, obs c24Obs) *c24Fail {
	u := op.U
	right := op.Pw == "right" && u < 3

	type exp struct {
		class string // locked | accept | refuse
		next  []c24State
	}

	var (
		next       []c24State
		firstClass string
		ctx        string

		sawLocked, sawAfterExpiry bool
	)

	matches := func(class string) bool {
		switch class {
		case "locked":
			return !obs.Auth && obs.Reads == 0
		case "accept":
			return obs.Auth
		default:
			return !obs.Auth && !obs.LockedOut
		}
	}

	for _, s := range m.st[u] {
		var exps []exp

		unlocked := func() exp {
			if right {
				return exp{"accept", []c24State{{}}}
			}

			if m.limit == 0 {
				return exp{"refuse", []c24State{{}}}
			}

			return exp{"refuse", m.afterFailure(s)}
		}

		switch {
		case m.limit == 0 || !s.locked || m.now > s.until:
			exps = append(exps, unlocked())

			if s.locked && firstClass == "" {
				ctx = ":after-expiry"
			}
		case m.now < s.until:
			exps = append(exps, exp{"locked", []c24State{s}})
		default: // exactly at the boundary instant: either reading of "has passed"
			exps = append(exps, exp{"locked", []c24State{s}}, unlocked())
			m.boundaryAttempts++
		}

		for _, e := range exps {
			if firstClass == "" {
				firstClass = e.class
			}

			if matches(e.class) {
				next = append(next, e.next...)

				switch {
				case e.class == "locked":
					sawLocked = true
				case e.class == "refuse" && s.locked:
					sawAfterExpiry = true
				}
			}
		}
	}

	if len(next) == 0 {
		var key string

		switch {
		case firstClass == "locked" && obs.Auth:
			key = "locked:accepted"
		case firstClass == "locked":
			key = "locked:password-checked"
		case firstClass == "accept" && obs.LockedOut:
			key = "unlocked:refused-as-locked"
		case firstClass == "accept":
			key = "unlocked:right-password-refused"
		case obs.Auth:
			key = "unlocked:wrong-password-accepted"
		default:
			key = "unlocked:refused-as-locked"
		}

		if m.limit == 0 {
			key += ":limit0"
		}

		return &c24Fail{Key: key + ctx, Desc: fmt.Sprintf("%v observed {authenticated=%v lockedOut=%v retryAfter=%d ReadUser calls=%d}; the automaton expects %q; %s",
			op, obs.Auth, obs.LockedOut, obs.RetryAfter, obs.Reads, firstClass, m.describe(u))}
	}

	if sawLocked {
		m.refusedLocked++
	}

	if sawAfterExpiry {
		m.relockAfterExpiry++
	}

	before := 0
	for _, s := range m.st[u] {
		if s.locked && m.now < s.until {
			before++
		}
	}

	m.st[u] = c24Dedup(next)

	for _, s := range m.st[u] {
		if s.locked && s.lastFail == m.now && before == 0 {
			m.lockouts++

			break
		}
	}

	if obs.ReadsOther != 0 {
		return &c24Fail{Key: "other-user:store-read", Desc: fmt.Sprintf("%v caused %d ReadUser calls for other names", op, obs.ReadsOther)}
	}

	return nil
}

// prune: the package documents that a record which is not locked and whose last failure
// is older than twice the lockout may be forgotten; the property is silent about it.
func (m *c24Model) prune() {
	for u := range m.st {
		var next []c24State

		for _, s := range m.st[u] {
			next = append(next, s)

			if s.fails > 0 && (!s.locked || m.now >= s.until) && s.lastFail+2*m.d <= m.now {
				next = append(next, c24State{})
			}
		}

		m.st[u] = c24Dedup(next)
	}
}

// ---------------------------------------------------------------------------
// running
// ---------------------------------------------------------------------------

type c24Rec struct {
	Op  c24Op  `json:"op"`
	Obs c24Obs `json:"obs"`
}

type c24Result struct {
	fail  *c24Fail
	recs  []c24Rec
	model *c24Model
}

func c24Configure(limit int, lockout string) {
	settings.SetDefault(defs.AuthMaxAttemptsSetting, strconv.Itoa(limit))
	settings.SetDefault(defs.AuthLockoutDurationSetting, lockout)

	loginAttemptsMu.Lock()
	loginAttempts = map[string]*loginRecord{}
	loginAttemptsMu.Unlock()
}

func c24RunSeq(t *testing.T, st *c24Store, limit int, lockout string, next func(i int, m *c24Model) (c24Op, bool)) c24Result {
	d, err := time.ParseDuration(lockout)
	if err != nil {
		t.Fatalf("lockout %q: %v", lockout, err)
	}

	res := c24Result{model: newC24Model(limit, d)}
	m := res.model

	synctest.Test(t, func(t *testing.T) {
		c24Configure(limit, lockout)

		start := time.Now()

		for i := 0; ; i++ {
			op, ok := next(i, m)
			if !ok {
				break
			}

			var (
				obs  c24Obs
				fail *c24Fail
			)

			switch op.Op {
			case "login":
				obs = c24Login(st, op, i)
				obs.Now = time.Since(start)
				fail = m.login(op, obs)
			case "advance":
				dd, err := time.ParseDuration(op.D)
				if err != nil || dd < 0 {
					t.Fatalf("bad advance %q", op.D)
				}

				time.Sleep(dd)

				m.now += dd
				obs.Now = time.Since(start)
			case "prune":
				pruneLoginAttempts()
				m.prune()

				obs.Now = time.Since(start)
			default:
				t.Fatalf("unknown op %q", op.Op)
			}

			if obs.Now != m.now {
				t.Fatalf("harness: bubble clock +%v, model clock +%v", obs.Now, m.now)
			}

			res.recs = append(res.recs, c24Rec{Op: op, Obs: obs})

			if fail != nil {
				fail.Step = i
				res.fail = fail

				break
			}
		}
	})

	return res
}

var c24Lockouts = []string{"1s", "90s", "15m"}

type c24Gen struct {
	rng   *rand.Rand
	steps int
	hot   [2]int
	ops   []c24Op
}

func (g *c24Gen) next(i int, m *c24Model) (c24Op, bool) {
	if i >= g.steps {
		return c24Op{}, false
	}

	var op c24Op

	switch p := g.rng.Intn(100); {
	case p < 66:
		op = c24Op{Op: "login", U: g.rng.Intn(4), Pw: "wrong"}
		if g.rng.Intn(10) < 7 {
			op.U = g.hot[g.rng.Intn(2)] // most attempts go to two accounts so that they reach the limit
		}

		switch q := g.rng.Intn(100); {
		case q < 28:
			op.Pw = "right"
		case q < 33:
			op.Pw = "empty"
		case q < 40:
			op.Pw = "near"
		}

		op.Upper = g.rng.Intn(10) == 0
	case p < 95:
		op = c24Op{Op: "advance"}

		// boundary-aimed advances: the end of some account's lockout -1s / 0 / +1s,
		// one more lockout period after that (2d, 2d+1s), and the prune horizon.
		var cands []time.Duration

		for u := range m.st {
			s := m.st[u][0]
			if s.fails == 0 {
				continue
			}

			bases := []time.Duration{s.lastFail + 2*m.d}
			if s.locked {
				bases = append(bases, s.until, s.until+m.d)
			}

			for _, b := range bases {
				for _, off := range []time.Duration{-time.Second, 0, time.Second} {
					if dd := b + off - m.now; dd >= 0 {
						cands = append(cands, dd)
					}
				}
			}
		}

		if len(cands) > 0 && g.rng.Intn(10) < 6 {
			op.D = cands[g.rng.Intn(len(cands))].String()
		} else {
			choices := []time.Duration{0, time.Second, 2 * time.Second, m.d / 2, m.d - time.Second, m.d, m.d + time.Second, 2*m.d + time.Second, 20 * time.Minute}
			dd := choices[g.rng.Intn(len(choices))]

			if dd < 0 {
				dd = 0
			}

			op.D = dd.String()
		}
	default:
		op = c24Op{Op: "prune"}
	}

	g.ops = append(g.ops, op)

	return op, true
}

func c24ListNext(ops []c24Op) func(int, *c24Model) (c24Op, bool) {
	return func(i int, _ *c24Model) (c24Op, bool) {
		if i >= len(ops) {
			return c24Op{}, false
		}

		return ops[i], true
	}
}

func c24Trace(recs []c24Rec) []string {
	var out []string

	for i, r := range recs {
		s := fmt.Sprintf("%02d +%v %v", i, r.Obs.Now, r.Op)
		if r.Op.Op == "login" {
			s += fmt.Sprintf(" -> authenticated=%v lockedOut=%v retryAfter=%d readUser=%d", r.Obs.Auth, r.Obs.LockedOut, r.Obs.RetryAfter, r.Obs.Reads)
		}

		out = append(out, s)
	}

	return out
}

func c24Account(r *vh.Report, h c24Hist, res c24Result, shapes map[string]bool) bool {
	m := res.model
	r.Count("events.lockouts_started", int64(m.lockouts))
	r.Count("events.attempts_refused_while_locked", int64(m.refusedLocked))
	r.Count("events.failed_attempt_after_lockout_ran_out", int64(m.relockAfterExpiry))
	r.Count("events.attempts_exactly_at_boundary", int64(m.boundaryAttempts))

	for _, rc := range res.recs {
		r.Count("ops."+rc.Op.Op, 1)

		if rc.Op.Op == "login" {
			switch {
			case rc.Obs.Auth:
				r.Count("logins.accepted", 1)
			case rc.Obs.LockedOut:
				r.Count("logins.refused_locked_without_store_read", 1)
			default:
				r.Count("logins.checked_and_refused", 1)
			}

			shapes[fmt.Sprintf("limit%d/%s/%s/auth=%v/locked=%v", h.Limit, h.Lockout, rc.Op.Pw, rc.Obs.Auth, rc.Obs.LockedOut)] = true
		}
	}

	if f := res.fail; f != nil {
		tr := c24Trace(res.recs)
		if len(tr) > 50 {
			tr = tr[len(tr)-50:]
		}

		h.Ops = h.Ops[:f.Step+1]
		r.Violate(vh.Violation{Key: f.Key, Desc: fmt.Sprintf("step %d: %s", f.Step, f.Desc), Case: h,
			Expected: "the lockout automaton of the property explains every attempt", Observed: tr})
	}

	return m.refusedLocked > 0 || (h.Limit == 0 && len(res.recs) > 0)
}

func c24Histories(t *testing.T, r *vh.Report, st *c24Store, n int, stream string) {
	rng := vh.Rand(stream)
	shapes := map[string]bool{}

	for i := 0; i < n; i++ {
		limit := rng.Intn(7)
		lockout := c24Lockouts[rng.Intn(len(c24Lockouts))]
		g := &c24Gen{rng: rng, steps: 40, hot: [2]int{rng.Intn(4), rng.Intn(4)}}
		res := c24RunSeq(t, st, limit, lockout, g.next)
		h := c24Hist{Kind: "seq", Limit: limit, Lockout: lockout, Ops: g.ops}

		r.Eval(vh.Hash(h), c24Account(r, h, res, shapes))
		r.Count("histories", 1)
		r.Count(fmt.Sprintf("histories.limit%d", limit), 1)

		if i%(n/4+1) == 0 {
			tr := c24Trace(res.recs)
			if len(tr) > 14 {
				tr = tr[:14]
			}

			r.Sample(map[string]any{"limit": limit, "lockout": lockout, "first_steps": tr})
		}
	}

	r.Count("model.distinct_config_x_attempt_x_outcome", int64(len(shapes)))
}

const c24Rule = "history = (limit 0..6, lockout in {1s,90s,15m}) + 40 PRNG steps of login(user of 4, right|wrong|empty|near-miss password, lower/upper-case name) / advance (60% aimed at lockout end -1s/0/+1s, +d, prune horizon) / prune tick; " +
	"distinct = distinct history; non-trivial = at least one attempt was refused while the automaton says locked (or limit 0, where never refusing is the claim)"

func TestC24Histories(t *testing.T) {
	r := vh.New("C24", "histories")
	r.Rule = c24Rule
	r.Assume("testing/synctest virtual time for the rate limiter's time.Now(); settings set with settings.SetDefault")
	r.Assume("'password checked' = the counting user store saw a ReadUser for that name during the Authenticate call (ValidatePassword reads the user before comparing)")
	r.Assume("the process-lifetime prune goroutine is not started (scanOnce consumed); the package's pruneLoginAttempts() is called at generated instants instead")

	st := c24Setup(t)

	if c := vh.ReplayCase(); c != nil {
		var h c24Hist
		if err := json.Unmarshal(c, &h); err != nil || len(h.Ops) == 0 {
			r.Note("replay case is not a login history; this part ran nothing")
			_ = r.Write()

			return
		}

		res := c24RunSeq(t, st, h.Limit, h.Lockout, c24ListNext(h.Ops))
		r.Eval(vh.Hash(h), true)
		c24Account(r, h, res, map[string]bool{})
		r.Distinct = 2
		_ = r.Write()

		return
	}

	// directed history from the design experiment: limit 3, 90 s
	probe := c24Hist{Kind: "seq", Limit: 3, Lockout: "90s", Ops: []c24Op{
		{Op: "login", U: 0, Pw: "wrong"}, {Op: "login", U: 0, Pw: "wrong"}, {Op: "login", U: 0, Pw: "wrong"},
		{Op: "login", U: 0, Pw: "right"}, {Op: "login", U: 1, Pw: "right"}, {Op: "advance", D: "89s"}, {Op: "login", U: 0, Pw: "right"},
		{Op: "advance", D: "2s"}, {Op: "login", U: 0, Pw: "right"}, {Op: "login", U: 0, Pw: "wrong"}, {Op: "login", U: 0, Pw: "wrong"}, {Op: "login", U: 0, Pw: "wrong"}, {Op: "login", U: 0, Pw: "right"},
	}}
	res := c24RunSeq(t, st, probe.Limit, probe.Lockout, c24ListNext(probe.Ops))
	r.Eval(vh.Hash(probe), c24Account(r, probe, res, map[string]bool{}))

	c24Histories(t, r, st, vh.N(400, 20000), "c24-seq")

	if r.Counters["events.attempts_refused_while_locked"] == 0 && len(r.Violations) == 0 {
		t.Fatal("observed nothing: no attempt was ever refused by a lockout")
	}

	if err := r.Write(); err != nil {
		t.Fatal(err)
	}
}

func TestC24Race(t *testing.T) {
	r := vh.New("C24", "race")
	r.Rule = "(a) a 5% sample of the sequential histories: " + c24Rule + "; (b) burst = one goroutine per account (4) each sending limit+2 wrong then 1 right password to its own account concurrently, limits 1..6, lockout 15m real time; non-trivial = a lockout was observed"
	r.Assume("bursts run on the real clock with a 15 minute lockout, far longer than a burst")

	st := c24Setup(t)

	if c := vh.ReplayCase(); c == nil {
		c24Histories(t, r, st, vh.N(20, 1000), "c24-seq-race")
	} else {
		var h c24Hist
		if err := json.Unmarshal(c, &h); err == nil && len(h.Ops) > 0 {
			// a sequential history is replayed under the race detector as well; then no bursts
			res := c24RunSeq(t, st, h.Limit, h.Lockout, c24ListNext(h.Ops))
			r.Eval(vh.Hash(h), true)
			c24Account(r, h, res, map[string]bool{})
			r.Distinct = 2
			_ = r.Write()

			return
		}
	}

	bursts := vh.N(60, 3000)

	for b := 0; b < bursts; b++ {
		limit := 1 + b%6
		c24Configure(limit, "15m")

		var (
			wg   sync.WaitGroup
			recs [4][]c24Rec
		)

		for u := 0; u < 4; u++ {
			wg.Add(1)

			go func(u int) {
				defer wg.Done()

				for k := 0; k <= limit+2; k++ {
					op := c24Op{Op: "login", U: u, Pw: "wrong"}
					if k == limit+2 {
						op.Pw = "right"
					}

					obs := c24Login(st, op, b*1000+u*10+k)
					obs.ReadsOther = 0 // other accounts are being used concurrently
					recs[u] = append(recs[u], c24Rec{Op: op, Obs: obs})
				}
			}(u)
		}

		wg.Wait()

		locked := false

		for u := 0; u < 4; u++ {
			m := newC24Model(limit, 15*time.Minute)

			for k, rc := range recs[u] {
				if f := m.login(rc.Op, rc.Obs); f != nil {
					r.Violate(vh.Violation{Key: "concurrent:" + f.Key, Desc: fmt.Sprintf("burst with limit %d, account %s, attempt %d: %s", limit, c24Names[u], k, f.Desc),
						Case: map[string]any{"kind": "burst", "limit": limit}, Observed: c24Trace(recs[u])})

					break
				}
			}

			locked = locked || m.refusedLocked > 0
			r.Count("burst.attempts_refused_while_locked", int64(m.refusedLocked))
		}

		r.Eval(fmt.Sprintf("burst/limit%d/%d", limit, b), locked)
		r.Count("bursts", 1)
	}

	if r.Counters["burst.attempts_refused_while_locked"] == 0 && len(r.Violations) == 0 {
		t.Fatal("observed nothing: no burst reached a lockout")
	}

	if err := r.Write(); err != nil {
		t.Fatal(err)
	}
}
