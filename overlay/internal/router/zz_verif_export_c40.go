//go:build verif

package router

import (
	"reflect"
	"runtime"
	"sort"
)

// Scratch-copy-only export for the /verif C40/C44 monitors (never part of tucats/ego):
// a read-only listing of the route table so that a workload can be derived from the
// routes the server really has.

// VerifC40Route describes one route of the table.
type VerifC40Route struct {
	Endpoint     string
	Method       string
	Handler      string // Go function name of the handler
	Filename     string // Ego service source, when the route is a service
	Redirect     string
	Parameters   map[string]string
	Validations  []string
	Permissions  []string
	AcceptMedia  []string
	ContentMedia []string
	MustAuth     bool
	Lightweight  bool
}

func verifC40Describe(r *Route) VerifC40Route {
	v := VerifC40Route{Endpoint: r.endpoint, Method: r.method, Filename: r.filename, Redirect: r.redirect, Parameters: map[string]string{},
		Validations: append([]string{}, r.validations...), Permissions: append([]string{}, r.requiredPermissions...),
		AcceptMedia: append([]string{}, r.acceptMediaTypes...), ContentMedia: append([]string{}, r.contentMediaTypes...),
		MustAuth: r.mustAuthenticate, Lightweight: r.lightweight}

	for k, t := range r.parameters {
		v.Parameters[k] = t
	}

	if r.handler != nil {
		if fn := runtime.FuncForPC(reflect.ValueOf(r.handler).Pointer()); fn != nil {
			v.Handler = fn.Name()
		}
	}

	return v
}

// VerifC40Routes lists every route, sorted by endpoint and method.
func (m *Router) VerifC40Routes() []VerifC40Route {
	m.mutex.Lock()
	defer m.mutex.Unlock()

	out := []VerifC40Route{}
	for _, r := range m.routes {
		out = append(out, verifC40Describe(r))
	}

	sort.Slice(out, func(i, j int) bool {
		if out[i].Endpoint != out[j].Endpoint {
			return out[i].Endpoint < out[j].Endpoint
		}

		return out[i].Method < out[j].Method
	})

	return out
}

// VerifC40Resolve reports which handler the router would dispatch (method, path) to ("" when none).
func (m *Router) VerifC40Resolve(method, path string) string {
	r, _ := m.FindRoute(method, path, false)
	if r == nil {
		return ""
	}

	return verifC40Describe(r).Handler
}
