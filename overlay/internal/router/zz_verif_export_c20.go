//go:build verif

package router

// Scratch-copy-only exports for the /verif C20 monitor (never part of tucats/ego).

// VerifC20Flags is a copy of the gate-relevant fields of a route as the builder calls left them.
type VerifC20Flags struct {
	Endpoint         string
	Method           string
	MustAuthenticate bool
	CanAuthenticate  bool
	Lightweight      bool
	CheckCredentials bool
	Permissions      []string // nil when Permissions() was never called
	AcceptMedia      []string
	ContentMedia     []string
	Validations      []string
	Parameters       map[string]string
	Redirect         string
	Filename         string
}

// VerifC20Flags reads the route's fields.
func (r *Route) VerifC20Flags() VerifC20Flags {
	f := VerifC20Flags{
		Endpoint: r.endpoint, Method: r.method, MustAuthenticate: r.mustAuthenticate, CanAuthenticate: r.canAuthenticate,
		Lightweight: r.lightweight, CheckCredentials: r.checkCredentials, Redirect: r.redirect, Filename: r.filename,
		Parameters: map[string]string{},
	}

	if r.requiredPermissions != nil {
		f.Permissions = append([]string{}, r.requiredPermissions...)
	}

	f.AcceptMedia = append(f.AcceptMedia, r.acceptMediaTypes...)
	f.ContentMedia = append(f.ContentMedia, r.contentMediaTypes...)
	f.Validations = append(f.Validations, r.validations...)

	for k, v := range r.parameters {
		f.Parameters[k] = v
	}

	return f
}

// VerifC20SwapHandler replaces the route's handler (ServeHTTP copies route.handler into the
// session per request) and returns the previous one.
func (r *Route) VerifC20SwapHandler(h HandlerFunc) HandlerFunc {
	old := r.handler
	r.handler = h

	return old
}
