//go:build verif

package router

import "sort"

// Scratch-copy-only exports for the /verif C32 monitor (never part of tucats/ego).

// VerifC32Routes returns the routes of the table sorted by (endpoint, method).
func (m *Router) VerifC32Routes() []*Route {
	m.mutex.Lock()
	defer m.mutex.Unlock()

	out := make([]*Route, 0, len(m.routes))
	for _, r := range m.routes {
		out = append(out, r)
	}

	sort.Slice(out, func(i, j int) bool {
		if out[i].endpoint != out[j].endpoint {
			return out[i].endpoint < out[j].endpoint
		}

		return out[i].method < out[j].method
	})

	return out
}

// VerifC32Endpoint returns the endpoint pattern the route was registered with.
func (r *Route) VerifC32Endpoint() string {
	if r == nil {
		return ""
	}

	return r.endpoint
}

// VerifC32Method returns the method the route was registered with ("ANY" for all).
func (r *Route) VerifC32Method() string {
	if r == nil {
		return ""
	}

	return r.method
}
