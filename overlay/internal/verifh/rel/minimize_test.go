package rel

// A line-based reducer for generated programs, used while investigating a mismatch
// (development aid and replay helper; it is not part of any verdict).

import (
	"encoding/json"
	"fmt"
	"os"
	"strings"
	"testing"

	"github.com/tucats/ego/internal/verifh/egorun"
)

// reduce removes lines and brace-balanced blocks from src as long as keep(src) holds.
func reduce(src string, keep func(string) bool) string {
	lines := strings.Split(src, "\n")

	try := func(cand []string) bool { return keep(strings.Join(cand, "\n")) }

	for changed := true; changed; {
		changed = false

		for i := 0; i < len(lines); i++ {
			l := strings.TrimSpace(lines[i])
			if l == "" || strings.HasPrefix(l, "import ") || l == "func main() {" {
				continue
			}

			j := i

			if strings.HasSuffix(l, "{") && !strings.HasPrefix(l, "}") {
				depth := 0

				for k := i; k < len(lines); k++ {
					depth += strings.Count(lines[k], "{") - strings.Count(lines[k], "}")
					if depth == 0 {
						j = k

						break
					}
				}

				if j == i {
					continue
				}
			} else if strings.HasPrefix(l, "}") {
				continue
			}

			cand := append(append([]string{}, lines[:i]...), lines[j+1:]...)
			if try(cand) {
				lines = cand
				changed = true
				i--

				continue
			}

			// a block that cannot be removed: try to keep only its body
			if j > i+1 && !strings.HasPrefix(l, "func ") && !strings.HasPrefix(l, "type ") {
				cand = append(append(append([]string{}, lines[:i]...), lines[i+1:j]...), lines[j+1:]...)
				if try(cand) {
					lines = cand
					changed = true
					i--
				}
			}
		}
	}

	return strings.Join(lines, "\n")
}

// TestExploreMin reduces the first violation of every key in the report $VIOL
// (a vh report JSON) whose key has the prefix $KEYPREFIX, in-process (allocation 32).
func TestExploreMin(t *testing.T) {
	path := os.Getenv("VIOL")
	if path == "" {
		t.Skip("development aid")
	}

	relInit(t)

	var rep struct {
		Violations []struct {
			Key  string
			Case struct {
				Src  string
				Mode string
				Cfg  egorun.Config
			}
		}
	}

	b, _ := os.ReadFile(path)
	_ = json.Unmarshal(b, &rep)

	seen := map[string]bool{}

	for _, v := range rep.Violations {
		if seen[v.Key] || !strings.HasPrefix(v.Key, os.Getenv("KEYPREFIX")) || v.Case.Src == "" {
			continue
		}

		seen[v.Key] = true

		cfg := v.Case.Cfg
		cfg.SymAlloc = 32
		cfg.Types = v.Case.Mode
		cfg.Extensions = true

		bcfg := egorun.Baseline(v.Case.Mode)
		bcfg.Extensions = true

		diff := func(src string) (outcome, outcome) {
			return outcomeOf(RunProg(src, bcfg, diagNone)), outcomeOf(RunProg(src, cfg, diagNone))
		}

		b0, g0 := diff(v.Case.Src)
		if b0 == g0 {
			fmt.Fprintf(os.Stderr, "==== %s: does not reproduce at allocation 32 (%s)\n", v.Key, cfgKey(cfg))

			continue
		}

		sym := symptom(b0, g0)
		// keep the baseline's own class too, so the reduction does not drift to a different defect
		keep := func(src string) bool {
			bb, gg := diff(src)

			return bb != gg && symptom(bb, gg) == sym && bb.class() == b0.class()
		}

		min := reduce(v.Case.Src, keep)
		bb, gg := diff(min)
		ln, want, got := firstDiffLine(bb.Out, gg.Out)
		fmt.Fprintf(os.Stderr, "==== %s  mode=%s cfg=%s\n%s\n---- baseline err=%q | observed err=%q | line %d: %q vs %q\n", v.Key, v.Case.Mode, cfgKey(cfg), min, bb.Err, gg.Err, ln, want, got)
	}
}
