package rel

// Development aid (skipped unless $P names a program file): run one program under the
// baseline and under every allocation-32 row of the full product, per type mode, and
// print the rows that differ.

import (
	"fmt"
	"os"
	"testing"

	"github.com/tucats/ego/internal/verifh/egorun"
)

func TestExploreProg(t *testing.T) {
	path := os.Getenv("P")
	if path == "" {
		t.Skip("development aid")
	}

	relInit(t)

	b, err := os.ReadFile(path)
	if err != nil {
		t.Fatal(err)
	}

	modes := typeModes
	if m := os.Getenv("MODE"); m != "" {
		modes = []string{m}
	}

	for _, ty := range modes {
		base := egorun.Baseline(ty)
		base.Extensions = true

		r0 := outcomeOf(RunProg(string(b), base, diagNone))
		fmt.Fprintf(os.Stderr, "== %s baseline\n%s\nERR=%q %s\n", ty, r0.Out, r0.Err, r0.Panic)

		for _, c := range fullRows() {
			if c.SymAlloc != 32 {
				continue
			}

			c.Types = ty
			c.Extensions = true

			r := outcomeOf(RunProg(string(b), c, diagNone))
			if r != r0 {
				fmt.Fprintf(os.Stderr, "-- DIFF %s\n%s\nERR=%q %s\n", cfgKey(c), r.Out, r.Err, r.Panic)
			}
		}
	}
}
