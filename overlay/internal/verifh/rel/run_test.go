package rel

// In-process `ego run` with a diagnostics mode (C12). The plain path is
// egorun.Run itself; this file adds the three diagnostics modes the way
// internal/commands/run.go switches them on:
//
//	--profile  : bytecode.ProfileAction(StartAction) before the run (startProfiling)
//	--trace    : ui.Active(ui.TraceLogger, true)                    (initializeSymbols)
//	--debug    : compiler.DebugMode, SetDebuggerActive, ctx.SetDebug, debugger session
//
// For the debugger the API entry point debugger.Resume(ctx, "continue") is used; it
// runs exactly the same command loop as debugger.Run (runWithSession) but hands
// back what the program printed separately from what the debugger printed.

import (
	"encoding/json"
	"fmt"
	"os"
	"path/filepath"
	"regexp"
	"runtime/debug"
	"strings"
	"sync/atomic"

	"github.com/tucats/ego/internal/builtins"
	"github.com/tucats/ego/internal/cli/settings"
	"github.com/tucats/ego/internal/cli/ui"
	"github.com/tucats/ego/internal/defs"
	"github.com/tucats/ego/internal/errors"
	"github.com/tucats/ego/internal/language/bytecode"
	"github.com/tucats/ego/internal/language/compiler"
	"github.com/tucats/ego/internal/language/data"
	"github.com/tucats/ego/internal/language/debugger"
	"github.com/tucats/ego/internal/language/symbols"
	"github.com/tucats/ego/internal/language/tokenizer"
	"github.com/tucats/ego/internal/verifh/egorun"
)

func instructionsNow() int64 { return atomic.LoadInt64(&bytecode.InstructionsExecuted) }

const progStepBudget = int64(3_000_000)

// diagObs is what the monitor saw of the diagnostics machinery itself (evidence
// that the mode was really on).
type diagObs struct {
	ProfileRows   int   // statements the profiler recorded
	ProfileHits   int64 // sum of their hit counts
	TraceLines    int   // trace lines produced
	DebugStops    int   // debugger prompts answered with "continue"
	DebuggerBytes int   // bytes of debugger chatter
}

var lastDiag diagObs

// startDiag switches a diagnostics mode on and returns the function that
// switches it off again and records what it observed in lastDiag.
func startDiag(d diag) func() {
	lastDiag = diagObs{}

	switch d {
	case diagProfile:
		bytecode.SuppressConsoleReport(true)
		_ = bytecode.ProfileAction(bytecode.StartAction)

		return func() {
			p := filepath.Join(arenaDir, "profile.json")
			_ = os.Remove(p)
			_ = bytecode.WriteProfileReportFile(p)
			_ = bytecode.ProfileAction(bytecode.StopAction)
			_ = bytecode.PrintProfileReport() // resets the collected data (console report suppressed)
			bytecode.SuppressConsoleReport(false)

			if b, err := os.ReadFile(p); err == nil {
				var rows []bytecode.ProfileRecord
				if json.Unmarshal(b, &rows) == nil {
					lastDiag.ProfileRows = len(rows)
					for _, r := range rows {
						lastDiag.ProfileHits += int64(r.Count)
					}
				}
			}
		}

	case diagTrace:
		ui.Active(ui.TraceLogger, true)

		return func() { ui.Active(ui.TraceLogger, false) }
	}

	return func() {}
}

// traceLineRE-free classification: a trace line is what traceInstruction writes to
// the context's writer: ui.FormatLogMessage(ui.TraceLogger, ...) rendered as text.
// isTraceLine recognises it by the logger class field the formatter always prints.
//
// A trace record is written to the context's writer with ONE Write call of
// "<text>\n" (traceInstruction), so in a single-threaded program it can start in the
// middle of an output line the program has not finished yet (fmt.Print without a
// newline) but is never interrupted itself. Removing every match of the record
// pattern, from its time stamp to its newline, therefore gives back exactly what the
// program wrote. (A program that itself prints such a record would lose that text in
// both... only in the traced run: the generators never print this pattern.)
var traceRecordRE = regexp.MustCompile(`\[\d{4}-\d\d-\d\d \d\d:\d\d:\d\d\] \d+ +TRACE +: [^\n]*\n`)

// splitTrace separates trace records from program output.
func splitTrace(out string) (program string, traceLines int) {
	traceLines = len(traceRecordRE.FindAllStringIndex(out, -1))

	return traceRecordRE.ReplaceAllString(out, ""), traceLines
}

// RunProg runs src like `ego run file.ego` under cfg with diagnostics mode d.
//
// The process's os.Stdout is redirected for the duration: contexts the interpreter
// creates on the side (deferred calls, goroutines) write to os.Stdout rather than to
// the main context's capture buffer. Whatever arrives there - after trace records are
// removed - is appended to the output under a marker, so it takes part in the
// comparison in every mode alike.
func RunProg(src string, cfg egorun.Config, d diag) (res egorun.Result) {
	side := captureStdout(func() {
		if d == diagNone {
			res = guarded(func() egorun.Result { return egorun.Run(src, cfg) })
		} else {
			res = guarded(func() egorun.Result { return runDiag(src, cfg, d) })
		}
	})

	if d == diagTrace {
		var n int

		side, n = splitTrace(side)
		lastDiag.TraceLines += n
	}

	if side != "" {
		res.Out += "\n[written to os.Stdout]\n" + side
	}

	return res
}

// guarded adds the logical step budget (hang guard) around one run.
func guarded(fn func() egorun.Result) egorun.Result {
	egorun.Init()

	start := instructionsNow()
	hits0 := bytecode.VerifBudgetHits.Load()

	// generated and directed programs execute a few thousand to a few hundred thousand
	// instructions; three million is a generous logical bound that still makes a
	// configuration that sends a program into an endless loop cheap to observe
	bytecode.VerifStepLimit.Store(start + progStepBudget)

	res := fn()

	bytecode.VerifStepLimit.Store(0)

	if bytecode.VerifBudgetHits.Load() != hits0 {
		res.Err = "VERIF-STEP-BUDGET " + res.Err
	}

	return res
}

func runDiag(src string, cfg egorun.Config, d diag) (res egorun.Result) {
	defer func() {
		if r := recover(); r != nil {
			res.Panic = fmt.Sprintf("%v\n%s", r, debug.Stack())
		}
	}()

	dbg := d == diagDebug

	egorun.Apply(cfg)

	compiler.DebugMode = dbg
	defer func() { compiler.DebugMode = false }()

	stop := startDiag(d)
	defer stop()

	text := src
	if strings.HasPrefix(text, "#!") {
		if i := strings.Index(text, "\n"); i >= 0 {
			text = text[i:]
		} else {
			text = ""
		}
	}

	text = text + "\n@entrypoint main"

	st := symbols.NewSymbolTable("file verif.ego").Shared(true)
	st.SetGlobalSingleton()
	st.SetAlways(defs.CLIArgumentListVariable, data.NewArrayFromInterfaces(data.StringType))
	st.SetAlways(defs.TypeCheckingVariable, typeLevel(cfg.Types))
	st.SetAlways(defs.ModeVariable, "run")
	builtins.AddBuiltins(st.Root())
	st.Root().SetAlways(defs.MainVariable, defs.Main)
	st.Root().SetAlways(defs.ExtensionsVariable, cfg.Extensions)
	st.Root().SetAlways(defs.UserCodeRunningVariable, true)
	symbols.RootSymbolTable.SetAlways(defs.TypeCheckingVariable, typeLevel(cfg.Types))

	comp := compiler.New("run").
		SetNormalization(settings.GetBool(defs.CaseNormalizedSetting)).
		SetExitEnabled(false).
		SetDebuggerActive(dbg).
		SetRoot(&symbols.RootSymbolTable).
		SetInteractive(false)

	_ = comp.AutoImport(true, st)

	t := tokenizer.New(text, true)
	comp.Fragment(true)

	b, err := comp.Compile("main 'verif.ego'", t)
	if !errors.Nil(err) {
		res.Err = err.Error()
		res.CompileErr = true

		return res
	}

	if b == nil {
		return res
	}

	t.Close()

	ctx := bytecode.NewContext(st, b).
		SetDebug(dbg).
		SetTokenizer(t).
		SetFullSymbolScope(false).
		EnableConsoleOutput(false)

	if dbg {
		var prog strings.Builder

		resp := debugger.Resume(ctx, "")
		prog.WriteString(resp.ProgramOutput)
		lastDiag.DebuggerBytes += len(resp.Output)

		for !resp.Done {
			lastDiag.DebugStops++

			if lastDiag.DebugStops > 100000 {
				debugger.Close(ctx)

				res.Err = "VERIF-DEBUGGER-NEVER-FINISHED"

				break
			}

			resp = debugger.Resume(ctx, "continue")
			prog.WriteString(resp.ProgramOutput)
			lastDiag.DebuggerBytes += len(resp.Output)
		}

		err = resp.Err
		// anything printed after the last flush stays in the context buffer
		prog.WriteString(ctx.GetOutput())
		res.Out = prog.String()
	} else {
		err = ctx.Run()
		ctx.FlushProfileTimer()
		res.Out = ctx.GetOutput()
	}

	if d == diagTrace {
		res.Out, lastDiag.TraceLines = splitTrace(res.Out)
	}

	if errors.Equals(err, errors.ErrStop) {
		err = nil
	}

	if err != nil {
		if e, ok := err.(*errors.Error); ok && e.Is(errors.ErrExit) {
			return res
		}

		res.Err = err.Error()
	}

	if err == nil {
		if _, cerr := comp.Close(); cerr != nil {
			res.Err = cerr.Error()
		}
	}

	return res
}

var lineNoRE = regexpMust(`line \d+(:\d+)?`)

func stripLine(s string) string { return lineNoRE.ReplaceAllString(s, "line N") }

func numbered(src string) string {
	var b strings.Builder
	for i, l := range strings.Split(src, "\n") {
		fmt.Fprintf(&b, "%3d  %s\n", i+1, l)
	}

	return b.String()
}

func regexpMust(s string) *regexp.Regexp { return regexp.MustCompile(s) }
