package rel

// C12: a diagnostics mode under which a program never finishes.
//
// The mode runs are done by a worker process (TestC12Worker) that reports, before
// every run, which (program, mode) it starts and how long the plain run of that
// program took. The parent applies the rule: a mode run still going after
// max(20 s, 50 x plain) is killed and run once more, alone, in a fresh worker together
// with a new plain run; if it exceeds the bound again while that plain run finished,
// the outcome under the mode differs from the plain outcome: violation
// diag:<mode>:hang. A run that finishes the second time is only counted as slow.
// (Wall-clock time is used here only as a watchdog whose firing has to be confirmed
// against a plain run of the same program; it never decides what output is right.)

import (
	"bufio"
	"encoding/json"
	"fmt"
	"os"
	"os/exec"
	"path/filepath"
	"strings"
	"syscall"
	"testing"
	"time"

	"github.com/tucats/ego/internal/verifh/vh"
)

type c12Spec struct {
	Programs []progCase `json:"programs"`
	Start    int        `json:"start"`
	OnlyMode string     `json:"only_mode"`
	Progress string     `json:"progress"`
	Out      string     `json:"out"`
}

type c12Progress struct {
	Index   int    `json:"i"`
	Mode    string `json:"mode"`
	StartNS int64  `json:"start_ns"`
	PlainNS int64  `json:"plain_ns"`
	Done    bool   `json:"done"`
}

// childReport is the part of a worker's vh report the parent folds into its own.
type childReport struct {
	Evaluations  int64            `json:"evaluations"`
	Distinct     int64            `json:"distinct_nontrivial"`
	Violations   []vh.Violation   `json:"violations"`
	Inconclusive []string         `json:"inconclusive"`
	Counters     map[string]int64 `json:"counters"`
	ProbesRun    []string         `json:"probes_run"`
}

// TestC12Worker is only ever started by c12Guarded.
func TestC12Worker(t *testing.T) {
	specPath := os.Getenv("REL_C12_SPEC")
	if specPath == "" {
		t.Skip("worker of TestC12")
	}

	var spec c12Spec
	if err := readJSON(specPath, &spec); err != nil {
		t.Fatal(err)
	}

	relInit(t)

	pf, err := os.OpenFile(spec.Progress, os.O_CREATE|os.O_WRONLY|os.O_APPEND, 0o644)
	if err != nil {
		t.Fatal(err)
	}

	defer pf.Close()

	r := vh.New("C12", "diagnostics-worker")
	os.Setenv("VERIF_OUT", spec.Out)

	lastIndex := -1

	c12Hook = func(i int, mode string, plainDur time.Duration) {
		if i != lastIndex {
			// a new program starts: what has been recorded so far is safe on disk
			// before anything can hang
			_ = r.Write()
			lastIndex = i
		}

		b, _ := json.Marshal(c12Progress{Index: spec.Start + i, Mode: mode, StartNS: time.Now().UnixNano(), PlainNS: int64(plainDur)})
		_, _ = pf.Write(append(b, '\n'))
	}
	c12OnlyMode = spec.OnlyMode

	c12Programs(t, r, spec.Programs[spec.Start:], cliDefaults("dynamic", 0), union(knownAvoid("C12"), nil))

	_ = r.Write()

	b, _ := json.Marshal(c12Progress{Done: true})
	_, _ = pf.Write(append(b, '\n'))
}

type workerEnd struct {
	finished bool
	hung     *c12Progress // the run that exceeded its bound
	died     string       // log tail if the worker ended without finishing and without a hang
	report   *childReport
}

const (
	hangFloor      = 20 * time.Second
	hangFactor     = 50
	plainHangBound = 120 * time.Second
)

func hangBound(p c12Progress) time.Duration {
	if p.Mode == "plain" {
		return plainHangBound
	}

	b := time.Duration(p.PlainNS) * hangFactor
	if b < hangFloor {
		b = hangFloor
	}

	return b
}

func lastProgress(path string) (c12Progress, bool) {
	f, err := os.Open(path)
	if err != nil {
		return c12Progress{}, false
	}

	defer f.Close()

	var (
		last c12Progress
		ok   bool
	)

	sc := bufio.NewScanner(f)
	sc.Buffer(make([]byte, 1<<16), 1<<20)

	for sc.Scan() {
		var p c12Progress
		if json.Unmarshal(sc.Bytes(), &p) == nil {
			last, ok = p, true
		}
	}

	return last, ok
}

var c12WorkerSeq int

// runC12Worker starts one worker and watches it.
func runC12Worker(programs []progCase, start int, onlyMode string) workerEnd {
	c12WorkerSeq++

	base := filepath.Join(arenaDir, fmt.Sprintf("c12-worker-%d", c12WorkerSeq))
	spec := c12Spec{Programs: programs, Start: start, OnlyMode: onlyMode, Progress: base + ".progress", Out: base + ".report.json"}

	if err := writeJSON(base+".spec.json", spec); err != nil {
		return workerEnd{died: err.Error()}
	}

	lf, _ := os.Create(base + ".log")
	defer lf.Close()

	cmd := exec.Command(os.Args[0], "-test.run", "^TestC12Worker$", "-test.count", "1", "-test.timeout", "0")
	cmd.Env = append(os.Environ(), "REL_C12_SPEC="+base+".spec.json")
	cmd.Stdout, cmd.Stderr = lf, lf
	cmd.SysProcAttr = &syscall.SysProcAttr{Pdeathsig: syscall.SIGKILL}

	if err := cmd.Start(); err != nil {
		return workerEnd{died: err.Error()}
	}

	exited := make(chan error, 1)

	go func() { exited <- cmd.Wait() }()

	var end workerEnd

	tick := time.NewTicker(250 * time.Millisecond)
	defer tick.Stop()

loop:
	for {
		select {
		case err := <-exited:
			if p, ok := lastProgress(spec.Progress); ok && p.Done && err == nil {
				end.finished = true
			} else {
				b, _ := os.ReadFile(base + ".log")
				tail := string(b)

				if len(tail) > 2500 {
					tail = tail[len(tail)-2500:]
				}

				end.died = fmt.Sprintf("%v: %s", err, tail)
			}

			break loop

		case <-tick.C:
			p, ok := lastProgress(spec.Progress)
			if !ok || p.Done {
				continue
			}

			if time.Since(time.Unix(0, p.StartNS)) > hangBound(p) {
				_ = cmd.Process.Kill()
				<-exited

				end.hung = &p

				break loop
			}
		}
	}

	var cr childReport
	if readJSON(spec.Out, &cr) == nil {
		end.report = &cr
	}

	return end
}

func mergeChild(r *vh.Report, cr *childReport) {
	if cr == nil {
		return
	}

	r.Evaluations += cr.Evaluations
	r.Distinct += cr.Distinct

	for k, v := range cr.Counters {
		if !strings.HasPrefix(k, "violations_") && k != "inconclusive" {
			r.Count(k, v)
		}
	}

	for _, v := range cr.Violations {
		r.Violate(v)
	}

	for _, s := range cr.Inconclusive {
		r.Inconcl(s)
	}

	for _, p := range cr.ProbesRun {
		r.Probe(p)
	}
}

// c12Guarded runs the program part of C12 through workers and applies the hang rule.
func c12Guarded(t *testing.T, r *vh.Report, programs []progCase) {
	start := 0

	for start < len(programs) {
		end := runC12Worker(programs, start, "")
		mergeChild(r, end.report)
		r.Count("workers.started", 1)

		if end.finished {
			return
		}

		if end.hung == nil {
			r.Inconcl("C12 worker ended abnormally; the programs it had not reached are not part of the verdict: " + end.died)
			t.Errorf("C12 worker failed: %s", end.died)

			return
		}

		h := *end.hung
		p := programs[h.Index]

		r.Count("watchdog.fired."+h.Mode, 1)

		if h.Mode == "plain" {
			// the plain run itself does not finish: nothing to compare this program with
			r.Count("dropped.plain-run-over-bound", 1)

			start = h.Index + 1

			continue
		}

		// once more, alone: a fresh plain run followed by only this mode
		confirm := runC12Worker(programs[h.Index:h.Index+1], 0, h.Mode)
		r.Count("workers.started", 1)

		switch {
		case confirm.hung != nil && confirm.hung.Mode == h.Mode:
			r.Eval(vh.Hash(p.Src, h.Mode, "hang"), true)
			r.Violate(vh.Violation{
				Key: "diag:" + h.Mode + ":hang",
				Desc: fmt.Sprintf("program %s under %s does not finish: the plain run took %v (and finished again in the confirmation run), the %s run was still going after %v twice (killed)",
					p.ID, h.Mode, time.Duration(confirm.hung.PlainNS), h.Mode, hangBound(*confirm.hung)),
				Case:     map[string]any{"kind": "program", "id": p.ID, "key": p.Key, "src": p.Src, "mode": h.Mode, "features": p.Features},
				Expected: "finishes like the plain run",
				Observed: "still running after the bound, twice",
			})
		case confirm.hung != nil:
			r.Count("dropped.plain-run-over-bound", 1)
		case confirm.finished:
			// slow the first time, finished when run alone: its comparison result counts
			r.Count("watchdog.not-reproduced."+h.Mode, 1)
			mergeChild(r, confirm.report)
		default:
			r.Inconcl(fmt.Sprintf("program %s under %s: confirmation worker ended abnormally: %s", p.ID, h.Mode, confirm.died))
		}

		start = h.Index + 1
	}
}

// ---------------------------------------------------------------- programs

func init() {
	directedC12 = append(directedC12,
		progCase{ID: "channels/buffered-closed-by-main-range", Key: "diag:channel-buffered-main-close", Src: `import "fmt"

func main() {
	b := make(chan, 4)
	b <- 1
	b <- 2
	b <- 3
	close(b)
	for v := range b {
		fmt.Println("buffered", v)
	}
	v, ok := <-b
	fmt.Println(v, ok)
}
`},
		progCase{ID: "channels/side-goroutine-produces-and-closes", Key: "diag:channel-side-goroutine-close", Src: `import "fmt"

func producer(ch chan, n int) {
	for i := 0; i < n; i++ {
		ch <- i * 10
	}
	close(ch)
}

func main() {
	u := make(chan, 1)
	go producer(u, 4)
	total := 0
	for v := range u {
		total = total + v
	}
	fmt.Println("total", total)

	c := make(chan, 2)
	go producer(c, 3)
	count := 0
	for {
		v, ok := <-c
		if !ok {
			break
		}
		count = count + 1 + v
	}
	fmt.Println("count", count)
}
`},
		progCase{ID: "channels/results-channel-and-waitgroup", Key: "diag:channel-results-waitgroup", Src: `import "fmt"
import "sync"

func main() {
	var wg sync.WaitGroup
	res := make(chan, 8)
	for w := 1; w <= 4; w++ {
		wg.Add(1)
		go func(k int) {
			res <- k * k
			wg.Done()
		}(w)
	}
	wg.Wait()
	close(res)
	sum := 0
	n := 0
	for v := range res {
		sum = sum + v
		n = n + 1
	}
	fmt.Println("sum", sum, "n", n)
}
`},
		progCase{ID: "sync/mutex-waitgroup", Key: "diag:mutex-waitgroup", Src: `import "fmt"
import "sync"

func main() {
	var wg sync.WaitGroup
	var mu sync.Mutex
	acc := 0
	for w := 1; w <= 5; w++ {
		wg.Add(1)
		go func(k int) {
			for j := 0; j < 3; j++ {
				mu.Lock()
				acc = acc + k
				mu.Unlock()
			}
			wg.Done()
		}(w)
	}
	wg.Wait()
	fmt.Println("acc", acc)
}
`},
	)
}

// concurrencyStmt: goroutines, channels, mutexes and WaitGroups inside generated
// programs (C12 only). Every shape computes something that does not depend on how the
// goroutines are scheduled.
func (g *pg) concurrencyStmt(n int) string {
	r := g.r
	in := ind(n)

	g.nameN++
	s := fmt.Sprintf("c%d", g.nameN)
	k := 2 + r.Intn(3)

	switch r.Intn(4) {
	case 0:
		g.feat("concurrency:buffered-main-close")

		var b strings.Builder

		fmt.Fprintf(&b, "%sch%s := make(chan, %d)\n", in, s, k)

		for i := 0; i < k; i++ {
			fmt.Fprintf(&b, "%sch%s <- %d\n", in, s, r.Intn(50))
		}

		fmt.Fprintf(&b, "%sclose(ch%s)\n%sfor v%s := range ch%s {\n%s\tfmt.Println(%q, v%s)\n%s}\n", in, s, in, s, s, in, g.lbl(), s, in)

		return b.String()

	case 1:
		g.feat("concurrency:side-goroutine-close")

		return fmt.Sprintf("%sch%s := make(chan, %d)\n%sgo func() {\n%s\tfor j%s := 0; j%s < %d; j%s++ {\n%s\t\tch%s <- j%s * 3\n%s\t}\n%s\tclose(ch%s)\n%s}()\n%st%s := 0\n%sfor v%s := range ch%s {\n%s\tt%s = t%s + v%s\n%s}\n%sfmt.Println(%q, t%s)\n",
			in, s, 1+r.Intn(2), in, in, s, s, k+1, s, in, s, s, in, in, s, in, in, s, in, s, s, in, s, s, s, in, in, g.lbl(), s)

	case 2:
		g.feat("concurrency:two-value-receive")

		return fmt.Sprintf("%sch%s := make(chan, 2)\n%sgo func() {\n%s\tfor j%s := 0; j%s < %d; j%s++ {\n%s\t\tch%s <- j%s\n%s\t}\n%s\tclose(ch%s)\n%s}()\n%sn%s := 0\n%sfor {\n%s\tv%s, ok%s := <-ch%s\n%s\tif !ok%s {\n%s\t\tbreak\n%s\t}\n%s\tn%s = n%s + v%s + 1\n%s}\n%sfmt.Println(%q, n%s)\n",
			in, s, in, in, s, s, k, s, in, s, s, in, in, s, in, in, s, in, in, s, s, s, in, s, in, in, in, s, s, s, in, in, g.lbl(), s)

	default:
		g.feat("concurrency:mutex-waitgroup")

		return fmt.Sprintf("%svar wg%s sync.WaitGroup\n%svar mu%s sync.Mutex\n%sa%s := 0\n%sfor w%s := 1; w%s <= %d; w%s++ {\n%s\twg%s.Add(1)\n%s\tgo func(k%s int) {\n%s\t\tmu%s.Lock()\n%s\t\ta%s = a%s + k%s*k%s\n%s\t\tmu%s.Unlock()\n%s\t\twg%s.Done()\n%s\t}(w%s)\n%s}\n%swg%s.Wait()\n%sfmt.Println(%q, a%s)\n",
			in, s, in, s, in, s, in, s, s, k, s, in, s, in, s, in, s, in, s, s, s, s, in, s, in, s, in, s, in, in, s, in, g.lbl(), s)
	}
}
