package rel

// C12 - diagnostics modes do not change behaviour.
//
// Events: what the program printed (from the context's capture buffer; for the
// debugger, the ProgramOutput channel of its API session) and how it ended, once
// plainly and once under each of: statement profiling, bytecode tracing, the debugger
// answering every prompt with "continue".
// Oracle: equal to the plain run. Part "cli" repeats the comparison on a sample with
// the real binary and its flags --profile, --trace --log-file, --debug.

import (
	"bytes"
	"context"
	"encoding/json"
	"fmt"
	"os"
	"os/exec"
	"path/filepath"
	"regexp"
	"sort"
	"strings"
	"testing"
	"time"

	"github.com/tucats/ego/internal/verifh/egorun"
	"github.com/tucats/ego/internal/verifh/vh"
)

const (
	keyDebugTry   = "debug:try-block-abandoned-at-first-statement"
	keyDebugPanic = "debug:unhandled-panic-result-dropped"
)

var tryRE = regexp.MustCompile(`\btry\b`)

// directedC12: small programs that put each diagnostics hook on the paths it touches
// (AtLine, call frames, try/catch unwinding, defer, runtime errors).
var directedC12 = []progCase{
	{ID: "try/caught-error", Key: keyDebugTry, Src: `import "fmt"

func main() {
	fmt.Println("start")
	try {
		var a []int = []int{1, 2}
		fmt.Println(a[5])
	} catch (e) {
		fmt.Println("caught", e)
	}
	fmt.Println("end")
}
`},
	{ID: "try/no-error", Key: keyDebugTry, Src: `import "fmt"

func main() {
	try {
		fmt.Println("in try")
	} catch (e) {
		fmt.Println("caught", e)
	}
}
`},
	{ID: "panic/unhandled", Key: keyDebugPanic, Src: `package main

import "fmt"

func main() {
	fmt.Println("before")
	panic("k1")
	fmt.Println("after")
}
`},
	{ID: "panic/recovered", Key: "diag:panic-recovered", Src: `package main

import "fmt"

func safe(n int) (r int) {
	defer func() {
		if e := recover(); e != nil {
			fmt.Println("recovered", e)
			r = -1
		}
	}()
	if n > 1 {
		panic("too big")
	}
	return n
}

func main() {
	fmt.Println(safe(1), safe(5))
}
`},
	{ID: "calls/recursion-defer", Key: "diag:calls-recursion-defer", Src: `import "fmt"

func fib(n int) int {
	if n < 2 {
		return n
	}
	return fib(n-1) + fib(n-2)
}

func wrap(n int) int {
	defer fmt.Println("deferred", n)
	return fib(n)
}

func main() {
	for i := 0; i < 4; i++ {
		fmt.Println(i, wrap(i+3))
	}
}
`},
	{ID: "error/uncaught-runtime-error", Key: "diag:uncaught-runtime-error", Src: `import "fmt"

func f(xs []int, i int) int {
	return xs[i]
}

func main() {
	fmt.Println("before")
	fmt.Println(f([]int{1, 2, 3}, 1))
	fmt.Println(f([]int{1, 2, 3}, 7))
	fmt.Println("never")
}
`},
	{ID: "print/no-trailing-newline", Key: "diag:print-without-newline", Src: `import "fmt"

func main() {
	fmt.Print("a")
	fmt.Print("b", 1, 2)
	fmt.Printf("%d-%s", 7, "x")
	fmt.Println()
	fmt.Print("tail without newline")
}
`},
	{ID: "closures/structs/maps", Key: "diag:closures-structs-maps", Src: `import "fmt"

type P struct {
	x int
	n string
}

func (p *P) inc() {
	p.x = p.x + 1
}

func main() {
	c := 0
	add := func(k int) int {
		c = c + k
		return c
	}
	p := P{x: 1, n: "p"}
	m := map[string]int{"a": 1}
	for i := 0; i < 3; i++ {
		p.inc()
		m["a"] = m["a"] + add(i)
	}
	fmt.Println(p, m["a"], c)
	switch c {
	case 3:
		fmt.Println("three")
	default:
		fmt.Println("other")
	}
}
`},
}

type modeObs struct {
	runs, profileRows, traceLines, debugStops int64
}

func TestC12(t *testing.T) {
	relInit(t)

	r := vh.New("C12", "diagnostics")
	r.Rule = "programs: directed probes per hook (AtLine, call frames, try/catch, defer, uncaught error, output without newline) + PRNG programs (own generator with all Ego features; shared gen package when present) + corpus files run like `ego test` (profiling, tracing); " +
		"each run plainly and under profiling, tracing and the debugger with `continue`. distinct = distinct (program text, mode); non-trivial = the plain run printed something or ended in an error AND the mode was observably on (profiler recorded statements / trace records were produced / the debugger stopped at least once)."
	r.Assume("program output is what reaches the context's writer; trace records, which the interpreter writes to that same writer, are removed by their record pattern (time stamp, sequence, TRACE) before comparing")
	r.Assume("the debugger is driven through debugger.Resume (the API session used by the dashboard), which runs the same command loop as debugger.Run; part cli drives the real prompt loop through stdin")
	r.Assume("corpus under tracing: only PASS/FAIL and the error line of each @test are compared, because `ego test` prints a test's captured output, which then contains the trace")

	defer func() { _ = r.Write() }()

	rng := vh.Rand("c12")
	avoid := knownAvoid("C12")
	cfg := cliDefaults("dynamic", 0)

	var programs []progCase

	if c := vh.ReplayCase(); c != nil {
		var rc struct {
			Kind string
			ID   string
			Key  string
			Src  string
			Rel  string
			Mode string
		}

		if err := json.Unmarshal(c, &rc); err != nil {
			t.Fatal(err)
		}

		if rc.Kind == "corpus" {
			c12Corpus(r, []string{rc.Rel}, cfg)
		} else if rc.Kind == "program" {
			c12Guarded(t, r, []progCase{{ID: rc.ID, Key: rc.Key, Src: rc.Src, Origin: "replay"}})
		}

		r.Distinct += 2

		return
	}

	for _, p := range directedC12 {
		p.Origin = "directed"
		programs = append(programs, p)
	}

	n := vh.N(160, 6000)
	c02 := knownAvoid("C02")

	for i := 0; i < n; i++ {
		// constructs with known optimizer findings are irrelevant here (one configuration)
		// but some of them end the program at its first statement; keep them out
		// while (debugger x try) is a listed finding, two programs in three are written
		// without try so that the debugger still gets a full stream
		p := newProgram(rng, gOpts{Avoid: c02, NoTry: avoid[keyDebugTry] && i%3 != 0, Concurrency: true})
		programs = append(programs, progCase{ID: fmt.Sprintf("mygen/%d", i), Src: p.Src, Origin: "mygen", Features: p.Features})

		for _, f := range p.Features {
			if strings.HasPrefix(f, "concurrency:") {
				r.Count("feature."+f, 1)
			}
		}
	}

	for i, p := range sharedPrograms(rng, vh.N(80, 4000), false, union(avoid, only(c02, keyBreakInSwitch, keyContinueInSwitchInit, keyContinueInSwitchTagless))) {
		p.ID = fmt.Sprintf("gen/%d", i)
		programs = append(programs, p)
	}

	// the mode runs happen in a worker process that this one can kill: a mode under
	// which a program never finishes is a difference in outcome, not a watchdog case
	c12Guarded(t, r, programs)

	files, _ := corpusFiles(t)
	nf := vh.N(18, len(files))

	if nf > len(files) {
		nf = len(files)
	}

	var sel []string
	for _, i := range rng.Perm(len(files))[:nf] {
		sel = append(sel, files[i])
	}

	sort.Strings(sel)
	c12Corpus(r, sel, cfg)

	for i, p := range programs {
		if i%131 == 7 {
			r.Sample(map[string]any{"id": p.ID, "features": p.Features, "src": vh.Trunc(p.Src, 600)})
		}
	}

	if r.Counters["mode-observed.profile.statements"] == 0 || r.Counters["mode-observed.trace.records"] == 0 || r.Counters["mode-observed.debug.stops"] == 0 {
		t.Fatal("a diagnostics mode was never observed to be on: observed nothing")
	}
}

// c12Hook, when set (worker process), is told which run starts next and how long the
// plain run of the program took, so that the parent can tell a hang from a slow run.
// c12OnlyMode, when not empty, restricts the mode runs to that mode (confirmation run).
var (
	c12Hook     func(index int, mode string, plainDur time.Duration)
	c12OnlyMode string
)

func c12Programs(t *testing.T, r *vh.Report, programs []progCase, cfg egorun.Config, avoid map[string]bool) {
	for pi, p := range programs {
		if c12Hook != nil {
			c12Hook(pi, "plain", 0)
		}

		t0 := time.Now() // watchdog only: feeds the hang bound, never an oracle
		plain := outcomeOf(RunProg(p.Src, cfg, diagNone))
		plainDur := time.Since(t0)
		again := outcomeOf(RunProg(p.Src, cfg, diagNone))
		r.Count("runs.plain", 2)

		if plain != again {
			r.Count("dropped.self-flaky-programs", 1)

			continue
		}

		if plain.class() == "step-budget" {
			r.Count("dropped.over-step-budget", 1)

			continue
		}

		r.Count("plain.class."+plain.class(), 1)

		if p.Origin == "directed" {
			r.Probe(p.Key)
		}

		for _, d := range []diag{diagProfile, diagTrace, diagDebug} {
			// the known finding concerns (debugger, try statement): that pair is kept out
			// of the random stream while it is listed; the directed probes cover it
			if d == diagDebug && avoid[keyDebugTry] && p.Origin != "directed" && tryRE.MatchString(p.Src) {
				r.Count("skipped.debug-x-try.known-finding", 1)

				continue
			}

			// likewise (debugger, program that ends in an unhandled panic)
			if d == diagDebug && avoid[keyDebugPanic] && p.Origin != "directed" && strings.HasPrefix(plain.Err, "unhandled panic") {
				r.Count("skipped.debug-x-unhandled-panic.known-finding", 1)

				continue
			}

			if c12OnlyMode != "" && d.String() != c12OnlyMode {
				continue
			}

			if c12Hook != nil {
				c12Hook(pi, d.String(), plainDur)
			}

			got := outcomeOf(RunProg(p.Src, cfg, d))
			obs := lastDiag

			r.Count("runs."+d.String(), 1)

			on := false

			switch d {
			case diagProfile:
				r.Count("mode-observed.profile.statements", int64(obs.ProfileRows))
				r.Count("mode-observed.profile.hits", obs.ProfileHits)

				on = obs.ProfileRows > 0
			case diagTrace:
				r.Count("mode-observed.trace.records", int64(obs.TraceLines))

				on = obs.TraceLines > 0
			case diagDebug:
				r.Count("mode-observed.debug.stops", int64(obs.DebugStops))
				r.Count("mode-observed.debug.chatter-bytes", int64(obs.DebuggerBytes))

				on = obs.DebugStops > 0
			}

			r.Eval(vh.Hash(p.Src, d.String()), on && (plain.Out != "" || plain.Err != ""))

			if !on && !plain.hasCompileError() {
				r.Count("mode-not-observed."+d.String(), 1)
			}

			if got == plain {
				r.Count("agree."+d.String(), 1)

				continue
			}

			if got2 := outcomeOf(RunProg(p.Src, cfg, d)); got2 != got {
				r.Count("unconfirmed.mode-result-unstable", 1)
				r.Inconcl(fmt.Sprintf("program %s under %s: result not reproducible", p.ID, d))

				continue
			}

			key := p.Key
			if key == "" || (strings.HasPrefix(p.Key, "debug:") && d != diagDebug) {
				key = "gen:" + d.String() + ":" + symptom(plain, got)
			}

			ln, want, have := firstDiffLine(plain.Out, got.Out)

			r.Violate(vh.Violation{
				Key:      key,
				Desc:     fmt.Sprintf("program %s under %s differs from the plain run: plain err=%q, %s err=%q panic=%q; first differing output line %d: plain %q, %s %q", p.ID, d, plain.Err, d, got.Err, got.Panic, ln, want, d, have),
				Case:     map[string]any{"kind": "program", "id": p.ID, "key": p.Key, "src": p.Src, "mode": d.String(), "features": p.Features},
				Expected: plain.short(),
				Observed: got.short(),
			})
		}
	}
}

func (o outcome) hasCompileError() bool {
	return o.Err != "" && o.Out == "" && strings.HasPrefix(o.Err, "at line")
}

func c12Corpus(r *vh.Report, files []string, cfg egorun.Config) {
	for _, rel := range files {
		path := filepath.Join(egoSrcRoot, "tests", rel)

		for _, d := range []diag{diagProfile, diagTrace} {
			statusOnly := d == diagTrace

			if d == diagTrace {
				// a test that captures its own output (@capture) legitimately finds the
				// trace records in it: tracing writes to the program's output stream
				if src, _ := os.ReadFile(path); strings.Contains(string(src), "@capture") {
					r.Count("corpus.excluded.trace-x-@capture", 1)

					continue
				}
			}

			bi := stableBaselineMode(path, cfg, diagNone, statusOnly)
			r.Count("corpus.file-runs.plain", 2)

			if !bi.fileStable {
				r.Count("corpus.dropped.self-flaky-files", 1)

				continue
			}

			r.Count("corpus.dropped.self-flaky-tests", int64(len(bi.flaky)))

			got := RunCorpusFile(path, cfg, d)
			obs := lastDiag

			r.Count("corpus.file-runs."+d.String(), 1)
			r.Count("corpus.tests-compared."+d.String(), int64(len(got.Tests)))

			on := false

			if d == diagProfile {
				r.Count("mode-observed.profile.statements", int64(obs.ProfileRows))

				on = obs.ProfileRows > 0
			} else {
				r.Count("mode-observed.trace.records", int64(got.TraceLines))

				on = got.TraceLines > 0
			}

			r.Eval("corpus:"+rel+":"+d.String(), on && len(bi.names) > 0)

			diffs := compareToBaseline(bi, got)
			if len(diffs) == 0 {
				r.Count("corpus.agree."+d.String(), 1)

				continue
			}

			again := compareToBaseline(bi, RunCorpusFile(path, cfg, d))
			if fmt.Sprint(again) != fmt.Sprint(diffs) {
				r.Count("unconfirmed.corpus-mode-result-unstable", 1)
				r.Inconcl(fmt.Sprintf("corpus %s under %s: difference not reproducible", rel, d))

				continue
			}

			df := diffs[0]

			r.Violate(vh.Violation{
				Key:      "corpus:" + rel + ":" + d.String(),
				Desc:     fmt.Sprintf("corpus tests/%s under %s: @test %q: plain %q, %s %q (%d differing records)", rel, d, df.Test, df.Baseline, d, df.Got, len(diffs)),
				Case:     map[string]any{"kind": "corpus", "rel": rel, "mode": d.String()},
				Expected: df.Baseline,
				Observed: diffs,
			})
		}
	}
}

// ---------------------------------------------------------------- part "cli"

var (
	cliStepRE    = regexp.MustCompile(`(?m)^Step to:\n[^\n]*\n`)
	cliProfileRE = regexp.MustCompile(`(?s)Location +Count +Elapsed *\n=+ +=+ +=+ *\n.*$`)
	// a log record at the start of a line: [time stamp] sequence CLASS : text
	cliLogRecordRE = regexp.MustCompile(`(?m)^\[\d{4}-\d\d-\d\d \d\d:\d\d:\d\d\] \d+ +[A-Z]+ *: [^\n]*\n`)
)

type cliRun struct {
	out, errOut string
	code        int
}

// cliBound is the watchdog of the next runEgo call (0 = two minutes); lastCLIDur is
// how long the last call took; a call that exceeds its bound is killed and returns
// code -2 (see the hang rule in c12hang_test.go).
var (
	cliBound   time.Duration
	lastCLIDur time.Duration
)

const cliHung = -2

func runEgo(bin, home, dir string, stdin string, args ...string) cliRun {
	bound := cliBound
	if bound == 0 {
		bound = plainHangBound
	}

	cliBound = 0

	ctx, cancel := context.WithTimeout(context.Background(), bound)
	defer cancel()

	cmd := exec.CommandContext(ctx, bin, args...)
	cmd.Dir = dir
	cmd.Env = append(os.Environ(), "HOME="+home, "EGO_PATH="+egoSrcRoot, "EGO_LOG_FORMAT=text")
	cmd.Stdin = strings.NewReader(stdin)

	var so, se bytes.Buffer

	cmd.Stdout, cmd.Stderr = &so, &se

	t0 := time.Now()
	err := cmd.Run()
	lastCLIDur = time.Since(t0)

	if ctx.Err() != nil {
		return cliRun{out: so.String(), errOut: "VERIF-HANG", code: cliHung}
	}

	code := 0

	if ee, ok := err.(*exec.ExitError); ok {
		code = ee.ExitCode()
	} else if err != nil {
		code = -1
	}

	return cliRun{out: so.String(), errOut: se.String(), code: code}
}

// TestC12CLI cross-checks the flags of the real binary on a small sample.
func TestC12CLI(t *testing.T) {
	relInit(t)

	r := vh.New("C12", "cli")
	r.Rule = "a sample of the directed and generated programs run by the real ego binary: plain, --profile, --trace --log-file, --debug with `continue` on stdin; the lines the program printed and the exit status must equal the plain run, and the plain run must equal the in-process runner. " +
		"distinct = distinct (program, flag); non-trivial = the plain run printed something."
	r.Assume("debugger chatter on stdout (\"Step to:\" + source line at the first stop), the profile table after the program's output and trace records are removed by their fixed shapes before comparing")

	defer func() { _ = r.Write() }()

	bin := filepath.Join(os.Getenv("VERIF_BIN"), "ego")
	if _, err := os.Stat(bin); err != nil {
		t.Fatalf("ego binary not built: %v", err)
	}

	home := os.Getenv("VERIF_HOME")
	if home == "" {
		home = filepath.Join(arenaDir, "home")
	}

	home = filepath.Join(home, "cli")
	_ = os.MkdirAll(home, 0o755)

	dir := filepath.Join(arenaDir, "cli")
	_ = os.MkdirAll(dir, 0o755)

	// first run in a fresh HOME writes the default profile (and behaves differently:
	// extensions are off until the profile exists); do it before measuring anything
	_ = os.WriteFile(filepath.Join(dir, "warm.ego"), []byte("import \"fmt\"\n\nfunc main() {\n\tfmt.Println(\"warm\")\n}\n"), 0o644)
	runEgo(bin, home, dir, "", "run", "warm.ego")

	rng := vh.Rand("c12cli")
	avoid := knownAvoid("C12")
	c02 := knownAvoid("C02")

	var programs []progCase

	for _, p := range directedC12 {
		p.Origin = "directed"
		programs = append(programs, p)
	}

	for i := 0; i < vh.N(4, 150); i++ {
		p := newProgram(rng, gOpts{Avoid: c02, MaxStmts: 8, Concurrency: true})
		programs = append(programs, progCase{ID: fmt.Sprintf("mygen/%d", i), Src: p.Src, Origin: "mygen"})
	}

	for i, p := range sharedPrograms(rng, vh.N(2, 100), false, union(avoid, only(c02, keyBreakInSwitch, keyContinueInSwitchInit, keyContinueInSwitchTagless))) {
		p.ID = fmt.Sprintf("gen/%d", i)
		programs = append(programs, p)
	}

	cfg := cliDefaults("dynamic", 0)

	for i, p := range programs {
		// every program is verif.ego in a directory of its own: the file name appears in
		// call-frame listings, and the in-process runner calls its source verif.ego
		file := "verif.ego"
		pdir := filepath.Join(dir, fmt.Sprintf("p%d", i))
		_ = os.MkdirAll(pdir, 0o755)
		_ = os.WriteFile(filepath.Join(pdir, file), []byte(p.Src), 0o644)

		plain := runEgo(bin, home, pdir, "", "run", file)
		plainDur := lastCLIDur
		plain2 := runEgo(bin, home, pdir, "", "run", file)
		r.Count("cli.runs", 2)

		if plain.code == cliHung || plain2.code == cliHung {
			r.Count("dropped.plain-run-over-bound", 1)

			continue
		}

		modeBound := plainDur * hangFactor
		if modeBound < hangFloor {
			modeBound = hangFloor
		}

		if plain != plain2 {
			r.Count("dropped.self-flaky", 1)

			continue
		}

		// harness fidelity: the in-process runner against the real binary
		inproc := outcomeOf(RunProg(p.Src, cfg, diagNone))
		if inproc.Out != plain.out || (inproc.Err == "") != (plain.code == 0) || (inproc.Err != "" && !strings.Contains(plain.errOut, inproc.Err)) {
			r.Count("fidelity.in-process-differs-from-cli", 1)
			r.Inconcl(fmt.Sprintf("harness fidelity: in-process runner and `ego run` differ on %s: in-process %s / cli code=%d stderr=%q stdout=%s", p.ID, inproc.short(), plain.code, vh.Trunc(plain.errOut, 300), vh.Trunc(plain.out, 300)))
		} else {
			r.Count("fidelity.in-process-equals-cli", 1)
		}

		if p.Origin == "directed" {
			r.Probe(p.Key)
		}

		logf := filepath.Join(pdir, "ego.log")

		variants := []struct {
			name  string
			stdin string
			args  []string
			clean func(string) string
		}{
			// (--profile logs "Starting profiling" before --log-file is opened, so that one
			// log record still reaches stdout; log records are not program output)
			{"profile", "", []string{"run", "--profile", "--log-file", logf, file}, func(s string) string {
				return cliProfileRE.ReplaceAllString(cliLogRecordRE.ReplaceAllString(s, ""), "")
			}},
			{"trace", "", []string{"run", "--trace", "--log-file", logf, file}, func(s string) string { s, _ = splitTrace(s); return s }},
			{"debug", strings.Repeat("continue\n", 50), []string{"run", "--debug", file}, func(s string) string { return cliStepRE.ReplaceAllString(s, "") }},
		}

		for _, v := range variants {
			if v.name == "debug" && avoid[keyDebugTry] && p.Origin != "directed" && tryRE.MatchString(p.Src) {
				r.Count("skipped.debug-x-try.known-finding", 1)

				continue
			}

			if v.name == "debug" && avoid[keyDebugPanic] && p.Origin != "directed" && strings.Contains(plain.errOut, "unhandled panic") {
				r.Count("skipped.debug-x-unhandled-panic.known-finding", 1)

				continue
			}

			cliBound = modeBound
			got := runEgo(bin, home, pdir, v.stdin, v.args...)
			r.Count("cli.runs", 1)
			r.Count("cli.runs."+v.name, 1)

			if got.code == cliHung {
				// the hang rule: once more, alone, next to a fresh plain run
				r.Count("watchdog.fired."+v.name, 1)

				again := runEgo(bin, home, pdir, "", "run", file)
				cliBound = modeBound
				got = runEgo(bin, home, pdir, v.stdin, v.args...)
				r.Count("cli.runs", 2)

				if got.code == cliHung && again.code != cliHung {
					r.Eval(vh.Hash(p.Src, "cli", v.name, "hang"), true)
					r.Violate(vh.Violation{
						Key:      "diag:" + v.name + ":hang",
						Desc:     fmt.Sprintf("`ego %s` does not finish for %s: `ego run` took %v, the %s run was still going after %v twice (killed)", strings.Join(v.args, " "), p.ID, plainDur, v.name, modeBound),
						Case:     map[string]any{"kind": "cli", "id": p.ID, "key": p.Key, "src": p.Src, "mode": v.name},
						Expected: "finishes like the plain run",
						Observed: "still running after the bound, twice",
					})

					continue
				}

				if got.code == cliHung {
					r.Count("dropped.plain-run-over-bound", 1)

					continue
				}

				r.Count("watchdog.not-reproduced."+v.name, 1)
			}

			raw := got.out
			cleaned := v.clean(raw)

			observed := raw != cleaned
			if v.name == "profile" && !observed {
				// programs that stop at a compile error have nothing to profile
				observed = plain.code != 0
			}

			r.Eval(vh.Hash(p.Src, "cli", v.name), plain.out != "" && observed)

			if observed {
				r.Count("cli.mode-observed."+v.name, 1)
			}

			if cleaned == plain.out && (got.code == 0) == (plain.code == 0) && lastErrLine(got.errOut) == lastErrLine(plain.errOut) {
				r.Count("cli.agree."+v.name, 1)

				continue
			}

			key := p.Key
			if key == "" || (strings.HasPrefix(p.Key, "debug:") && v.name != "debug") {
				key = "cli:" + v.name + ":" + symptom(outcome{Out: plain.out, Err: lastErrLine(plain.errOut)}, outcome{Out: cleaned, Err: lastErrLine(got.errOut)})
			}

			ln, want, have := firstDiffLine(plain.out, cleaned)

			r.Violate(vh.Violation{
				Key: key,
				Desc: fmt.Sprintf("`ego %s` differs from `ego run %s` for %s: exit %d vs %d, stderr %q vs %q; first differing program-output line %d: plain %q, %s %q",
					strings.Join(v.args, " "), file, p.ID, got.code, plain.code, lastErrLine(got.errOut), lastErrLine(plain.errOut), ln, want, v.name, have),
				Case:     map[string]any{"kind": "cli", "id": p.ID, "key": p.Key, "src": p.Src, "mode": v.name},
				Expected: vh.Trunc(plain.out, 1500),
				Observed: vh.Trunc(cleaned, 1500),
			})
		}
	}

	if r.Counters["cli.runs"] == 0 {
		t.Fatal("observed nothing")
	}
}

// only keeps the listed keys of a set. (Of the C02 findings only the two that corrupt
// the compiled code matter to a check that runs a single configuration.)
func only(a map[string]bool, keys ...string) map[string]bool {
	out := map[string]bool{}

	for _, k := range keys {
		if a[k] {
			out[k] = true
		}
	}

	return out
}

func union(a, b map[string]bool) map[string]bool {
	out := map[string]bool{}

	for k := range a {
		out[k] = true
	}

	for k := range b {
		out[k] = true
	}

	return out
}

func lastErrLine(s string) string {
	lines := strings.Split(strings.TrimSpace(s), "\n")
	for _, l := range lines {
		if strings.HasPrefix(l, "Error:") {
			return l
		}
	}

	return ""
}
