package rel

// A small random program generator aimed at the code paths behind the performance
// settings (C02) and the diagnostics hooks (C12): peephole rules (fused increment,
// comparison with a constant, constant arithmetic folds, create-and-store), register
// slots for parameters and ":=" locals (shadowing, pointers to locals, closures that
// do or do not capture), compile-time constant folding (constants shadowed by locals,
// parameters, loop variables), the global-reference cache (globals reassigned between
// calls, recursion, closures reading globals) and symbol-table growth (functions with
// more locals than the allocation size).
//
// Programs are well typed by construction (every binary operation has operands of one
// type; literals are untyped constants that fit the type), terminate by construction
// (literal loop bounds, loop variables are never assigned, recursion on a decreasing
// literal) and print every variable they declare, so a divergence is observed.

import (
	"fmt"
	"math/rand"
	"regexp"
	"sort"
	"strings"
)

type gOpts struct {
	// Strict keeps to constructs strict type checking accepts (no lossy constants,
	// no mixed-kind operands); C04 uses it.
	Strict bool
	// Boundary adds untyped constants of another kind at assignment, expression,
	// argument and return positions (lossless ones when Strict).
	Boundary bool
	// Avoid is the set of known-finding keys whose construct must not be emitted.
	Avoid map[string]bool
	// MaxStmts bounds the size of main.
	MaxStmts int
	// NoTry leaves out try/catch (C04: a caught type error is not "no type error").
	NoTry bool
	// Concurrency adds goroutines, channels, mutexes and WaitGroups (C12); the
	// results never depend on scheduling.
	Concurrency bool
	// ShadowInit adds declarations whose initializer reads the variable they shadow
	// (shadowinit_test.go; C02 streams only).
	ShadowInit bool
}

type gProgram struct {
	Src      string
	Features []string
}

type gvar struct {
	name     string
	typ      string
	readonly bool // loop variables
	slice    bool // []typ
	minLen   int
	mapk     string // map[mapk]typ when non-empty
	ptr      bool   // *typ
	strct    bool   // struct type named typ
	fn       string // closure: signature key
	isConst  bool
}

type gfunc struct {
	name   string
	params []string // types
	ret    string
	ret2   string // second return type or ""
}

type pg struct {
	r       *rand.Rand
	o       gOpts
	feats   map[string]bool
	scopes  [][]gvar
	globals []gvar
	consts  []gvar
	funcs   []gfunc
	label   int
	nameN   int
	depth   int
	inFunc  string // return type of the function being generated ("" in main)
	loopDep int
	budget  int
	varDecl bool
}

var intTypes = []string{"int", "int8", "int16", "int32", "int64", "byte", "uint16", "uint32", "uint64", "uint"}
var floatTypes = []string{"float32", "float64"}
var scalarTypes = append(append(append([]string{}, intTypes...), floatTypes...), "string", "bool")

var intRange = map[string][2]int64{
	// literals for int and uint stay within 32 bits: a larger literal is an int64 constant
	"int": {-2147483647, 2147483647}, "int8": {-128, 127}, "int16": {-32768, 32767}, "int32": {-2147483648, 2147483647},
	"int64": {-1 << 50, 1 << 50}, "byte": {0, 255}, "uint16": {0, 65535}, "uint32": {0, 4294967295}, "uint64": {0, 1 << 50}, "uint": {0, 2147483647},
}

func isInt(t string) bool   { _, ok := intRange[t]; return ok }
func isFloat(t string) bool { return t == "float32" || t == "float64" }
func isNum(t string) bool   { return isInt(t) || isFloat(t) }

// names are drawn from a small pool so that shadowing across scopes, parameters,
// globals and constants happens all the time.
var namePool = []string{"a", "b", "c", "d", "n", "m", "p", "q", "s", "t", "u", "v", "w", "x", "y", "z", "acc", "cnt", "tmp", "val"}

func newProgram(r *rand.Rand, o gOpts) gProgram {
	if o.MaxStmts == 0 {
		o.MaxStmts = 14
	}

	g := &pg{r: r, o: o, feats: map[string]bool{}}

	var b strings.Builder

	b.WriteString("import \"fmt\"\nimport \"strings\"\n")

	if o.Concurrency {
		b.WriteString("import \"sync\"\n")
	}

	b.WriteString("\n")

	// global constants
	nc := 2 + r.Intn(4)
	for i := 0; i < nc; i++ {
		t := []string{"int", "int", "float64", "string", "bool"}[r.Intn(5)]
		name := fmt.Sprintf("K%d", i)

		if r.Intn(4) == 0 {
			// a constant whose name is also used for locals and parameters
			name = namePool[r.Intn(len(namePool))]
			if g.lookup(name) != nil || g.isGlobalName(name) {
				name = fmt.Sprintf("K%d", i)
			} else {
				g.feat("const-name-in-pool")
			}
		}

		lit := g.literal(t)
		if lit == "0.0" && o.Avoid[keyNegZero] {
			// known finding: -K for a folded float constant 0.0 prints -0, unfolded 0
			lit = "0.5"
		}

		if r.Intn(3) == 0 && t == "int" {
			lit = fmt.Sprintf("%d + %d * %d", 1+r.Intn(9), 1+r.Intn(9), 1+r.Intn(9))
			g.feat("const-expr")
		}

		fmt.Fprintf(&b, "const %s = %s\n", name, lit)
		g.consts = append(g.consts, gvar{name: name, typ: t, readonly: true})
	}

	// struct type
	b.WriteString("\ntype Rec struct {\n\tid int\n\tw float64\n\ttag string\n\tcnt int16\n}\n\n")
	b.WriteString("func (r Rec) total() int {\n\treturn r.id + int(r.cnt)\n}\n\n")
	b.WriteString("func (r *Rec) bump(d int) {\n\tr.id = r.id + d\n\tr.cnt = r.cnt + 1\n}\n\n")

	// global variables
	ng := 2 + r.Intn(4)
	for i := 0; i < ng; i++ {
		t := scalarTypes[r.Intn(len(scalarTypes))]
		name := fmt.Sprintf("G%d", i)

		if r.Intn(5) == 0 {
			name = namePool[r.Intn(len(namePool))]
			if g.isGlobalName(name) {
				name = fmt.Sprintf("G%d", i)
			} else {
				g.feat("global-name-in-pool")
			}
		}

		fmt.Fprintf(&b, "var %s %s = %s\n", name, t, g.bnd(t))
		g.globals = append(g.globals, gvar{name: name, typ: t})
	}

	b.WriteString("\n")

	// helper functions
	nf := 2 + r.Intn(4)
	for i := 0; i < nf; i++ {
		b.WriteString(g.function(i))
		b.WriteString("\n")
	}

	if r.Intn(3) == 0 {
		b.WriteString(g.manyLocals())
		b.WriteString("\n")
	}

	if r.Intn(3) == 0 {
		b.WriteString("func fibo(k int) int {\n\tif k < 2 {\n\t\treturn k\n\t}\n\n\treturn fibo(k-1) + fibo(k-2)\n}\n\n")
		g.funcs = append(g.funcs, gfunc{name: "fibo", params: []string{"int:small"}, ret: "int"})
		g.feat("recursion")
	}

	// main
	g.inFunc = ""
	g.push()
	b.WriteString("func main() {\n")
	g.budget = 4 + r.Intn(o.MaxStmts)
	b.WriteString(g.block(1, g.budget))
	b.WriteString(g.useAll(1))
	g.pop()
	b.WriteString("}\n")

	fs := make([]string, 0, len(g.feats))
	for f := range g.feats {
		fs = append(fs, f)
	}

	sort.Strings(fs)

	return gProgram{Src: b.String(), Features: fs}
}

func (g *pg) feat(f string) { g.feats[f] = true }

func (g *pg) isGlobalName(n string) bool {
	for _, v := range g.globals {
		if v.name == n {
			return true
		}
	}

	for _, v := range g.consts {
		if v.name == n {
			return true
		}
	}

	for _, f := range g.funcs {
		if f.name == n {
			return true
		}
	}

	return n == "fibo" || n == "many"
}

func (g *pg) push() { g.scopes = append(g.scopes, nil) }
func (g *pg) pop()  { g.scopes = g.scopes[:len(g.scopes)-1] }

func (g *pg) declare(v gvar) {
	g.scopes[len(g.scopes)-1] = append(g.scopes[len(g.scopes)-1], v)
}

func (g *pg) declaredHere(n string) bool {
	for _, v := range g.scopes[len(g.scopes)-1] {
		if v.name == n {
			return true
		}
	}

	return false
}

// lookup resolves a name the way the language does: innermost scope first.
func (g *pg) lookup(n string) *gvar {
	for i := len(g.scopes) - 1; i >= 0; i-- {
		for j := len(g.scopes[i]) - 1; j >= 0; j-- {
			if g.scopes[i][j].name == n {
				return &g.scopes[i][j]
			}
		}
	}

	return nil
}

// visible returns the variables that can be named right now (locals that are not
// shadowed, then globals and constants that are not shadowed by a local).
func (g *pg) visible(pred func(gvar) bool) []gvar {
	var out []gvar

	seen := map[string]bool{}

	for i := len(g.scopes) - 1; i >= 0; i-- {
		for j := len(g.scopes[i]) - 1; j >= 0; j-- {
			v := g.scopes[i][j]
			if seen[v.name] {
				continue
			}

			seen[v.name] = true

			if pred(v) {
				out = append(out, v)
			}
		}
	}

	for _, v := range g.globals {
		if !seen[v.name] && pred(v) {
			out = append(out, v)
		}
	}

	for _, v := range g.consts {
		if !seen[v.name] && pred(v) {
			out = append(out, v)
		}
	}

	return out
}

func plain(v gvar) bool { return !v.slice && v.mapk == "" && !v.ptr && !v.strct && v.fn == "" }

func (g *pg) freshName() string {
	// mostly pool names (shadowing), sometimes a unique one
	for try := 0; try < 6; try++ {
		n := namePool[g.r.Intn(len(namePool))]
		if g.o.Avoid[keyGlobalShadow] && g.isGlobalName(n) {
			// known finding: with registers, a read of a global earlier in a function
			// that later declares a local of the same name reads the empty register
			continue
		}

		if g.lookup(n) != nil && ((g.loopDep > 0 && g.o.Avoid[keyLoopRedeclare]) || (g.varDecl && g.o.Avoid[keyVarShadow])) {
			// known findings: at optimizer levels 1 and 2 a ":=" in a loop body that
			// shadows a local of the enclosing block keeps its value across iterations;
			// with registers a "var" that shadows a register local is not seen by reads
			continue
		}

		if !g.declaredHere(n) && !g.isFuncName(n) && !g.isConstName(n) {
			if g.lookup(n) != nil || g.isGlobalName(n) {
				g.feat("shadowing")
			}

			return n
		}
	}

	g.nameN++

	return fmt.Sprintf("l%d", g.nameN)
}

// isConstName: n currently resolves to a constant. A name-based local that shadows
// a constant is rejected at run time ("item is read-only") while a register local is
// not (known finding keyShadowConst); a "var" declaration is rejected either way.
func (g *pg) isConstName(n string) bool {
	if v := g.lookup(n); v != nil {
		return v.isConst
	}

	for _, c := range g.consts {
		if c.name == n {
			return true
		}
	}

	return false
}

const keyShadowConst = "registers:define-shadows-constant"

// defineName is freshName for ":=" declarations: unless the finding is listed, it
// sometimes picks the name of a visible constant.
func (g *pg) defineName() string {
	if !g.o.Avoid[keyShadowConst] && len(g.consts) > 0 && g.r.Intn(6) == 0 {
		n := g.consts[g.r.Intn(len(g.consts))].name
		if !g.declaredHere(n) {
			g.feat("define-shadows-constant")

			return n
		}
	}

	return g.freshName()
}

func (g *pg) isFuncName(n string) bool {
	for _, f := range g.funcs {
		if f.name == n {
			return true
		}
	}

	return false
}

func ind(n int) string { return strings.Repeat("\t", n) }

func (g *pg) lbl() string {
	g.label++

	return fmt.Sprintf("L%d", g.label)
}

// literal returns a constant of type t for use anywhere inside an expression. In
// Strict mode a constant of a non-default type is written with its conversion
// (int8(5)), because strict typing only adapts a bare constant where it meets a typed
// non-constant value (the four boundaries; see bnd).
func (g *pg) literal(t string) string {
	l := g.bare(t, false)
	if g.o.Strict && t != "int" && t != "float64" && t != "string" && t != "bool" {
		return t + "(" + l + ")"
	}

	return l
}

// bnd returns a bare untyped constant for a boundary position (assigned to a typed
// variable, combined with a typed variable, passed as an argument, returned): always
// lossless for the target type; with Boundary it may be a constant of another kind
// (an integer literal for a float type).
func (g *pg) bnd(t string) string {
	g.feat("bare-constant-at-boundary:" + kindOf(t))

	return g.bare(t, g.o.Boundary)
}

func kindOf(t string) string {
	switch {
	case isInt(t):
		return "int"
	case isFloat(t):
		return "float"
	}

	return t
}

// bare returns an untyped constant that fits type t.
func (g *pg) bare(t string, otherKind bool) string {
	r := g.r

	switch {
	case isInt(t):
		rg := intRange[t]

		switch r.Intn(8) {
		case 0:
			return fmt.Sprint(rg[1]) // max
		case 1:
			if rg[0] < 0 {
				return fmt.Sprint(rg[0] + 1)
			}

			return "0"
		case 2:
			return fmt.Sprint(rg[1] - 1)
		case 3:
			return "1"
		default:
			n := int64(r.Intn(100))
			if rg[0] < 0 && r.Intn(4) == 0 {
				n = -n
			}

			return fmt.Sprint(n)
		}

	case isFloat(t):
		if otherKind && r.Intn(2) == 0 {
			g.feat("boundary-int-constant-for-float")

			return fmt.Sprint(r.Intn(50)) // lossless constant of another kind
		}

		return []string{"0.5", "1.25", "2.5", "3.0", "10.75", "-4.5", "100.125", "0.0"}[r.Intn(8)]

	case t == "string":
		return []string{`"a"`, `"bc"`, `""`, `"hello"`, `"x y"`, `"Zed"`, `"42"`}[r.Intn(7)]

	case t == "bool":
		return []string{"true", "false"}[r.Intn(2)]
	}

	return "0"
}

// smallLit is a small positive literal (loop bounds, shifts, indices).
func (g *pg) smallLit(max int) string { return fmt.Sprint(1 + g.r.Intn(max)) }

// expr builds an expression of scalar type t.
func (g *pg) expr(t string, d int) string {
	e := g.expr1(t, d)

	// known finding keyFoldTyped: arithmetic between literals is a run-time int/float64
	// value when it is not folded and an adapting constant when the optimizer folds it.
	// While it is listed, such a sub-expression goes through a conversion (a call
	// result is never a constant) so both forms have the same type.
	if isNum(t) && g.o.Avoid[keyFoldTyped] && constExprRE.MatchString(e) && (strings.ContainsAny(e, "+*/%") || strings.Contains(e, " - ")) {
		return t + "(" + e + ")"
	}

	return e
}

var constExprRE = regexp.MustCompile(`^[-0-9. ()+*/%]+$`)

func (g *pg) expr1(t string, d int) string {
	r := g.r

	if d <= 0 || r.Intn(4) == 0 {
		return g.atom(t)
	}

	switch {
	case isNum(t):
		switch r.Intn(10) {
		case 0, 1, 2:
			op := []string{"+", "-", "*"}[r.Intn(3)]

			return "(" + g.expr(t, d-1) + " " + op + " " + g.expr(t, d-1) + ")"
		case 3:
			// division / modulo by a non-zero literal
			lit := g.smallLit(9)
			if isInt(t) && r.Intn(2) == 0 {
				return "(" + g.expr(t, d-1) + " % " + lit + ")"
			}

			return "(" + g.expr(t, d-1) + " / " + lit + ")"
		case 4:
			// conversion from another numeric type
			from := intTypes[r.Intn(len(intTypes))]
			if isFloat(t) || r.Intn(3) == 0 {
				from = scalarTypes[r.Intn(len(intTypes)+len(floatTypes))]
			}

			if isFloat(from) && isInt(t) {
				// keep the value small so the conversion is well defined
				return t + "(" + g.atomOfKind(from, true) + ")"
			}

			g.feat("conversion")

			return t + "(" + g.expr(from, d-1) + ")"
		case 5:
			if c := g.call(t, d-1); c != "" {
				return c
			}

			return g.atom(t)
		case 6:
			// constant-only sub-expression (constant fold rules)
			g.feat("constant-arith")

			ce := "(1.5 + 2.25 * 2.0)"
			if isInt(t) {
				ce = "(" + g.smallLit(9) + " + " + g.smallLit(9) + " * " + g.smallLit(5) + ")"
			}

			// constant arithmetic is evaluated at run time (or folded by the optimizer)
			// and has the default type of its literals: under strict typing it needs
			// its conversion to meet a value of another type
			// (known finding keyFoldTyped: folded by the optimizer the sum becomes a
			// constant that adapts to the other operand, unfolded it is an int)
			if (g.o.Strict || g.o.Avoid[keyFoldTyped]) && t != "int" && t != "float64" {
				return t + ce
			}

			return ce
		case 7:
			if isInt(t) && t == "int" {
				vs := g.visible(func(v gvar) bool { return v.slice || v.mapk != "" || (plain(v) && v.typ == "string") })
				if len(vs) > 0 {
					return "len(" + vs[r.Intn(len(vs))].name + ")"
				}
			}

			return g.atom(t)
		case 8:
			// (unary minus on an int8 variable is rejected in every configuration:
			// a typing defect that belongs to C03, it only ends the program early)
			if t != "byte" && t != "int8" && !strings.HasPrefix(t, "uint") {
				return "(-(" + g.atom(t) + "))"
			}

			return g.atom(t)
		default:
			return g.atom(t)
		}

	case t == "string":
		switch r.Intn(7) {
		case 0, 1:
			return "(" + g.expr(t, d-1) + " + " + g.expr(t, d-1) + ")"
		case 2:
			return "strings.ToUpper(" + g.expr(t, d-1) + ")"
		case 3:
			it := intTypes[r.Intn(len(intTypes))]

			return `fmt.Sprintf("%d", ` + g.expr(it, d-1) + ")"
		case 4:
			return "strings.Repeat(" + g.atom(t) + ", " + g.smallLit(3) + ")"
		case 5:
			if c := g.call(t, d-1); c != "" {
				return c
			}
		}

		return g.atom(t)

	case t == "bool":
		switch r.Intn(7) {
		case 0, 1, 2:
			// comparison, usually against a constant on the right (peephole rules)
			ct := scalarTypes[r.Intn(len(scalarTypes)-1)]
			op := []string{"<", "<=", ">", ">=", "==", "!="}[r.Intn(6)]

			if ct == "string" && r.Intn(2) == 0 {
				op = []string{"==", "!="}[r.Intn(2)]
			}

			rhs := g.bnd(ct)
			if r.Intn(3) == 0 {
				rhs = g.expr(ct, d-1)
			}

			g.feat("compare-const")

			return "(" + g.expr(ct, d-1) + " " + op + " " + rhs + ")"
		case 3:
			return "(" + g.expr(t, d-1) + " && " + g.expr(t, d-1) + ")"
		case 4:
			return "(" + g.expr(t, d-1) + " || " + g.expr(t, d-1) + ")"
		case 5:
			return "!" + g.atom(t)
		}

		return g.atom(t)
	}

	return g.atom(t)
}

func (g *pg) atomOfKind(t string, small bool) string {
	if small {
		if isFloat(t) {
			return []string{"1.5", "2.25", "7.75", "0.5"}[g.r.Intn(4)]
		}

		return g.smallLit(50)
	}

	return g.atom(t)
}

// atom: a variable/constant of type t, a struct field, an indexed element, or a literal.
func (g *pg) atom(t string) string {
	r := g.r

	if r.Intn(3) != 0 {
		vs := g.visible(func(v gvar) bool { return plain(v) && v.typ == t })
		if len(vs) > 0 {
			v := vs[r.Intn(len(vs))]

			for _, c := range g.consts {
				if c.name == v.name && g.lookup(v.name) == nil {
					g.feat("const-read")
				}
			}

			for _, c := range g.globals {
				if c.name == v.name && g.lookup(v.name) == nil {
					g.feat("global-read")
				}
			}

			return v.name
		}
	}

	switch r.Intn(6) {
	case 0:
		// slice element with an index known to be in range
		vs := g.visible(func(v gvar) bool { return v.slice && v.typ == t && v.minLen > 0 })
		if len(vs) > 0 {
			v := vs[r.Intn(len(vs))]
			g.feat("slice-index")

			return fmt.Sprintf("%s[%d]", v.name, r.Intn(v.minLen))
		}
	case 1:
		// struct field
		f := map[string]string{"int": "id", "float64": "w", "string": "tag", "int16": "cnt"}[t]
		if f != "" {
			vs := g.visible(func(v gvar) bool { return v.strct && !v.ptr })
			if len(vs) > 0 {
				g.feat("struct-field")

				return vs[r.Intn(len(vs))].name + "." + f
			}
		}
	case 2:
		// dereference
		vs := g.visible(func(v gvar) bool { return v.ptr && !v.strct && v.typ == t })
		if len(vs) > 0 {
			g.feat("deref")

			return "*" + vs[r.Intn(len(vs))].name
		}
	}

	return g.literal(t)
}

// call builds a call to a helper returning t ("" when none fits).
func (g *pg) call(t string, d int) string {
	var cands []gfunc

	for _, f := range g.funcs {
		if f.ret == t && f.ret2 == "" {
			cands = append(cands, f)
		}
	}

	if len(cands) == 0 || g.depth > 2 {
		return ""
	}

	f := cands[g.r.Intn(len(cands))]
	g.depth++

	defer func() { g.depth-- }()

	g.feat("call")

	return f.name + "(" + g.args(f, d) + ")"
}

func (g *pg) args(f gfunc, d int) string {
	args := make([]string, len(f.params))

	for i, pt := range f.params {
		if pt == "int:small" {
			args[i] = g.smallLit(12)

			continue
		}

		// strict typing accepts a bare constant argument only for some parameter types
		// (int, int32, int64, byte, float32, float64; the others are rejected, which the
		// directed table of C04 records): a strict-clean program mostly uses those
		bareOK := !g.o.Strict || pt == "int" || pt == "int32" || pt == "int64" || pt == "byte" || isFloat(pt) || pt == "string" || pt == "bool" || g.r.Intn(8) == 0

		if bareOK && g.r.Intn(3) == 0 {
			args[i] = g.bnd(pt) // untyped constant at the argument boundary
			g.feat("const-argument")
		} else {
			args[i] = g.expr(pt, d)
		}
	}

	return strings.Join(args, ", ")
}

// function generates helper i.
func (g *pg) function(i int) string {
	r := g.r
	name := fmt.Sprintf("f%d", i)
	np := r.Intn(4)

	f := gfunc{name: name, ret: scalarTypes[r.Intn(len(scalarTypes))]}
	if r.Intn(6) == 0 {
		f.ret2 = []string{"string", "int", "bool"}[r.Intn(3)]
		g.feat("multi-return")
	}

	g.push()

	var ps []string

	used := map[string]bool{}

	for k := 0; k < np; k++ {
		pt := scalarTypes[r.Intn(len(scalarTypes))]

		pn := namePool[r.Intn(len(namePool))]
		for used[pn] {
			pn = fmt.Sprintf("p%d", k)
		}

		used[pn] = true

		if g.isGlobalName(pn) {
			g.feat("param-shadows-global")
		}

		f.params = append(f.params, pt)
		ps = append(ps, pn+" "+pt)
		g.declare(gvar{name: pn, typ: pt})
	}

	var b strings.Builder

	rets := f.ret
	if f.ret2 != "" {
		rets = "(" + f.ret + ", " + f.ret2 + ")"
	}

	fmt.Fprintf(&b, "func %s(%s) %s {\n", name, strings.Join(ps, ", "), rets)

	g.inFunc = f.ret

	if r.Intn(5) == 0 {
		fmt.Fprintf(&b, "\tdefer fmt.Println(%q)\n", "defer-"+name)
		g.feat("defer")
	}

	b.WriteString(g.block(1, 2+r.Intn(6)))
	b.WriteString(g.useAll(1))

	rv := g.expr(f.ret, 2)
	if r.Intn(4) == 0 {
		rv = g.bnd(f.ret) // untyped constant at the return boundary
		g.feat("const-return")
	}

	if f.ret2 != "" {
		rv += ", " + g.expr(f.ret2, 1)
	}

	fmt.Fprintf(&b, "\treturn %s\n}\n", rv)
	g.pop()

	g.inFunc = ""
	g.funcs = append(g.funcs, f)

	return b.String()
}

// manyLocals: a function with more locals than the default allocation size.
func (g *pg) manyLocals() string {
	var b strings.Builder

	n := 20 + g.r.Intn(30)
	t := intTypes[g.r.Intn(len(intTypes))]

	fmt.Fprintf(&b, "func many(seed %s) %s {\n", t, t)

	for i := 0; i < n; i++ {
		if i == 0 {
			fmt.Fprintf(&b, "\tv0 := seed\n")
		} else if g.r.Intn(4) == 0 {
			fmt.Fprintf(&b, "\tvar v%d %s = v%d\n", i, t, i-1)
		} else {
			fmt.Fprintf(&b, "\tv%d := v%d + %d\n", i, i-1, 1+g.r.Intn(3))
		}
	}

	fmt.Fprintf(&b, "\tsum := v0\n")

	for i := 1; i < n; i += 1 + g.r.Intn(3) {
		fmt.Fprintf(&b, "\tsum = sum + v%d\n", i)
	}

	// every local must be used
	b.WriteString("\tfmt.Println(\"many\"")

	for i := 0; i < n; i++ {
		fmt.Fprintf(&b, ", v%d", i)
	}

	b.WriteString(")\n\treturn sum\n}\n")

	g.funcs = append(g.funcs, gfunc{name: "many", params: []string{t}, ret: t})
	g.feat("many-locals")

	return b.String()
}

// useAll prints every variable declared in the current scope (the compiler rejects
// unused variables, and printing makes their final values observable).
func (g *pg) useAll(n int) string {
	var b strings.Builder

	for _, v := range g.scopes[len(g.scopes)-1] {
		switch {
		case v.fn != "":
			fmt.Fprintf(&b, "%s_ = %s\n", ind(n), v.name)
		case v.ptr && v.strct:
			fmt.Fprintf(&b, "%sfmt.Println(%q, %s.id)\n", ind(n), g.lbl(), v.name)
		case v.ptr:
			fmt.Fprintf(&b, "%sfmt.Println(%q, *%s)\n", ind(n), g.lbl(), v.name)
		case v.slice || v.mapk != "" || v.strct:
			if v.mapk != "" {
				fmt.Fprintf(&b, "%sfmt.Println(%q, len(%s))\n", ind(n), g.lbl(), v.name)
			} else {
				fmt.Fprintf(&b, "%sfmt.Println(%q, %s)\n", ind(n), g.lbl(), v.name)
			}
		default:
			fmt.Fprintf(&b, "%sfmt.Printf(\"%s %%T %%v\\n\", %s, %s)\n", ind(n), g.lbl(), v.name, v.name)
		}
	}

	return b.String()
}

// block generates up to k statements at indentation n in the current scope.
func (g *pg) block(n, k int) string {
	var b strings.Builder

	for i := 0; i < k; i++ {
		b.WriteString(g.stmt(n))
	}

	return b.String()
}

func (g *pg) nested(n, k int) string {
	g.push()

	s := g.block(n, k) + g.useAll(n)

	g.pop()

	return s
}

func (g *pg) stmt(n int) string {
	r := g.r
	in := ind(n)

	if n > 4 {
		return g.assignStmt(n)
	}

	switch r.Intn(30) {
	case 0, 1, 2:
		// short declaration
		t := scalarTypes[r.Intn(len(scalarTypes))]
		name := g.defineName()

		e := g.expr(t, 2)
		// ":=" takes its type from the expression: make the type explicit with a
		// conversion unless the default type of the literal is the wanted one
		if t != "int" && t != "float64" && t != "string" && t != "bool" {
			e = t + "(" + e + ")"
		} else if isFloat(t) {
			e = "float64(" + e + ")"
		}

		g.declare(gvar{name: name, typ: t})
		g.feat("short-decl")

		return fmt.Sprintf("%s%s := %s\n", in, name, e)

	case 3, 4:
		t := scalarTypes[r.Intn(len(scalarTypes))]
		name := g.varName()
		e := g.expr(t, 2)

		if r.Intn(3) == 0 {
			e = g.bnd(t) // constant at the assignment boundary
			g.feat("const-assignment")
		}

		if r.Intn(6) == 0 {
			g.declare(gvar{name: name, typ: t})
			g.feat("var-zero")

			return fmt.Sprintf("%svar %s %s\n", in, name, t)
		}

		s := fmt.Sprintf("%svar %s %s = %s\n", in, name, t, e)
		g.declare(gvar{name: name, typ: t})
		g.feat("var-decl")

		return s

	case 5, 6, 7, 8, 9:
		return g.assignStmt(n)

	case 10:
		// print
		t := scalarTypes[r.Intn(len(scalarTypes))]

		return fmt.Sprintf("%sfmt.Println(%q, %s)\n", in, g.lbl(), g.expr(t, 2))

	case 11, 12:
		// if / else
		var b strings.Builder

		fmt.Fprintf(&b, "%sif %s {\n%s%s}", in, g.expr("bool", 2), g.nested(n+1, 1+r.Intn(3)), in)

		if r.Intn(2) == 0 {
			fmt.Fprintf(&b, " else {\n%s%s}", g.nested(n+1, 1+r.Intn(2)), in)
		}

		b.WriteString("\n")
		g.feat("if")

		return b.String()

	case 13, 14:
		return g.forLoop(n)

	case 15:
		// switch
		t := []string{"int", "string", "int8", "byte"}[r.Intn(4)]

		var b strings.Builder

		fmt.Fprintf(&b, "%sswitch %s {\n", in, g.expr(t, 1))

		seen := map[string]bool{}

		for c := 0; c < 1+r.Intn(3); c++ {
			l := g.bnd(t)
			if seen[l] {
				continue
			}

			seen[l] = true

			fmt.Fprintf(&b, "%scase %s:\n%s", in, l, g.nested(n+1, 1))
		}

		fmt.Fprintf(&b, "%sdefault:\n%s%s}\n", in, g.nested(n+1, 1), in)
		g.feat("switch")

		return b.String()

	case 16:
		// bare block with shadowing
		g.feat("block")

		return fmt.Sprintf("%s{\n%s%s}\n", in, g.nested(n+1, 1+r.Intn(3)), in)

	case 17:
		return g.sliceStmt(n)

	case 18:
		return g.mapStmt(n)

	case 19:
		return g.structStmt(n)

	case 20:
		if g.o.NoTry {
			return g.assignStmt(n)
		}

		return g.tryStmt(n)

	case 21:
		return g.pointerStmt(n)

	case 22:
		return g.closureStmt(n)

	case 23:
		// global update followed by a call that may read it
		vs := []gvar{}

		for _, v := range g.globals {
			if g.lookup(v.name) == nil && isNum(v.typ) {
				vs = append(vs, v)
			}
		}

		if len(vs) == 0 {
			return g.assignStmt(n)
		}

		v := vs[r.Intn(len(vs))]
		g.feat("global-write")

		s := fmt.Sprintf("%s%s = %s\n", in, v.name, g.notFused(v, g.expr(v.typ, 1)))

		if c := g.call(v.typ, 1); c != "" {
			s += fmt.Sprintf("%sfmt.Println(%q, %s, %s)\n", in, g.lbl(), c, v.name)
		}

		return s

	case 24:
		// two-value call
		for _, f := range g.funcs {
			if f.ret2 != "" {
				args := g.args(f, 1)
				n1, n2 := g.multiName(), ""
				g.declare(gvar{name: n1, typ: f.ret})
				n2 = g.multiName()
				g.declare(gvar{name: n2, typ: f.ret2})

				return fmt.Sprintf("%s%s, %s := %s(%s)\n", in, n1, n2, f.name, args)
			}
		}

		return g.assignStmt(n)

	case 25:
		// local constant, possibly shadowing a global one
		if g.o.Avoid[keyConstInLoop] && g.loopDep > 0 {
			// known finding: a const declaration executed twice fails at levels 1 and 2
			return g.assignStmt(n)
		}

		name := g.freshName()

		if g.o.Avoid[keyLocalConst] {
			// known finding: with constant folding a local constant replaces the value
			// of a constant of the same name everywhere after it in the file; local
			// constant names are then unique
			g.nameN++
			name = fmt.Sprintf("lc%d", g.nameN)
		} else if len(g.consts) > 0 && r.Intn(2) == 0 && !g.declaredHere(g.consts[0].name) {
			name = g.consts[r.Intn(len(g.consts))].name
			if g.declaredHere(name) {
				name = g.freshName()
			} else {
				g.feat("local-const-shadows-global-const")
			}
		}

		t := []string{"int", "float64", "string"}[r.Intn(3)]
		g.declare(gvar{name: name, typ: t, readonly: true, isConst: true})
		g.feat("local-const")

		cl := g.literal(t)
		if cl == "0.0" && g.o.Avoid[keyNegZero] {
			cl = "0.5"
		}

		return fmt.Sprintf("%sconst %s = %s\n", in, name, cl)

	case 26:
		// local variable that shadows a global constant or variable
		var cands []gvar

		for _, c := range g.globals {
			if !g.o.Avoid[keyGlobalShadow] && !g.declaredHere(c.name) && !g.isConstName(c.name) {
				cands = append(cands, c)
			}
		}

		if len(cands) == 0 {
			return g.assignStmt(n)
		}

		c := cands[r.Intn(len(cands))]
		t := scalarTypes[r.Intn(len(scalarTypes))]
		g.feat("local-shadows-global")

		s := fmt.Sprintf("%svar %s %s = %s\n", in, c.name, t, g.expr(t, 1))
		g.declare(gvar{name: c.name, typ: t})

		return s

	case 27:
		// string accumulation in a loop
		name := g.freshName()
		iv := g.loopVar()
		g.declare(gvar{name: name, typ: "string"})
		g.feat("string-accumulate")

		return fmt.Sprintf("%s%s := \"\"\n%sfor %s := 0; %s < %s; %s++ {\n%s\t%s = %s + fmt.Sprintf(\"%%d;\", %s)\n%s}\n",
			in, name, in, iv, iv, g.smallLit(5), iv, in, name, name, iv, in)

	case 28:
		// expression statement call
		if len(g.funcs) > 0 {
			f := g.funcs[r.Intn(len(g.funcs))]
			if f.ret2 == "" {
				g.depth++
				s := fmt.Sprintf("%sfmt.Println(%q, %s(%s))\n", in, g.lbl(), f.name, g.args(f, 1))
				g.depth--

				return s
			}
		}

		return g.assignStmt(n)

	case 29:
		// closures created in (nested blocks of) a loop body, called after their
		// iteration has ended (loopclosure_test.go)
		if g.o.ShadowInit && r.Intn(2) == 0 {
			return g.shadowInitStmt(n)
		}

		if g.o.Concurrency && g.loopDep == 0 && g.inFunc == "" && r.Intn(2) == 0 {
			// (only with the option: the streams of the other checks do not change)
			return g.concurrencyStmt(n)
		}

		return g.closureLoopStmt(n)

	default:
		return g.assignStmt(n)
	}
}

func (g *pg) loopVar() string {
	if g.o.Avoid[keyRangeStale] {
		// known finding: a range index named like an earlier register loop counter
		// reads the stale register; loop variable names are then unique
		g.nameN++

		return fmt.Sprintf("i%d", g.nameN)
	}

	for _, n := range []string{"i", "j", "k", "ii", "jj", "kk", "i2", "j2", "k2"} {
		if g.lookup(n) == nil && !g.isGlobalName(n) {
			return n
		}
	}

	g.nameN++

	return fmt.Sprintf("lv%d", g.nameN)
}

// assignStmt: the statement shapes the optimizer rewrites.
func (g *pg) assignStmt(n int) string {
	r := g.r
	in := ind(n)

	vs := g.visible(func(v gvar) bool {
		if !plain(v) || v.readonly || v.typ == "bool" {
			return false
		}

		// constants are not assignable
		for _, c := range g.consts {
			if c.name == v.name && g.lookup(v.name) == nil {
				return false
			}
		}

		return true
	})

	if len(vs) == 0 {
		t := intTypes[r.Intn(len(intTypes))]
		name := g.varName()
		g.declare(gvar{name: name, typ: t})

		return fmt.Sprintf("%svar %s %s = %s\n", in, name, t, g.bnd(t))
	}

	v := vs[r.Intn(len(vs))]
	k := g.smallLit(7)

	if v.typ == "string" {
		k = g.literal("string")

		switch r.Intn(3) {
		case 0:
			g.feat("string-append-assign")

			return fmt.Sprintf("%s%s = %s + %s\n", in, v.name, v.name, k)
		case 1:
			return fmt.Sprintf("%s%s += %s\n", in, v.name, k)
		default:
			// inside a loop a string is only ever extended by a literal: an expression
			// that mentions the variable itself would double it on every iteration
			// (the same goes for helper functions, which are called from loops, and for
			// globals, which helper functions update)
			if g.loopDep > 0 || g.inFunc != "" || g.lookup(v.name) == nil {
				return fmt.Sprintf("%s%s = %s + %s\n", in, v.name, k, v.name)
			}

			return fmt.Sprintf("%s%s = %s\n", in, v.name, g.expr("string", 2))
		}
	}

	if isFloat(v.typ) && r.Intn(2) == 0 {
		k = []string{"0.5", "1.25", "2.0"}[r.Intn(3)]
	}

	form := r.Intn(12)

	// known finding: the fused Increment instruction (x = x + k / x += k compiled as
	// Load,Push,Add,Store) has no int8 case. Keep that shape out of the random stream
	// while the finding is listed; the directed table covers it.
	if g.o.Avoid[keyFusedIncrement("int8")] && v.typ == "int8" && (form == 0 || form == 1 || form == 9) {
		form = 4
	}

	// strict typing rejects "++"/"--" on every type but int (the 1 is an int): in a
	// strict-clean program they are only applied to int variables
	if g.o.Strict && v.typ != "int" && (form == 2 || form == 3) {
		form = 4
	}

	// known findings of the same instruction: in strict mode the fused form rejects
	// the constant for every type but int ("fused-increment:<type>:strict"), and the
	// "++"/"--" forms lose the variable's type in relaxed mode ("incr:<type>:...")
	if v.typ != "int" && v.typ != "string" {
		if g.avoidPrefix("fused-increment:") && (form == 0 || form == 1 || form == 9) {
			form = 4
		}

		if (g.avoidPrefix("incr:") || g.avoidPrefix("decr:")) && (form == 2 || form == 3) {
			form = 4
		}
	}

	switch form {
	case 0:
		g.feat("x=x+k")

		return fmt.Sprintf("%s%s = %s + %s\n", in, v.name, v.name, k)
	case 1:
		g.feat("x+=k")

		return fmt.Sprintf("%s%s += %s\n", in, v.name, k)
	case 2:
		g.feat("x++")

		return fmt.Sprintf("%s%s++\n", in, v.name)
	case 3:
		g.feat("x--")

		return fmt.Sprintf("%s%s--\n", in, v.name)
	case 4:
		g.feat("x=x-k")

		return fmt.Sprintf("%s%s = %s - %s\n", in, v.name, v.name, k)
	case 5:
		g.feat("x-=k")

		return fmt.Sprintf("%s%s -= %s\n", in, v.name, k)
	case 6:
		g.feat("x=x*k")

		return fmt.Sprintf("%s%s = %s * %s\n", in, v.name, v.name, k)
	case 7:
		g.feat("x*=k")

		return fmt.Sprintf("%s%s *= %s\n", in, v.name, k)
	case 8:
		g.feat("x=k+x")

		return fmt.Sprintf("%s%s = %s + %s\n", in, v.name, k, v.name)
	case 9:
		// x = x + y (variable of the same type)
		return fmt.Sprintf("%s%s = %s + %s\n", in, v.name, v.name, g.atom(v.typ))
	case 10:
		g.feat("x/=k")

		return fmt.Sprintf("%s%s /= %s\n", in, v.name, k)
	default:
		return fmt.Sprintf("%s%s = %s\n", in, v.name, g.notFused(v, g.expr(v.typ, 2)))
	}
}

var fusedShapeRE = regexp.MustCompile(`^\(*([A-Za-z_][A-Za-z0-9_]*) \+ [-A-Za-z0-9_."]+\)*$`)

// notFused: "x = (x + <constant>)" is the fused-increment shape however it came
// about; while that shape has known findings for this type the random stream writes
// the operands the other way round (which the peephole rule does not match).
func (g *pg) notFused(v gvar, e string) string {
	if v.typ == "int" || v.typ == "string" || !g.avoidPrefix("fused-increment:") {
		return e
	}

	if m := fusedShapeRE.FindStringSubmatch(e); m != nil && m[1] == v.name {
		return "(1 * " + e + ")"
	}

	return e
}

func keyFusedIncrement(t string) string { return "fused-increment:" + t }

const (
	keyCondFor       = "registers:conditional-for"
	keyRangeStale    = "registers:range-index-reads-stale-register"
	keyGlobalShadow  = "registers:global-read-before-local-shadow"
	keyLocalConst    = "constfold:local-const-overrides-global"
	keyConstInLoop   = "peephole:const-in-loop-body"
	keyFoldTyped     = "constant-fold:typed-operand"
	keyParallelParam = "registers:parallel-assign-params"
)

const (
	keyMultiDefine   = "registers:multi-define-shadows-outer-local"
	keyLoopRedeclare = "peephole:loop-body-define-shadows-outer-local"
	keyVarShadow     = "registers:var-shadows-register-local"
	keyNegZero       = "constfold:negated-zero-float-constant"
	keyBreakInSwitch = "compile:break-in-switch-patches-wrong-instruction"

	keyContinueInSwitchInit = "compile:continue-in-switch-with-init-patches-wrong-instruction"

	keyContinueInSwitchTagless = "compile:continue-in-tagless-switch-patches-wrong-instruction"
)

// varName is freshName for a "var" declaration.
func (g *pg) varName() string {
	g.varDecl = true

	defer func() { g.varDecl = false }()

	return g.freshName()
}

// multiName names a target of a multi-value ":=". Known finding: with registers such
// a target that shadows a local of an enclosing block writes the outer variable; the
// targets are then unique names.
func (g *pg) multiName() string {
	if g.o.Avoid[keyMultiDefine] {
		g.nameN++

		return fmt.Sprintf("mv%d", g.nameN)
	}

	return g.freshName()
}

// avoidPrefix: some known finding whose key starts with p is listed.
func (g *pg) avoidPrefix(p string) bool {
	for k := range g.o.Avoid {
		if strings.HasPrefix(k, p) {
			return true
		}
	}

	return false
}

func (g *pg) forLoop(n int) string {
	r := g.r
	in := ind(n)

	if g.loopDep >= 2 {
		return g.assignStmt(n)
	}

	g.loopDep++

	defer func() { g.loopDep-- }()

	var b strings.Builder

	iv := g.loopVar()

	kind := r.Intn(5)
	if kind == 3 && g.o.Avoid[keyCondFor] {
		// known finding: "for <condition on a register local> {" does not compile
		// with registers on; the directed table covers it
		kind = 0
	}

	if kind == 4 && (g.avoidPrefix("incr:") || g.avoidPrefix("fused-increment:")) {
		// the typed counter's step is one of the two shapes with known findings
		kind = 1
	}

	switch kind {
	case 0, 1:
		// three-clause loop with a literal bound; the step is one of the fused shapes
		step := []string{iv + "++", iv + " = " + iv + " + 1", iv + " = " + iv + " + 2"}[r.Intn(3)]
		cmp := []string{"<", "<="}[r.Intn(2)]

		g.push()
		g.declare(gvar{name: iv, typ: "int", readonly: true})
		fmt.Fprintf(&b, "%sfor %s := 0; %s %s %s; %s {\n", in, iv, iv, cmp, g.smallLit(5), step)
		b.WriteString(g.nested(n+1, 1+r.Intn(3)))

		if r.Intn(4) == 0 {
			fmt.Fprintf(&b, "%s\tif %s == %s {\n%s\t\t%s\n%s\t}\n", in, iv, g.smallLit(3), in, []string{"break", "continue"}[r.Intn(2)], in)
			g.feat("break-continue")
		}

		g.pop()
		fmt.Fprintf(&b, "%s}\n", in)
		g.feat("for-3")

	case 2:
		// range over a slice literal
		t := scalarTypes[r.Intn(len(scalarTypes))]

		// the range value shares the body's scope in Ego: its name must not be
		// redeclared by the body, so it is not taken from the pool
		g.nameN++
		vn := fmt.Sprintf("rv%d", g.nameN)

		var elems []string

		for i := 0; i < 1+r.Intn(4); i++ {
			elems = append(elems, g.literal(t))
		}

		g.push()
		g.declare(gvar{name: iv, typ: "int", readonly: true})
		g.declare(gvar{name: vn, typ: t, readonly: true})
		fmt.Fprintf(&b, "%sfor %s, %s := range []%s{%s} {\n", in, iv, vn, t, strings.Join(elems, ", "))
		fmt.Fprintf(&b, "%s\tfmt.Println(%q, %s, %s)\n", in, g.lbl(), iv, vn)
		b.WriteString(g.nested(n+1, 1+r.Intn(2)))
		g.pop()
		fmt.Fprintf(&b, "%s}\n", in)
		g.feat("for-range")

	case 3:
		// condition-only loop with an explicit counter
		// (the counter lives in the enclosing scope and stays declared there)
		g.declare(gvar{name: iv, typ: "int", readonly: true})
		fmt.Fprintf(&b, "%s%s := 0\n%sfor %s < %s {\n", in, iv, in, iv, g.smallLit(4))
		b.WriteString(g.nested(n+1, 1+r.Intn(2)))
		fmt.Fprintf(&b, "%s\t%s = %s + 1\n%s}\n", in, iv, iv, in)
		g.feat("for-cond")

	default:
		// typed counter of a narrow width
		t := []string{"int8", "int16", "int32", "byte", "uint16", "int64"}[r.Intn(6)]
		step := iv + "++"

		if !(t == "int8" && g.o.Avoid[keyFusedIncrement("int8")]) && r.Intn(2) == 0 {
			step = iv + " = " + iv + " + 1"
		}

		g.push()
		g.declare(gvar{name: iv, typ: t, readonly: true})
		fmt.Fprintf(&b, "%sfor %s := %s(0); %s < %s; %s {\n", in, iv, t, iv, g.smallLit(5), step)
		b.WriteString(g.nested(n+1, 1+r.Intn(2)))
		g.pop()
		fmt.Fprintf(&b, "%s}\n", in)
		g.feat("for-typed-counter")
	}

	return b.String()
}

func (g *pg) sliceStmt(n int) string {
	r := g.r
	in := ind(n)

	vs := g.visible(func(v gvar) bool { return v.slice })
	if len(vs) == 0 || r.Intn(3) == 0 {
		t := scalarTypes[r.Intn(len(scalarTypes))]
		name := g.freshName()
		k := 1 + r.Intn(4)

		var elems []string

		for i := 0; i < k; i++ {
			elems = append(elems, g.expr(t, 1))
		}

		g.declare(gvar{name: name, typ: t, slice: true, minLen: k})
		g.feat("slice-literal")

		return fmt.Sprintf("%s%s := []%s{%s}\n", in, name, t, strings.Join(elems, ", "))
	}

	v := vs[r.Intn(len(vs))]

	switch r.Intn(4) {
	case 0:
		g.feat("append")

		lv := g.lookup(v.name)
		s := fmt.Sprintf("%s%s = append(%s, %s)\n", in, v.name, v.name, g.expr(v.typ, 1))

		if lv != nil {
			lv.minLen++
		}

		return s
	case 1:
		if v.minLen > 0 {
			g.feat("slice-store")

			return fmt.Sprintf("%s%s[%d] = %s\n", in, v.name, r.Intn(v.minLen), g.expr(v.typ, 1))
		}
	case 2:
		if v.minLen > 1 {
			g.feat("slice-of-slice")

			return fmt.Sprintf("%sfmt.Println(%q, %s[%d:%d], len(%s))\n", in, g.lbl(), v.name, 0, 1+r.Intn(v.minLen), v.name)
		}
	}

	return fmt.Sprintf("%sfmt.Println(%q, %s)\n", in, g.lbl(), v.name)
}

func (g *pg) mapStmt(n int) string {
	r := g.r
	in := ind(n)

	vs := g.visible(func(v gvar) bool { return v.mapk != "" })
	if len(vs) == 0 || r.Intn(3) == 0 {
		kt := []string{"string", "int"}[r.Intn(2)]
		t := []string{"int", "string", "float64", "int8", "bool"}[r.Intn(5)]
		name := g.freshName()

		k1, k2 := `"k1"`, `"k2"`
		if kt == "int" {
			k1, k2 = "1", "2"
		}

		g.feat("map-literal")

		s := fmt.Sprintf("%s%s := map[%s]%s{%s: %s, %s: %s}\n", in, name, kt, t, k1, typed(t, g.expr(t, 1)), k2, typed(t, g.expr(t, 1)))
		g.declare(gvar{name: name, typ: t, mapk: kt})

		return s
	}

	v := vs[r.Intn(len(vs))]

	key := []string{`"k1"`, `"k2"`, `"k3"`}[r.Intn(3)]
	if v.mapk == "int" {
		key = []string{"1", "2", "3"}[r.Intn(3)]
	}

	switch r.Intn(4) {
	case 0:
		g.feat("map-store")

		return fmt.Sprintf("%s%s[%s] = %s\n", in, v.name, key, typed(v.typ, g.expr(v.typ, 1)))
	case 1:
		g.feat("map-two-value")

		a, bn := g.multiName(), ""
		g.declare(gvar{name: a, typ: v.typ, readonly: true})
		bn = g.multiName()
		g.declare(gvar{name: bn, typ: "bool"})

		// the value of a missing key is not printed (it is nil in Ego, not the zero value)
		return fmt.Sprintf("%s%s, %s := %s[%s]\n%sif %s {\n%s\tfmt.Println(%q, %s)\n%s}\n", in, a, bn, v.name, key, in, bn, in, g.lbl(), a, in)
	case 2:
		g.feat("map-delete")

		return fmt.Sprintf("%sdelete(%s, %s)\n%sfmt.Println(%q, len(%s))\n", in, v.name, key, in, g.lbl(), v.name)
	default:
		k1 := `"k1"`
		if v.mapk == "int" {
			k1 = "1"
		}

		_ = k1

		return fmt.Sprintf("%sfmt.Println(%q, len(%s))\n", in, g.lbl(), v.name)
	}
}

func (g *pg) structStmt(n int) string {
	r := g.r
	in := ind(n)

	vs := g.visible(func(v gvar) bool { return v.strct && !v.ptr })
	if len(vs) == 0 || r.Intn(3) == 0 {
		name := g.freshName()
		g.feat("struct-literal")

		s := fmt.Sprintf("%s%s := Rec{id: %s, w: %s, tag: %s, cnt: %s}\n", in, name, g.expr("int", 1), g.expr("float64", 1), g.expr("string", 1), g.literal("int16"))
		g.declare(gvar{name: name, typ: "Rec", strct: true})

		return s
	}

	v := vs[r.Intn(len(vs))]

	switch r.Intn(7) {
	case 5:
		// a bare constant of another kind stored into a field after construction
		// (float64 field <- integer literal), then arithmetic that shows the stored type
		g.feat("field-store-constant-other-kind")

		return fmt.Sprintf("%s%s.w = %d\n%sfmt.Printf(\"%s %%T %%v %%v\\n\", %s.w, %s.w, %s.w/4)\n", in, v.name, 1+r.Intn(9), in, g.lbl(), v.name, v.name, v.name)
	case 6:
		g.feat("field-store-constant-narrow")

		return fmt.Sprintf("%s%s.cnt = %d\n%sfmt.Printf(\"%s %%T %%v %%v\\n\", %s.cnt, %s.cnt, %s.cnt%%4)\n", in, v.name, 1+r.Intn(99), in, g.lbl(), v.name, v.name, v.name)
	case 0:
		g.feat("field-store")

		return fmt.Sprintf("%s%s.id = %s.id + %s\n", in, v.name, v.name, g.smallLit(9))
	case 1:
		g.feat("method-value")

		return fmt.Sprintf("%sfmt.Println(%q, %s.total())\n", in, g.lbl(), v.name)
	case 2:
		g.feat("method-pointer")

		return fmt.Sprintf("%s%s.bump(%s)\n%sfmt.Println(%q, %s.id, %s.cnt)\n", in, v.name, g.smallLit(9), in, g.lbl(), v.name, v.name)
	case 3:
		g.feat("field-store-int16")

		return fmt.Sprintf("%s%s.cnt = %s.cnt + %s\n", in, v.name, v.name, g.smallLit(9))
	default:
		g.feat("field-store-string")

		return fmt.Sprintf("%s%s.tag = %s.tag + %s\n", in, v.name, v.name, g.literal("string"))
	}
}

func (g *pg) tryStmt(n int) string {
	r := g.r
	in := ind(n)
	g.feat("try-catch")

	var risky string

	switch r.Intn(4) {
	case 0:
		zn := g.freshName()
		g.declare(gvar{name: zn, typ: "int"})
		risky = fmt.Sprintf("%s\tfmt.Println(%q, %s / %s)\n", in, g.lbl(), g.smallLit(50), zn)

		g.feat("try-div-zero")

		return fmt.Sprintf("%s%s := 0\n%stry {\n%s%s} catch (e) {\n%s\tfmt.Println(%q, e)\n%s}\n", in, zn, in, risky, in, in, g.lbl(), in)
	case 1:
		g.feat("try-index-range")
		risky = fmt.Sprintf("%s\txs := []int{1, 2}\n%s\tfmt.Println(%q, xs[%d])\n", in, in, g.lbl(), 2+r.Intn(5))
	case 2:
		g.feat("try-no-error")

		g.push()
		risky = g.block(n+1, 1+r.Intn(2)) + g.useAll(n+1)
		g.pop()
	default:
		g.feat("try-nested-call")
		risky = fmt.Sprintf("%s\tfmt.Println(%q, strings.Repeat(\"ab\", %d))\n%s\tvar arr []string\n%s\tfmt.Println(arr[3])\n", in, g.lbl(), r.Intn(3), in, in)
	}

	return fmt.Sprintf("%stry {\n%s%s} catch (e) {\n%s\tfmt.Println(%q, e)\n%s}\n", in, risky, in, in, g.lbl(), in)
}

func (g *pg) pointerStmt(n int) string {
	r := g.r
	in := ind(n)

	// pointer to a local numeric variable declared in a local scope
	vs := g.visible(func(v gvar) bool { return plain(v) && isNum(v.typ) && !v.readonly && g.lookup(v.name) != nil })
	if len(vs) == 0 {
		return g.assignStmt(n)
	}

	v := vs[r.Intn(len(vs))]
	pn := g.freshName()

	if pn == v.name {
		return g.assignStmt(n)
	}

	g.feat("pointer")

	s := fmt.Sprintf("%s%s := &%s\n%s*%s = *%s + %s\n%sfmt.Println(%q, %s)\n", in, pn, v.name, in, pn, pn, g.smallLit(5), in, g.lbl(), v.name)
	g.declare(gvar{name: pn, typ: v.typ, ptr: true})

	return s
}

func (g *pg) closureStmt(n int) string {
	r := g.r
	in := ind(n)
	name := g.freshName()
	t := []string{"int", "int32", "float64", "string", "int8"}[r.Intn(5)]

	switch r.Intn(3) {
	case 0:
		// closure that captures nothing
		g.feat("closure-no-capture")

		pn := []string{"a", "x", "q"}[r.Intn(3)]
		g.push()
		g.declare(gvar{name: pn, typ: t})

		body := pn + " + " + g.expr(t, 1)

		g.pop()

		// the expression may still name outer variables; that is a capture, which is fine
		s := fmt.Sprintf("%s%s := func(%s %s) %s {\n%s\treturn %s\n%s}\n%sfmt.Println(%q, %s(%s))\n", in, name, pn, t, t, in, body, in, in, g.lbl(), name, g.bnd(t))
		g.declare(gvar{name: name, fn: "f"})

		return s

	case 1:
		// counter closure capturing a local
		g.feat("closure-counter")

		cn := g.freshName()
		if cn == name {
			return g.assignStmt(n)
		}

		s := fmt.Sprintf("%s%s := 0\n%s%s := func() int {\n%s\t%s = %s + 1\n%s\treturn %s\n%s}\n%s%s()\n%s%s()\n%sfmt.Println(%q, %s(), %s)\n",
			in, cn, in, name, in, cn, cn, in, cn, in, in, name, in, name, in, g.lbl(), name, cn)
		g.declare(gvar{name: cn, typ: "int"})
		g.declare(gvar{name: name, fn: "f"})

		return s

	default:
		// closure reading a global
		var gs []gvar

		for _, v := range g.globals {
			if g.lookup(v.name) == nil {
				gs = append(gs, v)
			}
		}

		if len(gs) == 0 {
			return g.assignStmt(n)
		}

		gv := gs[r.Intn(len(gs))]
		g.feat("closure-reads-global")

		s := fmt.Sprintf("%s%s := func() %s {\n%s\treturn %s\n%s}\n%sfmt.Println(%q, %s())\n", in, name, gv.typ, in, gv.name, in, in, g.lbl(), name)
		g.declare(gvar{name: name, fn: "f"})

		return s
	}
}

// typed makes the type of an expression explicit where Ego does not adapt an untyped
// constant to the element type (map values).
func typed(t, e string) string {
	if t == "int" || t == "string" || t == "bool" {
		return e
	}

	return t + "(" + e + ")"
}
