package rel

// C02 - performance settings never change behaviour.
//
// Events: (stdout, error text with line, Go panic) of one program under one
// configuration; for corpus files the per-@test PASS/FAIL records.
// Oracle: every configuration of a type mode agrees with the baseline configuration
// (optimizer 0, registers off, constfold off, globalcache off, allocation 32).
//
// The symbol allocation size cannot be changed inside a live process (bins of tables
// created earlier keep their old size while indexing uses the new one), so - like the
// CLI, which sets it once at start - every allocation value gets its own child
// processes of this same test binary (TestRelChild); the parent computes the baselines
// (twice, dropping anything self-flaky) and merges what the children report.

import (
	"encoding/json"
	"fmt"
	"os"
	"os/exec"
	"path/filepath"
	"sort"
	"strings"
	"sync"
	"syscall"
	"testing"

	"github.com/tucats/ego/internal/language/symbols"
	"github.com/tucats/ego/internal/verifh/egorun"
	"github.com/tucats/ego/internal/verifh/vh"
)

type childProg struct {
	Case progCase           `json:"case"`
	Base map[string]outcome `json:"base"` // per type mode; a missing mode is not compared
}

type corpusBase struct {
	Outcome string   `json:"outcome"`
	Vector  []string `json:"vector"`
	Names   []string `json:"names"`
	Flaky   []int    `json:"flaky"`
}

type childCorpus struct {
	Rel  string                `json:"rel"`
	Base map[string]corpusBase `json:"base"`
}

type childSpec struct {
	Alloc    int             `json:"alloc"`
	Shard    int             `json:"shard"`
	Rows     []egorun.Config `json:"rows"`
	Programs []childProg     `json:"programs"`
	Corpus   []childCorpus   `json:"corpus"`
	Out      string          `json:"out"`
}

type progMismatch struct {
	ID     string        `json:"id"`
	Mode   string        `json:"mode"`
	Cfg    egorun.Config `json:"cfg"`
	Got    outcome       `json:"got"`
	Stable bool          `json:"stable"` // the same configuration gave the same result when run again
}

type corpusMismatch struct {
	Rel    string        `json:"rel"`
	Mode   string        `json:"mode"`
	Cfg    egorun.Config `json:"cfg"`
	Diffs  []corpusDiff  `json:"diffs"`
	Stable bool          `json:"stable"`
}

type childResult struct {
	Alloc          int              `json:"alloc"`
	ProgRuns       int              `json:"prog_runs"`
	CorpusRuns     int              `json:"corpus_runs"`
	CorpusTests    int              `json:"corpus_tests"`
	Steps          int64            `json:"steps"`
	ProgMismatch   []progMismatch   `json:"prog_mismatch"`
	CorpusMismatch []corpusMismatch `json:"corpus_mismatch"`
	AllocObserved  int              `json:"alloc_observed"`
}

// TestRelChild is the worker side: it is only ever started by TestC02.
func TestRelChild(t *testing.T) {
	specPath := os.Getenv("REL_CHILD_SPEC")
	if specPath == "" {
		t.Skip("worker of TestC02")
	}

	var spec childSpec
	if err := readJSON(specPath, &spec); err != nil {
		t.Fatal(err)
	}

	// the allocation size is fixed for the life of this process, before any Ego
	// symbol table is created (configureSymbolAllocations does the same at start-up)
	symbols.SymbolAllocationSize = spec.Alloc

	relInit(t)

	res := childResult{Alloc: spec.Alloc}
	start := instructionsNow()

	for _, p := range spec.Programs {
		for _, mode := range typeModes {
			base, ok := p.Base[mode]
			if !ok {
				continue
			}

			for _, row := range spec.Rows {
				cfg := row
				cfg.Types = mode
				cfg.Extensions = true

				got := outcomeOf(RunProg(p.Case.Src, cfg, diagNone))
				res.ProgRuns++

				if got != base {
					again := outcomeOf(RunProg(p.Case.Src, cfg, diagNone))
					res.ProgRuns++
					res.ProgMismatch = append(res.ProgMismatch, progMismatch{ID: p.Case.ID, Mode: mode, Cfg: cfg, Got: got, Stable: again == got})
				}
			}
		}
	}

	for _, cf := range spec.Corpus {
		path := filepath.Join(egoSrcRoot, "tests", cf.Rel)

		for _, mode := range typeModes {
			cb, ok := cf.Base[mode]
			if !ok {
				continue
			}

			bi := baselineFromSpec(cb)

			for _, row := range spec.Rows {
				cfg := row
				cfg.Types = mode

				got := RunCorpusFile(path, cfg, diagNone)
				res.CorpusRuns++
				res.CorpusTests += len(got.Tests)

				if diffs := compareToBaseline(bi, got); len(diffs) > 0 {
					again := RunCorpusFile(path, cfg, diagNone)
					res.CorpusRuns++

					d2 := compareToBaseline(bi, again)
					res.CorpusMismatch = append(res.CorpusMismatch, corpusMismatch{Rel: cf.Rel, Mode: mode, Cfg: cfg, Diffs: diffs, Stable: fmt.Sprint(d2) == fmt.Sprint(diffs)})
				}
			}
		}
	}

	res.Steps = instructionsNow() - start
	res.AllocObserved = symbols.SymbolAllocationSize

	if err := writeJSON(spec.Out, res); err != nil {
		t.Fatal(err)
	}
}

func baselineFromSpec(cb corpusBase) baselineInfo {
	bi := baselineInfo{outcome: cb.Outcome, vec: cb.Vector, names: cb.Names, flaky: map[int]bool{}, fileStable: true}

	for _, i := range cb.Flaky {
		bi.flaky[i] = true
	}

	return bi
}

type c02Work struct {
	programs []progCase
	modesOf  map[string][]string // program id -> modes to run (default all)
	corpus   []string
	corpusMd map[string][]string
	rows     []egorun.Config
	shards   int
}

// runC02 computes baselines, fans the rows out to child processes and records the
// verdicts into r.
func runC02(t *testing.T, r *vh.Report, w c02Work) {
	byAlloc := map[int][]egorun.Config{}
	for _, row := range w.rows {
		byAlloc[row.SymAlloc] = append(byAlloc[row.SymAlloc], row)
	}

	// ---- baselines (allocation 32, in this process), each twice
	var progs []childProg

	progByID := map[string]childProg{}

	for _, p := range w.programs {
		cp := childProg{Case: p, Base: map[string]outcome{}}
		modes := w.modesOf[p.ID]

		if modes == nil {
			modes = typeModes
		}

		for _, mode := range modes {
			cfg := egorun.Baseline(mode)
			cfg.Extensions = true

			a := outcomeOf(RunProg(p.Src, cfg, diagNone))
			b := outcomeOf(RunProg(p.Src, cfg, diagNone))
			r.Count("baseline.runs", 2)

			if a != b {
				r.Count("dropped.self-flaky-programs", 1)

				continue
			}

			if a.class() == "step-budget" {
				r.Count("dropped.baseline-over-step-budget", 1)

				continue
			}

			r.Count("baseline.class."+a.class(), 1)
			cp.Base[mode] = a
		}

		progs = append(progs, cp)
		progByID[p.ID] = cp
	}

	var corp []childCorpus

	corpByRel := map[string]childCorpus{}

	for _, rel := range w.corpus {
		cc := childCorpus{Rel: rel, Base: map[string]corpusBase{}}
		modes := w.corpusMd[rel]

		if modes == nil {
			modes = []string{"dynamic"}
		}

		for _, mode := range modes {
			bi := stableBaseline(filepath.Join(egoSrcRoot, "tests", rel), egorun.Baseline(mode), diagNone)
			r.Count("corpus.baseline.file-runs", 2)

			if !bi.fileStable {
				r.Count("corpus.dropped.self-flaky-files", 1)

				continue
			}

			r.Count("corpus.dropped.self-flaky-tests", int64(len(bi.flaky)))
			r.Count("corpus.baseline.tests."+mode, int64(len(bi.names)))

			cb := corpusBase{Outcome: bi.outcome, Vector: bi.vec, Names: bi.names}
			for _, v := range bi.vec {
				if strings.Contains(v, " => PASS | ") {
					r.Count("corpus.baseline.status.PASS", 1)
				} else {
					r.Count("corpus.baseline.status.FAIL", 1)
				}
			}

			for i := range bi.flaky {
				cb.Flaky = append(cb.Flaky, i)
			}

			sort.Ints(cb.Flaky)

			cc.Base[mode] = cb
		}

		corp = append(corp, cc)
		corpByRel[rel] = cc
	}

	// ---- children
	type job struct {
		spec childSpec
		path string
		log  string
	}

	var jobs []job

	shards := w.shards
	if shards < 1 {
		shards = 1
	}

	for alloc, rows := range byAlloc {
		for s := 0; s < shards; s++ {
			spec := childSpec{Alloc: alloc, Shard: s, Rows: rows}

			for i, p := range progs {
				if i%shards == s {
					spec.Programs = append(spec.Programs, p)
				}
			}

			for i, c := range corp {
				if i%shards == s {
					spec.Corpus = append(spec.Corpus, c)
				}
			}

			if len(spec.Programs) == 0 && len(spec.Corpus) == 0 {
				continue
			}

			base := filepath.Join(arenaDir, fmt.Sprintf("c02-a%d-s%d", alloc, s))
			spec.Out = base + ".result.json"

			if err := writeJSON(base+".spec.json", spec); err != nil {
				t.Fatal(err)
			}

			jobs = append(jobs, job{spec: spec, path: base + ".spec.json", log: base + ".log"})
		}
	}

	results := make([]*childResult, len(jobs))

	var wg sync.WaitGroup

	sem := make(chan struct{}, 8)

	for i := range jobs {
		wg.Add(1)

		go func(i int) {
			defer wg.Done()

			sem <- struct{}{}

			defer func() { <-sem }()

			j := jobs[i]
			lf, _ := os.Create(j.log)

			defer lf.Close()

			cmd := exec.Command(os.Args[0], "-test.run", "^TestRelChild$", "-test.count", "1", "-test.timeout", "0")
			// workers are single-threaded interpreters: two OS threads each is enough and
			// keeps a dozen garbage collectors from fighting over the cores
			cmd.Env = append(os.Environ(), "REL_CHILD_SPEC="+j.path, "VERIF_OUT="+j.path+".vhout", "GOMAXPROCS=2", "GOGC=300")
			cmd.Stdout, cmd.Stderr = lf, lf
			cmd.SysProcAttr = &syscall.SysProcAttr{Pdeathsig: syscall.SIGKILL}

			err := cmd.Run()

			var cr childResult

			if rerr := readJSON(j.spec.Out, &cr); rerr == nil && err == nil {
				results[i] = &cr
			}
		}(i)
	}

	wg.Wait()

	// ---- merge
	type pmKey struct{ id, mode string }

	mism := map[pmKey][]progMismatch{}

	type cmKey struct{ rel, mode string }

	cmism := map[cmKey][]corpusMismatch{}

	for i, cr := range results {
		if cr == nil {
			b, _ := os.ReadFile(jobs[i].log)
			tail := string(b)

			if len(tail) > 3000 {
				tail = tail[len(tail)-3000:]
			}

			r.Inconcl(fmt.Sprintf("worker alloc=%d shard=%d did not deliver a result; its rows are not part of the verdict. log tail: %s", jobs[i].spec.Alloc, jobs[i].spec.Shard, tail))
			t.Errorf("worker alloc=%d shard=%d failed:\n%s", jobs[i].spec.Alloc, jobs[i].spec.Shard, tail)

			continue
		}

		if cr.AllocObserved != cr.Alloc {
			t.Fatalf("worker ended with allocation %d, expected %d", cr.AllocObserved, cr.Alloc)
		}

		r.Count(fmt.Sprintf("runs.programs.alloc%d", cr.Alloc), int64(cr.ProgRuns))
		r.Count(fmt.Sprintf("runs.corpus-files.alloc%d", cr.Alloc), int64(cr.CorpusRuns))
		r.Count("runs.programs", int64(cr.ProgRuns))
		r.Count("runs.corpus-files", int64(cr.CorpusRuns))
		r.Count("corpus.test-results-compared", int64(cr.CorpusTests))
		r.Count("bytecode-instructions-executed", cr.Steps)

		for _, m := range cr.ProgMismatch {
			mism[pmKey{m.ID, m.Mode}] = append(mism[pmKey{m.ID, m.Mode}], m)
		}

		for _, m := range cr.CorpusMismatch {
			cmism[cmKey{m.Rel, m.Mode}] = append(cmism[cmKey{m.Rel, m.Mode}], m)
		}
	}

	// evaluations: one per (program, mode) compared over all rows
	for _, cp := range progs {
		for mode, base := range cp.Base {
			r.Eval(vh.Hash(cp.Case.Src), base.Out != "" || base.Err != "")
			r.Count("compared."+cp.Case.Origin+"."+mode, 1)

			if cp.Case.Origin == "directed" {
				if cp.Case.KeyPerMode {
					r.Probe(cp.Case.Key + ":" + mode)
				} else if mode == "dynamic" {
					r.Probe(cp.Case.Key)
				}
			}
		}
	}

	for _, cc := range corp {
		for mode, cb := range cc.Base {
			r.Eval("corpus:"+cc.Rel+":"+mode, len(cb.Names) > 0)
		}
	}

	keys := make([]pmKey, 0, len(mism))
	for k := range mism {
		keys = append(keys, k)
	}

	sort.Slice(keys, func(i, j int) bool { return keys[i].id+keys[i].mode < keys[j].id+keys[j].mode })

	for _, k := range keys {
		ms := mism[k]
		cp := progByID[k.id]
		base := cp.Base[k.mode]

		// third baseline run: the baseline must still be what it was
		bcfg := egorun.Baseline(k.mode)
		bcfg.Extensions = true

		if again := outcomeOf(RunProg(cp.Case.Src, bcfg, diagNone)); again != base {
			r.Count("unconfirmed.baseline-changed", 1)
			r.Inconcl(fmt.Sprintf("program %s (%s): baseline result changed on a third run; mismatch not counted", k.id, k.mode))

			continue
		}

		var bad, good []egorun.Config

		badSet := map[string]bool{}

		var first *progMismatch

		for i := range ms {
			if !ms[i].Stable {
				r.Count("unconfirmed.config-result-unstable", 1)

				continue
			}

			bad = append(bad, ms[i].Cfg)
			badSet[cfgKey(ms[i].Cfg)] = true

			if first == nil {
				first = &ms[i]
			}
		}

		if first == nil {
			r.Inconcl(fmt.Sprintf("program %s (%s): mismatching configurations did not reproduce their own result", k.id, k.mode))

			continue
		}

		for _, row := range w.rows {
			if !badSet[cfgKey(row)] {
				good = append(good, row)
			}
		}

		factor := factorOf(bad, good)
		key := cp.Case.Key
		if key != "" && cp.Case.KeyPerMode {
			key += ":" + k.mode
		}

		if key == "" {
			key = "gen:" + factor + ":" + symptom(base, first.Got)
		}

		var cfgs []string
		for _, c := range bad {
			cfgs = append(cfgs, cfgKey(c))
		}

		sort.Strings(cfgs)

		r.Count("mismatching-program-mode-pairs", 1)

		if strings.HasPrefix(cp.Case.Key, "shadow-init:") {
			// the failure mode is part of the key (shadowinit_test.go): every distinct
			// mode among the mismatching rows is reported on its own
			emitted := map[string]bool{}

			for i := range ms {
				if !ms[i].Stable {
					continue
				}

				mk := shadowModeKey(cp.Case, base, ms[i].Got)
				if emitted[mk] {
					continue
				}

				emitted[mk] = true

				ln, want, got := firstDiffLine(base.Out, ms[i].Got.Out)

				r.Violate(vh.Violation{
					Key: mk,
					Desc: fmt.Sprintf("program %s, types=%s: configuration %s differs from the baseline (explained by: %s). baseline err=%q, observed err=%q panic=%q; first differing output line %d: baseline %q, observed %q",
						k.id, k.mode, cfgKey(ms[i].Cfg), factor, base.Err, ms[i].Got.Err, ms[i].Got.Panic, ln, want, got),
					Case:     map[string]any{"kind": "program", "id": k.id, "origin": cp.Case.Origin, "key": cp.Case.Key, "src": cp.Case.Src, "mode": k.mode, "cfg": ms[i].Cfg, "features": cp.Case.Features},
					Expected: base.short(),
					Observed: map[string]any{"result": ms[i].Got.short(), "differing_configurations": cfgs},
				})
			}

			continue
		}

		ln, want, got := firstDiffLine(base.Out, first.Got.Out)

		r.Violate(vh.Violation{
			Key: key,
			Desc: fmt.Sprintf("program %s, types=%s: %d of %d configurations differ from the baseline (explained by: %s). first: %s. baseline err=%q, observed err=%q panic=%q; first differing output line %d: baseline %q, observed %q",
				k.id, k.mode, len(bad), len(w.rows), factor, cfgKey(first.Cfg), base.Err, first.Got.Err, first.Got.Panic, ln, want, got),
			Case:     map[string]any{"kind": "program", "id": k.id, "origin": cp.Case.Origin, "key": cp.Case.Key, "src": cp.Case.Src, "mode": k.mode, "cfg": first.Cfg, "features": cp.Case.Features},
			Expected: base.short(),
			Observed: map[string]any{"result": first.Got.short(), "differing_configurations": cfgs},
		})
	}

	ckeys := make([]cmKey, 0, len(cmism))
	for k := range cmism {
		ckeys = append(ckeys, k)
	}

	sort.Slice(ckeys, func(i, j int) bool { return ckeys[i].rel+ckeys[i].mode < ckeys[j].rel+ckeys[j].mode })

	for _, k := range ckeys {
		ms := cmism[k]

		// confirm against a fresh baseline of this process
		bi := stableBaseline(filepath.Join(egoSrcRoot, "tests", k.rel), egorun.Baseline(k.mode), diagNone)
		cb := corpByRel[k.rel].Base[k.mode]

		if !bi.fileStable || bi.outcome != cb.Outcome || fmt.Sprint(bi.vec) != fmt.Sprint(cb.Vector) {
			// compare only outside flaky tests
			same := bi.fileStable && bi.outcome == cb.Outcome && len(bi.vec) == len(cb.Vector)
			if same {
				v := bi.vec
				fl := map[int]bool{}

				for _, i := range cb.Flaky {
					fl[i] = true
				}

				for i := range v {
					if !fl[i] && !bi.flaky[i] && v[i] != cb.Vector[i] {
						same = false
					}
				}
			}

			if !same {
				r.Count("unconfirmed.corpus-baseline-changed", 1)
				r.Inconcl(fmt.Sprintf("corpus %s (%s): baseline changed on re-run; mismatch not counted", k.rel, k.mode))

				continue
			}
		}

		var bad, good []egorun.Config

		badSet := map[string]bool{}

		var first *corpusMismatch

		for i := range ms {
			if !ms[i].Stable {
				r.Count("unconfirmed.corpus-config-result-unstable", 1)

				continue
			}

			bad = append(bad, ms[i].Cfg)
			badSet[cfgKey(ms[i].Cfg)] = true

			if first == nil {
				first = &ms[i]
			}
		}

		if first == nil {
			r.Inconcl(fmt.Sprintf("corpus %s (%s): mismatching configurations did not reproduce their own result", k.rel, k.mode))

			continue
		}

		for _, row := range w.rows {
			if !badSet[cfgKey(row)] {
				good = append(good, row)
			}
		}

		factor := factorOf(bad, good)
		d := first.Diffs[0]

		// the key names the first @test that differs (not the rows that happened to be
		// drawn this time), so it is the same for every seed and tier
		for _, x := range first.Diffs {
			if x.Test != "<file>" {
				d = x

				break
			}
		}

		r.Count("mismatching-corpus-file-mode-pairs", 1)
		r.Violate(vh.Violation{
			Key: "corpus:" + k.rel + ":" + slug(d.Test),
			Desc: fmt.Sprintf("corpus file tests/%s, types=%s: %d of %d configurations differ from the baseline (explained by: %s); first: %s, @test %q: baseline %q, observed %q",
				k.rel, k.mode, len(bad), len(w.rows), factor, cfgKey(first.Cfg), d.Test, d.Baseline, d.Got),
			Case:     map[string]any{"kind": "corpus", "rel": k.rel, "mode": k.mode, "cfg": first.Cfg},
			Expected: d.Baseline,
			Observed: first.Diffs,
		})
	}
}

// quick / thorough work lists -------------------------------------------------

func knownAvoid(prop string) map[string]bool {
	return vh.KnownKeys(prop)
}

func TestC02(t *testing.T) {
	relInit(t)

	r := vh.New("C02", "settings")
	r.Rule = "programs: directed shape x type table + hand-written probes per mechanism + PRNG programs (own generator; shared gen package when present) + repository corpus files run like `ego test`; " +
		"each compared under every row of the configuration set with the baseline configuration, per type mode. distinct = distinct program text (or corpus file x mode); " +
		"non-trivial = the baseline run printed something or ended in an error (it executed code) and all rows were run."
	r.Assume("the in-process runner (verifh/egorun) represents `ego run`; C12's CLI cross-check compares it with the real binary")
	r.Assume("a configuration is applied the way configureOptimizer/prepareRuntime/configureSymbolAllocations do; the allocation size is fixed per process (child processes), as in the CLI")
	r.Assume("corpus directories ai, server, sql, exec, os, io, profile are not run (network, host, or they rewrite the settings under test)")

	defer func() { _ = r.Write() }()

	rng := vh.Rand("c02")
	avoid := knownAvoid("C02")

	if c := vh.ReplayCase(); c != nil {
		replayC02(t, r, c)

		return
	}

	var w c02Work

	w.shards = vh.N(4, 5)

	if vh.Tier() == "thorough" {
		w.rows = fullRows()
	} else {
		w.rows = coveringRows(rng, 24)
	}

	r.Count("configuration-rows", int64(len(w.rows)))

	var rowNames []string
	for _, c := range w.rows {
		rowNames = append(rowNames, cfgKey(c))
	}

	r.Note("rows: " + strings.Join(rowNames, " | "))

	// 1. directed
	w.programs = append(w.programs, directedC02()...)
	r.Count("programs.directed", int64(len(w.programs)))

	// 2. own generator
	n := vh.N(260, 5000)
	for i := 0; i < n; i++ {
		p := newProgram(rng, gOpts{Avoid: avoid, Boundary: i%3 == 0, ShadowInit: true})
		w.programs = append(w.programs, progCase{ID: fmt.Sprintf("mygen/%d", i), Src: p.Src, Origin: "mygen", Features: p.Features})

		for _, f := range p.Features {
			r.Count("feature."+f, 1)
		}
	}

	r.Count("programs.mygen", int64(n))

	// 3. shared generator, when the package exists in this tree
	for i, p := range sharedPrograms(rng, vh.N(140, 3000), false, avoid) {
		p.ID = fmt.Sprintf("gen/%d", i)
		w.programs = append(w.programs, p)
		r.Count("programs.gen", 1)
	}

	// 4. corpus
	files, skipped := corpusFiles(t)
	for d, k := range skipped {
		r.Count("corpus.skipped-files."+strings.ReplaceAll(d, " ", "-"), int64(k))
	}

	r.Count("corpus.files-available", int64(len(files)))

	nf := vh.N(60, len(files))
	if nf > len(files) {
		nf = len(files)
	}

	w.corpusMd = map[string][]string{}

	for i, pi := range rng.Perm(len(files))[:nf] {
		rel := files[pi]
		w.corpus = append(w.corpus, rel)

		switch {
		case vh.Tier() == "thorough":
			w.corpusMd[rel] = typeModes
		case i%3 == 1:
			w.corpusMd[rel] = []string{"dynamic", "relaxed"}
		case i%3 == 2:
			w.corpusMd[rel] = []string{"dynamic", "strict"}
		}
	}

	sort.Strings(w.corpus)
	r.Count("corpus.files-run", int64(len(w.corpus)))

	runC02(t, r, w)

	// samples
	for i, p := range w.programs {
		if i%97 == 3 {
			r.Sample(map[string]any{"id": p.ID, "origin": p.Origin, "features": p.Features, "src": vh.Trunc(p.Src, 700)})
		}
	}

	if r.Counters["runs.programs"] == 0 || r.Counters["runs.corpus-files"] == 0 {
		t.Fatal("observed nothing")
	}
}

func replayC02(t *testing.T, r *vh.Report, c json.RawMessage) {
	var rc struct {
		Kind string
		ID   string
		Key  string
		Src  string
		Rel  string
		Mode string
		Cfg  egorun.Config
	}

	if err := json.Unmarshal(c, &rc); err != nil {
		t.Fatal(err)
	}

	row := rc.Cfg
	row.Types = ""
	row.Extensions = false

	w := c02Work{rows: []egorun.Config{row}, shards: 1}

	if rc.Kind == "corpus" {
		w.corpus = []string{rc.Rel}
		w.corpusMd = map[string][]string{rc.Rel: {rc.Mode}}
	} else {
		w.programs = []progCase{{ID: rc.ID, Src: rc.Src, Key: rc.Key, Origin: "replay"}}
		w.modesOf = map[string][]string{rc.ID: {rc.Mode}}
	}

	runC02(t, r, w)

	r.Distinct += 2
}
