package rel

// Shared pieces of the three relational checks: the case type, outcome comparison,
// the configuration rows (covering array / full product), keys for violations found
// in random programs.

import (
	"encoding/json"
	"fmt"
	"math/rand"
	"os"
	"regexp"
	"sort"
	"strings"

	"github.com/tucats/ego/internal/verifh/egorun"
)

// progCase is one program under test.
type progCase struct {
	ID     string `json:"id"`
	Src    string `json:"src"`
	Origin string `json:"origin"` // directed | mygen | gen
	Key    string `json:"key"`    // directed probes: the violation key a mismatch gets
	// KeyPerMode: the type mode is part of the key (tables whose cells fail per mode)
	KeyPerMode bool     `json:"key_per_mode"`
	Features   []string `json:"features"`
}

// outcome is what is compared between two configurations of one program: the
// program's standard output, the error message with its line number kept, and the
// first line of a Go panic if the interpreter itself panicked.
type outcome struct {
	Out   string `json:"out"`
	Err   string `json:"err"`
	Panic string `json:"panic"`
}

func outcomeOf(r egorun.Result) outcome {
	return outcome{Out: r.Out, Err: r.Err, Panic: firstLine(r.Panic)}
}

func (o outcome) class() string {
	switch {
	case o.Panic != "":
		return "panic"
	case strings.HasPrefix(o.Err, "VERIF-STEP-BUDGET"):
		return "step-budget"
	case o.Err != "":
		return "error"
	}

	return "ok"
}

func (o outcome) short() string {
	return fmt.Sprintf("[%s] err=%q panic=%q out=%s", o.class(), o.Err, o.Panic, vhTrunc(o.Out, 1500))
}

func vhTrunc(s string, n int) string {
	if len(s) <= n {
		return s
	}

	return s[:n] + fmt.Sprintf("...(+%d bytes)", len(s)-n)
}

// firstDiffLine returns the first line where two outputs differ.
func firstDiffLine(a, b string) (int, string, string) {
	la, lb := strings.Split(a, "\n"), strings.Split(b, "\n")
	for i := 0; i < len(la) || i < len(lb); i++ {
		x, y := "<end>", "<end>"
		if i < len(la) {
			x = la[i]
		}

		if i < len(lb) {
			y = lb[i]
		}

		if x != y {
			return i + 1, x, y
		}
	}

	return 0, "", ""
}

var (
	slugRE    = regexp.MustCompile(`[^a-z0-9]+`)
	lineRefRE = regexp.MustCompile(`^at [^,]*\(line \d+(:\d+)?\), |^at line \d+(:\d+)?, `)
)

// symptom turns the difference between baseline and observed into a short stable
// token: the class change plus the error text without position and without the
// operand after the last colon (identifiers, values).
func symptom(base, got outcome) string {
	if got.Panic != "" && base.Panic != got.Panic {
		return "panic:" + slug(got.Panic)
	}

	if base.Err != got.Err {
		e := got.Err
		if e == "" {
			e = base.Err

			return "noerr-vs:" + slug(stripOperand(e))
		}

		return "err:" + slug(stripOperand(e))
	}

	return "output"
}

func stripOperand(e string) string {
	e = lineRefRE.ReplaceAllString(e, "")
	if i := strings.Index(e, ": "); i > 0 {
		e = e[:i]
	}

	return e
}

func slug(s string) string {
	s = slugRE.ReplaceAllString(strings.ToLower(s), "-")
	s = strings.Trim(s, "-")

	if len(s) > 48 {
		s = s[:48]
	}

	return s
}

// ---------------------------------------------------------------- configurations

var allocValues = []int{16, 32, 1024} // 16 = symbols.MinSymbolAllocationSize

// effective applies configureOptimizer's implication (level 3 turns the other three
// on), so that rows which are the same configuration are recognised as such.
func effective(c egorun.Config) egorun.Config {
	if c.Opt > 2 {
		c.Registers, c.ConstFold, c.GlobalCache = true, true, true
	}

	return c
}

func cfgKey(c egorun.Config) string {
	c = effective(c)

	return fmt.Sprintf("o%d,reg=%t,cf=%t,gc=%t,alloc=%d", c.Opt, c.Registers, c.ConstFold, c.GlobalCache, c.SymAlloc)
}

func isBaselineCfg(c egorun.Config) bool {
	return c.Opt == 0 && !c.Registers && !c.ConstFold && !c.GlobalCache && c.SymAlloc == 32
}

// fullRows: the full product 4 x 2 x 2 x 2 x 3 with identical effective rows merged
// and the baseline itself removed.
func fullRows() []egorun.Config {
	var out []egorun.Config

	seen := map[string]bool{}

	for o := 0; o <= 3; o++ {
		for _, reg := range []bool{false, true} {
			for _, cf := range []bool{false, true} {
				for _, gc := range []bool{false, true} {
					for _, al := range allocValues {
						c := effective(egorun.Config{Opt: o, Registers: reg, ConstFold: cf, GlobalCache: gc, SymAlloc: al})
						if isBaselineCfg(c) || seen[cfgKey(c)] {
							continue
						}

						seen[cfgKey(c)] = true

						out = append(out, c)
					}
				}
			}
		}
	}

	return out
}

// coveringRows returns about n rows of the full product such that every pair of
// factor values that occurs in the full product occurs in some row (greedy pairwise
// covering array over the effective rows), filled up to n with further rows chosen
// by the PRNG, which adds 3-way combinations that change with the seed.
func coveringRows(rng *rand.Rand, n int) []egorun.Config {
	all := fullRows()

	pairsOf := func(c egorun.Config) []string {
		f := []string{fmt.Sprint("o", c.Opt), fmt.Sprint("r", c.Registers), fmt.Sprint("c", c.ConstFold), fmt.Sprint("g", c.GlobalCache), fmt.Sprint("a", c.SymAlloc)}

		var ps []string

		for i := 0; i < len(f); i++ {
			for j := i + 1; j < len(f); j++ {
				ps = append(ps, f[i]+"/"+f[j])
			}
		}

		return ps
	}

	need := map[string]bool{}

	for _, c := range all {
		for _, p := range pairsOf(c) {
			need[p] = true
		}
	}

	order := rng.Perm(len(all))
	used := map[int]bool{}

	var out []egorun.Config

	for len(need) > 0 {
		best, bestGain := -1, 0

		for _, i := range order {
			if used[i] {
				continue
			}

			gain := 0

			for _, p := range pairsOf(all[i]) {
				if need[p] {
					gain++
				}
			}

			if gain > bestGain {
				best, bestGain = i, gain
			}
		}

		if best < 0 {
			break
		}

		used[best] = true

		out = append(out, all[best])

		for _, p := range pairsOf(all[best]) {
			delete(need, p)
		}
	}

	for _, i := range order {
		if len(out) >= n {
			break
		}

		if !used[i] {
			used[i] = true

			out = append(out, all[i])
		}
	}

	sort.Slice(out, func(i, j int) bool { return cfgKey(out[i]) < cfgKey(out[j]) })

	return out
}

// factorOf names the setting that explains a set of mismatching rows: the first
// factor value that every mismatching row has and no agreeing row has.
func factorOf(mismatch, agree []egorun.Config) string {
	type pred struct {
		name string
		f    func(egorun.Config) bool
	}

	preds := []pred{
		{"registers", func(c egorun.Config) bool { return effective(c).Registers }},
		{"constfold", func(c egorun.Config) bool { return effective(c).ConstFold }},
		{"globalcache", func(c egorun.Config) bool { return effective(c).GlobalCache }},
		{"peephole", func(c egorun.Config) bool { return c.Opt == 1 || c.Opt == 2 }},
		{"peephole-o2", func(c egorun.Config) bool { return c.Opt == 2 }},
		{"alloc16", func(c egorun.Config) bool { return c.SymAlloc == 16 }},
		{"alloc1024", func(c egorun.Config) bool { return c.SymAlloc == 1024 }},
		{"alloc", func(c egorun.Config) bool { return c.SymAlloc != 32 }},
	}

	for _, p := range preds {
		ok := len(mismatch) > 0

		for _, c := range mismatch {
			if !p.f(c) {
				ok = false

				break
			}
		}

		if !ok {
			continue
		}

		for _, c := range agree {
			if p.f(c) {
				ok = false

				break
			}
		}

		if ok {
			return p.name
		}
	}

	// weaker: every mismatching row has it (some rows with it agree, e.g. level 1
	// only optimizes large functions)
	for _, p := range preds {
		ok := len(mismatch) > 0

		for _, c := range mismatch {
			if !p.f(c) {
				ok = false

				break
			}
		}

		if ok {
			return p.name + "~"
		}
	}

	return "mixed"
}

func writeJSON(path string, v any) error {
	b, err := json.Marshal(v)
	if err != nil {
		return err
	}

	return os.WriteFile(path, b, 0o644)
}

func readJSON(path string, v any) error {
	b, err := os.ReadFile(path)
	if err != nil {
		return err
	}

	return json.Unmarshal(b, v)
}

var typeModes = []string{"dynamic", "relaxed", "strict"}
