package rel

import (
	"fmt"
	"os"
	"testing"
)

// dev aid: one program ($P) in the four diagnostics modes
func TestExploreModes(t *testing.T) {
	path := os.Getenv("P")
	if path == "" || os.Getenv("MODES") == "" {
		t.Skip()
	}
	relInit(t)
	b, _ := os.ReadFile(path)
	for _, d := range []diag{diagNone, diagProfile, diagTrace, diagDebug} {
		r := outcomeOf(RunProg(string(b), cliDefaults("dynamic", 0), d))
		fmt.Fprintf(os.Stderr, "-- %s\n%s\nERR=%q %s obs=%+v\n", d, vhTrunc(r.Out, 600), r.Err, r.Panic, lastDiag)
	}
}
