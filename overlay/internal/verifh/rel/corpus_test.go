package rel

// Corpus runner shared by C02, C04 and C12: runs one tests/**/*.ego file of the
// repository in-process the way `ego test <file>` does (internal/commands/test.go)
// and returns the per-@test PASS/FAIL vector plus the text the run printed, with
// the elapsed-time column removed.

import (
	"fmt"
	"io"
	"os"
	"path/filepath"
	"regexp"
	"runtime/debug"
	"sort"
	"strings"
	"sync"
	"testing"

	"github.com/tucats/ego/internal/cli/settings"
	"github.com/tucats/ego/internal/cli/ui"
	"github.com/tucats/ego/internal/defs"
	"github.com/tucats/ego/internal/errors"
	"github.com/tucats/ego/internal/language/bytecode"
	"github.com/tucats/ego/internal/language/compiler"
	"github.com/tucats/ego/internal/language/data"
	"github.com/tucats/ego/internal/language/symbols"
	"github.com/tucats/ego/internal/language/tokenizer"
	"github.com/tucats/ego/internal/runtime/profile"
	"github.com/tucats/ego/internal/verifh/egorun"
)

// directories of tests/ that are not run: network, database, host processes,
// host file system, or tests that rewrite the very settings under comparison.
var corpusSkipDirs = map[string]string{
	"ai":      "needs a network LLM endpoint",
	"server":  "needs a running server",
	"sql":     "needs database servers",
	"exec":    "runs host processes",
	"os":      "host file system / environment",
	"io":      "host file system",
	"profile": "rewrites the process-global settings that are the configuration under test",
}

// TestResult is the outcome of one @test block.
type TestResult struct {
	Name    string `json:"name"`
	Status  string `json:"status"`  // PASS or FAIL
	Detail  string `json:"detail"`  // everything the test printed: (OUTPUT) block and the "Error:" line of a FAIL
	ErrLine string `json:"errline"` // only the "Error:" line
}

// FileResult is what one corpus file did under one configuration.
type FileResult struct {
	Tests      []TestResult
	Raw        string // everything printed, timings masked
	Trailing   string // lines after the last status line that belong to no test record
	Err        string // compile error outside any @test, or a run error that ended the file
	Panic      string
	BudgetHit  bool
	TestCount  int
	FailCount  int
	StepsTaken int64
	TraceLines int
}

var (
	corpusInit sync.Once
	stdoutFile *os.File
	realStdout *os.File
	egoSrcRoot string
	arenaDir   string
	testLineRE = regexp.MustCompile(`^TEST: (.*?)\s*\((PASS|FAIL)\)\s+\S+\s*$`)
	addrRE     = regexp.MustCompile(`0x[0-9a-fA-F]{6,}`)

	midLineTestRE  = regexp.MustCompile(`([^\n])TEST: `)
	midLineErrorRE = regexp.MustCompile(`([^\n ])       Error: `)
	uuidRE         = regexp.MustCompile(`[0-9a-fA-F]{8}-[0-9a-fA-F]{4}-[0-9a-fA-F]{4}-[0-9a-fA-F]{4}-[0-9a-fA-F]{12}`)
	stepBudget     = int64(40_000_000) // logical instruction budget per run (hang guard, not a clock)
)

// relInit prepares the process: isolated HOME, library path, quiet logging, a
// file that stands in for os.Stdout while Ego code runs.
func relInit(t testing.TB) {
	corpusInit.Do(func() {
		egoSrcRoot = os.Getenv("VERIF_EGO_SRC")
		if egoSrcRoot == "" {
			// running by hand inside the scratch tree: internal/verifh/rel -> root
			wd, _ := os.Getwd()
			egoSrcRoot = filepath.Clean(filepath.Join(wd, "..", "..", ".."))
		}

		if os.Getenv("VERIF_EGO_LIB") == "" {
			os.Setenv("VERIF_EGO_LIB", filepath.Join(egoSrcRoot, "lib"))
		}

		egorun.Init()
		_ = profile.InitProfileDefaults(profile.AllDefaults)

		arena := os.Getenv("VERIF_ARENA")
		if arena == "" {
			arena, _ = os.MkdirTemp("", "rel-arena-")
		}

		arena = filepath.Join(arena, fmt.Sprintf("rel-%d", os.Getpid()))
		_ = os.MkdirAll(arena, 0o755)
		arenaDir = arena

		_ = ui.OpenLogFile(filepath.Join(arena, "ego.log"), false)

		f, err := os.Create(filepath.Join(arena, "stdout.capture"))
		if err != nil {
			t.Fatalf("capture file: %v", err)
		}

		stdoutFile = f
		realStdout = os.Stdout
	})
}

// captureStdout runs fn with os.Stdout pointing at the capture file and returns
// what was written. Ego's `ego test` report lines are printed with fmt.Println on
// os.Stdout (ui.Say), not through the context's writer.
func captureStdout(fn func()) string {
	_, _ = stdoutFile.Seek(0, io.SeekStart)
	_ = stdoutFile.Truncate(0)

	os.Stdout = stdoutFile

	func() {
		defer func() { os.Stdout = realStdout }()
		fn()
	}()

	_, _ = stdoutFile.Seek(0, io.SeekStart)
	b, _ := io.ReadAll(stdoutFile)

	return string(b)
}

// applyTestMode sets the settings TestAction sets, after the configuration.
func applyTestMode(cfg egorun.Config) {
	cfg.Extensions = true
	egorun.Apply(cfg)
	settings.SetDefault(defs.ExtensionsEnabledSetting, defs.True)
	settings.SetDefault(defs.SandboxPathSetting, "")
	settings.SetDefault(defs.RuntimeDeepScopeSetting, "true")
	symbols.RootSymbolTable.SetAlways(defs.ExtensionsVariable, true)
	symbols.RootSymbolTable.SetAlways("_testcount", 0)
	symbols.RootSymbolTable.SetAlways("_testfailcount", 0)
}

func typeLevel(s string) int {
	switch s {
	case "strict":
		return defs.StrictTypeEnforcement
	case "relaxed":
		return defs.RelaxedTypeEnforcement
	default:
		return defs.NoTypeEnforcement
	}
}

// diag selects a diagnostics mode for C12.
type diag int

const (
	diagNone diag = iota
	diagProfile
	diagTrace
	diagDebug
)

func (d diag) String() string {
	return [...]string{"plain", "profile", "trace", "debug"}[d]
}

// RunCorpusFile runs one test file under cfg (and diagnostics mode d).
func RunCorpusFile(path string, cfg egorun.Config, d diag) (res FileResult) {
	text, err := os.ReadFile(path)
	if err != nil {
		res.Err = "read: " + err.Error()

		return res
	}

	_ = os.Chdir(egoSrcRoot)

	applyTestMode(cfg)

	start := instructionsNow()
	bytecode.VerifStepLimit.Store(start + stepBudget)
	hits0 := bytecode.VerifBudgetHits.Load()

	defer func() {
		bytecode.VerifStepLimit.Store(0)
		res.BudgetHit = bytecode.VerifBudgetHits.Load() != hits0
		res.StepsTaken = instructionsNow() - start
	}()

	stopDiag := startDiag(d)

	raw := captureStdout(func() {
		defer func() {
			if r := recover(); r != nil {
				res.Panic = fmt.Sprintf("%v\n%s", r, debug.Stack())
			}
		}()

		symbolTable := symbols.NewSymbolTable("Unit Tests").Shared(true)
		symbolTable.SetAlways(defs.ModeVariable, "test")
		symbolTable.SetAlways(defs.TypeCheckingVariable, typeLevel(cfg.Types))

		t := tokenizer.New(string(text), true)
		name := filepath.Base(path)
		comp := compiler.New(name).SetTestMode(true)

		compiler.AddStandard(symbolTable)
		_ = comp.AutoImport(true, symbolTable)

		for _, packageName := range compiler.GetAutoImportedPackages() {
			comp.DefineGlobalSymbol(packageName)
		}

		comp.SetInteractive(true)

		b, err := comp.Compile(name, t)
		if err != nil {
			res.Err = "compile: " + err.Error()

			return
		}

		ctx := bytecode.NewContext(symbolTable, b)
		ctx.EnableConsoleOutput(false)

		err = ctx.Run()
		if errors.Equals(err, errors.ErrStop) {
			err = nil
		}

		if err != nil {
			res.Err = "run: " + err.Error()
		}

		if v, found := symbols.RootSymbolTable.Get("_testcount"); found {
			res.TestCount, _ = data.Int(v)
		}

		if v, found := symbols.RootSymbolTable.Get("_testfailcount"); found {
			res.FailCount, _ = data.Int(v)
		}
	})

	stopDiag()

	if d == diagTrace {
		raw, res.TraceLines = splitTrace(raw)
		lastDiag.TraceLines = res.TraceLines
		// `ego test` flushes a test's buffered report with TrimSuffix("\n")+Println;
		// under tracing the last thing in that buffer is a trace record, so the newline
		// that gets trimmed is the record's and the report line loses its own. Put the
		// line break back in front of every report line.
		raw = midLineTestRE.ReplaceAllString(raw, "$1\nTEST: ")
		raw = midLineErrorRE.ReplaceAllString(raw, "$1\n       Error: ")
	}

	res.Raw, res.Tests, res.Trailing = parseTestOutput(raw)

	return res
}

// parseTestOutput masks the timing column and splits the report into per-test records.
func parseTestOutput(raw string) (string, []TestResult, string) {
	var (
		masked  strings.Builder
		tests   []TestResult
		pending []string // lines seen since the last status line (OUTPUT blocks precede their status line)
	)

	lines := strings.Split(raw, "\n")
	for _, line := range lines {
		if m := testLineRE.FindStringSubmatch(line); m != nil {
			line = "TEST: " + m[1] + " (" + m[2] + ")"
			tests = append(tests, TestResult{Name: m[1], Status: m[2], Detail: strings.Join(pending, "\n")})
			pending = nil
		} else if strings.HasPrefix(line, "       Error: ") && len(tests) > 0 && tests[len(tests)-1].Status == "FAIL" && len(pending) == 0 && tests[len(tests)-1].ErrLine == "" {
			tests[len(tests)-1].ErrLine = maskVolatile(line)
			tests[len(tests)-1].Detail += "\n" + maskVolatile(line)
		} else if line != "" {
			pending = append(pending, maskVolatile(line))
		}

		masked.WriteString(maskVolatile(line))
		masked.WriteByte('\n')
	}

	return masked.String(), tests, strings.Join(pending, "\n")
}

// maskVolatile removes values that legitimately differ between two runs of the
// same configuration: machine addresses and UUIDs.
func maskVolatile(s string) string {
	s = addrRE.ReplaceAllString(s, "0xADDR")
	s = uuidRE.ReplaceAllString(s, "UUID")

	return s
}

// vector renders one comparison record per @test: its status and what it printed.
// statusOnly keeps only the status and the error line (used when a diagnostics mode
// legitimately adds text to the captured output of a test).
func (r FileResult) vector(statusOnly bool) []string {
	out := []string{}

	for _, t := range r.Tests {
		if statusOnly {
			// (not even the error line: under tracing the record of the instruction that
			// prints it quotes the error value, which may itself contain a line break)
			out = append(out, t.Name+" => "+t.Status)
		} else {
			out = append(out, t.Name+" => "+t.Status+" | "+t.Detail)
		}
	}

	return out
}

// fileOutcome is the file-level record: how the run ended, the pass/fail counters,
// and text that belongs to no test.
func (r FileResult) fileOutcome(statusOnly bool) string {
	var s string

	switch {
	case r.Panic != "":
		s = "panic: " + firstLine(r.Panic)
	case r.BudgetHit:
		s = "step-budget"
	default:
		s = maskVolatile(r.Err)
	}

	s += fmt.Sprintf(" [passed=%d failed=%d]", r.TestCount, r.FailCount)

	if !statusOnly && r.Trailing != "" {
		s += " trailing: " + r.Trailing
	}

	return s
}

func firstLine(s string) string {
	if i := strings.Index(s, "\n"); i >= 0 {
		return s[:i]
	}

	return s
}

// corpusFiles lists the corpus files that are run, sorted, relative to tests/.
func corpusFiles(t testing.TB) (files []string, skipped map[string]int) {
	root := filepath.Join(egoSrcRoot, "tests")
	skipped = map[string]int{}

	_ = filepath.Walk(root, func(p string, info os.FileInfo, err error) error {
		if err != nil || info.IsDir() || !strings.HasSuffix(p, ".ego") {
			return nil
		}

		rel, _ := filepath.Rel(root, p)
		top := strings.Split(rel, string(filepath.Separator))[0]

		if _, skip := corpusSkipDirs[top]; skip {
			skipped[top]++

			return nil
		}

		b, _ := os.ReadFile(p)
		if !strings.Contains(string(b), "@test") {
			skipped["helper-file-without-@test"]++

			return nil
		}

		files = append(files, rel)

		return nil
	})

	sort.Strings(files)

	if len(files) == 0 {
		t.Fatalf("no corpus files under %s", root)
	}

	return files, skipped
}

// baselineInfo is the reference record of one corpus file: the result of the first
// of two identical runs plus the indices of @tests whose record differed between the
// two (self-flaky: clock, random ids, scheduling). fileStable is false if the
// file-level record or the number of tests differed; then nothing is compared.
type baselineInfo struct {
	outcome    string
	vec        []string
	names      []string
	flaky      map[int]bool
	fileStable bool
	statusOnly bool
}

func stableBaseline(path string, cfg egorun.Config, d diag) baselineInfo {
	return stableBaselineMode(path, cfg, d, false)
}

func stableBaselineMode(path string, cfg egorun.Config, d diag, statusOnly bool) baselineInfo {
	a := RunCorpusFile(path, cfg, d)
	b := RunCorpusFile(path, cfg, d)

	bi := baselineInfo{outcome: a.fileOutcome(statusOnly), vec: a.vector(statusOnly), flaky: map[int]bool{}, fileStable: true, statusOnly: statusOnly}
	for _, t := range a.Tests {
		bi.names = append(bi.names, t.Name)
	}

	if a.fileOutcome(statusOnly) != b.fileOutcome(statusOnly) || len(a.Tests) != len(b.Tests) {
		bi.fileStable = false

		return bi
	}

	vb := b.vector(statusOnly)
	for i := range bi.vec {
		if bi.vec[i] != vb[i] {
			bi.flaky[i] = true
		}
	}

	return bi
}

// corpusDiff names one difference against the baseline: the test (or "<file>").
type corpusDiff struct {
	Test     string
	Baseline string
	Got      string
}

// compareToBaseline returns the differences of got against the baseline, ignoring
// flaky tests.
func compareToBaseline(bi baselineInfo, got FileResult) []corpusDiff {
	var diffs []corpusDiff

	if !bi.fileStable {
		return nil
	}

	if o := got.fileOutcome(bi.statusOnly); bi.outcome != o {
		diffs = append(diffs, corpusDiff{"<file>", bi.outcome, o})
	}

	vb := got.vector(bi.statusOnly)
	if len(bi.vec) != len(vb) {
		diffs = append(diffs, corpusDiff{"<file>", fmt.Sprintf("%d tests reported", len(bi.vec)), fmt.Sprintf("%d tests reported", len(vb))})

		return diffs
	}

	for i := range bi.vec {
		if bi.flaky[i] {
			continue
		}

		if bi.vec[i] != vb[i] {
			diffs = append(diffs, corpusDiff{bi.names[i], bi.vec[i], vb[i]})
		}
	}

	return diffs
}

// testSource returns the source text of the @test block with the given (possibly
// truncated) description, or "" if it cannot be located.
func testSource(path, name string) string {
	b, err := os.ReadFile(path)
	if err != nil {
		return ""
	}

	prefix := strings.TrimSuffix(strings.TrimSpace(name), "...")

	for _, seg := range strings.Split(string(b), "@test")[1:] {
		head := strings.TrimSpace(seg)
		head = strings.TrimPrefix(head, `"`)

		if strings.HasPrefix(head, prefix) {
			return seg
		}
	}

	return ""
}
