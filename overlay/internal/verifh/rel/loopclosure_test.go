package rel

// Closures, defer and go statements created inside (nested blocks of) loop bodies.
//
// What is under test: the compiler decides per loop - and, above optimizer level 0,
// by looking at the body's tokens - whether the body gets a fresh scope on every
// iteration or shares one scope for the whole loop, and the optimizer merges scope
// instructions. A function literal created in the body or in a block nested in it
// captures the loop variable, a local of the iteration, or a variable outside the
// loop; when it is called after its iteration has ended (from the next iteration, or
// after the loop, through a slice it was appended to) it must see the same values at
// every optimizer level and with every other performance setting. The same goes for
// deferred calls and goroutines started in such a block.
//
// Dimensions: loop kind {for-3, for-cond, for-range} x nesting {none, if, switch case,
// bare block, try; depth 0, 1, 2} x where the iteration local lives {none: only the loop
// variable and an outer variable are captured; body: declared at the top of the loop
// body; nest: declared inside the nested block, next to the literal}. The last one
// matters because a ":=" at the top of the body is by itself a reason for the compiler
// to give the body a scope per iteration, which would hide what the literal needs.

import (
	"fmt"
	"strings"
)

var (
	loopKinds = []string{"for3", "forcond", "forrange"}
	nestKinds = []string{"if", "switch", "block", "try"}
	locKinds  = []string{"none", "body", "nest"}
)

// loopHeader returns the statements that open a loop of the given kind whose counter
// is named v (0,1,2), an extra value name (range only, else ""), and the statement
// that must close the body before the final brace.
func loopHeader(kind, v, in string) (open string, value string, step string) {
	switch kind {
	case "for3":
		return fmt.Sprintf("%sfor %s := 0; %s < 3; %s++ {\n", in, v, v, v), "", ""
	case "forcond":
		return fmt.Sprintf("%s%s := 0\n%sfor %s < 3 {\n", in, v, in, v), "", fmt.Sprintf("%s\t%s = %s + 1\n", in, v, v)
	default:
		return fmt.Sprintf("%sfor %s, %sv := range []int{5, 6, 7} {\n", in, v, v), v + "v", ""
	}
}

// nestOpen / nestClose wrap a body in one nested block of the given kind.
func nestOpen(kind, v, in string) string {
	switch kind {
	case "if":
		return fmt.Sprintf("%sif %s >= 0 {\n", in, v)
	case "switch":
		return fmt.Sprintf("%sswitch %s {\n%scase 0, 1, 2:\n", in, v, in)
	case "block":
		return in + "{\n"
	default:
		return in + "try {\n"
	}
}

func nestClose(kind, in string) string {
	if kind == "try" {
		return in + "} catch (e) {\n" + in + "\tfmt.Println(\"caught\", e)\n" + in + "}\n"
	}

	return in + "}\n"
}

// nestsFor returns the nest kinds for a depth: the first is the named kind, the second
// (depth 2) is the next kind in the list, so every pair of neighbours occurs.
func nestsFor(nest string, depth int) []string {
	if depth == 0 {
		return nil
	}

	idx := 0

	for i, k := range nestKinds {
		if k == nest {
			idx = i
		}
	}

	out := []string{nest}
	if depth > 1 {
		out = append(out, nestKinds[(idx+1)%len(nestKinds)])
	}

	return out
}

// loopFrame writes the opening of a loop and its nests and returns the indentation of
// the innermost block plus a function that writes the closing part. locAt places the
// iteration local "loc<sfx>" (none / body / nest); with "none" the expression that
// would have used it falls back to the loop variable.
func loopFrame(b *strings.Builder, loop string, nests []string, v, loc, locAt, in string, locExpr string) (inner, value, locUse string, closeAll func(extra string)) {
	open, value, step := loopHeader(loop, v, in)
	b.WriteString(open)

	body := in + "\t"

	if value != "" {
		locExpr += " + " + value
	}

	if locAt == "nest" && len(nests) == 0 {
		locAt = "body"
	}

	if locAt == "body" {
		fmt.Fprintf(b, "%s%s := %s\n", body, loc, locExpr)
	}

	for d, k := range nests {
		b.WriteString(nestOpen(k, v, body+strings.Repeat("\t", d)))
	}

	inner = body + strings.Repeat("\t", len(nests))
	if len(nests) > 0 && nests[len(nests)-1] == "switch" {
		inner += "\t"
	}

	locUse = loc

	switch locAt {
	case "nest":
		fmt.Fprintf(b, "%s%s := %s\n", inner, loc, locExpr)
	case "none":
		locUse = "(" + locExpr + ")"
	}

	closeAll = func(extra string) {
		for d := len(nests) - 1; d >= 0; d-- {
			b.WriteString(nestClose(nests[d], body+strings.Repeat("\t", d)))
		}

		b.WriteString(extra)
		b.WriteString(step)
		fmt.Fprintf(b, "%s}\n", in)
	}

	return inner, value, locUse, closeAll
}

// closureLoopBody writes one loop that creates a closure per iteration inside the
// given nests, calls the previous iteration's closure from the next iteration, and
// calls all of them after the loop. sfx makes the names unique within a function.
func closureLoopBody(b *strings.Builder, loop string, nests []string, locAt, sfx, in string) {
	v := "i" + sfx
	fs := "fs" + sfx
	outer := "outer" + sfx

	fmt.Fprintf(b, "%s%s := []func() int{}\n%s%s := 1000\n", in, fs, in, outer)

	inner, value, locUse, closeAll := loopFrame(b, loop, nests, v, "loc"+sfx, locAt, in, v+"*2 + 1")

	ret := fmt.Sprintf("%s*100 + %s*10 + %s", v, locUse, outer)
	if value != "" {
		ret += " + " + value + "*10000"
	}

	fmt.Fprintf(b, "%s%s = append(%s, func() int {\n%s\treturn %s\n%s})\n", inner, fs, fs, inner, ret, inner)
	// the closure of the previous iteration, called from this one
	fmt.Fprintf(b, "%sif len(%s) > 1 {\n%s\tfmt.Println(\"prev%s\", %s[len(%s)-2]())\n%s}\n", inner, fs, inner, sfx, fs, fs, inner)

	closeAll(fmt.Sprintf("%s\t%s = %s + 1\n", in, outer, outer))

	// every closure, called after the loop has ended
	fmt.Fprintf(b, "%sfor n%s, f%s := range %s {\n%s\tfmt.Println(\"after%s\", n%s, f%s())\n%s}\n", in, sfx, sfx, fs, in, sfx, sfx, sfx, in)
}

func closureLoopProgram(loop, nest string, depth int, locAt string) string {
	var b strings.Builder

	b.WriteString("import \"fmt\"\n\nfunc run() {\n")
	closureLoopBody(&b, loop, nestsFor(nest, depth), locAt, "A", "\t")
	b.WriteString("}\n\nfunc main() {\n\trun()\n\trun()\n")
	closureLoopBody(&b, loop, nestsFor(nest, depth), locAt, "B", "\t")
	b.WriteString("}\n")

	return b.String()
}

// deferLoopProgram: deferred calls (a plain call and a closure that captures the loop
// variable and an iteration local) started at depth >= 1 of a loop body.
func deferLoopProgram(loop, nest string, depth int, locAt string) string {
	var b strings.Builder

	b.WriteString("import \"fmt\"\n\nfunc work(tag string) int {\n\ttotal := 0\n")

	inner, _, locUse, closeAll := loopFrame(&b, loop, nestsFor(nest, depth), "i", "loc", locAt, "\t", "i*3 + 1")

	fmt.Fprintf(&b, "%sdefer fmt.Println(\"deferred-call\", tag, i, %s)\n", inner, locUse)
	fmt.Fprintf(&b, "%sdefer func() {\n%s\tfmt.Println(\"deferred-closure\", tag, i, %s, total)\n%s}()\n", inner, inner, locUse, inner)

	closeAll("\t\ttotal = total + i + 1\n")

	b.WriteString("\tfmt.Println(\"work done\", tag, total)\n\treturn total\n}\n\nfunc main() {\n\tfmt.Println(work(\"a\"))\n\tfmt.Println(work(\"b\"))\n}\n")

	return b.String()
}

// goLoopProgram: goroutines started at depth >= 1 of a loop body and joined by a
// WaitGroup. What they compute does not depend on the order they run in (sums under a
// mutex); the loop variable reaches them as an argument and, separately, through an
// iteration local they capture.
func goLoopProgram(loop, nest string, depth int, locAt string) string {
	var b strings.Builder

	b.WriteString("import \"fmt\"\nimport \"sync\"\n\nfunc main() {\n\tvar wg sync.WaitGroup\n\tvar mu sync.Mutex\n\tsum := 0\n\tcaptured := 0\n")

	inner, value, locUse, closeAll := loopFrame(&b, loop, nestsFor(nest, depth), "i", "loc", locAt, "\t", "i*7 + 1")

	if locAt == "none" {
		// a goroutine must not read the loop variable itself: when it runs is not determined
		locUse = "k"
	}

	if value == "" {
		value = "i"
	}

	fmt.Fprintf(&b, "%swg.Add(1)\n%sgo func(k int, w int) {\n%s\tmu.Lock()\n%s\tsum = sum + k*k + w + 1\n%s\tcaptured = captured + %s\n%s\tmu.Unlock()\n%s\twg.Done()\n%s}(i, %s)\n", inner, inner, inner, inner, inner, locUse, inner, inner, inner, value)

	closeAll("")

	b.WriteString("\twg.Wait()\n\tfmt.Println(\"sum\", sum, \"captured\", captured)\n}\n")

	return b.String()
}

// loopClosureProbes is the directed part of the family.
func loopClosureProbes() []progCase {
	var out []progCase

	add := func(kind, loop, nest string, depth int, locAt, src string) {
		if nest == "" {
			nest = "none"
		}

		out = append(out, progCase{
			ID:       fmt.Sprintf("%s/%s/%s/d%d/loc-%s", kind, loop, nest, depth, locAt),
			Key:      fmt.Sprintf("%s:%s:%s:d%d:loc-%s", kind, loop, nest, depth, locAt),
			Src:      src,
			Origin:   "directed",
			Features: []string{kind, "loop:" + loop, "nest:" + nest, fmt.Sprint("depth:", depth), "loc:" + locAt},
		})
	}

	for _, loop := range loopKinds {
		for _, locAt := range []string{"none", "body"} {
			add("closure-in-loop", loop, "", 0, locAt, closureLoopProgram(loop, "", 0, locAt))
		}

		for _, nest := range nestKinds {
			for depth := 1; depth <= 2; depth++ {
				for _, locAt := range locKinds {
					add("closure-in-loop", loop, nest, depth, locAt, closureLoopProgram(loop, nest, depth, locAt))
				}
			}

			for _, locAt := range []string{"none", "nest"} {
				add("defer-in-loop", loop, nest, 1, locAt, deferLoopProgram(loop, nest, 1, locAt))
			}
		}

		add("defer-in-loop", loop, "if", 2, "body", deferLoopProgram(loop, "if", 2, "body"))
		add("defer-in-loop", loop, "block", 2, "nest", deferLoopProgram(loop, "block", 2, "nest"))

		for _, locAt := range locKinds {
			add("go-in-loop", loop, "if", 1, locAt, goLoopProgram(loop, "if", 1, locAt))
		}

		add("go-in-loop", loop, "block", 2, "nest", goLoopProgram(loop, "block", 2, "nest"))
		add("go-in-loop", loop, "switch", 2, "none", goLoopProgram(loop, "switch", 2, "none"))
	}

	return out
}

// closureLoopStmt is the same family inside the random generator: one loop of a
// random kind with 0-2 random nests and a random place for the iteration local,
// placed wherever a statement can go.
func (g *pg) closureLoopStmt(n int) string {
	if g.loopDep >= 1 {
		return g.assignStmt(n)
	}

	r := g.r

	var nests []string

	for d := r.Intn(3); d > 0; d-- {
		k := nestKinds[r.Intn(len(nestKinds))]
		if k == "try" && g.o.NoTry {
			k = "block"
		}

		nests = append(nests, k)
	}

	g.nameN++

	var b strings.Builder

	loop := loopKinds[r.Intn(len(loopKinds))]
	locAt := locKinds[r.Intn(len(locKinds))]

	closureLoopBody(&b, loop, nests, locAt, fmt.Sprintf("q%d", g.nameN), ind(n))
	g.feat("closure-in-loop:" + loop + fmt.Sprintf(":d%d", len(nests)) + ":loc-" + locAt)

	for _, k := range nests {
		g.feat("closure-in-loop-nest:" + k)
	}

	return b.String()
}
