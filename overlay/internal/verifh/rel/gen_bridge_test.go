package rel

import (
	"math/rand"
	"strings"

	"github.com/tucats/ego/internal/verifh/gen"
)

const sharedGenAvailable = true

// featureOfKey: findings whose construct the shared generator marks with a feature
// name; while such a finding is listed, programs with that feature are not taken into
// the random stream (the generator has no switch for them; the directed probes keep
// the construct under test).
var featureOfKey = map[string][]string{
	keyCondFor:       {"for-cond"},
	keyParallelParam: {"parallel-assign"},
	keyMultiDefine:   {"parallel-define", "multi-assign-call", "map-comma-ok"},
	keyBreakInSwitch: {"break-in-switch"},

	keyContinueInSwitchInit:    {"switch-init"},
	keyContinueInSwitchTagless: {"continue+switch-tagless"},
	keyConstInLoop:             {},
	keyDebugTry:                {},
}

// sharedAvoid translates this package's finding keys into the construct keys of the
// shared generator (gen.Options.Avoid).
func sharedAvoid(avoid map[string]bool) map[string]bool {
	out := map[string]bool{}

	for k := range avoid {
		parts := strings.Split(k, ":")

		switch {
		case parts[0] == "fused-increment" && len(parts) >= 2:
			out["selfadd:"+parts[1]] = true
			out["compound:"+parts[1]] = true
		case (parts[0] == "incr" || parts[0] == "decr") && len(parts) >= 2:
			out["incdec:"+parts[1]] = true
		default:
			out[k] = true // keys written in the shared vocabulary pass through
		}
	}

	return out
}

// sharedPrograms returns n programs from the shared generator package. strict selects
// its strict-clean sub-language (C04); otherwise all Ego features are allowed.
func sharedPrograms(rng *rand.Rand, n int, strict bool, avoid map[string]bool) []progCase {
	var out []progCase

	banned := map[string]bool{}

	for k, fs := range featureOfKey {
		if avoid[k] {
			for _, f := range fs {
				banned[f] = true
			}
		}
	}

	// (shorter programs than the generator's default: fewer features per program, so
	// fewer programs are lost to the feature bans above)
	o := gen.Options{Strict: strict, EgoOnly: !strict, Avoid: sharedAvoid(avoid), MaxStmts: 18}

	for tries := 0; len(out) < n && tries < n*60; tries++ {
		p := gen.New(rng, o)

		// a deliberately planted runtime abort is not a completion (C04 only compares
		// programs strict runs to completion)
		skip := strict && p.Aborts != ""

		has := map[string]bool{}
		for _, f := range p.Features {
			has[f] = true
		}

		// a ban "a+b" applies to programs that have both features
		for b := range banned {
			all := true

			for _, f := range strings.Split(b, "+") {
				if !has[f] {
					all = false
				}
			}

			if all {
				skip = true
			}
		}

		if skip {
			continue
		}

		out = append(out, progCase{Src: p.Ego, Origin: "gen", Features: p.Features})
	}

	return out
}
