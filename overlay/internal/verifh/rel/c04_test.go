package rel

// C04 - a program accepted by strict type checking means the same under relaxed.
//
// Events: (stdout, error, panic) of one program under --types strict and, when the
// strict run completed without error, under --types relaxed at the same optimizer
// level (all other settings as a plain `ego run` has them).
// Oracle: identical stdout and outcome. Programs strict rejects are counted, never
// compared; a run where strict accepted fewer than 30 % of the programs fails itself.

import (
	"encoding/json"
	"fmt"
	"path/filepath"
	"sort"
	"strings"
	"testing"

	"github.com/tucats/ego/internal/verifh/egorun"
	"github.com/tucats/ego/internal/verifh/vh"
)

// cliDefaults is what `ego run -o <level>` uses for the settings C04 does not vary.
func cliDefaults(types string, level int) egorun.Config {
	return egorun.Config{Types: types, Opt: level, Registers: false, ConstFold: true, GlobalCache: true, SymAlloc: 32, Extensions: true}
}

type constClass struct {
	name string
	lit  func(t string) string // "" = no such constant for this type
}

var constClasses = []constClass{
	{"same-kind", func(t string) string {
		if isFloat(t) {
			return "2.5"
		}

		return "5"
	}},
	{"lossless-other-kind", func(t string) string {
		if isFloat(t) {
			return "5" // an integer constant for a float
		}

		return "4.0" // a float constant with an integral value for an integer
	}},
	{"lossy-fraction", func(t string) string {
		if isFloat(t) {
			return ""
		}

		return "2.7"
	}},
	{"out-of-range", func(t string) string {
		return map[string]string{"int8": "300", "byte": "300", "int16": "70000", "uint16": "70000", "int32": "3000000000", "uint32": "5000000000"}[t]
	}},
	{"negative-for-unsigned", func(t string) string {
		if t == "byte" || strings.HasPrefix(t, "uint") {
			return "-1"
		}

		return ""
	}},
}

// boundaryForms: one statement form per documented boundary (docs/LANGUAGE.md, "Type
// Conversions"): T = type, C = constant. Each prints the type and value it produced.
var boundaryForms = []struct{ boundary, form, body string }{
	{"assignment", "var-init", "func main() {\n\tvar x T = C\n\tfmt.Printf(\"%T %v\\n\", x, x)\n}\n"},
	{"assignment", "assign", "func main() {\n\tvar x T = T(3)\n\tx = C\n\tfmt.Printf(\"%T %v\\n\", x, x)\n}\n"},
	{"expression", "x+c", "func main() {\n\tvar x T = T(3)\n\ty := x + C\n\tfmt.Printf(\"%T %v\\n\", y, y)\n}\n"},
	{"expression", "c+x", "func main() {\n\tvar x T = T(3)\n\ty := C + x\n\tfmt.Printf(\"%T %v\\n\", y, y)\n}\n"},
	{"expression", "x*c", "func main() {\n\tvar x T = T(3)\n\ty := x * C\n\tfmt.Printf(\"%T %v\\n\", y, y)\n}\n"},
	{"expression", "x-c-assign", "func main() {\n\tvar x T = T(9)\n\tx = x - C\n\tfmt.Printf(\"%T %v\\n\", x, x)\n}\n"},
	{"expression", "x==c", "func main() {\n\tvar x T = T(5)\n\tfmt.Println(x == C, x != C)\n}\n"},
	{"expression", "x<c", "func main() {\n\tvar x T = T(3)\n\tfmt.Println(x < C, x >= C)\n\tif x < C {\n\t\tfmt.Println(\"less\")\n\t}\n}\n"},
	{"argument", "f(c)", "func f(p T) T {\n\treturn p\n}\n\nfunc main() {\n\tv := f(C)\n\tfmt.Printf(\"%T %v\\n\", v, v)\n}\n"},
	{"argument", "f(x,c)", "func f(a T, p T) T {\n\treturn a + p\n}\n\nfunc main() {\n\tvar x T = T(3)\n\tv := f(x, C)\n\tfmt.Printf(\"%T %v\\n\", v, v)\n}\n"},
	{"return", "return-c", "func f() T {\n\treturn C\n}\n\nfunc main() {\n\tv := f()\n\tfmt.Printf(\"%T %v\\n\", v, v)\n}\n"},
	{"return", "return-x*c", "func f(x T) T {\n\treturn x * C\n}\n\nfunc main() {\n\tv := f(T(3))\n\tfmt.Printf(\"%T %v\\n\", v, v)\n}\n"},

	// store targets other than a plain variable: the constant is stored after the
	// target exists, then the stored value is printed with its type and used in
	// arithmetic, which exposes the type it was stored with
	{"assignment", "struct-field", "type rec struct {\n\tname string\n\tfld T\n}\n\nfunc main() {\n\ts := rec{name: \"r\", fld: T(3)}\n\ts.fld = C\n\tfmt.Printf(\"%T %v\\n\", s.fld, s.fld)\n\ty := s.fld / 4\n\tfmt.Printf(\"%T %v\\n\", y, y)\n\tz := s.fld + s.fld\n\tfmt.Printf(\"%T %v\\n\", z, z)\n\tfmt.Println(s)\n}\n"},
	{"assignment", "struct-field-via-pointer", "type rec struct {\n\tfld T\n}\n\nfunc main() {\n\ts := rec{fld: T(3)}\n\tp := &s\n\tp.fld = C\n\tfmt.Printf(\"%T %v\\n\", s.fld, s.fld)\n\ty := s.fld / 4\n\tfmt.Printf(\"%T %v\\n\", y, y)\n}\n"},
	{"assignment", "array-element", "func main() {\n\ta := []T{T(3), T(4)}\n\ta[1] = C\n\tfmt.Printf(\"%T %v\\n\", a[1], a[1])\n\ty := a[1] / 4\n\tfmt.Printf(\"%T %v\\n\", y, y)\n\tfmt.Println(a)\n}\n"},
	{"assignment", "map-value", "func main() {\n\tm := map[string]T{\"k\": T(3)}\n\tm[\"k\"] = C\n\tv := m[\"k\"]\n\tfmt.Printf(\"%T %v\\n\", v, v)\n\ty := v / 4\n\tfmt.Printf(\"%T %v\\n\", y, y)\n}\n"},
	{"assignment", "pointer-target", "func main() {\n\tvar x T = T(3)\n\tp := &x\n\t*p = C\n\tfmt.Printf(\"%T %v\\n\", x, x)\n\ty := x / 4\n\tfmt.Printf(\"%T %v\\n\", y, y)\n}\n"},
	{"assignment", "named-result", "func f() (r T) {\n\tr = C\n\treturn r\n}\n\nfunc main() {\n\tv := f()\n\tfmt.Printf(\"%T %v\\n\", v, v)\n\ty := v / 4\n\tfmt.Printf(\"%T %v\\n\", y, y)\n}\n"},
	// x % constant: the result keeps x's type in both modes
	{"expression", "x%c", "func main() {\n\tvar x T = T(7)\n\ty := x % C\n\tfmt.Printf(\"%T %v\\n\", y, y)\n\tx = x % C\n\tfmt.Printf(\"%T %v\\n\", x, x)\n}\n"},
}

func directedC04() []progCase {
	var out []progCase

	for _, t := range numTypes {
		for _, cc := range constClasses {
			c := cc.lit(t)
			if c == "" {
				continue
			}

			for _, f := range boundaryForms {
				src := "import \"fmt\"\n\n" + strings.NewReplacer("T", t, "C", c).Replace(strings.ReplaceAll(f.body, "%T", "%\x00"))
				src = strings.ReplaceAll(src, "%\x00", "%T")

				out = append(out, progCase{
					ID:       "boundary/" + f.boundary + "/" + f.form + "/" + t + "/" + cc.name,
					Key:      "boundary:" + f.boundary + ":" + f.form + ":" + t + ":" + cc.name,
					Src:      src,
					Origin:   "directed",
					Features: []string{"boundary:" + f.boundary, "const:" + cc.name, "type:" + t},
				})
			}
		}
	}

	// the two examples the documentation gives
	out = append(out,
		progCase{ID: "doc/float64-from-5", Key: "boundary:doc:var-f-float64-5", Origin: "directed", Src: "import \"fmt\"\n\nfunc main() {\n\tvar f float64 = 5\n\tfmt.Printf(\"%T %v\\n\", f, f/2)\n}\n"},
		progCase{ID: "doc/int32-parameter-4", Key: "boundary:doc:f-4-int32", Origin: "directed", Src: "import \"fmt\"\n\nfunc f(x int32) int32 {\n\treturn x * 2\n}\n\nfunc main() {\n\tv := f(4)\n\tfmt.Printf(\"%T %v\\n\", v, v)\n}\n"},
	)

	return out
}

var catchesErrorsRE = regexpMust(`\btry\b|\bcatch\b|\brecover\s*\(|@error|\?\s*:`)

func errClass(e string) string {
	e = stripOperand(e)

	return slug(e)
}

func TestC04(t *testing.T) {
	relInit(t)

	r := vh.New("C04", "strict-vs-relaxed")
	r.Rule = "programs: directed table boundary {assignment, expression, argument, return} x statement form x 12 numeric types x constant class {same kind, lossless other kind, lossy fraction, out of range, negative for unsigned} " +
		"+ PRNG programs of the strict-clean generators with bare constants at the four boundaries + corpus files run like `ego test`; each at every optimizer level of the tier. " +
		"distinct = distinct (program text, level); non-trivial = strict accepted the program and it printed something, so the relaxed run was compared."
	r.Assume("strict rejections are not judged here (which constants strict should accept is C03's table); they are counted")
	r.Assume("a program that contains try/catch/recover may complete under strict after catching a type error; a difference in such a program is recorded as inconclusive, not as a violation")

	defer func() { _ = r.Write() }()

	levels := []int{0, 2}
	if vh.Tier() == "thorough" {
		levels = []int{0, 1, 2, 3}
	}

	rng := vh.Rand("c04")
	avoid := knownAvoid("C04")

	for k := range knownAvoid("C02") {
		// constructs with a known optimizer/register finding stay out of the random
		// stream here too: this check varies the type mode, not those settings
		avoid[k] = true
	}

	var programs []progCase

	if c := vh.ReplayCase(); c != nil {
		var rc struct {
			Kind  string
			ID    string
			Key   string
			Src   string
			Rel   string
			Level int
		}

		if err := json.Unmarshal(c, &rc); err != nil {
			t.Fatal(err)
		}

		levels = []int{rc.Level}

		if rc.Kind == "corpus" {
			c04Corpus(r, []string{rc.Rel}, levels)
		} else {
			c04Programs(t, r, []progCase{{ID: rc.ID, Key: rc.Key, Src: rc.Src, Origin: "replay"}}, levels, false)
		}

		r.Distinct += 2

		return
	}

	programs = append(programs, directedC04()...)
	r.Count("programs.directed", int64(len(programs)))

	n := vh.N(350, 7000)
	for i := 0; i < n; i++ {
		p := newProgram(rng, gOpts{Strict: true, Boundary: true, Avoid: avoid, NoTry: true})
		programs = append(programs, progCase{ID: fmt.Sprintf("mygen/%d", i), Src: p.Src, Origin: "mygen", Features: p.Features})

		for _, f := range p.Features {
			if strings.HasPrefix(f, "bare-constant") || strings.HasPrefix(f, "boundary") || strings.HasPrefix(f, "const-") {
				r.Count("feature."+f, 1)
			}
		}
	}

	r.Count("programs.mygen", int64(n))

	// (the register findings ban whole features of the shared generator; they do not
	// matter here, where both runs of a program use the same register setting)
	genAvoid := map[string]bool{}

	for k := range avoid {
		if !strings.HasPrefix(k, "registers:") {
			genAvoid[k] = true
		}
	}

	for i, p := range sharedPrograms(rng, vh.N(150, 3000), true, genAvoid) {
		p.ID = fmt.Sprintf("gen/%d", i)
		programs = append(programs, p)
		r.Count("programs.gen", 1)
	}

	c04Programs(t, r, programs, levels, true)

	files, _ := corpusFiles(t)
	nf := vh.N(40, len(files))

	if nf > len(files) {
		nf = len(files)
	}

	var sel []string
	for _, i := range rng.Perm(len(files))[:nf] {
		sel = append(sel, files[i])
	}

	sort.Strings(sel)
	c04Corpus(r, sel, levels)

	for i, p := range programs {
		if i%211 == 5 {
			r.Sample(map[string]any{"id": p.ID, "features": p.Features, "src": vh.Trunc(p.Src, 600)})
		}
	}
}

func c04Programs(t *testing.T, r *vh.Report, programs []progCase, levels []int, enforceRate bool) {
	accepted, total := 0, 0
	accByOrigin, totByOrigin := map[string]int{}, map[string]int{}

	for _, p := range programs {
		for _, level := range levels {
			sc := cliDefaults("strict", level)
			rc := cliDefaults("relaxed", level)

			s := outcomeOf(RunProg(p.Src, sc, diagNone))
			r.Count("runs.strict", 1)

			total++
			totByOrigin[p.Origin]++

			r.Eval(vh.Hash(p.Src, level), s.class() == "ok" && s.Out != "")

			if p.Origin == "directed" && level == levels[0] {
				r.Probe(p.Key)
			}

			switch s.class() {
			case "panic":
				r.Count("strict.go-panic", 1)

				continue
			case "step-budget":
				r.Count("strict.step-budget", 1)

				continue
			case "error":
				r.Count("strict.rejected", 1)
				r.Count("strict.rejected."+p.Origin, 1)
				r.Count("strict.rejected.class."+errClass(s.Err), 1)

				continue
			}

			accepted++
			accByOrigin[p.Origin]++

			r.Count("strict.accepted", 1)
			r.Count("strict.accepted."+p.Origin, 1)

			x := outcomeOf(RunProg(p.Src, rc, diagNone))
			r.Count("runs.relaxed", 1)

			if x == s {
				r.Count("agree", 1)

				continue
			}

			// confirm: both runs again
			s2 := outcomeOf(RunProg(p.Src, sc, diagNone))
			x2 := outcomeOf(RunProg(p.Src, rc, diagNone))

			if s2 != s || x2 != x {
				r.Count("unconfirmed.not-reproducible", 1)
				r.Inconcl(fmt.Sprintf("program %s level %d: difference did not reproduce", p.ID, level))

				continue
			}

			if catchesErrorsRE.MatchString(p.Src) {
				r.Count("excluded.catches-errors", 1)
				r.Inconcl(fmt.Sprintf("program %s level %d differs between strict and relaxed but contains try/catch/recover (a caught type error is not a completion without type error)", p.ID, level))

				continue
			}

			key := p.Key
			if key == "" {
				key = fmt.Sprintf("gen:%s", symptom(s, x))
			}

			ln, want, got := firstDiffLine(s.Out, x.Out)

			r.Violate(vh.Violation{
				Key:      key,
				Desc:     fmt.Sprintf("program %s at optimizer level %d: strict completed without error, relaxed differs: relaxed err=%q panic=%q; first differing output line %d: strict %q, relaxed %q", p.ID, level, x.Err, x.Panic, ln, want, got),
				Case:     map[string]any{"kind": "program", "id": p.ID, "key": p.Key, "src": p.Src, "level": level, "features": p.Features},
				Expected: s.short(),
				Observed: x.short(),
			})
		}
	}

	for o, n := range totByOrigin {
		r.Note(fmt.Sprintf("strict accepted %d of %d %s program runs", accByOrigin[o], n, o))
	}

	if total == 0 {
		t.Fatal("observed nothing")
	}

	if enforceRate {
		// the informativeness floor applies to the generated streams (the directed table
		// contains constants strict is meant to reject)
		gen, genAcc := 0, 0

		for o, n := range totByOrigin {
			if o != "directed" {
				gen += n
				genAcc += accByOrigin[o]
			}
		}

		if gen > 0 && genAcc*100 < gen*30 {
			t.Fatalf("strict accepted only %d of %d generated program runs (< 30 %%): the run is uninformative", genAcc, gen)
		}

		if accepted*100 < total*30 {
			t.Fatalf("strict accepted only %d of %d program runs (< 30 %%): the run is uninformative", accepted, total)
		}
	}
}

func c04Corpus(r *vh.Report, files []string, levels []int) {
	for _, rel := range files {
		path := filepath.Join(egoSrcRoot, "tests", rel)

		for _, level := range levels {
			sc := cliDefaults("strict", level)
			rc := cliDefaults("relaxed", level)

			s1 := RunCorpusFile(path, sc, diagNone)
			s2 := RunCorpusFile(path, sc, diagNone)
			x1 := RunCorpusFile(path, rc, diagNone)
			x2 := RunCorpusFile(path, rc, diagNone)

			r.Count("corpus.file-runs", 4)
			r.Eval("corpus:"+rel+fmt.Sprint(":", level), len(s1.Tests) > 0)

			if len(s1.Tests) != len(s2.Tests) || len(x1.Tests) != len(x2.Tests) || len(s1.Tests) != len(x1.Tests) {
				if len(s1.Tests) == len(s2.Tests) && len(x1.Tests) == len(x2.Tests) {
					// a file-level abort in one mode: strict rejected the rest of the file
					r.Count("corpus.files.different-test-count", 1)
				} else {
					r.Count("corpus.dropped.self-flaky-files", 1)
				}

				continue
			}

			for i := range s1.Tests {
				st, st2, xt, xt2 := s1.Tests[i], s2.Tests[i], x1.Tests[i], x2.Tests[i]

				if st != st2 || xt != xt2 {
					r.Count("corpus.dropped.self-flaky-tests", 1)

					continue
				}

				r.Count("corpus.tests", 1)

				if st.Status != "PASS" {
					r.Count("corpus.strict.rejected-tests", 1)

					continue
				}

				r.Count("corpus.strict.accepted-tests", 1)

				if st == xt {
					r.Count("corpus.agree", 1)

					continue
				}

				// the harness cannot see whether the passing test caught a type error on
				// its way (most corpus tests that differ assert on an expected error)
				src := testSource(path, st.Name)
				if src == "" || catchesErrorsRE.MatchString(src) || strings.Contains(src, "@type") || strings.Contains(src, "_type") {
					r.Count("corpus.excluded.catches-errors-or-inspects-type-mode", 1)
					r.Inconcl(fmt.Sprintf("corpus %s level %d @test %q: PASS under strict, differs under relaxed, but the test catches errors or inspects the type mode", rel, level, st.Name))

					continue
				}

				r.Violate(vh.Violation{
					Key:      "corpus:" + rel + ":" + slug(st.Name),
					Desc:     fmt.Sprintf("corpus tests/%s level %d @test %q passes under strict; under relaxed: %s %s", rel, level, st.Name, xt.Status, xt.Detail),
					Case:     map[string]any{"kind": "corpus", "rel": rel, "level": level, "test": st.Name},
					Expected: st,
					Observed: xt,
				})
			}
		}
	}
}
