package rel

import (
	"fmt"
	"os"
	"testing"

	"github.com/tucats/ego/internal/verifh/egorun"
)

// development aid: every probe of the shadow-init family under baseline and allocation-32 rows
func TestExploreShadowFamily(t *testing.T) {
	if os.Getenv("SHADOWFAM") == "" {
		t.Skip("development aid")
	}

	relInit(t)

	for _, p := range shadowInitProbes() {
		for _, ty := range typeModes {
			base := egorun.Baseline(ty)
			base.Extensions = true
			r0 := outcomeOf(RunProg(p.Src, base, diagNone))
			if r0.Err != "" && ty == "dynamic" {
				fmt.Fprintf(os.Stderr, "BASE-ERR %s: %s\n%s\n", p.ID, r0.Err, numbered(p.Src))
			}
			for _, c := range fullRows() {
				if c.SymAlloc != 32 {
					continue
				}
				c.Types = ty
				c.Extensions = true
				if r := outcomeOf(RunProg(p.Src, c, diagNone)); r != r0 {
					fmt.Fprintf(os.Stderr, "DIFF %s %s %s: base err=%q got err=%q\n--base\n%s--got\n%s", p.ID, ty, cfgKey(c), r0.Err, r.Err, r0.Out, r.Out)
					break
				}
			}
		}
	}
	fmt.Fprintln(os.Stderr, "probes", len(shadowInitProbes()))
}
