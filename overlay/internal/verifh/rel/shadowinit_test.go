package rel

// Declarations whose own initializer reads the variable they shadow.
//
// `for n := n - 1; n > 0; n-- {…}`, `x := x + 1` in a nested block,
// `if v := v * 2; v > 3 {…}`, `switch t := t + 1; t {…}`: the right-hand side must be
// evaluated against the OUTER variable (a parameter, a local of an enclosing block, the
// counter of an enclosing loop) before the new one exists, and the outer variable must
// be untouched afterwards. With registers the compiler resolves names to slots at
// compile time and defers registering the new binding until the right-hand side has
// been compiled; name-based code does the lookup at run time. Both must agree.
//
// Dimensions: shadowed kind {parameter, outer-block local, outer loop counter} x init
// form {v - 1 counting down, v + 1 counting up to a limit, v / 2, two-clause use} x loop
// nesting {1, 2} x the outer variable is read again after the loop.

import (
	"fmt"
	"strings"
)

type shadowForm struct {
	name string
	loop func(v, lim string) string // the for clause; the body prints v
}

var shadowForms = []shadowForm{
	{"minus-1-countdown", func(v, lim string) string { return fmt.Sprintf("for %s := %s - 1; %s > 0; %s-- {", v, v, v, v) }},
	{"plus-1-countup", func(v, lim string) string { return fmt.Sprintf("for %s := %s + 1; %s < %s; %s++ {", v, v, v, lim, v) }},
	{"half-countdown-assign-step", func(v, lim string) string {
		return fmt.Sprintf("for %s := %s / 2; %s >= 0; %s = %s - 1 {", v, v, v, v, v)
	}},
	{"times-2-countup", func(v, lim string) string {
		return fmt.Sprintf("for %s := %s * 2; %s < %s+%s; %s = %s + 2 {", v, v, v, lim, lim, v, v)
	}},
}

var shadowKinds = []string{"param", "outer-local", "outer-loop-counter"}

// shadowForProgram builds one program of the for-clause family.
func shadowForProgram(kind string, f shadowForm, nesting int) string {
	var b strings.Builder

	b.WriteString("import \"fmt\"\n\n")

	in := "\t"

	switch kind {
	case "param":
		b.WriteString("func run(n int, a []int) int {\n\ttotal := 0\n")
	case "outer-local":
		b.WriteString("func run(p int, a []int) int {\n\ttotal := 0\n\tn := p + 1\n")
	default:
		b.WriteString("func run(p int, a []int) int {\n\ttotal := p\n\tfor n := 1; n < 4; n++ {\n")

		in = "\t\t"
	}

	if nesting == 2 {
		fmt.Fprintf(&b, "%sfor k := 0; k < 2; k++ {\n", in)

		in += "\t"
	}

	fmt.Fprintf(&b, "%s%s\n%s\ttotal = total + n\n%s\tfmt.Println(\"in\", n, total)\n%s}\n", in, f.loop("n", "len(a)"), in, in, in)
	// the outer variable after the loop that shadowed it
	fmt.Fprintf(&b, "%sfmt.Println(\"after\", n)\n%stotal = total + n*1000\n", in, in)

	if nesting == 2 {
		in = in[:len(in)-1]
		fmt.Fprintf(&b, "%s}\n", in)
	}

	if kind == "outer-loop-counter" {
		b.WriteString("\t\tfmt.Println(\"outer\", n)\n\t}\n")
	} else {
		b.WriteString("\tfmt.Println(\"end\", n)\n")
	}

	b.WriteString("\treturn total\n}\n\nfunc main() {\n\tfmt.Println(run(3, []int{1, 2, 3, 4, 5, 6}))\n\tfmt.Println(run(5, []int{1, 2, 3, 4, 5, 6, 7}))\n}\n")

	return b.String()
}

// shadowNeighbours: the same idea in the other statements that carry an initializer.
var shadowNeighbours = []progCase{
	{ID: "shadow-init/define-in-nested-block/param", Key: "shadow-init:define-in-block:param", Src: `import "fmt"

func run(x int) int {
	if x > 0 {
		x := x + 1
		fmt.Println("if", x)
		{
			x := x * 10
			fmt.Println("block", x)
		}
		fmt.Println("if again", x)
	}
	fmt.Println("after", x)
	return x
}

func main() {
	fmt.Println(run(2), run(7))
}
`},
	{ID: "shadow-init/define-in-nested-block/outer-local", Key: "shadow-init:define-in-block:outer-local", Src: `import "fmt"

func run(p int) int {
	x := p * 2
	s := "s"
	{
		x := x + 1
		s := s + "!"
		fmt.Println("block", x, s)
		if x > 3 {
			x := x - 100
			fmt.Println("inner if", x)
		}
		fmt.Println("block again", x)
	}
	fmt.Println("after", x, s)
	return x
}

func main() {
	fmt.Println(run(1), run(4))
}
`},
	{ID: "shadow-init/if-init/param-and-local", Key: "shadow-init:if-init", Src: `import "fmt"

func run(v int) int {
	w := v + 1
	if v := v * 2; v > 3 {
		fmt.Println("then", v)
	} else {
		fmt.Println("else", v)
	}
	if w := w * 3; w > 100 {
		fmt.Println("big", w)
	} else if w := w + 1; w > 0 {
		fmt.Println("else-if", w)
	}
	fmt.Println("after", v, w)
	return v + w
}

func main() {
	fmt.Println(run(1), run(5))
}
`},
	{ID: "shadow-init/if-init/in-loop-counter", Key: "shadow-init:if-init:loop-counter", Src: `import "fmt"

func run(n int) int {
	t := 0
	for i := 0; i < n; i++ {
		if i := i * 2; i > 2 {
			t = t + i
			fmt.Println("then", i)
		}
		fmt.Println("loop", i)
	}
	return t
}

func main() {
	fmt.Println(run(4))
}
`},
	{ID: "shadow-init/switch-init/param-and-local", Key: "shadow-init:switch-init", Src: `import "fmt"

func run(t int) string {
	u := t * 3
	r := "none"
	switch t := t + 1; t {
	case 2:
		r = "two"
	case 6:
		r = "six"
	default:
		r = fmt.Sprintf("other %d", t)
	}
	switch u := u - 1; {
	case u > 10:
		r = r + " big"
	default:
		r = r + " small"
	}
	fmt.Println("after", t, u, r)
	return r
}

func main() {
	fmt.Println(run(1), run(5), run(9))
}
`},
}

func shadowInitProbes() []progCase {
	var out []progCase

	for _, kind := range shadowKinds {
		for _, f := range shadowForms {
			for nesting := 1; nesting <= 2; nesting++ {
				out = append(out, progCase{
					ID:       fmt.Sprintf("shadow-init/for/%s/%s/n%d", kind, f.name, nesting),
					Key:      "shadow-init:for:" + kind, // one key per shadowed kind: forms and nestings of a kind share the mechanism
					Src:      shadowForProgram(kind, f, nesting),
					Origin:   "directed",
					Features: []string{"shadow-init:for", "shadowed:" + kind, "form:" + f.name, fmt.Sprint("nesting:", nesting)},
				})
			}
		}
	}

	for _, p := range shadowNeighbours {
		p.Origin = "directed"
		p.Features = []string{"shadow-init", p.ID}
		out = append(out, p)
	}

	return out
}

// shadowInitStmt is the family inside the random generator: it picks a visible int
// local or parameter and shadows it in one of the initializer-carrying statements.
// It is only used outside loops: a ":=" in a loop body that shadows an enclosing
// local is the listed finding keyLoopRedeclare.
func (g *pg) shadowInitStmt(n int) string {
	if g.loopDep > 0 {
		return g.assignStmt(n)
	}

	vs := g.visible(func(v gvar) bool {
		return plain(v) && v.typ == "int" && !v.isConst && !v.readonly && g.lookup(v.name) != nil
	})
	if len(vs) == 0 {
		return g.assignStmt(n)
	}

	r := g.r
	v := vs[r.Intn(len(vs))].name
	in := ind(n)
	l1, l2 := g.lbl(), g.lbl()

	shape := r.Intn(5)

	// listed findings: with registers a ":=" in the init clause of a for or if statement
	// that shadows an enclosing variable writes the outer variable. Those exact shapes
	// stay out of the random stream; their neighbours (block, switch) are generated.
	// While they are listed, the for-init / if-init shapes are written in a variant in
	// which the known mode cannot occur: the shadowed variable is a fresh local of a
	// bare block that nothing reads after the statement. The initializer still has to
	// read the OUTER variable, so the iteration sequence / the branch taken is compared
	// across configurations, and any difference is a new violation.
	if ((shape == 0 || shape == 1) && g.avoidPrefix("shadow-init:for:")) || (shape == 3 && g.avoidPrefix("shadow-init:if-init")) {
		g.nameN++
		sv := fmt.Sprintf("sv%d", g.nameN)
		g.feat("shadow-init:no-read-after")

		switch shape {
		case 0:
			return fmt.Sprintf("%s{\n%s\t%s := %s%%4 + 2\n%s\tfor %s := %s + 1; %s > 0; %s-- {\n%s\t\tfmt.Println(%q, %s)\n%s\t}\n%s}\n", in, in, sv, v, in, sv, sv, sv, sv, in, l1, sv, in, in)
		case 1:
			return fmt.Sprintf("%s{\n%s\t%s := %s%%3 + 1\n%s\tfor %s := %s * 2; %s < 9; %s = %s + 2 {\n%s\t\tfmt.Println(%q, %s)\n%s\t}\n%s}\n", in, in, sv, v, in, sv, sv, sv, sv, sv, in, l1, sv, in, in)
		default:
			return fmt.Sprintf("%s{\n%s\t%s := %s%%5\n%s\tif %s := %s * 2; %s > 3 {\n%s\t\tfmt.Println(%q, %s)\n%s\t} else {\n%s\t\tfmt.Println(%q, %s)\n%s\t}\n%s}\n", in, in, sv, v, in, sv, sv, sv, in, l1, sv, in, in, l2, sv, in, in)
		}
	}

	switch shape {
	case 0:
		// the value is reduced first so that the loop is short whatever v holds
		g.feat("shadow-init:for-countdown")

		return fmt.Sprintf("%sfor %s := %s%%4 + 2; %s > 0; %s-- {\n%s\tfmt.Println(%q, %s)\n%s}\n%sfmt.Println(%q, %s)\n", in, v, v, v, v, in, l1, v, in, in, l2, v)
	case 1:
		g.feat("shadow-init:for-countup")

		return fmt.Sprintf("%sfor %s := %s%%3 + 1; %s < 6; %s = %s + 2 {\n%s\tfmt.Println(%q, %s)\n%s}\n%sfmt.Println(%q, %s)\n", in, v, v, v, v, v, in, l1, v, in, in, l2, v)
	case 2:
		g.feat("shadow-init:define-in-block")

		return fmt.Sprintf("%s{\n%s\t%s := %s + 1\n%s\tfmt.Println(%q, %s)\n%s}\n%sfmt.Println(%q, %s)\n", in, in, v, v, in, l1, v, in, in, l2, v)
	case 3:
		g.feat("shadow-init:if-init")

		return fmt.Sprintf("%sif %s := %s * 2; %s > 3 {\n%s\tfmt.Println(%q, %s)\n%s} else {\n%s\tfmt.Println(%q, %s)\n%s}\n%sfmt.Println(%q, %s)\n", in, v, v, v, in, l1, v, in, in, l1, v, in, in, l2, v)
	default:
		g.feat("shadow-init:switch-init")

		return fmt.Sprintf("%sswitch %s := %s + 1; {\ncase %s > 10:\n%s\tfmt.Println(%q, %s)\n%sdefault:\n%s\tfmt.Println(%q, %s)\n%s}\n%sfmt.Println(%q, %s)\n", in, v, v, v, in, l1, v, in, in, l1, v, in, in, l2, v)
	}
}

// shadowModeKey makes the failure mode part of a shadow-init probe's key. The output
// of these probes has two kinds of lines: (a) what the statement's own header and body
// print (the iteration values, the branch taken) and (b) what is observed of the outer
// variable AFTER the statement ("after", "end", "outer", "loop" and the final totals).
// The first line that differs from the baseline decides:
//
//	outer-clobbered-after  everything the statement itself printed agrees; the outer
//	                       variable read after it differs
//	body-differs           the statement's own header/body output differs (e.g. the
//	                       initializer read the wrong variable): the key then also
//	                       carries the init form
//	no-output / error:<e> / panic  the run ended differently
func shadowModeKey(p progCase, base, got outcome) string {
	form := ""

	for _, f := range p.Features {
		if strings.HasPrefix(f, "form:") {
			form = ":" + strings.TrimPrefix(f, "form:")
		}
	}

	switch {
	case got.Panic != base.Panic:
		return p.Key + form + ":panic"
	case got.Err != base.Err:
		e := got.Err
		if e == "" {
			e = "none"
		}

		return p.Key + form + ":error:" + slug(stripOperand(e))
	case got.Out == "" && base.Out != "":
		return p.Key + form + ":no-output"
	}

	_, want, have := firstDiffLine(base.Out, got.Out)

	line := want
	if line == "<end>" {
		line = have
	}

	after := len(line) > 0 && line[0] >= '0' && line[0] <= '9'

	for _, pre := range []string{"after", "end", "outer", "loop "} {
		if strings.HasPrefix(line, pre) {
			after = true
		}
	}

	if after {
		return p.Key + ":outer-clobbered-after"
	}

	return p.Key + form + ":body-differs"
}
