package rel

import (
	"fmt"
	"os"
	"strings"
	"testing"
)

// dev aid: show strict / relaxed outcomes of the C04 directed cells whose id contains $CELL
func TestExploreC04Cells(t *testing.T) {
	sel := os.Getenv("CELL")
	if sel == "" {
		t.Skip()
	}
	relInit(t)
	acc := map[string][2]int{}
	for _, p := range directedC04() {
		parts := strings.Split(p.ID, "/")
		form := parts[len(parts)-3]
		s := outcomeOf(RunProg(p.Src, cliDefaults("strict", 0), diagNone))
		a := acc[form]
		if s.Err == "" {
			a[0]++
		} else {
			a[1]++
		}
		acc[form] = a
		if strings.Contains(p.ID, sel) {
			x := outcomeOf(RunProg(p.Src, cliDefaults("relaxed", 0), diagNone))
			fmt.Fprintf(os.Stderr, "%s\n  strict : %q err=%q\n  relaxed: %q err=%q\n", p.ID, s.Out, s.Err, x.Out, x.Err)
		}
	}
	fmt.Fprintln(os.Stderr, "accepted/rejected by form:", acc)
}
