package rel

// Directed programs for C02. Each has a narrow key: a mismatch between two
// configurations of that program is reported under that key, so a known finding can
// be matched exactly and everything else stays a violation.

import (
	"fmt"
	"strings"
)

var numTypes = []string{"int", "int8", "int16", "int32", "int64", "byte", "uint16", "uint32", "uint64", "uint", "float32", "float64"}

// shapeStmts: statement shapes the peephole optimizer rewrites (or does not), as a
// function of the variable name.
var shapeStmts = []struct {
	shape string
	stmts func(v string) []string
}{
	// "x = x + k" and "x += k" compile to Load,Push,Add,Store -> fused Increment
	{"fused-increment", func(v string) []string { return []string{v + " = " + v + " + 2", v + " += 3"} }},
	{"sub-const-assign", func(v string) []string { return []string{v + " = " + v + " - 2", v + " -= 1"} }},
	{"mul-const-assign", func(v string) []string { return []string{v + " = " + v + " * 2", v + " *= 3"} }},
	{"div-const-assign", func(v string) []string { return []string{v + " = " + v + " / 2", v + " /= 1"} }},
	{"const-plus-var", func(v string) []string { return []string{v + " = 2 + " + v} }},
	{"incr", func(v string) []string { return []string{v + "++"} }},
	{"decr", func(v string) []string { return []string{v + "--"} }},
	{"add-var-assign", func(v string) []string { return []string{v + " = " + v + " + other"} }},
}

func shapeProgram(shape string, stmts func(string) []string, t string) string {
	var b strings.Builder

	init := "7"
	if isFloat(t) {
		init = "7.5"
	}

	if t == "string" {
		init = `"s"`
	}

	pr := func(ind, tag, v string) string {
		return fmt.Sprintf("%sfmt.Printf(\"%s %%T %%v\\n\", %s, %s)\n", ind, tag, v, v)
	}

	fmt.Fprintf(&b, "import \"fmt\"\n\nvar gv %s = %s\nvar other %s = %s\n\ntype box struct {\n\tf %s\n}\n\n", t, init, t, init, t)

	// in a function: parameter and ":=" local (register candidates), and a "var" local
	fmt.Fprintf(&b, "func work(p %s) %s {\n\tl := p\n\tvar w %s = p\n", t, t, t)

	for _, v := range []string{"p", "l", "w"} {
		for _, s := range stmts(v) {
			b.WriteString("\t" + s + "\n")
		}

		b.WriteString(pr("\t", "work."+v, v))
	}

	b.WriteString("\treturn l\n}\n\n")

	// same shapes inside a loop, so that level 1 (which skips small loop-free code) also rewrites them
	fmt.Fprintf(&b, "func looped(p %s) %s {\n\tacc := p\n\tfor i := 0; i < 3; i++ {\n", t, t)

	for _, s := range stmts("acc") {
		b.WriteString("\t\t" + s + "\n")
	}

	b.WriteString("\t}\n\n" + pr("\t", "looped.acc", "acc") + "\treturn acc\n}\n\n")

	fmt.Fprintf(&b, "func main() {\n\tvar x %s = %s\n", t, init)

	for _, s := range stmts("x") {
		b.WriteString("\t" + s + "\n")
	}

	b.WriteString(pr("\t", "main.x", "x"))

	for _, s := range stmts("gv") {
		b.WriteString("\t" + s + "\n")
	}

	b.WriteString(pr("\t", "global", "gv"))
	fmt.Fprintf(&b, "\tbx := box{f: x}\n")

	for _, s := range stmts("bx.f") {
		b.WriteString("\t" + s + "\n")
	}

	b.WriteString(pr("\t", "field", "bx.f"))
	b.WriteString(pr("\t", "work", "work(x)"))
	b.WriteString(pr("\t", "looped", "looped(x)"))
	b.WriteString("}\n")

	return b.String()
}

func compareProgram(t string) string {
	var b strings.Builder

	lo, hi := "3", "9"
	if isFloat(t) {
		lo, hi = "3.5", "9.25"
	}

	if t == "string" {
		lo, hi = `"b"`, `"m"`
	}

	fmt.Fprintf(&b, "import \"fmt\"\n\nfunc cmp(v %s) {\n", t)

	for _, op := range []string{"<", "<=", ">", ">=", "==", "!="} {
		fmt.Fprintf(&b, "\tfmt.Println(%q, v %s %s, %s %s v)\n", op, op, lo, hi, op)
		fmt.Fprintf(&b, "\tif v %s %s {\n\t\tfmt.Println(\"then %s\")\n\t} else {\n\t\tfmt.Println(\"else %s\")\n\t}\n", op, hi, op, op)
	}

	fmt.Fprintf(&b, "}\n\nfunc main() {\n\tvar a %s = %s\n\tvar c %s = %s\n\tcmp(a)\n\tcmp(c)\n\tfor i := 0; i < 2; i++ {\n\t\tcmp(a)\n\t}\n}\n", t, lo, t, hi)

	return b.String()
}

func manyLocalsProgram(n int, t string) string {
	var b strings.Builder

	fmt.Fprintf(&b, "import \"fmt\"\n\nfunc many(seed %s) %s {\n\tv0 := seed\n", t, t)

	for i := 1; i < n; i++ {
		if i%3 == 0 {
			fmt.Fprintf(&b, "\tvar v%d %s = v%d\n", i, t, i-1)
		} else {
			fmt.Fprintf(&b, "\tv%d := v%d + 1\n", i, i-1)
		}
	}

	b.WriteString("\tsum := v0\n")

	for i := 1; i < n; i++ {
		fmt.Fprintf(&b, "\tsum = sum + v%d\n", i)
	}

	fmt.Fprintf(&b, "\treturn sum\n}\n\nfunc deep(k int) int {\n\ta := k\n\tb := a * 2\n\tif k == 0 {\n\t\treturn b\n\t}\n\n\treturn deep(k-1) + a + b\n}\n\nfunc main() {\n\tfmt.Println(many(1), many(2))\n\tfmt.Println(deep(40))\n")

	// many variables in main as well (main's own table)
	for i := 0; i < n; i++ {
		fmt.Fprintf(&b, "\tm%d := %d\n", i, i)
	}

	b.WriteString("\ttotal := 0\n")

	for i := 0; i < n; i++ {
		fmt.Fprintf(&b, "\ttotal = total + m%d\n", i)
	}

	b.WriteString("\tfmt.Println(total)\n}\n")

	return b.String()
}

// fixedProbes: hand-written programs aimed at one mechanism each.
var fixedProbes = []progCase{
	{ID: "registers/define-shadows-constant", Key: keyShadowConst, Src: `import "fmt"

const m = 5

func f1() int {
	m := 7
	return m
}

func f5() int {
	s := 0
	for m := 0; m < 2; m++ {
		s = s + m
	}
	return s
}

func main() {
	fmt.Println("f5", f5())
	fmt.Println("f1", f1())
	fmt.Println(m)
}
`},
	{ID: "registers/conditional-for", Key: keyCondFor, Src: `import "fmt"

func f0(p int16) int32 {
	i := 0
	for i < 2 {
		fmt.Println("L1", p)
		i = i + 1
	}
	return 18
}

func main() {
	fmt.Println(f0(1))
}
`},
	{ID: "registers/conditional-for-param", Key: keyCondFor, Src: `import "fmt"

func countdown(n int) int {
	steps := 0
	for n > 0 {
		n = n - 1
		steps = steps + 1
	}
	return steps
}

func main() {
	fmt.Println(countdown(3))
}
`},
	{ID: "registers/shadow-in-block", Key: "registers:shadow-in-block", Src: `import "fmt"

func f(x int) int {
	y := x + 1
	{
		x := x * 10
		y := y + x
		fmt.Println("inner", x, y)
		{
			x := "deep"
			fmt.Println("deeper", x, y)
		}
	}
	if x > 0 {
		x := x - 100
		fmt.Println("if", x)
	}
	fmt.Println("outer", x, y)
	return x + y
}

func main() {
	fmt.Println(f(2))
	fmt.Println(f(-3))
}
`},
	{ID: "registers/pointers", Key: "registers:pointers", Src: `import "fmt"

func bump(p *int) {
	*p = *p + 1
}

func f(a int) int {
	b := a
	pa := &a
	pb := &b
	*pa = *pa + 10
	bump(pb)
	bump(pa)
	fmt.Println("f", a, b, *pa, *pb)
	return a + b
}

func main() {
	fmt.Println(f(1))
	x := 5
	px := &x
	bump(px)
	fmt.Println(x, *px)
}
`},
	{ID: "registers/closures", Key: "registers:closures", Src: `import "fmt"

func counter() func() int {
	c := 0
	return func() int {
		c = c + 1
		return c
	}
}

func nocapture(a int) int {
	double := func(v int) int {
		return v * 2
	}
	b := a + 1
	return double(b)
}

func capture(a int) int {
	b := a + 1
	add := func(v int) int {
		return v + b
	}
	b = b * 2
	return add(1)
}

func main() {
	n := counter()
	n()
	n()
	fmt.Println(n())
	fmt.Println(nocapture(3), capture(3))
}
`},
	{ID: "registers/multi-assign-returns", Key: "registers:multi-assign-returns", Src: `import "fmt"

func two(a int) (int, string) {
	b := a * 2
	return b, "two"
}

func loops(n int) int {
	t := 0
	for i := 0; i < n; i++ {
		for j := i; j < n; j++ {
			t = t + i*j
		}
	}
	return t
}

func withDefer(a int) int {
	defer fmt.Println("deferred", a)
	b := a + 1
	return b
}

func main() {
	x, s := two(4)
	fmt.Println(x, s, loops(4), withDefer(3))
}
`},
	{ID: "constfold/shadowing", Key: "constfold:shadowing", Src: `import "fmt"

const K = 10
const S = "abc"

func useConst() int {
	return K + 1
}

func param(K int) int {
	return K + 1
}

func rangeVar() int {
	t := 0
	for _, K := range []int{1, 2} {
		t = t + K
	}
	return t
}

func localConst() int {
	const K = 3
	return K * 2
}

func closureUse() int {
	f := func() int {
		return K * 3
	}
	return f()
}

func main() {
	fmt.Println(useConst(), param(1), rangeVar(), localConst(), closureUse(), K, S+"d", len(S))
}
`},
	{ID: "constfold/arith", Key: "constant-fold:arith", Src: `import "fmt"

const A = 6
const B = 4

func main() {
	fmt.Println(7/2, 7.0/2, 2+3*4, "a"+"b", 10-20, 5*0, A+B, A-B, A*B, A/B, A%B)
	x := 3
	fmt.Println(x+(2+3), (2+3)*x, x*(10/4), x-(1-2))
	var f float64 = 1.5
	fmt.Println(f+(1+2), f*(7/2), f+(1.5+2.25))
}
`},
	{ID: "constfold/typed-operand", Key: "constant-fold:typed-operand", Src: `import "fmt"

func main() {
	var a int8 = 1
	a = a + (2 + 3)
	fmt.Printf("%T %v\n", a, a)
	var b int32 = 1
	b = b * (2 * 3)
	fmt.Printf("%T %v\n", b, b)
	var c float32 = 1
	c = c + (1 + 1)
	fmt.Printf("%T %v\n", c, c)
}
`},
	{ID: "globalcache/reassigned-between-calls", Key: "globalcache:reassigned-between-calls", Src: `import "fmt"

var G int = 1
var S []int = []int{1}

func read() int {
	return G
}

func write(v int) {
	G = v
}

func rec(n int) int {
	if n == 0 {
		return G
	}
	G = G + 1
	return rec(n-1) + G
}

func grow() int {
	S = append(S, len(S))
	return len(S)
}

func main() {
	fmt.Println(read())
	G = 5
	fmt.Println(read())
	write(9)
	fmt.Println(read(), G)
	fmt.Println(rec(3), G)
	f := func() int {
		return G * 2
	}
	G = 2
	fmt.Println(f())
	for i := 0; i < 3; i++ {
		G = G + i
		fmt.Println(read(), grow())
	}
	fmt.Println(S)
}
`},
	{ID: "globalcache/local-shadows-global", Key: "globalcache:local-shadows-global", Src: `import "fmt"

var G int = 1

func read() int {
	return G
}

func shadow() int {
	G := 100
	return G + read()
}

func param(G int) int {
	return G + read()
}

func main() {
	fmt.Println(shadow(), param(7), read())
	G := 50
	fmt.Println(G, read(), shadow())
}
`},
	{ID: "registers/range-index-after-counter", Key: keyRangeStale, Src: `import "fmt"

func main() {
	for i := 0; i < 2; i++ {
	}
	for i, v := range []int{7, 8, 9} {
		fmt.Println(i, v)
	}
}
`},
	{ID: "registers/global-read-before-local-shadow", Key: keyGlobalShadow, Src: `import "fmt"

var v int = 43

func main() {
	v = v + 1
	fmt.Println(v)
	v := 5
	fmt.Println(v)
}
`},
	{ID: "registers/global-in-own-initializer", Key: keyGlobalShadow, Src: `import "fmt"

var x string = "hello"

func f() string {
	x := "a " + x
	return x
}

func main() {
	fmt.Println(f(), x)
}
`},
	{ID: "registers/parallel-assign-params", Key: keyParallelParam, Src: `import "fmt"

func swap(a int, b int) (int, int) {
	a, b = b, a
	return a, b
}

func main() {
	p, q := swap(1, 2)
	fmt.Println(p, q)
}
`},
	{ID: "registers/multi-define-shadows-outer-local", Key: keyMultiDefine, Src: `import "fmt"

func two() (bool, string) {
	return true, "inner"
}

func main() {
	t := "outer"
	if true {
		u, t := two()
		fmt.Println(u, t)
	}
	fmt.Println(t)
}
`},
	{ID: "registers/var-shadows-register-local", Key: keyVarShadow, Src: `import "fmt"

func main() {
	acc := 98
	if true {
		var acc string = "inner"
		fmt.Println(acc)
	}
	fmt.Println(acc)
}
`},
	{ID: "peephole/loop-body-define-shadows-outer-local", Key: keyLoopRedeclare, Src: `import "fmt"

func main() {
	val := 1
	for i := 0; i < 3; i = i + 1 {
		val := val + 10
		fmt.Println(i, val)
	}
	fmt.Println(val)
}
`},
	{ID: "compile/break-in-switch-outside-loop", Key: keyBreakInSwitch, Src: `package main

import "fmt"

func main() {
	if v21 := 78; v21 > 2 {
		fmt.Println("x")
	}
	v29 := int32(4)
	if uint16(88) == uint16(3) {
		switch {
		default:
			m35 := make(map[int]int64)
			if len(m35) > (-7) {
				break
			}
		}
	} else if !(v29 <= v29) {
	} else {
	}
}
`},
	{ID: "compile/continue-in-switch-with-init", Key: keyContinueInSwitchInit, Src: `package main

import "fmt"

func main() {
	fmt.Println("first", 1, 2)
	for i := 0; i < 3; i++ {
		switch v := i; v {
		default:
			if v >= 0 {
				continue
			}
		}
		fmt.Println("not reached", i)
	}
	fmt.Println("end")
}
`},
	{ID: "compile/continue-in-tagless-switch", Key: keyContinueInSwitchTagless, Src: `package main

import "fmt"

func main() {
	for i5 := 0; i5 < 1; i5++ {
	}
	c11 := 0
	for c11 < 4 {
		c11 = c11 + 1
		switch {
		default:
			if "ego" >= "a" && int16(7) < int16(5) {
				continue
			}
		}
		c13 := 0
		fmt.Printf("t4 %d\n", c13)
	}
}
`},
	{ID: "peephole/loadthis-constant-receiver", Key: "peephole:loadthis-constant-receiver", Src: `package main

import "fmt"

type weekday4 int

const (
	Mon weekday4 = iota
	Tue
	Wed
)

func (w weekday4) String() string {
	switch w {
	case Mon:
		return "Monday"
	case Tue:
		return "Tuesday"
	case Wed:
		return "Wednesday"
	default:
		return "Unknown"
	}
}

func main() {
	fmt.Println(Mon.String() == "Monday")
	day := Wed
	fmt.Println(day.String() == "Wednesday")
}
`},
	{ID: "constfold/negated-zero-float-constant", Key: keyNegZero, Src: `import "fmt"

const Z = 0.0

func main() {
	fmt.Println(-Z, -(Z), 1.5 * -Z)
}
`},
	{ID: "constfold/local-const-overrides-global", Key: keyLocalConst, Src: `import "fmt"

const K0 = 2147483646

func f2() int {
	{
		const K0 = 1
		return K0
	}
}

func main() {
	fmt.Println(K0, f2())
}
`},
	{ID: "constfold/local-const-leaks-to-other-function", Key: keyLocalConst, Src: `import "fmt"

func f2() float64 {
	const K1 = 100.125
	return K1
}

func main() {
	fmt.Println(f2())
	fmt.Println(K1)
}
`},
	{ID: "peephole/const-in-loop-body", Key: keyConstInLoop, Src: `import "fmt"

func main() {
	for i := 0; i < 2; i++ {
		const n = "hello"
		fmt.Println(i, n)
	}
}
`},
	{ID: "tour/1", Key: "tour:1", Src: `import "fmt"
import "strings"

const K = 10
const S = "abc"
var G int = 3
var GS string = "g"

type Pt struct {
	x int
	y int
	name string
}

func (p Pt) sum() int { return p.x + p.y }
func (p *Pt) bump(d int) { p.x = p.x + d }

func addw(a int8, b int8) int8 { return a + b }
func two(a int) (int, string) { return a * 2, "two" }
func vari(xs ...int) int { t := 0; for _, x := range xs { t = t + x }; return t }
func fib(n int) int { if n < 2 { return n }; return fib(n-1) + fib(n-2) }
func counter() func() int { c := 0; return func() int { c = c + 1; return c } }

func main() {
	var a int8 = 120
	a = addw(a, 10)
	fmt.Printf("%T %v\n", a, a)
	var u byte = 250
	u = u + 10
	fmt.Printf("%T %v\n", u, u)
	var f32 float32 = 1.5
	f32 = f32 * 2
	fmt.Printf("%T %v\n", f32, f32)
	x, s := two(4)
	fmt.Println(x, s, vari(1,2,3), fib(10))
	c := counter()
	c(); c()
	fmt.Println(c())
	p := Pt{x: 1, y: 2, name: "p"}
	p.bump(5)
	fmt.Println(p.sum(), p)
	pp := &p
	pp.x = 9
	fmt.Println(p.x)
	xs := []int{3,1,2}
	xs = append(xs, 7)
	fmt.Println(xs, len(xs), xs[1:3])
	m := map[string]int{"a":1, "b":2}
	m["c"] = 3
	v, ok := m["zz"]
	fmt.Println(v, ok, len(m))
	delete(m, "a")
	fmt.Println(len(m))
	for i, v := range xs { fmt.Print(i, ":", v, " ") }
	fmt.Println()
	switch x { case 8: fmt.Println("eight"); default: fmt.Println("other") }
	fmt.Println(strings.ToUpper(S + GS), K + 2, K * G, int8(K), float64(G) / 2)
	i := 0
	ip := &i
	*ip = *ip + 5
	fmt.Println(i)
outer:
	for j := 0; j < 3; j++ {
		for k := 0; k < 3; k++ {
			if k == 2 { continue outer }
			if j == 2 { break outer }
			fmt.Print(j, k, ";")
		}
	}
	fmt.Println()
	func() { defer fmt.Println("deferred"); fmt.Println("body") }()
	var i64 int64 = 1 << 40
	fmt.Println(i64, i64 % 1000, -i64)
	b := true && !false || false
	fmt.Println(b, 7 / 2, 7 % 3, 7.0 / 2)
}
`},
}

// directedC02 builds the directed list.
func directedC02() []progCase {
	var out []progCase

	for _, sh := range shapeStmts {
		types := append([]string{}, numTypes...)
		if sh.shape == "fused-increment" || sh.shape == "add-var-assign" || sh.shape == "const-plus-var" {
			types = append(types, "string")
		}

		for _, t := range types {
			src := shapeProgram(sh.shape, sh.stmts, t)
			if t == "string" {
				// string constants instead of numeric ones
				src = strings.NewReplacer(" + 2\n", " + \"a\"\n", " += 3\n", " += \"b\"\n", " = 2 + ", " = \"c\" + ").Replace(src)
			}

			out = append(out, progCase{ID: "shape/" + sh.shape + "/" + t, Key: sh.shape + ":" + t, KeyPerMode: true, Src: src, Origin: "directed", Features: []string{"shape:" + sh.shape, "type:" + t}})
		}
	}

	for _, t := range append(append([]string{}, numTypes...), "string") {
		out = append(out, progCase{ID: "compare-const/" + t, Key: "compare-const:" + t, KeyPerMode: true, Src: compareProgram(t), Origin: "directed", Features: []string{"compare-const", "type:" + t}})
	}

	for _, n := range []int{20, 40, 70} {
		out = append(out, progCase{ID: fmt.Sprintf("alloc/many-locals-%d", n), Key: "alloc:many-locals", Src: manyLocalsProgram(n, "int"), Origin: "directed", Features: []string{"many-locals", fmt.Sprint("n:", n)}})
	}

	for _, p := range fixedProbes {
		p.Origin = "directed"
		p.Features = []string{p.ID}
		out = append(out, p)
	}

	// closures, defer and go created in nested blocks of loop bodies (loopclosure_test.go)
	out = append(out, loopClosureProbes()...)

	// declarations whose initializer reads the variable they shadow (shadowinit_test.go)
	out = append(out, shadowInitProbes()...)

	return out
}
