package tools

// C34, directed part: a comment as the ONLY separator between every ordered pair
// of token kinds (no white space on either side), enumerated exhaustively:
// representatives(kind) x representatives(kind) x contexts x comment forms.
// Oracle as in c34_test.go: token streams equal after comment removal, no
// white space introduced, output valid UTF-8.
import (
	"fmt"
	"sort"
	"testing"
	"unicode/utf8"

	"github.com/tucats/ego/internal/util/javascript"
	"github.com/tucats/ego/internal/verifh/vh"
)

// cssPairReps: token kind -> representative spellings (each is exactly one token of that kind when it stands alone,
// except "function" and "url(" openers, which are closed by the context).
var cssPairReps = map[string][]string{
	"ident":        {"a", "and", "not", "or", "only", "-b", "--c", "e3", "n", "x1", "url", "É", "à", "Å", "†", "\\61", "U"},
	"function":     {"calc(", "var(", "rgb(", "not(", "à("},
	"at-keyword":   {"@media", "@à", "@-x"},
	"hash":         {"#a", "#1e3", "#à", "#-"},
	"string":       {`"s"`, `'t'`, `""`},
	"url":          {"url(x)", "url( y )", "url()"},
	"number":       {"1", "0", "+1", "-1", ".5", "1e3", "1.5", "-.5"},
	"percentage":   {"5%", "-1%"},
	"dimension":    {"1px", "2n", "1e", "-1em", "1à", "0x"},
	"delim":        {".", "#", "+", "-", "*", "/", "!", "@", "<", ">", "~", "|", "=", "$", "^", "%", "&", "?", "\x0b"},
	"colon":        {":"},
	"semicolon":    {";"},
	"comma":        {","},
	"open-square":  {"["},
	"close-square": {"]"},
	"open-paren":   {"("},
	"close-paren":  {")"},
	"open-curly":   {"{"},
	"close-curly":  {"}"},
	"cdo":          {"<!--"},
	"cdc":          {"-->"},
}

// contexts: the pair is embedded where such sequences occur in stylesheets.
var cssPairContexts = []struct{ name, pre, post string }{
	{"declaration-value", "x{y:", " z}"},
	{"media-prelude", "@media ", " {a{b:c}}"},
	{"supports-prelude", "@supports ", " {a{b:c}}"},
	{"selector", "", " {b:c}"},
	{"top-level", "", ""},
}

var cssPairComments = []struct{ name, text string }{
	{"single", "/* x */"},
	{"empty", "/**/"},
	{"run-of-two", "/* x *//* y */"},
	{"run-of-three", "/*a*//**//*b*/"},
	{"stars", "/***/"},
}

func TestC34Pairs(t *testing.T) {
	r := vh.New("C34", "comment-pair-table")
	r.Exhaustive = true
	r.Rule = "every ordered pair (representative of token kind A, representative of token kind B) with a comment, an empty comment or a run of comments as the ONLY separator " +
		"(no white space on either side), in five contexts (declaration value, @media prelude, @supports prelude, selector, top level); distinct = distinct source; every case is non-trivial"

	kinds := make([]string, 0, len(cssPairReps))
	reps := 0

	for k, v := range cssPairReps {
		kinds = append(kinds, k)
		reps += len(v)
	}

	sort.Strings(kinds)

	// the representatives must be what they claim to be (guards the table itself)
	for _, k := range kinds {
		for _, rep := range cssPairReps[k] {
			toks := cssTokenize(rep)
			if len(toks) != 1 && k != "url" {
				t.Fatalf("pair table: %q (%s) is %d tokens", rep, k, len(toks))
			}
		}
	}

	r.Count("pair-table.token-kinds", int64(len(kinds)))
	r.Count("pair-table.representatives", int64(reps))
	r.Count("pair-table.kind-pairs", int64(len(kinds)*len(kinds)))
	r.Count("pair-table.representative-pairs", int64(reps*reps))
	r.Count("pair-table.contexts", int64(len(cssPairContexts)))
	r.Count("pair-table.comment-forms", int64(len(cssPairComments)))

	check := func(src, pairKey, ctx, form string) {
		out := string(javascript.MinifyCSS([]byte(src)))
		r.Eval(src, true)
		r.Count("cases", 1)

		if utf8.ValidString(src) && !utf8.ValidString(out) {
			r.Violate(vh.Violation{Key: "invalid-utf8-output", Desc: fmt.Sprintf("pair %s in %s (%s): output is not valid UTF-8", pairKey, ctx, form), Case: map[string]any{"css": src},
				Observed: map[string]any{"minified": out}})
		}

		if v := cssCompare(src, out); v != nil {
			r.Violate(vh.Violation{Key: v.Key, Desc: fmt.Sprintf("pair %s in %s, comment form %s: %s", pairKey, ctx, form, v.Desc), Case: map[string]any{"css": src},
				Expected: v.Expected, Observed: map[string]any{"tokens": v.Observed, "minified": out}})
		} else {
			r.Count("cases.token-stream-preserved", 1)
		}
	}

	if rc := vh.ReplayCase(); rc != nil {
		var c struct {
			CSS string `json:"css"`
		}

		if err := jsonUnmarshal(rc, &c); err != nil {
			t.Fatal(err)
		}

		check(c.CSS, "replay", "replay", "replay")
		r.Distinct = 2
		r.Exhaustive = false
		_ = r.Write()

		return
	}

	seenKindPair := map[string]bool{}
	n := 0

	for _, ka := range kinds {
		for _, a := range cssPairReps[ka] {
			for _, kb := range kinds {
				for _, b := range cssPairReps[kb] {
					seenKindPair[ka+">"+kb] = true

					for _, ctx := range cssPairContexts {
						for _, cm := range cssPairComments {
							check(ctx.pre+a+cm.text+b+ctx.post, ka+"("+a+")>"+kb+"("+b+")", ctx.name, cm.name)

							n++
							if n%9973 == 1 {
								r.Sample(map[string]any{"css": ctx.pre + a + cm.text + b + ctx.post, "minified": string(javascript.MinifyCSS([]byte(ctx.pre + a + cm.text + b + ctx.post)))})
							}
						}
					}
				}
			}
		}
	}

	r.Count("pair-table.kind-pairs-exercised", int64(len(seenKindPair)))

	if n == 0 {
		t.Fatal("observed nothing")
	}

	if err := r.Write(); err != nil {
		t.Fatal(err)
	}
}
