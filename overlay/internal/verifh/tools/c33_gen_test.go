package tools

// Generator of semicolon-terminated, deterministic, DOM-free JavaScript programs
// for the C33 monitor. Every program is well-formed and terminates by
// construction (loop bounds are literals, functions only call earlier functions).
import (
	"fmt"
	"math/rand"
	"sort"
	"strings"
)

type jsVar struct {
	name  string
	typ   string            // num | str | arr | obj | fn
	props map[string]string // for obj: property -> typ (num|str)
	konst bool
}

type jsGen struct {
	rng    *rand.Rand
	b      strings.Builder
	ind    int
	scopes [][]jsVar // block scopes, innermost last; scopes[0] is file scope
	funcs  []jsVar   // file-scope functions callable so far (typ = return type, props["arity"] = n)
	feat   map[string]bool
	uid    int
	loops  int
}

var (
	jsLocalNames = []string{"total", "count", "item", "idx", "value", "result", "acc", "tmp", "data", "key", "list", "left", "right",
		"a", "b", "c", "d", "e", "b1", "c2", "z9", "_p", "$q", "size", "label", "alpha", "render", "state", "x", "y", "n", "s", "i1"}
	jsPropNames = []string{"alpha", "beta", "size", "label", "items", "inner", "count", "total", "a", "b1", "key", "value", "default", "class", "new"}
	jsFileNames = []string{"CONFIG", "G1", "G2", "state", "render", "limit", "TABLE", "prefix", "counter"}
)

func (g *jsGen) pick(s ...string) string { return s[g.rng.Intn(len(s))] }
func (g *jsGen) chance(p int) bool       { return g.rng.Intn(100) < p }

func (g *jsGen) line(format string, args ...any) {
	if g.chance(6) {
		g.feat["line-comment"] = true
		g.b.WriteString(strings.Repeat("  ", g.ind) + g.pick("// note", "// x = 1; \"q\" 'r' `t`", "// /* not block */", "//") + "\n")
	}

	g.b.WriteString(strings.Repeat("  ", g.ind))
	fmt.Fprintf(&g.b, format, args...)

	if g.chance(4) {
		g.feat["trailing-comment"] = true
		g.b.WriteString(g.pick(" // tail", " /* tail */", "  //"))
	}

	g.b.WriteString(g.pick("\n", "\n", "\n", "\n\n", "\r\n"))
}

// propsOf returns the property names of an object variable with the given type, sorted (map order must not leak into generation).
func propsOf(v jsVar, typ string) []string {
	var out []string

	for p, t := range v.props {
		if typ == "" || t == typ {
			out = append(out, p)
		}
	}

	sort.Strings(out)

	return out
}

// par parenthesizes a composite expression before a member access.
func par(s string) string {
	if strings.ContainsAny(s, " +-*/?") && !(strings.HasPrefix(s, "(") && strings.HasSuffix(s, ")") && strings.Count(s, "(") == 1) {
		return "(" + s + ")"
	}

	return s
}

func (g *jsGen) push() { g.scopes = append(g.scopes, nil) }
func (g *jsGen) pop()  { g.scopes = g.scopes[:len(g.scopes)-1] }

func (g *jsGen) declare(v jsVar) {
	g.scopes[len(g.scopes)-1] = append(g.scopes[len(g.scopes)-1], v)
}

// fresh picks a name for a declaration statement. It never shadows a binding that is visible at that point: a later
// `let x` in a block puts every earlier use of an outer x in the same block into the temporal dead zone. The same name is
// still declared again and again in sibling blocks and other functions, which is what a name-based renamer has to cope with.
func (g *jsGen) fresh() string {
	for try := 0; try < 40; try++ {
		n := jsLocalNames[g.rng.Intn(len(jsLocalNames))]
		if !g.visibleName(n) && !g.isFunc(n) {
			return n
		}
	}

	g.uid++

	return fmt.Sprintf("v%d", g.uid)
}

// freshShadow picks a name for a binding that exists from the very start of its scope (parameter, loop variable):
// it may shadow an outer binding.
func (g *jsGen) freshShadow() string {
	for try := 0; try < 30; try++ {
		n := jsLocalNames[g.rng.Intn(len(jsLocalNames))]
		if !g.inScope(n, len(g.scopes)-1) && !g.isFunc(n) {
			return n
		}
	}

	g.uid++

	return fmt.Sprintf("w%d", g.uid)
}

func (g *jsGen) visibleName(name string) bool {
	for l := range g.scopes {
		if g.inScope(name, l) {
			return true
		}
	}

	return false
}

func (g *jsGen) inScope(name string, level int) bool {
	for _, v := range g.scopes[level] {
		if v.name == name {
			return true
		}
	}

	return false
}

func (g *jsGen) isFunc(name string) bool {
	for _, f := range g.funcs {
		if f.name == name {
			return true
		}
	}

	return false
}

// visible returns the variables of a type that are visible (innermost declaration wins).
func (g *jsGen) visible(typ string, writable bool) []jsVar {
	seen := map[string]bool{}

	var out []jsVar

	for l := len(g.scopes) - 1; l >= 0; l-- {
		for i := len(g.scopes[l]) - 1; i >= 0; i-- {
			v := g.scopes[l][i]
			if seen[v.name] {
				continue
			}

			seen[v.name] = true

			if v.typ == typ && (!writable || !v.konst) {
				out = append(out, v)
			}
		}
	}

	return out
}

func (g *jsGen) numLit() string {
	return g.pick("0", "1", "2", "3", "7", "10", "42", "0.5", ".25", "1e3", "0x1F", "1_000", "0b101", "3.14", "100")
}

func (g *jsGen) strLit() string {
	return g.pick(`"abc"`, `'x-1'`, `"a\"b"`, `'it\'s'`, `"12-ab"`, `""`, `"// not a comment"`, `"/* nc */"`, `"a,b, c"`, `'back\\slash'`, `"new\nline"`, `"tab\there"`, `"a  b"`, `'`+"`"+`tick'`, `"${notTemplate}"`)
}

func (g *jsGen) regexLit() string {
	g.feat["regex"] = true

	return g.pick(`/ab+c/`, `/\d+/g`, `/[a-z]+/i`, `/a\/b/`, `/[/]/`, `/["']/`, `/\s*,\s*/`, `/^x|y$/m`, `/(\d+)-(\w+)/`, `/a  b/`, `/[^\]]+/`, `/\//g`, `/a{1,2}/`, `/\bfoo\b/u`)
}

func (g *jsGen) num(depth int) string {
	vars := g.visible("num", false)

	if depth <= 0 || g.chance(25) {
		if len(vars) > 0 && g.chance(70) {
			return vars[g.rng.Intn(len(vars))].name
		}

		return g.numLit()
	}

	switch g.rng.Intn(22) {
	case 0, 1:
		l, op, rhs := g.num(depth-1), g.pick(" + ", " - ", " * ", "+", "-", "*", " % "), g.num(depth-1)
		if strings.HasPrefix(rhs, "+") || strings.HasPrefix(rhs, "-") {
			rhs = "(" + rhs + ")" // "42" "-" "- +10" must not read as 42-- +10
		}

		return l + op + rhs
	case 2:
		g.feat["division"] = true

		return g.num(depth-1) + g.pick(" / ", "/", " /") + g.pick("2", "4", "(1 + "+g.num(0)+" * "+g.num(0)+")")
	case 3:
		return "(" + g.num(depth-1) + g.pick(" + ", " * ", " - ") + "(" + g.num(depth-1) + "))"
	case 4:
		g.feat["ternary"] = true

		return "(" + g.boolean(depth-1) + " ? " + g.num(depth-1) + " : " + g.num(depth-1) + ")"
	case 5:
		if a := g.visible("arr", false); len(a) > 0 {
			v := a[g.rng.Intn(len(a))].name

			return g.pick(v+".length", v+"[0]", v+"["+g.pick("0", "1")+"]", v+".indexOf("+g.num(0)+")")
		}

		return "[1, 2, 3].length"
	case 6:
		if o := g.visible("obj", false); len(o) > 0 {
			v := o[g.rng.Intn(len(o))]
			if ps := propsOf(v, "num"); len(ps) > 0 {
				p := ps[g.rng.Intn(len(ps))]
				{
					g.feat["property-read"] = true

					if g.chance(15) {
						g.feat["optional-chaining"] = true

						return v.name + "?." + p
					}

					if g.chance(15) {
						return v.name + `["` + p + `"]`
					}

					return v.name + "." + p
				}
			}
		}

		return g.numLit()
	case 7:
		return par(g.str(depth-1)) + ".length"
	case 8:
		return "Math." + g.pick("max", "min") + "(" + g.num(depth-1) + ", " + g.num(depth-1) + ")"
	case 9:
		for tries := 0; tries < 4 && len(g.funcs) > 0; tries++ {
			f := g.funcs[g.rng.Intn(len(g.funcs))]
			if f.typ == "num" {
				g.feat["call"] = true

				return f.name + "(" + g.args(f, depth-1) + ")"
			}
		}

		return g.numLit()
	case 10:
		g.feat["regex-test"] = true

		return "(" + g.regexLit() + ".test(" + g.str(depth-1) + ") ? 1 : 0)"
	case 11:
		return "parseInt(" + g.str(depth-1) + ", 10)"
	case 12:
		g.feat["unary"] = true

		if g.chance(25) {
			return g.pick("-(-", "+(+", "-(+", "~(-") + g.num(0) + ")"
		}

		return g.pick("-", "+", "~", "- -", "+ +", "- +") + g.num(0)
	case 13:
		g.feat["plus-plus-spacing"] = true

		rhs := g.num(0)
		if strings.HasPrefix(rhs, "+") || strings.HasPrefix(rhs, "-") {
			rhs = "(" + rhs + ")"
		}

		return g.num(0) + g.pick(" + +", " - -", " + -", " - +") + rhs
	case 14:
		g.feat["exponent-shift"] = true

		return "(" + g.num(0) + g.pick(" ** 2", " >>> 1", " << 2", " >> 1", " & 6", " | 1", " ^ 5") + ")"
	case 15:
		g.feat["nullish"] = true

		return "(" + g.pick("null", "undefined", g.num(0)) + " ?? " + g.num(depth-1) + ")"
	case 16:
		g.feat["comment-in-expression"] = true

		return g.num(0) + " /* c */ + " + g.num(0)
	case 17:
		g.feat["typeof"] = true

		return "(typeof " + g.pick(g.num(0), g.str(0), "undefinedName") + ").length"
	case 18:
		g.feat["regex-in-call-args"] = true

		return par(g.str(depth-1)) + ".split(" + g.regexLit() + ").length"
	case 19:
		g.feat["regex-after-return-context"] = true

		return "(function () { return " + g.regexLit() + ".source.length; })()"
	case 20:
		g.feat["regex-in-array"] = true

		return "[" + g.regexLit() + ", " + g.regexLit() + "].length"
	default:
		return g.numLit()
	}
}

func (g *jsGen) args(f jsVar, depth int) string {
	n := 0
	fmt.Sscanf(f.props["arity"], "%d", &n)

	var parts []string

	for i := 0; i < n; i++ {
		if i == n-1 && n > 1 && g.chance(30) {
			break // leave the last one to its default
		}

		parts = append(parts, g.num(depth))
	}

	return strings.Join(parts, ", ")
}

func (g *jsGen) str(depth int) string {
	vars := g.visible("str", false)

	if depth <= 0 || g.chance(25) {
		if len(vars) > 0 && g.chance(70) {
			return vars[g.rng.Intn(len(vars))].name
		}

		return g.strLit()
	}

	switch g.rng.Intn(12) {
	case 0, 1:
		return g.str(depth-1) + " + " + g.str(depth-1)
	case 2:
		return "String(" + g.num(depth-1) + ")"
	case 3:
		g.feat["regex-replace"] = true

		return par(g.str(depth-1)) + ".replace(" + g.regexLit() + ", " + g.strLit() + ")"
	case 4:
		if a := g.visible("arr", false); len(a) > 0 {
			return a[g.rng.Intn(len(a))].name + `.join("` + g.pick(",", "-", " ") + `")`
		}

		return g.strLit()
	case 5:
		return par(g.str(depth-1)) + g.pick(".toUpperCase()", ".trim()", ".slice(1)", ".charAt(0)")
	case 6:
		g.feat["template"] = true

		// interpolations only name file-scope bindings, properties and literals (never a renamable local)
		return "`" + g.pick("t:", "", "a // b ", "q'\"", "/* x */", "two  sp") + "${" + g.fileNum() + "}" + g.pick("", " and ", "-") + g.pick("${1 + 2}", "", "${\"s\".length}", "${CONFIG.alpha}") + "`"
	case 7:
		g.feat["template-plain"] = true

		return "`" + g.pick("plain", "with \\` tick", "line1\\nline2", "it's \"q\"", "url: http://x/y", "") + "`"
	case 8:
		if o := g.visible("obj", false); len(o) > 0 {
			v := o[g.rng.Intn(len(o))]
			if ps := propsOf(v, "str"); len(ps) > 0 {
				return v.name + "." + ps[g.rng.Intn(len(ps))]
			}
		}

		return g.strLit()
	case 9:
		return "(" + g.boolean(depth-1) + " ? " + g.str(depth-1) + " : " + g.str(depth-1) + ")"
	case 10:
		for tries := 0; tries < 4 && len(g.funcs) > 0; tries++ {
			f := g.funcs[g.rng.Intn(len(g.funcs))]
			if f.typ == "str" {
				return f.name + "(" + g.args(f, depth-1) + ")"
			}
		}

		return g.strLit()
	default:
		return "JSON.stringify(" + g.num(depth-1) + ")"
	}
}

// fileNum is a numeric expression that only names file-scope bindings.
func (g *jsGen) fileNum() string {
	var cands []string

	for _, v := range g.scopes[0] {
		if v.typ == "num" && !g.shadowed(v.name) {
			cands = append(cands, v.name, v.name+" + 1")
		}
	}

	if len(cands) == 0 {
		return "2 * 3"
	}

	return cands[g.rng.Intn(len(cands))]
}

func (g *jsGen) shadowed(name string) bool {
	for l := 1; l < len(g.scopes); l++ {
		if g.inScope(name, l) {
			return true
		}
	}

	return false
}

func (g *jsGen) boolean(depth int) string {
	switch g.rng.Intn(8) {
	case 0, 1:
		return g.num(depth) + g.pick(" < ", " > ", " <= ", " >= ", " === ", " !== ", " == ", " != ", "<", ">") + g.num(depth)
	case 2:
		return g.str(depth) + g.pick(" === ", " !== ") + g.str(depth)
	case 3:
		g.feat["regex-after-not"] = true

		return "!" + g.regexLit() + ".test(" + g.str(depth) + ")"
	case 4:
		g.feat["regex-after-logical"] = true

		return "(" + g.num(0) + " > 1 " + g.pick("&&", "||") + " " + g.regexLit() + ".test(" + g.str(0) + "))"
	case 5:
		return "!(" + g.num(depth) + " % 2)"
	case 6:
		if a := g.visible("arr", false); len(a) > 0 {
			return a[g.rng.Intn(len(a))].name + ".includes(" + g.num(0) + ")"
		}

		return "true"
	default:
		return g.pick("true", "false", g.num(0)+" > 0")
	}
}

func (g *jsGen) arrLit(depth int) string {
	n := 1 + g.rng.Intn(4)

	var parts []string

	for i := 0; i < n; i++ {
		parts = append(parts, g.num(depth))
	}

	if a := g.visible("arr", false); len(a) > 0 && g.chance(25) {
		g.feat["spread"] = true
		parts = append(parts, "..."+a[g.rng.Intn(len(a))].name)
	}

	return "[" + strings.Join(parts, g.pick(", ", ",", " , ")) + "]"
}

// objLit writes an object literal and returns its text and property types.
func (g *jsGen) objLit(depth int) (string, map[string]string) {
	props := map[string]string{}

	var parts []string

	n := 1 + g.rng.Intn(4)
	for i := 0; i < n; i++ {
		switch g.rng.Intn(7) {
		case 0, 1:
			p := jsPropNames[g.rng.Intn(len(jsPropNames))]
			if _, dup := props[p]; dup {
				continue
			}

			if g.chance(50) {
				parts = append(parts, p+": "+g.num(depth))
				props[p] = "num"
			} else {
				parts = append(parts, p+g.pick(": ", ":", " : ")+g.str(depth))
				props[p] = "str"
			}
		case 2:
			// shorthand: a visible numeric or string variable
			for _, typ := range []string{"num", "str"} {
				if vs := g.visible(typ, false); len(vs) > 0 {
					v := vs[g.rng.Intn(len(vs))]
					if _, dup := props[v.name]; dup {
						continue
					}

					g.feat["shorthand-property"] = true
					parts = append(parts, v.name)
					props[v.name] = typ

					break
				}
			}
		case 3:
			g.feat["computed-key"] = true
			parts = append(parts, "["+g.pick(`"k" + 1`, g.str(0), "`c${1}`")+"]: "+g.num(depth))
		case 4:
			g.feat["quoted-key"] = true
			parts = append(parts, g.pick(`"quoted key"`, `'single'`, `"a-b"`)+": "+g.num(depth))
		case 5:
			g.feat["numeric-key"] = true
			parts = append(parts, g.pick("7", "0x10", "1.5")+": "+g.str(depth))
		case 6:
			if depth > 0 {
				g.feat["nested-object"] = true
				inner, _ := g.objLit(depth - 1)
				parts = append(parts, "inner2: "+inner)
			}
		}
	}

	if o := g.visible("obj", false); len(o) > 0 && g.chance(15) {
		g.feat["object-spread"] = true
		parts = append(parts, "..."+o[g.rng.Intn(len(o))].name)
	}

	if len(parts) == 0 {
		parts = append(parts, "alpha: 1")
		props["alpha"] = "num"
	}

	sep := g.pick(", ", ",", ",\n"+strings.Repeat("  ", g.ind+1))

	return g.pick("{ ", "{", "{\n"+strings.Repeat("  ", g.ind+1)) + strings.Join(parts, sep) + g.pick(" }", "}", ", }"), props
}

func (g *jsGen) logStmt() {
	var parts []string

	for i := 1 + g.rng.Intn(3); i > 0; i-- {
		switch g.rng.Intn(5) {
		case 0, 1:
			parts = append(parts, g.num(2))
		case 2:
			parts = append(parts, g.str(2))
		case 3:
			if a := g.visible("arr", false); len(a) > 0 {
				parts = append(parts, a[g.rng.Intn(len(a))].name)
			}
		case 4:
			if o := g.visible("obj", false); len(o) > 0 {
				v := o[g.rng.Intn(len(o))].name
				parts = append(parts, g.pick(v, "Object.keys("+v+")"))
				g.feat["object-keys-logged"] = true
			}
		}
	}

	if len(parts) == 0 {
		parts = append(parts, g.num(1))
	}

	g.line("console.log(JSON.stringify([%s]));", strings.Join(parts, ", "))
}

// stmt writes one statement in a function body.
func (g *jsGen) stmt(depth int) {
	switch x := g.rng.Intn(30); {
	case x < 5:
		name := g.fresh()
		kw := g.pick("let", "const", "let")

		if len(g.scopes) == 2 && g.chance(30) {
			kw = "var"
		}

		if g.chance(60) {
			g.line("%s %s = %s;", kw, name, g.num(2))
			g.declare(jsVar{name: name, typ: "num", konst: kw == "const"})
		} else {
			g.line("%s %s = %s;", kw, name, g.str(2))
			g.declare(jsVar{name: name, typ: "str", konst: kw == "const"})
		}

		g.feat["decl-"+kw] = true
	case x < 7:
		// several declarators in one statement
		e2 := g.num(1)
		n1, n2 := g.fresh(), ""
		g.declare(jsVar{name: n1, typ: "num"})
		n2 = g.fresh()
		g.declare(jsVar{name: n2, typ: "num"})
		g.line("let %s = %s, %s = %s + %s;", n1, g.numLit(), n2, e2, n1)
		g.feat["multi-declarator"] = true
	case x < 10:
		if vs := g.visible("num", true); len(vs) > 0 {
			v := vs[g.rng.Intn(len(vs))].name
			switch g.rng.Intn(5) {
			case 0:
				g.line("%s %s %s;", v, g.pick("+=", "-=", "*=", "="), g.num(2))
			case 1:
				g.line("%s%s;", v, g.pick("++", "--"))
			case 2:
				g.line("%s%s;", g.pick("++", "--"), v)
			case 3:
				g.feat["increment-in-expression"] = true
				g.line("%s = %s++ + ++%s;", v, v, v)
			case 4:
				g.line("%s = %s %s %s;", v, v, g.pick("- --", "+ ++", "- -", "+ +"), v)
			}
		} else {
			g.logStmt()
		}
	case x < 12:
		name := g.fresh()
		g.line("const %s = %s;", name, g.arrLit(1))
		g.declare(jsVar{name: name, typ: "arr", konst: true})
		g.feat["array"] = true
	case x < 15:
		name := g.fresh()
		txt, props := g.objLit(1)
		g.line("const %s = %s;", name, txt)
		g.declare(jsVar{name: name, typ: "obj", props: props, konst: true})
		g.feat["object-literal"] = true
	case x < 17:
		// object destructuring in a declaration (no defaults: see the risky constructs)
		if os := g.visible("obj", false); len(os) > 0 {
			o := os[g.rng.Intn(len(os))]

			var pats []string

			for _, p := range propsOf(o, "") {
				t := o.props[p]
				if len(pats) >= 2 || p == "default" || p == "class" || p == "new" || p == "arity" {
					continue
				}

				if g.chance(50) && !g.visibleName(p) && !g.isFunc(p) {
					pats = append(pats, p)
					g.declare(jsVar{name: p, typ: t, konst: true})
					g.feat["destructuring-shorthand"] = true
				} else {
					n := g.fresh()
					pats = append(pats, p+": "+n)
					g.declare(jsVar{name: n, typ: t, konst: true})
					g.feat["destructuring-rename"] = true
				}
			}

			if len(pats) > 0 {
				g.line("const %s%s%s = %s;", g.pick("{ ", "{"), strings.Join(pats, g.pick(", ", ",")), g.pick(" }", "}"), o.name)

				break
			}
		}

		g.logStmt()
	case x < 19:
		if as := g.visible("arr", false); len(as) > 0 {
			a := as[g.rng.Intn(len(as))]
			n1, n2, n3 := g.fresh(), "", ""
			g.declare(jsVar{name: n1, typ: "num", konst: true})
			n2 = g.fresh()
			g.declare(jsVar{name: n2, typ: "num", konst: true})
			n3 = g.fresh()
			g.declare(jsVar{name: n3, typ: "arr", konst: true})
			g.line("const [%s, %s = %s, ...%s] = %s;", n1, n2, g.numLit(), n3, a.name)
			g.feat["array-destructuring"] = true
		} else {
			g.logStmt()
		}
	case x < 21 && depth > 0:
		g.feat["if"] = true
		g.line("if (%s) {", g.boolean(1))
		g.block(depth - 1)

		if g.chance(50) {
			g.line("} else {")
			g.block(depth - 1)
		}

		g.line("}")
	case x < 23 && depth > 0 && g.loops < 3:
		g.loops++
		g.feat["for"] = true
		g.push()

		i := g.freshShadow()
		g.declare(jsVar{name: i, typ: "num", konst: true}) // the body must not write the counter
		g.line("for (let %s = 0; %s < %d; %s++) {", i, i, 1+g.rng.Intn(3), i)
		g.block(depth - 1)
		g.line("}")
		g.pop()
		g.loops--
	case x < 24 && depth > 0 && g.loops < 3:
		if as := g.visible("arr", false); len(as) > 0 {
			g.loops++
			g.feat["for-of"] = true
			g.push()

			arrName := as[g.rng.Intn(len(as))].name
			v := g.freshShadow()
			if v == arrName {
				v = "el"
			}

			g.declare(jsVar{name: v, typ: "num", konst: true})
			g.line("for (const %s of %s) {", v, arrName)
			g.block(depth - 1)
			g.line("}")
			g.pop()
			g.loops--
		}
	case x < 25 && depth > 0:
		g.feat["switch"] = true
		g.line("switch (%s %% 3) {", g.num(1))
		g.ind++

		for k := 0; k < 2; k++ {
			g.line("case %d:", k)
			g.ind++
			g.push()
			g.logStmt()
			g.pop()
			g.line("break;")
			g.ind--
		}

		g.line("default:")
		g.ind++
		g.push()
		g.logStmt()
		g.pop()
		g.ind--
		g.ind--
		g.line("}")
	case x < 26 && depth > 0:
		g.feat["try-catch"] = true
		g.line("try {")
		g.ind++
		g.push()
		g.line("if (%s) { throw new Error(%s); }", g.boolean(1), g.strLit())
		g.logStmt()
		g.pop()
		g.ind--

		errName := g.pick("err", "e", "ex")
		g.line("} catch (%s) {", errName)
		g.ind++
		g.line("console.log(\"caught\", %s.message);", errName)
		g.ind--

		if g.chance(40) {
			g.line("} finally {")
			g.ind++
			g.push()
			g.logStmt()
			g.pop()
			g.ind--
		}

		g.line("}")
	case x < 28 && depth > 0:
		// closure: arrow or function expression capturing locals, with a default parameter
		g.feat["closure"] = true
		name := g.fresh()
		p, q := g.pick("p", "q", "m", "a", "x"), g.pick("r", "w", "b1", "y")
		g.push()
		g.declare(jsVar{name: p, typ: "num"})
		g.declare(jsVar{name: q, typ: "num"})

		body := g.num(2)
		g.pop()

		if g.chance(50) {
			g.feat["arrow"] = true
			g.line("const %s = (%s, %s = %s) => %s;", name, p, q, g.numLit(), body)
		} else {
			g.feat["function-expression"] = true
			g.line("const %s = function (%s, %s = %s) { return %s; };", name, p, q, g.numLit(), body)
		}

		g.declare(jsVar{name: name, typ: "fn", konst: true})
		g.line("console.log(%s(%s), %s(%s, %s));", name, g.num(1), name, g.num(0), g.num(0))
	case x < 29 && depth > 0:
		g.feat["label-continue"] = true
		g.push()

		i := g.fresh()
		g.declare(jsVar{name: i, typ: "num", konst: true})
		g.line("outer: for (let %s = 0; %s < 3; %s++) {", i, i, i)
		g.ind++
		g.line("if (%s === 1) { continue outer; }", i)
		g.logStmt()
		g.ind--
		g.line("}")
		g.pop()
	default:
		g.logStmt()
	}
}

func (g *jsGen) block(depth int) {
	g.ind++
	g.push()

	for n := 1 + g.rng.Intn(3); n > 0; n-- {
		g.stmt(depth)
	}

	g.pop()
	g.ind--
}

// function writes a file-scope function declaration; returns nothing, registers it.
func (g *jsGen) function(name string) {
	ret := g.pick("num", "num", "str")
	arity := g.rng.Intn(3)

	var (
		params []string
		pvars  []jsVar
	)

	for i := 0; i < arity; i++ {
		p := jsLocalNames[g.rng.Intn(len(jsLocalNames))]

		dup := false

		for _, v := range pvars {
			if v.name == p {
				dup = true
			}
		}

		if dup || g.isFunc(p) {
			p = fmt.Sprintf("p%d", i)
		}

		pvars = append(pvars, jsVar{name: p, typ: "num"})

		if i == arity-1 && g.chance(40) {
			g.feat["default-parameter"] = true
			params = append(params, p+" = "+g.pick("1", "2 + 3", "G1"))
		} else {
			params = append(params, p)
		}
	}

	g.line("function %s(%s) {", name, strings.Join(params, ", "))
	g.ind++
	g.push()

	for _, v := range pvars {
		g.declare(v)
	}

	for n := 2 + g.rng.Intn(5); n > 0; n-- {
		g.stmt(2)
	}

	if g.chance(25) {
		// nested function declaration that closes over the locals
		g.feat["nested-function"] = true
		inner := g.pick("inner", "walk", "apply", "go")
		g.line("function %s(%s) {", inner, "k")
		g.ind++
		g.push()
		g.declare(jsVar{name: "k", typ: "num"})
		g.stmt(1)
		g.line("return %s;", g.num(2))
		g.pop()
		g.ind--
		g.line("}")
		g.line("console.log(%s(%s));", inner, g.num(1))
	}

	if ret == "num" {
		g.line("return %s;", g.num(2))
	} else {
		g.line("return %s;", g.str(2))
	}

	g.pop()
	g.ind--
	g.line("}")

	g.funcs = append(g.funcs, jsVar{name: name, typ: ret, props: map[string]string{"arity": fmt.Sprint(arity)}})
}

// program generates one base program.
func (g *jsGen) program() (string, map[string]bool) {
	g.b.Reset()
	g.feat = map[string]bool{}
	g.scopes = [][]jsVar{nil}
	g.funcs = nil
	g.ind = 0
	g.uid = 0

	if g.chance(30) {
		g.b.WriteString(g.pick("/* header\n * comment */\n", "// header\n", "/**/"))
	}

	// file-scope bindings (never renamed)
	g.line("var G1 = %s;", g.numLit())
	g.declare(jsVar{name: "G1", typ: "num"})
	g.line("let G2 = %s;", g.strLit())
	g.declare(jsVar{name: "G2", typ: "str"})
	g.line("const CONFIG = { alpha: %s, beta: %s, size: 3 };", g.numLit(), g.strLit())
	g.declare(jsVar{name: "CONFIG", typ: "obj", konst: true, props: map[string]string{"alpha": "num", "beta": "str", "size": "num"}})

	if g.chance(50) {
		// a file-scope name that is ALSO used as a local name in functions: the minifier must leave it alone
		n := g.pick("count", "total", "state", "render", "a", "b1")
		g.line("var %s = %s;", n, g.numLit())
		g.declare(jsVar{name: n, typ: "num"})
		g.feat["file-scope-name-also-local"] = true
	}

	nf := 1 + g.rng.Intn(3)
	for i := 0; i < nf; i++ {
		name := g.pick("util", "helper", "compute", "fmt", "render", "step")
		if g.isFunc(name) || g.inScope(name, 0) {
			name = fmt.Sprintf("%s%d", name, i)
		}

		g.function(name)

		if g.chance(40) {
			f := g.funcs[len(g.funcs)-1]
			g.line("console.log(%s(%s));", f.name, g.args(f, 1))
		}
	}

	if g.chance(35) {
		// assignment to an undeclared name at file scope creates a global property
		g.feat["implicit-global"] = true
		g.line("%s = %s;", g.pick("implicitGlobal", "LEAK_1", "appState"), g.num(1))
	}

	if g.chance(40) {
		g.line("G1 += 1;")
		g.line("console.log(G1, G2, JSON.stringify(CONFIG));")
	}

	for _, f := range g.funcs {
		g.line("console.log(%s(%s));", f.name, g.args(f, 1))
	}

	return g.b.String(), g.feat
}

// jsRisky are self-contained constructs appended to a base program. Each one is a
// construct the name-based, token-level minifier may mishandle; a failure of
// base+construct (with the base alone passing) is keyed by the construct's name.
type jsRisky struct {
	Name string
	Src  string
}

var jsRiskyList = []jsRisky{
	{"template-interpolation-of-local", "function rk1(p) { const who = p + 1; return `v=${who}`; }\nconsole.log(rk1(2));\n"},
	{"local-shares-name-with-host-global", "function rk2a() { var hostValue = 1; return hostValue + 1; }\nfunction rk2b() { return hostValue + 1; }\nconsole.log(rk2a(), rk2b());\n"},
	{"object-method-named-like-local", "function rk3() { const size = 2; const o = { size() { return 7; } }; return o.size() + size; }\nconsole.log(rk3());\n"},
	{"getter-named-like-local", "function rk4() { const label = 2; const o = { get label() { return 7; } }; return o.label + label; }\nconsole.log(rk4());\n"},
	{"class-method-named-like-local", "function rk5() { const count = 2; class K { count() { return 5; } } return new K().count() + count; }\nconsole.log(rk5());\n"},
	{"class-field-named-like-local", "function rk6() { const total = 2; class K { total = 5; } return new K().total + total; }\nconsole.log(rk6());\n"},
	{"destructuring-default-in-declaration", "function rk7(o) { const { width = 5 } = o; return width; }\nconsole.log(rk7({ width: 9 }));\n"},
	{"destructuring-default-in-parameter", "function rk8({ depth = 1 }) { return depth; }\nconsole.log(rk8({ depth: 4 }));\n"},
	{"block-var-at-file-scope", "if (G1 !== undefined) { var hoisted = 3; }\nconsole.log(hoisted);\n"},
	{"nested-template-literal", "function rk9(f) { return `x${f ? `in  ner` : `b`}y`; }\nconsole.log(rk9(true), rk9(false));\n"},
	{"nested-template-with-slashes", "function rk10(f) { return `x${f ? `http://h/p` : ``}y`; }\nconsole.log(rk10(true));\n"},
	{"regex-after-binary-operator", "function rk11() { return 1 + /a  b/.source.length; }\nconsole.log(rk11());\n"},
	{"regex-after-close-paren", "function rk12(s) { var n = 0; if (s) /a  b/.test(s) && n++; return n; }\nconsole.log(rk12(\"a  b\"));\n"},
	{"number-dot-member", "function rk13() { return 5 .toFixed(1); }\nconsole.log(rk13());\n"},
	{"division-then-regex", "function rk14() { return 8 / /2/.source; }\nconsole.log(rk14());\n"},
	{"non-ascii-identifier", "function rk15() { var é = 1; return é + 1; }\nconsole.log(rk15());\n"},
	{"local-named-like-property-read-via-bracket", "function rk16() { const size = 2; const o = { size: 9 }; return o[\"size\"] + o.size + size; }\nconsole.log(rk16());\n"},
	{"shorthand-then-spread-and-keys", "function rk17() { const alpha = 1, beta = 2; const o = { alpha, beta, ...{ z: 3 } }; return Object.keys(o).join(); }\nconsole.log(rk17());\n"},
	{"parameter-destructuring-shorthand", "function rk18({ alpha, beta: renamed }, [first, second = 2]) { return alpha + renamed + first + second; }\nconsole.log(rk18({ alpha: 1, beta: 2 }, [3]));\n"},
	{"local-shares-name-with-file-scope-function", "function rk19a() { return 1; }\nfunction rk19b() { var rk19a = 5; return rk19a; }\nconsole.log(rk19a(), rk19b());\n"},
	{"locals-named-like-short-names", "function rk20(a, b, b1) { var c = a + b, a1 = b1 * 2, z = c + a1; return [a, b, b1, c, a1, z].join(); }\nconsole.log(rk20(1, 2, 3));\n"},
	{"arrow-parameter-named-like-renamed-local", "function rk21() { const item = 2; return [1, 2].map(item => item * 2).join() + item; }\nconsole.log(rk21());\n"},
	{"implicit-global-named-like-local", "function rk22a() { var leaky = 1; return leaky; }\nfunction rk22b() { leaky = 5; return 0; }\nconsole.log(rk22a(), rk22b());\n"},
	{"html-comment-like-operators", "function rk23(a, b) { return a < !--b; }\nconsole.log(rk23(1, 2));\n"},
	{"regex-with-quote-after-comma", "function rk24(s) { return s.replace(/\"/g, \"'\"), s.split(/'/).length; }\nconsole.log(rk24(\"a'b\"));\n"},
	{"keyword-like-property-names", "function rk25() { const o = { default: 1, class: 2, new: 3, typeof: 4 }; return o.default + o.class + o.new + o.typeof; }\nconsole.log(rk25());\n"},
}
