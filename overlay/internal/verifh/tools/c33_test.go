package tools

// C33 — minified dashboard JavaScript behaves like the original.
//
// Oracle = Node (the /verif/oracles/c33_driver.js driver): the original and
// javascript.Minify(src, true|false) each run in a fresh vm context with a
// recording console; the logs, the name of any uncaught error and the own
// property names added to the global object must be equal, and the minified
// source must parse. The shipped lib/assets/dashboard/*.js files are minified in
// both modes and parsed (not run).
import (
	"encoding/json"
	"fmt"
	"os"
	"os/exec"
	"path/filepath"
	"reflect"
	"sort"
	"strings"
	"testing"

	"github.com/tucats/ego/internal/util/javascript"
	"github.com/tucats/ego/internal/verifh/vh"
)

type c33Case struct {
	ID       string            `json:"id"`
	Variants map[string]string `json:"variants"`
}

type c33Res struct {
	ParseError *string  `json:"parseError"`
	Log        []string `json:"log"`
	Thrown     *string  `json:"thrown"`
	Globals    []string `json:"globals"`
}

type c33Out struct {
	Node string `json:"node"`
	Run  []struct {
		ID       string            `json:"id"`
		Variants map[string]c33Res `json:"variants"`
	} `json:"run"`
	Parse []struct {
		ID       string            `json:"id"`
		Variants map[string]c33Res `json:"variants"`
	} `json:"parse"`
}

func c33Node(t *testing.T, dir string, run, parse []c33Case, timeoutMs ...int) *c33Out {
	driver := filepath.Join(os.Getenv("VERIF_DIR"), "oracles", "c33_driver.js")
	if _, err := os.Stat(driver); err != nil {
		driver = "/verif/oracles/c33_driver.js"
	}

	in, out := filepath.Join(dir, "batch.json"), filepath.Join(dir, "out.json")
	_ = os.Remove(out)

	doc := map[string]any{"run": run, "parse": parse}
	if len(timeoutMs) > 0 {
		doc["timeoutMs"] = timeoutMs[0]
	}

	b, _ := json.Marshal(doc)
	if err := os.WriteFile(in, b, 0o644); err != nil {
		t.Fatal(err)
	}

	cmd := exec.Command("node", driver, in, out)

	msg, err := cmd.CombinedOutput()
	if err != nil {
		t.Fatalf("node driver failed: %v\n%s", err, msg)
	}

	var res c33Out

	ob, err := os.ReadFile(out)
	if err != nil {
		t.Fatal(err)
	}

	if err := json.Unmarshal(ob, &res); err != nil {
		t.Fatal(err)
	}

	return &res
}

func strp(p *string) string {
	if p == nil {
		return ""
	}

	return *p
}

// c33Diff compares a minified variant with the original; "" = equal.
func c33Diff(orig, min c33Res) (kind, detail string) {
	switch {
	case min.ParseError != nil:
		return "syntax-error", *min.ParseError
	case strp(orig.Thrown) != strp(min.Thrown):
		return "throws", fmt.Sprintf("original threw %q, minified threw %q (log so far %q)", strp(orig.Thrown), strp(min.Thrown), min.Log)
	case !reflect.DeepEqual(orig.Log, min.Log):
		for i := 0; i < len(orig.Log) || i < len(min.Log); i++ {
			var a, b string
			if i < len(orig.Log) {
				a = orig.Log[i]
			}

			if i < len(min.Log) {
				b = min.Log[i]
			}

			if a != b {
				return "log-differs", fmt.Sprintf("log line %d: original %q, minified %q", i, vh.Trunc(a, 200), vh.Trunc(b, 200))
			}
		}
	case !reflect.DeepEqual(orig.Globals, min.Globals):
		return "globals-differ", fmt.Sprintf("global names added: original %v, minified %v", orig.Globals, min.Globals)
	}

	return "", ""
}

func c33Variants(src string) map[string]string {
	return map[string]string{
		"orig":   src,
		"rename": string(javascript.Minify([]byte(src), true)),
		"plain":  string(javascript.Minify([]byte(src), false)),
	}
}

func TestC33(t *testing.T) {
	r := vh.New("C33", "js-engine")
	r.Rule = "generated semicolon-terminated programs (file-scope var/let/const, functions with default parameters, closures, nested scopes and shadowing, object literals with " +
		"shorthand/computed/quoted/numeric keys and spread, object and array destructuring, template literals, regex literals after = ( , return : [ ! && || ? ; { } =>, " +
		"division, ++/--/unary spacing, comments everywhere, locals named like properties, file-scope names and generated short names); about 40% also carry one named risky " +
		"construct appended to the base; distinct = distinct source; non-trivial = at least 8 grammar features and non-empty log"
	r.Assume("Node's vm module is the reference JavaScript engine; scripts are DOM-free (inert document stub), the shipped assets are parsed, not executed")

	if _, err := exec.LookPath("node"); err != nil {
		r.Inconcl("node is not installed: no JavaScript engine to decide with")
		_ = r.Write()
		t.Fatal("node not found: C33 cannot decide anything")
	}

	arena := os.Getenv("VERIF_ARENA")
	if arena == "" {
		arena = t.TempDir()
	}

	arena = filepath.Join(arena, "c33")
	if err := os.MkdirAll(arena, 0o755); err != nil {
		t.Fatal(err)
	}

	// evaluate one executed case; base = the same program without the risky construct ("" if none)
	type pending struct {
		id, src, risky string
		feat           map[string]bool
	}

	evaluate := func(batch []pending) {
		var run []c33Case

		for _, p := range batch {
			run = append(run, c33Case{ID: p.id, Variants: c33Variants(p.src)})
		}

		res := c33Node(t, arena, run, nil)
		r.Count("node.processes", 1)

		srcOf := map[string]map[string]string{}
		for _, c := range run {
			srcOf[c.ID] = c.Variants
		}

		byID := map[string]map[string]c33Res{}
		for _, x := range res.Run {
			byID[x.ID] = x.Variants
		}

		// The per-script watchdog (5 s) may fire on a loaded machine: such cases are run again, alone, with a 2-minute
		// watchdog. Only a script that still does not finish is reported (a minified script that hangs is a finding;
		// an original that hangs is a generator defect).
		var again []c33Case

		for _, c := range run {
			for _, v := range byID[c.ID] {
				if strp(v.Thrown) == "TIMEOUT" {
					again = append(again, c)
					r.Count("watchdog.reruns", 1)

					break
				}
			}
		}

		if len(again) > 0 {
			res2 := c33Node(t, arena, again, nil, 120000)
			for _, x := range res2.Run {
				byID[x.ID] = x.Variants
			}
		}

		baseFailed := map[string]bool{} // "<n>/<mode>" of base programs that failed

		for _, p := range batch {
			v := byID[p.id]
			orig := v["orig"]

			if orig.ParseError != nil || orig.Thrown != nil {
				// generator defect, not a verdict about the minifier
				r.Count("generator.invalid-original", 1)

				if os.Getenv("VERIF_C33_DUMP") != "" {
					_ = os.WriteFile(filepath.Join(arena, "invalid-"+p.id+".js"), []byte(p.src), 0o644)
				}
				r.Inconcl(fmt.Sprintf("generated program %s is not a valid passing program: parse=%q thrown=%q", p.id, strp(orig.ParseError), strp(orig.Thrown)))

				continue
			}

			r.Eval(vh.Hash(p.src), len(p.feat) >= 8 && len(orig.Log) > 0)
			r.Count("programs.executed", 1)
			r.Count("log-lines.compared", int64(len(orig.Log)))

			for f := range p.feat {
				r.Count("feature:"+f, 1)
			}

			if p.risky != "" {
				r.Count("risky:"+p.risky, 1)
			}

			for _, mode := range []string{"rename", "plain"} {
				r.Count("comparisons."+mode, 1)

				kind, detail := c33Diff(orig, v[mode])
				if kind == "" {
					continue
				}

				n := strings.SplitN(p.id, "+", 2)[0]
				key := "base:" + mode + ":" + kind

				switch {
				case p.risky == "":
					baseFailed[n+"/"+mode] = true
				case baseFailed[n+"/"+mode]:
					continue // already reported on the base program
				default:
					key = mode + ":" + p.risky
				}

				r.Violate(vh.Violation{Key: key, Desc: fmt.Sprintf("Minify(src, %v): %s: %s", mode == "rename", kind, detail),
					Case:     map[string]any{"src": p.src, "risky": p.risky, "mode": mode},
					Expected: map[string]any{"log": orig.Log, "globals": orig.Globals},
					Observed: map[string]any{"minified": vh.Trunc(srcOf[p.id][mode], 3000), "log": v[mode].Log, "globals": v[mode].Globals, "thrown": strp(v[mode].Thrown), "parse": strp(v[mode].ParseError)}})
			}
		}
	}

	if rc := vh.ReplayCase(); rc != nil {
		var c struct {
			Src   string `json:"src"`
			Risky string `json:"risky"`
		}

		if err := json.Unmarshal(rc, &c); err != nil {
			t.Fatal(err)
		}

		evaluate([]pending{{id: "replay", src: c.Src, risky: c.Risky, feat: map[string]bool{}}})
		r.Distinct = 2
		_ = r.Write()

		return
	}

	known := vh.KnownKeys("C33")
	avoid := map[string]bool{}

	for k := range known {
		parts := strings.SplitN(k, ":", 2)
		if len(parts) == 2 && (parts[0] == "rename" || parts[0] == "plain") {
			avoid[parts[1]] = true
		}
	}

	// --- probes: every risky construct alone, every run (keeps known findings under test)
	var probes []pending

	for _, rk := range jsRiskyList {
		probes = append(probes, pending{id: "probe-" + rk.Name, src: "var G1 = 1;\n" + rk.Src, risky: rk.Name, feat: map[string]bool{"probe": true}})
		r.Probe("rename:" + rk.Name)
		r.Probe("plain:" + rk.Name)
	}

	evaluate(probes)

	var avoided []string
	for k := range avoid {
		avoided = append(avoided, k)
	}

	sort.Strings(avoided)

	if len(avoided) > 0 {
		r.Note("risky constructs kept out of the generated stream (known findings, exercised by their probes): " + strings.Join(avoided, ", "))
	}

	// --- generated programs
	g := &jsGen{rng: vh.Rand("c33")}
	n := vh.N(400, 20000)

	var allowed []jsRisky

	for _, rk := range jsRiskyList {
		if !avoid[rk.Name] {
			allowed = append(allowed, rk)
		}
	}

	var batch []pending

	for i := 0; i < n; i++ {
		src, feat := g.program()
		id := fmt.Sprintf("%d", i)
		batch = append(batch, pending{id: id, src: src, feat: feat})

		if len(allowed) > 0 && g.chance(40) {
			rk := allowed[g.rng.Intn(len(allowed))]
			f2 := map[string]bool{"risky": true}

			for k := range feat {
				f2[k] = true
			}

			batch = append(batch, pending{id: id + "+" + rk.Name, src: src + rk.Src, risky: rk.Name, feat: f2})
		}

		if i%(n/4+1) == 2 {
			r.Sample(map[string]any{"src": vh.Trunc(src, 700), "minified_rename": vh.Trunc(string(javascript.Minify([]byte(src), true)), 400)})
		}

		if len(batch) >= 200 {
			evaluate(batch)
			batch = nil
		}
	}

	if len(batch) > 0 {
		evaluate(batch)
	}

	// --- shipped assets: minified in both modes must parse
	var parse []c33Case

	if src := os.Getenv("VERIF_EGO_SRC"); src != "" {
		files, _ := filepath.Glob(filepath.Join(src, "lib", "assets", "*", "*.js"))
		for _, f := range files {
			if b, err := os.ReadFile(f); err == nil {
				parse = append(parse, c33Case{ID: filepath.Base(f), Variants: c33Variants(string(b))})
			}
		}
	}

	if len(parse) > 0 {
		res := c33Node(t, arena, nil, parse)

		for _, x := range res.Parse {
			if x.Variants["orig"].ParseError != nil {
				r.Inconcl(fmt.Sprintf("shipped %s does not parse as a classic script: %s", x.ID, *x.Variants["orig"].ParseError))

				continue
			}

			r.Count("shipped-assets.parsed", 1)
			r.Eval("asset:"+x.ID, true)

			for _, mode := range []string{"rename", "plain"} {
				if pe := x.Variants[mode].ParseError; pe != nil {
					r.Violate(vh.Violation{Key: "asset-parse:" + mode + ":" + x.ID, Desc: fmt.Sprintf("shipped %s minified with shortenNames=%v does not parse: %s", x.ID, mode == "rename", *pe),
						Case: map[string]any{"asset": x.ID, "mode": mode}, Expected: "parses", Observed: *pe})
				}
			}
		}
	}

	if r.Counters["programs.executed"] == 0 {
		_ = r.Write()
		t.Fatal("observed nothing")
	}

	if bad := r.Counters["generator.invalid-original"]; bad*20 > r.Counters["programs.executed"] {
		_ = r.Write()
		t.Fatalf("generator produced %d invalid originals out of %d", bad, r.Counters["programs.executed"])
	}

	if err := r.Write(); err != nil {
		t.Fatal(err)
	}
}
