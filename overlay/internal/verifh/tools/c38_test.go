package tools

// C38 — every user-visible message has localized text.
//
// Workload: the constant message keys found with go/parser in the scratch tree
// (arguments of errors.Message, i18n.T/L/M/E/Text/…Lang, ui.Log/WriteLog/Say,
// cli.Option Description/ParmDesc tables) plus every key of defs.ValidSettings.
// Extraction only builds the workload. Verdict: the REAL lookup is executed for
// every key in every shipped language — i18n.Text(lang, fullKey) must return
// non-empty text different from the key (directly or through the documented
// English fallback) and use the same {{placeholder}} names as the English text;
// config.Description(lang, key) must be non-empty; NegotiateLanguage(header)
// must be a shipped language or "".
import (
	"fmt"
	"go/ast"
	"go/parser"
	"go/token"
	"io/fs"
	"os"
	"path/filepath"
	"regexp"
	"sort"
	"strconv"
	"strings"
	"testing"

	"github.com/tucats/ego/internal/cli/config"
	"github.com/tucats/ego/internal/defs"
	"github.com/tucats/ego/internal/errors"
	"github.com/tucats/ego/internal/i18n"
	"github.com/tucats/ego/internal/verifh/vh"
)

// c38Key is one extracted lookup.
type c38Key struct {
	Full   string   // catalog key the real function looks up
	Alt    string   // alternative catalog key (cli option descriptions fall back to "opt."+key)
	Via    string   // entry point
	Raw    string   // the literal in the source
	Origin []string // file:line (first few)
}

const (
	c38I18n   = "github.com/tucats/ego/internal/i18n"
	c38Errors = "github.com/tucats/ego/internal/errors"
	c38UI     = "github.com/tucats/ego/internal/cli/ui"
)

var c38KeyLike = regexp.MustCompile(`^[A-Za-z0-9_\-]+(\.[A-Za-z0-9_\-]+)+$`)

func c38Extract(root string, r *vh.Report) map[string]*c38Key {
	keys := map[string]*c38Key{}
	fset := token.NewFileSet()

	add := func(full, alt, via, raw string, pos token.Pos) {
		id := via + "\x00" + full
		k := keys[id]

		if k == nil {
			k = &c38Key{Full: full, Alt: alt, Via: via, Raw: raw}
			keys[id] = k
		}

		if len(k.Origin) < 3 {
			p := fset.Position(pos)
			rel, _ := filepath.Rel(root, p.Filename)
			k.Origin = append(k.Origin, fmt.Sprintf("%s:%d", rel, p.Line))
		}
	}

	lit := func(e ast.Expr) (string, bool) {
		b, ok := e.(*ast.BasicLit)
		if !ok || b.Kind != token.STRING {
			return "", false
		}

		s, err := strconv.Unquote(b.Value)

		return s, err == nil
	}

	_ = filepath.WalkDir(root, func(path string, d fs.DirEntry, err error) error {
		if err != nil {
			return nil
		}

		if d.IsDir() {
			name := d.Name()
			if name == "verifh" || name == "testdata" || name == ".git" || name == "docs" || name == "node_modules" {
				return filepath.SkipDir
			}

			return nil
		}

		if !strings.HasSuffix(path, ".go") || strings.HasSuffix(path, "_test.go") || strings.HasPrefix(d.Name(), "zz_verif") {
			return nil
		}

		f, perr := parser.ParseFile(fset, path, nil, parser.SkipObjectResolution)
		if perr != nil {
			r.Count("extract.unparsable-files", 1)

			return nil
		}

		r.Count("extract.files", 1)

		// import aliases of the three packages in this file; inside the package itself calls are unqualified
		alias := map[string]string{}

		for _, im := range f.Imports {
			p, _ := strconv.Unquote(im.Path.Value)
			name := filepath.Base(p)

			if im.Name != nil {
				name = im.Name.Name
			}

			switch p {
			case c38I18n, c38Errors, c38UI:
				alias[name] = p
			}
		}

		rel, _ := filepath.Rel(root, filepath.Dir(path))
		self := map[string]string{"internal/i18n": c38I18n, "internal/errors": c38Errors, "internal/cli/ui": c38UI}[filepath.ToSlash(rel)]
		inErrorTable := filepath.ToSlash(rel) == "internal/errors" && d.Name() == "messages.go"

		var optionElt []bool // stack: is the enclosing array literal a list of cli.Option

		isOptionType := func(t ast.Expr) bool {
			switch x := t.(type) {
			case *ast.SelectorExpr:
				return x.Sel.Name == "Option"
			case *ast.Ident:
				return x.Name == "Option"
			}

			return false
		}

		var walk func(n ast.Node) bool

		walk = func(n ast.Node) bool {
			switch x := n.(type) {
			case *ast.CompositeLit:
				isOpt := false

				if x.Type != nil {
					if at, ok := x.Type.(*ast.ArrayType); ok && isOptionType(at.Elt) {
						optionElt = append(optionElt, true)

						for _, e := range x.Elts {
							ast.Inspect(e, walk)
						}

						optionElt = optionElt[:len(optionElt)-1]

						return false
					}

					isOpt = isOptionType(x.Type)
				} else if len(optionElt) > 0 && optionElt[len(optionElt)-1] {
					isOpt = true
				}

				if isOpt {
					// options marked Private never appear in the help output: their description is never looked up
					for _, e := range x.Elts {
						if kv, ok := e.(*ast.KeyValueExpr); ok {
							if name, _ := kv.Key.(*ast.Ident); name != nil && name.Name == "Private" {
								if v, _ := kv.Value.(*ast.Ident); v != nil && v.Name == "true" {
									r.Count("extract.cli.Option-private-skipped", 1)

									return true
								}
							}
						}
					}

					for _, e := range x.Elts {
						kv, ok := e.(*ast.KeyValueExpr)
						if !ok {
							continue
						}

						name, _ := kv.Key.(*ast.Ident)
						s, ok := lit(kv.Value)

						if name == nil || !ok || s == "" {
							continue
						}

						switch name.Name {
						case "Description":
							add(s, "opt."+s, "cli.Option.Description", s, kv.Pos())
						case "ParmDesc":
							// most parameter descriptions are literal text ("table-name", "<type>"); a dotted word is a catalog key
							if strings.Contains(s, ".") && !strings.ContainsAny(s, " <>[]") {
								add(s, "", "cli.Option.ParmDesc", s, kv.Pos())
							} else {
								r.Count("extract.cli.ParmDesc-literal-text", 1)
							}
						}
					}
				}
			case *ast.CallExpr:
				pkg, fn := "", ""

				switch fx := x.Fun.(type) {
				case *ast.SelectorExpr:
					if id, ok := fx.X.(*ast.Ident); ok {
						pkg, fn = alias[id.Name], fx.Sel.Name
					}
				case *ast.Ident:
					pkg, fn = self, fx.Name
				}

				if pkg == "" {
					return true
				}

				arg := func(i int) (string, bool) {
					if i >= len(x.Args) {
						return "", false
					}

					s, ok := lit(x.Args[i])
					if !ok {
						r.Count("extract.dynamic-key-call-sites", 1)
					}

					return s, ok
				}

				switch pkg {
				case c38I18n:
					prefix := map[string]string{"T": "", "Text": "", "TLang": "", "L": "label.", "LLang": "label.", "M": "msg.", "MLang": "msg.", "E": "error.", "ELang": "error."}

					p, known := prefix[fn]
					if !known {
						return true
					}

					idx := 0
					if fn == "Text" || strings.HasSuffix(fn, "Lang") {
						idx = 1
					}

					if s, ok := arg(idx); ok && s != "" {
						add(p+s, "", "i18n."+fn, s, x.Pos())
					}
				case c38Errors:
					if fn != "Message" {
						return true
					}

					if s, ok := arg(0); ok {
						// errors.Message is also used for free text; a key is dotted and has no spaces (the table in messages.go is all keys).
						// Names with the "_" prefix are the interpreter's control-flow signals (_continue, _stop, ...), never shown as text.
						if strings.HasPrefix(s, "_") {
							r.Count("extract.errors.control-signals-skipped", 1)
						} else if inErrorTable || c38KeyLike.MatchString(s) {
							add("error."+strings.TrimPrefix(s, "error."), "", "errors.Message", s, x.Pos())
						} else {
							r.Count("extract.errors.Message-free-text", 1)
						}
					}
				case c38UI:
					switch fn {
					case "Log", "WriteLog":
						if s, ok := arg(1); ok {
							// the rule of ui.FormatLogMessage: dotted, no spaces -> looked up under "log."
							if strings.Count(s, ".") > 0 && !strings.Contains(s, " ") {
								full := s
								if !strings.HasPrefix(s, "log.") {
									full = "log." + s
								}

								add(full, "", "ui."+fn, s, x.Pos())
							} else {
								r.Count("extract.ui.Log-literal-text", 1)
							}
						}
					case "Say", "SayAlways":
						if s, ok := arg(0); ok {
							if c38KeyLike.MatchString(s) {
								add(s, "", "ui."+fn, s, x.Pos())
							} else {
								r.Count("extract.ui.Say-literal-text", 1)
							}
						}
					}
				}
			}

			return true
		}

		ast.Inspect(f, walk)

		return nil
	})

	return keys
}

var c38Placeholder = regexp.MustCompile(`\{\{([^}|]*)(\|[^}]*)?\}\}`)

func c38Placeholders(text string) []string {
	set := map[string]bool{}
	for _, m := range c38Placeholder.FindAllStringSubmatch(text, -1) {
		set[strings.TrimSpace(m[1])] = true
	}

	out := make([]string, 0, len(set))
	for k := range set {
		out = append(out, k)
	}

	sort.Strings(out)

	return out
}

func TestC38(t *testing.T) {
	r := vh.New("C38", "catalog")
	r.Exhaustive = true
	r.Rule = "key corpus = every string constant passed to errors.Message, i18n.T/L/M/E/Text/LLang/MLang/ELang, ui.Log/WriteLog/Say/SayAlways, every cli.Option Description/ParmDesc " +
		"literal (go/parser over the scratch tree, tests excluded) and every key of defs.ValidSettings; case = (catalog key, shipped language); " +
		"distinct = distinct (key, language); every case is non-trivial"
	r.Assume("keys built at run time by concatenation are not in the corpus (counted as extract.dynamic-key-call-sites)")
	r.Assume("a cli.Option description resolves under its own name or under \"opt.\"+name, as cli/help.go looks it up")

	root := os.Getenv("VERIF_EGO_SRC")
	if root == "" {
		t.Fatal("VERIF_EGO_SRC not set")
	}

	// shipped languages = the message files of the tree
	files, _ := filepath.Glob(filepath.Join(root, "internal", "i18n", "languages", "messages_*.txt"))

	var langs []string

	for _, f := range files {
		langs = append(langs, strings.TrimSuffix(strings.TrimPrefix(filepath.Base(f), "messages_"), ".txt"))
	}

	sort.Strings(langs)

	if len(langs) < 2 {
		t.Fatalf("no shipped languages found under %s", root)
	}

	shipped := map[string]bool{}
	for _, l := range langs {
		shipped[l] = true
	}

	r.Note("shipped languages: " + strings.Join(langs, ","))

	if got := i18n.SupportedLanguages(); strings.Join(got, ",") != strings.Join(langs, ",") {
		r.Violate(vh.Violation{Key: "supported-languages-differ", Desc: fmt.Sprintf("i18n.SupportedLanguages() = %v, message files shipped: %v", got, langs), Case: map[string]any{"kind": "supported"},
			Expected: langs, Observed: got})
	}

	lookup := func(lang, full string) (string, bool) {
		text := i18n.Text(lang, full)

		return text, text != full
	}

	checkKey := func(k *c38Key) {
		full := k.Full

		// which catalog key resolves (cli option descriptions have a second chance)
		if _, ok := lookup("en", full); !ok && k.Alt != "" {
			if _, ok2 := lookup("en", k.Alt); ok2 {
				full = k.Alt
			}
		}

		en, enOK := lookup("en", full)
		enPH := c38Placeholders(en)

		for _, lang := range langs {
			r.Eval(k.Via+"|"+k.Full+"|"+lang, true)
			r.Count("lookups", 1)

			text, ok := lookup(lang, full)
			caseDoc := map[string]any{"kind": "key", "via": k.Via, "key": k.Full, "raw": k.Raw, "lang": lang, "origin": k.Origin}

			switch {
			case !ok:
				if lang == "en" || enOK {
					// reported once per key (under the first language that misses)
					r.Violate(vh.Violation{Key: "missing:" + k.Full, Desc: fmt.Sprintf("%s(%q) at %v: no catalog text for %q in %q (the lookup returns the key itself)", k.Via, k.Raw, k.Origin, full, lang),
						Case: caseDoc, Expected: "localized text", Observed: text})
				} else {
					r.Count("missing.repeat-other-language", 1)
				}

				if lang != "en" && !enOK {
					continue
				}
			case text == "":
				r.Violate(vh.Violation{Key: "empty:" + k.Full + ":" + lang, Desc: fmt.Sprintf("%s(%q): catalog text for %q in %q is empty", k.Via, k.Raw, full, lang), Case: caseDoc})
			default:
				if text == en && lang != "en" {
					r.Count("resolved.same-as-english(fallback-or-identical)", 1)
				} else {
					r.Count("resolved.direct", 1)
				}

				if ph := c38Placeholders(text); strings.Join(ph, ",") != strings.Join(enPH, ",") {
					r.Violate(vh.Violation{Key: "placeholders:" + k.Full + ":" + lang, Desc: fmt.Sprintf("%q in %q uses placeholders %v, the English text uses %v", full, lang, ph, enPH),
						Case: caseDoc, Expected: map[string]any{"placeholders": enPH, "text": en}, Observed: map[string]any{"placeholders": ph, "text": text}})
				} else if len(enPH) > 0 {
					r.Count("placeholder-sets.compared", 1)
				}
			}
		}

		// the error table is also exercised through the real error type
		if k.Via == "errors.Message" {
			for _, lang := range langs {
				got := errors.Message(k.Raw).Localize(lang)
				want, _ := lookup(lang, k.Full)
				want = strings.TrimPrefix(want, "error.")
				r.Count("errors.Localize.cross-checks", 1)

				if got == want {
					r.Count("errors.Localize.agrees-with-catalog", 1)
				} else {
					r.Count("errors.Localize.formats-differently", 1) // e.g. user.defined prints only its context; not a verdict
				}
			}
		}
	}

	if rc := vh.ReplayCase(); rc != nil {
		var c struct {
			Kind, Via, Key, Raw, Header string
		}

		if err := jsonUnmarshal(rc, &c); err != nil {
			t.Fatal(err)
		}

		switch c.Kind {
		case "key":
			checkKey(&c38Key{Full: c.Key, Via: c.Via, Raw: c.Raw, Alt: map[bool]string{true: "opt." + c.Raw}[c.Via == "cli.Option.Description"]})
		case "negotiate":
			if got := i18n.NegotiateLanguage(c.Header); got != "" && !shipped[got] {
				r.Violate(vh.Violation{Key: "negotiate:unsupported-result", Desc: fmt.Sprintf("NegotiateLanguage(%q) = %q", vh.Trunc(c.Header, 200), got), Case: map[string]any{"kind": "negotiate", "header": c.Header}})
			}

			r.Eval("h", true)
		}

		r.Distinct = 2
		_ = r.Write()

		return
	}

	// ---- 1. keys found in the source
	keys := c38Extract(root, r)

	ids := make([]string, 0, len(keys))
	for id := range keys {
		ids = append(ids, id)
	}

	sort.Strings(ids)

	for _, id := range ids {
		k := keys[id]
		r.Count("keys.via:"+k.Via, 1)
		checkKey(k)
	}

	r.Count("keys.extracted", int64(len(ids)))

	for i, id := range ids {
		if i%(len(ids)/5+1) == 1 {
			k := keys[id]
			r.Sample(map[string]any{"key": k.Full, "via": k.Via, "origin": k.Origin, "en": i18n.Text("en", k.Full), "fr": i18n.Text("fr", k.Full)})
		}
	}

	// ---- 2. settings descriptions: the real table, the real function
	var settingKeys []string
	for k := range defs.ValidSettings {
		settingKeys = append(settingKeys, k)
	}

	sort.Strings(settingKeys)

	for _, sk := range settingKeys {
		for _, lang := range langs {
			r.Eval("setting|"+sk+"|"+lang, true)
			r.Count("settings.description-lookups", 1)

			if d := config.Description(lang, sk); d == "" {
				if lang == "en" {
					r.Violate(vh.Violation{Key: "missing:config." + sk, Desc: fmt.Sprintf("config.Description(%q, %q) is empty: the setting has no description text", lang, sk),
						Case: map[string]any{"kind": "key", "via": "config.Description", "key": "config." + sk, "raw": sk, "lang": lang}})
				}
			} else if ph, enPH := c38Placeholders(d), c38Placeholders(config.Description("en", sk)); strings.Join(ph, ",") != strings.Join(enPH, ",") {
				r.Violate(vh.Violation{Key: "placeholders:config." + sk + ":" + lang, Desc: fmt.Sprintf("description of %s in %q uses placeholders %v, English %v", sk, lang, ph, enPH),
					Case: map[string]any{"kind": "key", "via": "config.Description", "key": "config." + sk, "raw": sk, "lang": lang}})
			}
		}
	}

	r.Count("settings.keys", int64(len(settingKeys)))

	// ---- 3. language negotiation
	rng := vh.Rand("c38")
	tags := []string{"en", "es", "fr", "ja", "de", "zh", "pt", "xx", "EN", "Fr", "en-US", "fr-CA", "ja-JP", "zh-Hant-TW", "es-419", "*", "", " ", "-", "-en", "en-", "e", "english", "en_US", "i-klingon", "fr;en", "\x00", "日本語", "q=1"}
	qs := []string{"", ";q=1", ";q=0.8", ";q=0", ";q=0.001", ";q=1.5", ";q=-1", ";q=abc", ";q=", "; q=0.5", ";Q=0.9", ";q=0.5;q=0.9", ";level=1", ";", ";q=NaN", ";q=Inf", ";q=1e309"}
	nHeaders := vh.N(20000, 200000)

	for i := 0; i < nHeaders; i++ {
		var parts []string

		n := 1 + rng.Intn(5)
		if i%1000 == 999 {
			n = 5000 // very long header
		}

		for k := 0; k < n; k++ {
			parts = append(parts, tags[rng.Intn(len(tags))]+qs[rng.Intn(len(qs))])
		}

		h := strings.Join(parts, []string{",", ", ", " ,", ",,", " , "}[rng.Intn(5)])
		got := i18n.NegotiateLanguage(h)

		r.Eval("hdr|"+vh.Hash(h), true)
		r.Count("negotiate.headers", 1)

		if got == "" {
			r.Count("negotiate.result-none", 1)
		} else {
			r.Count("negotiate.result:"+got, 1)
		}

		if got != "" && !shipped[got] {
			r.Violate(vh.Violation{Key: "negotiate:unsupported-result", Desc: fmt.Sprintf("NegotiateLanguage(%q) = %q, not a shipped language", vh.Trunc(h, 200), got),
				Case: map[string]any{"kind": "negotiate", "header": h}, Expected: langs, Observed: got})
		}
	}

	if len(ids) < 200 {
		_ = r.Write()
		t.Fatalf("extraction found only %d keys: the workload is not representative", len(ids))
	}

	if err := r.Write(); err != nil {
		t.Fatal(err)
	}
}
