package tools

// C34 — minified CSS keeps the stylesheet's meaning.
//
// Events: token stream (CSS Syntax Level 3, tokenizer in c34_tokenizer_test.go)
// of the input and of javascript.MinifyCSS(input).
// Oracle: after removing comments, collapsing whitespace tokens, dropping ';'
// before '}' and repeated ';' on BOTH sides, the non-whitespace tokens are equal;
// a whitespace token may disappear only where it is not a descendant combinator
// (token merging is already excluded by the equality of the streams); no
// whitespace may appear between two tokens that had none.
import (
	"fmt"
	"math/rand"
	"os"
	"path/filepath"
	"strings"
	"testing"
	"unicode/utf8"

	"github.com/tucats/ego/internal/util/javascript"
	"github.com/tucats/ego/internal/verifh/vh"
)

// cssItem is a non-whitespace, non-comment token with what preceded it.
type cssItem struct {
	Tok      cssTok
	WSBefore bool // whitespace between the previous item and this one
	CBefore  bool // a comment between the previous item and this one
	Selector bool // token belongs to the prelude of a qualified rule (a selector)
}

func cssItems(src string) []cssItem {
	var (
		out   []cssItem
		ws, c bool
	)

	for _, t := range cssTokenize(src) {
		switch t.Kind {
		case "ws":
			ws = true
		case "comment":
			c = true
		default:
			out = append(out, cssItem{Tok: t, WSBefore: ws, CBefore: c})
			ws, c = false, false
		}
	}

	// drop ';' that is followed by ';' or '}' (redundant in CSS; the minifier is allowed to remove them)
	norm := out[:0]

	for i, it := range out {
		if it.Tok.Kind == ";" && i+1 < len(out) && (out[i+1].Tok.Kind == ";" || out[i+1].Tok.Kind == "}") {
			if i+1 < len(out) {
				out[i+1].WSBefore = out[i+1].WSBefore || it.WSBefore
				out[i+1].CBefore = out[i+1].CBefore || it.CBefore
			}

			continue
		}

		norm = append(norm, it)
	}

	cssMarkSelectors(norm)

	return norm
}

// cssMarkSelectors marks the tokens of qualified-rule preludes. Block kinds:
// at top level and inside @media/@supports/@layer/@container/@document blocks a
// prelude that does not start with an at-keyword is a selector; inside
// @keyframes the preludes are keyframe selectors (no combinators) and inside any
// other block tokens are declarations.
func cssMarkSelectors(items []cssItem) {
	type frame struct{ rules bool }

	stack := []frame{{rules: true}}
	start := 0 // first token of the current prelude / declaration

	ruleLists := map[string]bool{"media": true, "supports": true, "layer": true, "container": true, "document": true, "-moz-document": true}

	for i, it := range items {
		switch it.Tok.Kind {
		case "{":
			top := stack[len(stack)-1]
			isAt := start < i && items[start].Tok.Kind == "at"

			if top.rules && !isAt {
				for k := start; k < i; k++ {
					items[k].Selector = true
				}
			}

			stack = append(stack, frame{rules: top.rules && isAt && ruleLists[items[start].Tok.Val]})
			start = i + 1
		case "}":
			if len(stack) > 1 {
				stack = stack[:len(stack)-1]
			}

			start = i + 1
		case ";":
			start = i + 1
		}
	}
}

func cssSame(a, b cssTok) bool {
	if a.Kind != b.Kind {
		return false
	}

	switch a.Kind {
	case "ident", "function", "at", "hash", "dimension", "url":
		return a.Val == b.Val
	}

	return a.Text == b.Text
}

// cssEndsCompound / cssStartsCompound: whitespace between such a pair inside a
// selector is the descendant combinator.
func cssEndsCompound(t cssTok) bool {
	switch t.Kind {
	case "ident", "hash", "]", ")", "dimension", "percentage", "string":
		return true
	case "delim":
		return t.Text == "*"
	}

	return false
}

func cssStartsCompound(t cssTok) bool {
	switch t.Kind {
	case "ident", "hash", "[", ":", "function":
		return true
	case "delim":
		return t.Text == "*" || t.Text == "." || t.Text == "&" || t.Text == "#"
	}

	return false
}

type cssVerdict struct {
	Key      string
	Desc     string
	Expected string
	Observed string
}

func cssDescribe(items []cssItem, i int) string {
	var b strings.Builder

	for k := i - 3; k <= i+2; k++ {
		if k < 0 || k >= len(items) {
			continue
		}

		if items[k].CBefore {
			b.WriteString("/**/")
		}

		if items[k].WSBefore {
			b.WriteString("␠")
		}

		fmt.Fprintf(&b, "<%s %s>", items[k].Tok.Kind, items[k].Tok.Text)
	}

	return b.String()
}

// cssCompare applies the oracle to (input, minified output).
func cssCompare(in, out string) *cssVerdict {
	a, b := cssItems(in), cssItems(out)

	n := len(a)
	if len(b) < n {
		n = len(b)
	}

	for i := 0; i < n; i++ {
		if cssSame(a[i].Tok, b[i].Tok) {
			continue
		}

		class := "other"

		switch {
		case a[i].Tok.Kind == "url" || a[i].Tok.Kind == "badurl" || b[i].Tok.Kind == "url" || b[i].Tok.Kind == "badurl":
			class = "unquoted-url-altered:other"

			switch {
			case strings.Contains(a[i].Tok.Text, "/*"):
				class = "unquoted-url-altered:comment-like-text-removed"
			case strings.Contains(a[i].Tok.Text, ";;") || strings.Contains(a[i].Tok.Text, ";}"):
				class = "unquoted-url-altered:semicolon-removed"
			}
		case a[i].Tok.Kind == "string" || a[i].Tok.Kind == "badstring":
			class = "string-altered"
		case i+1 < len(a) && a[i+1].CBefore && !a[i+1].WSBefore:
			class = "comment-removal-merges-tokens"
		case a[i].CBefore && !a[i].WSBefore:
			class = "comment-removal-merges-tokens"
		case i+1 < len(a) && a[i+1].WSBefore && strings.HasPrefix(b[i].Tok.Text, a[i].Tok.Text):
			class = "whitespace-removal-merges-tokens"
		}

		return &cssVerdict{Key: "tokens-differ:" + class, Desc: fmt.Sprintf("token %d differs: input …%s… output …%s…", i, cssDescribe(a, i), cssDescribe(b, i)),
			Expected: cssDescribe(a, i), Observed: cssDescribe(b, i)}
	}

	if len(a) != len(b) {
		return &cssVerdict{Key: "tokens-differ:length", Desc: fmt.Sprintf("input has %d tokens, output %d; input tail …%s… output tail …%s…", len(a), len(b), cssDescribe(a, n), cssDescribe(b, n)),
			Expected: fmt.Sprint(len(a)), Observed: fmt.Sprint(len(b))}
	}

	for i := 1; i < len(a); i++ {
		switch {
		case b[i].WSBefore && !a[i].WSBefore:
			return &cssVerdict{Key: "whitespace-introduced", Desc: fmt.Sprintf("output has whitespace before token %d where the input had none: input …%s… output …%s…", i, cssDescribe(a, i), cssDescribe(b, i)),
				Expected: cssDescribe(a, i), Observed: cssDescribe(b, i)}
		case a[i].WSBefore && !b[i].WSBefore && a[i].Selector && a[i-1].Selector && cssEndsCompound(a[i-1].Tok) && cssStartsCompound(a[i].Tok):
			return &cssVerdict{Key: "descendant-combinator-removed", Desc: fmt.Sprintf("whitespace that is a descendant combinator was removed before token %d: input …%s… output …%s…", i, cssDescribe(a, i), cssDescribe(b, i)),
				Expected: cssDescribe(a, i), Observed: cssDescribe(b, i)}
		}
	}

	return nil
}

// ---------------------------------------------------------------- generator

type cssGen struct {
	rng   *rand.Rand
	b     strings.Builder
	feat  map[string]bool
	avoid map[string]bool
	last  string // last token text written (for the avoid rule)
}

func (g *cssGen) pick(s ...string) string { return s[g.rng.Intn(len(s))] }
func (g *cssGen) chance(p int) bool       { return g.rng.Intn(100) < p }

func (g *cssGen) wsText() string {
	return g.pick(" ", " ", " ", "  ", "\n", "\n  ", "\t", "\r\n", "\n\n", " \t ", "\f")
}

func (g *cssGen) comment() string {
	g.feat["comment"] = true

	return "/*" + g.pick("", " c ", "x", " } ", " ; ", " \" ", " ' ", "*", " a{b:c} ", "\n multi\n line \n", " url( ", "/", " * / ") + "*/"
}

const (
	sepNone = iota // tokens are adjacent (a bare comment may still be put between them)
	sepOpt         // optional whitespace
	sepReq         // whitespace required
	sepVal         // two component values: whitespace, or (3%) only a comment — "1px/**/-2px" is two tokens
)

// tok writes one token preceded by a separator of the given class.
func (g *cssGen) tok(sep int, text string) {
	s := ""

	if sep == sepVal {
		sep = sepReq

		if g.chance(3) || (text == "(" && g.chance(12)) {
			if c := g.bare(text); c != "" {
				g.feat["comment-as-only-separator"] = true
				g.b.WriteString(c)
				g.b.WriteString(text)
				g.last = text

				return
			}
		}
	}

	switch sep {
	case sepReq:
		s = g.wsText()

		switch g.rng.Intn(10) {
		case 0:
			s = g.wsText() + g.comment() + g.wsText()
		case 1:
			s = g.comment() + g.wsText()
		case 2:
			s = g.wsText() + g.comment()
		}
	case sepOpt:
		switch g.rng.Intn(10) {
		case 0, 1, 2, 3:
			s = ""
		case 4, 5, 6:
			s = g.wsText()
		case 7:
			s = g.wsText() + g.comment() + g.wsText()
		case 8:
			s = g.bare(text)
		case 9:
			s = g.comment() + g.wsText()
		}
	case sepNone:
		if g.chance(4) {
			s = g.bare(text)
		}
	}

	// control and Unicode "spaces" that CSS does NOT treat as white space (vertical tab, NEL, NBSP, LS, ideographic space):
	// put directly between two tokens, or next to real white space. They are a delim token (VT) or name code points.
	if g.chance(2) {
		pseudo := g.pick("\x0b", "\u0085", "\u00a0", "\u2028", "\u3000", "\x0b\x0b")
		g.feat["non-css-whitespace-between-tokens"] = true

		switch sep {
		case sepOpt:
			s = pseudo
		case sepReq:
			s = g.pick(s+pseudo, pseudo+s, s+pseudo+s)
		}
	}

	g.b.WriteString(s)
	g.b.WriteString(text)
	g.last = text
}

// bare returns a comment without surrounding whitespace. With the finding
// "comment-removal-merges-tokens" in the avoid set it does so only where the two
// neighbours stay two tokens when the comment is removed.
func (g *cssGen) bare(next string) string {
	if g.avoid["tokens-differ:comment-removal-merges-tokens"] && g.last != "" {
		joined := cssTokenize(g.last + next)
		alone := append(cssTokenize(g.last), cssTokenize(next)...)

		if len(joined) != len(alone) {
			return ""
		}

		for i := range joined {
			if joined[i].Kind != alone[i].Kind || joined[i].Text != alone[i].Text {
				return ""
			}
		}
	}

	g.feat["bare-comment"] = true

	return g.comment()
}

// uni returns an identifier with multi-byte UTF-8 characters. The set includes characters whose encoding contains the bytes
// 0x85 and 0xA0 (à = C3 A0, Å = C3 85, † = E2 80 A0, NBSP = C2 A0, NEL = C2 85, … = E2 80 A6): a byte-wise white-space test
// that knows Latin-1 or Unicode spaces would cut them in two. To CSS all of them are ordinary name code points.
func (g *cssGen) uni() string {
	g.feat["non-ascii-identifier"] = true

	return g.pick("à", "Å", "†x", "na\u00a0me", "x\u0085y", "日本語", "😀", "naïve", "Ünï-côde", "Ω1", "ça", "pàÅ†", "…more", "élément-à", "\u3000wide", "\u2028ls", "ｆｕｌｌ", "-à", "--Å", "_†")
}

// maybeUni replaces an ASCII name by a non-ASCII one now and then.
func (g *cssGen) maybeUni(name string) string {
	if g.chance(12) {
		return g.uni()
	}

	return name
}

func (g *cssGen) ident() string {
	if g.chance(15) {
		return g.uni()
	}

	id := g.pick("a", "div", "span", "li", "nav", "btn", "card", "row", "x1", "main-header", "_under", "-moz-thing", "--custom", "É", "b", "i")
	if g.chance(3) {
		g.feat["escaped-ident"] = true
		id = g.pick(`sm\:flex`, `w-1\/2`, `a\.b`, `\31 0`, `\31 23`, `c\+d`)
	}

	return id
}

func (g *cssGen) compound() {
	first := true
	sep := func() int {
		if first {
			first = false

			return sepOpt
		}

		return sepNone
	}

	if g.chance(60) {
		g.tok(sepOpt, g.maybeUni(g.pick("a", "div", "span", "li", "ul", "*", "h1", "input", "td", "body", "button")))
		first = false
	}

	n := g.rng.Intn(3)
	if first && n == 0 {
		n = 1
	}

	for k := 0; k < n; k++ {
		switch g.rng.Intn(7) {
		case 0, 1:
			g.tok(sep(), ".")
			g.tok(sepNone, g.ident())
			g.feat["class"] = true
		case 2:
			g.tok(sep(), "#"+g.maybeUni(g.pick("id", "main", "x", "a1", "f00")))
			g.feat["id"] = true
		case 3:
			g.feat["attribute"] = true
			g.tok(sep(), "[")
			g.tok(sepOpt, g.maybeUni(g.pick("type", "href", "data-x", "lang", "class")))

			if g.chance(75) {
				g.tok(sepOpt, g.pick("=", "~=", "|=", "^=", "$=", "*="))

				if g.chance(50) {
					g.tok(sepOpt, g.pick(`"text"`, `'a b'`, `"x]y"`, `"it's"`, `'q"q'`, `"a\"b"`, `"sp  ace"`, `"/*nc*/"`, `"a;}b"`))
					g.feat["attribute-quoted"] = true
				} else {
					g.tok(sepOpt, g.maybeUni(g.pick("text", "en", "x1", "_b")))
					g.feat["attribute-unquoted"] = true
				}

				if g.chance(15) {
					g.tok(sepReq, g.pick("i", "s"))
				}
			}

			g.tok(sepOpt, "]")
		case 4:
			g.feat["pseudo-class"] = true
			g.tok(sep(), ":")
			g.tok(sepNone, g.pick("hover", "focus", "first-child", "last-child", "disabled", "checked", "root", "active"))
		case 5:
			g.feat["pseudo-element"] = true
			g.tok(sep(), ":")
			g.tok(sepNone, ":")
			g.tok(sepNone, g.pick("before", "after", "selection", "placeholder", "first-line"))
		case 6:
			g.feat["pseudo-function"] = true
			g.tok(sep(), ":")

			switch g.rng.Intn(3) {
			case 0:
				g.tok(sepNone, g.pick("nth-child(", "nth-of-type(", "nth-last-child("))

				switch g.rng.Intn(4) {
				case 0:
					g.tok(sepOpt, g.pick("2n", "odd", "even", "3", "-n"))
				case 1:
					g.tok(sepOpt, "2n")
					g.tok(sepReq, "+")
					g.tok(sepReq, "1")
				case 2:
					g.tok(sepOpt, "2n+1")
				case 3:
					g.tok(sepOpt, "-n")
					g.tok(sepReq, "+")
					g.tok(sepReq, "3")
				}

				g.tok(sepOpt, ")")
			case 1:
				g.tok(sepNone, g.pick("not(", "is(", "where(", "has("))
				g.simpleSelectorList()
				g.tok(sepOpt, ")")
			case 2:
				g.tok(sepNone, "lang(")
				g.tok(sepOpt, g.pick("en", "fr", `"de"`))
				g.tok(sepOpt, ")")
			}
		}
	}
}

func (g *cssGen) simpleSelectorList() {
	n := 1 + g.rng.Intn(2)
	for k := 0; k < n; k++ {
		if k > 0 {
			g.tok(sepOpt, ",")
		}

		g.tok(sepOpt, g.pick(".", "#x", "a", "li", "*", ":hover"))

		if g.last == "." {
			g.tok(sepNone, g.ident())
		}
	}
}

func (g *cssGen) selector() {
	n := 1 + g.rng.Intn(3)
	for k := 0; k < n; k++ {
		if k > 0 {
			switch g.rng.Intn(5) {
			case 0, 1:
				g.feat["descendant"] = true
				// the compound's first token carries the required whitespace
				g.b.WriteString(g.pick(" ", "  ", "\n", " \t", "\n   ", " /* d */ ", "/* d */ ", " /* d */"))
				g.last = ""
			case 2:
				g.feat["child"] = true
				g.tok(sepOpt, ">")
			case 3:
				g.feat["adjacent"] = true
				g.tok(sepOpt, "+")
			case 4:
				g.feat["sibling"] = true
				g.tok(sepOpt, "~")
			}
		}

		g.compound()
	}
}

func (g *cssGen) selectorList() {
	n := 1 + g.rng.Intn(3)
	for k := 0; k < n; k++ {
		if k > 0 {
			g.tok(sepOpt, ",")
		}

		g.selector()
	}
}

func (g *cssGen) number() string {
	return g.pick("0", "1", "10", ".5", "0.25", "-1", "+2", "-.5", "1e3", "100", "16")
}

func (g *cssGen) dimension() string {
	return g.number() + g.pick("px", "em", "rem", "%", "vh", "s", "ms", "deg", "fr", "pt")
}

// value writes one component value; first says the separator to use before it.
func (g *cssGen) component(sep int, depth int) {
	switch x := g.rng.Intn(16); {
	case x < 3:
		g.tok(sep, g.pick("red", "auto", "none", "inherit", "solid", "bold", "center", "no-repeat", "sans-serif", "flex", "block", "transparent"))
	case x < 5:
		g.tok(sep, g.number())
	case x < 8:
		g.tok(sep, g.dimension())
	case x == 8:
		g.tok(sep, "#"+g.pick("fff", "000000", "a1b2c3", "f00", "1e3", "00ff"))
		g.feat["hash-color"] = true
	case x == 9:
		g.tok(sep, g.pick(`"Helvetica Neue"`, `'x'`, `""`, `"a\"b"`, `"\201C"`, `'it\'s'`, `"semi;colon"`, `"br}ace{"`, `"/* not a comment */"`, `"two  spaces"`, "\"line\\\ncontinued\"", `"\\"`))
		g.feat["string"] = true
	case x == 10:
		g.feat["url"] = true

		if g.chance(50) {
			g.feat["url-quoted"] = true
			// only whitespace may stand between "url(" and the quote (anything else starts an unquoted url token)
			g.tok(sep, "url("+g.pick("", "", " ", "\n", "  ")+g.pick(`"img.png"`, `'a b.png'`, `"data:image/png;base64,AAAA=="`, `"x)y"`, `"p/*q*/r;;s.png"`))
			g.tok(sepOpt, ")")
		} else {
			g.feat["url-unquoted"] = true
			body := g.pick("img.png", "/a/b/c.svg", "data:image/png;base64,iVBORw0KGgo=", "http://example.com/x?y=1&z=2", "../fonts/f.woff2#iefix", "a\\ b.png", "x,y.png")
			pad := g.pick("", "", " ", "  ", "\n")

			if g.chance(8) {
				var special []string
				if !g.avoid["tokens-differ:unquoted-url-altered:semicolon-removed"] {
					special = append(special, "a;;b.png", "x;}.png")
				}

				if !g.avoid["tokens-differ:unquoted-url-altered:comment-like-text-removed"] {
					special = append(special, "p/*q*/r.png")
				}

				if len(special) > 0 {
					body = g.pick(special...)
					g.feat["url-unquoted-special"] = true
				}
			}

			g.tok(sep, "url("+pad+body+pad+")")
		}
	case x == 11 && depth < 2:
		g.feat["calc"] = true
		g.tok(sep, g.pick("calc(", "min(", "max(", "clamp("))
		g.component(sepOpt, depth+1)

		for k := g.rng.Intn(3); k > 0; k-- {
			if g.last == "calc(" || g.chance(60) {
				op := g.pick("+", "-", "*", "/")
				g.tok(sepReq, op)
				g.component(sepReq, depth+1)
			} else {
				g.tok(sepOpt, ",")
				g.component(sepOpt, depth+1)
			}
		}

		g.tok(sepOpt, ")")
	case x == 12 && depth < 2:
		g.feat["function"] = true
		g.tok(sep, g.pick("rgb(", "rgba(", "hsl(", "translate(", "linear-gradient(", "var(", "attr("))

		if g.last == "var(" {
			g.tok(sepOpt, g.pick("--x", "--main-color", "--a-b", "--größe", "--🎨", "--Å", "--à\u00a0b"))

			if g.chance(40) {
				g.tok(sepOpt, ",")
				g.component(sepOpt, depth+1)
			}
		} else {
			n := 1 + g.rng.Intn(4)
			for k := 0; k < n; k++ {
				if k > 0 {
					if g.chance(80) {
						g.tok(sepOpt, ",")
						g.component(sepOpt, depth+1)
					} else {
						g.component(sepVal, depth+1)
					}
				} else {
					g.component(sepOpt, depth+1)
				}
			}
		}

		g.tok(sepOpt, ")")
	case x == 13:
		g.tok(sep, g.number())
		g.tok(sepOpt, "/")
		g.tok(sepOpt, g.dimension())
		g.feat["slash"] = true
	default:
		g.tok(sep, g.pick("0", "auto", "1px", "100%", "inherit"))
	}
}

func (g *cssGen) declaration() {
	if g.chance(12) {
		g.feat["custom-property"] = true
		g.tok(sepOpt, g.pick("--x", "--main-color", "--a-b", "--Empty", "--größe", "--🎨", "--Å", "--à\u00a0b", "--†"))
		g.tok(sepOpt, ":")

		switch g.rng.Intn(4) {
		case 0:
			open := g.pick("{", "[")
			g.tok(sepOpt, open)
			g.component(sepOpt, 1)
			g.tok(sepOpt, map[string]string{"{": "}", "[": "]"}[open])
		case 1:
			// an empty custom property value (just whitespace)
			g.b.WriteString(" ")
		default:
			g.component(sepOpt, 0)

			for k := g.rng.Intn(3); k > 0; k-- {
				g.component(sepVal, 0)
			}
		}

		return
	}

	if g.chance(10) {
		// unquoted family / animation names: a list of identifiers, several of them non-ASCII
		g.feat["unquoted-names-value"] = true
		g.tok(sepOpt, g.pick("font-family", "animation-name", "font", "animation"))
		g.tok(sepOpt, ":")
		g.tok(sepOpt, g.uni())

		for k := g.rng.Intn(3); k > 0; k-- {
			if g.chance(50) {
				g.tok(sepOpt, ",")
				g.tok(sepOpt, g.maybeUni(g.pick("serif", "Helvetica", "spin")))
			} else {
				g.tok(sepVal, g.maybeUni(g.pick("Sans", "Neue", "x")))
			}
		}

		return
	}

	g.tok(sepOpt, g.pick("color", "margin", "padding", "font", "background", "border", "width", "display", "content", "transition", "grid-area", "-webkit-box-shadow", "font-family", "transform"))
	g.tok(sepOpt, ":")
	g.component(sepOpt, 0)

	for k := g.rng.Intn(4); k > 0; k-- {
		if g.chance(20) {
			g.tok(sepOpt, ",")
			g.component(sepOpt, 0)
		} else {
			g.component(sepVal, 0)
		}
	}

	if g.chance(12) {
		g.feat["important"] = true
		g.tok(sepOpt, "!")
		g.tok(sepOpt, "important")
	}
}

func (g *cssGen) block() {
	g.tok(sepOpt, "{")

	n := g.rng.Intn(5)
	for k := 0; k < n; k++ {
		g.declaration()

		if k < n-1 || g.chance(70) {
			g.tok(sepOpt, ";")

			if g.chance(8) {
				g.feat["repeated-semicolon"] = true
				g.tok(sepOpt, ";")
			}
		}
	}

	g.tok(sepOpt, "}")
}

func (g *cssGen) rule() {
	g.selectorList()
	g.block()
	g.feat["rule"] = true
}

func (g *cssGen) mediaQuery() {
	if g.chance(50) {
		g.tok(sepReq, g.pick("screen", "print", "all", "only screen", "not print"))

		if g.chance(50) {
			return
		}

		g.tok(sepReq, "and")
	}

	n := 1 + g.rng.Intn(2)
	for k := 0; k < n; k++ {
		if k > 0 {
			g.tok(sepReq, g.pick("and", "and", "or"))
		}

		g.tok(sepVal, "(") // now and then only a comment separates the keyword from "("
		g.tok(sepOpt, g.pick("min-width", "max-width", "orientation", "prefers-color-scheme", "-webkit-min-device-pixel-ratio"))

		if g.chance(85) {
			g.tok(sepOpt, ":")
			g.tok(sepOpt, g.pick("600px", "40em", "landscape", "dark", "2", "1.5"))
		}

		g.tok(sepOpt, ")")
	}
}

func (g *cssGen) atRule(depth int) {
	g.feat["at-rule"] = true

	switch x := g.rng.Intn(8); {
	case x == 0:
		g.tok(sepOpt, "@charset")
		g.tok(sepReq, `"utf-8"`)
		g.tok(sepOpt, ";")
	case x == 1:
		g.tok(sepOpt, "@import")

		if g.chance(50) {
			g.tok(sepReq, g.pick(`"theme.css"`, `'a b.css'`))
		} else {
			g.tok(sepReq, "url("+g.pick("theme.css", "//cdn.example.com/x.css")+")")
		}

		if g.chance(50) {
			g.mediaQuery()
		}

		g.tok(sepOpt, ";")
	case x <= 3 && depth < 2:
		g.feat["at-media"] = true
		g.tok(sepOpt, "@media")
		g.mediaQuery()

		if g.chance(25) {
			g.tok(sepOpt, ",")
			g.mediaQuery()
		}

		g.tok(sepOpt, "{")

		for k := g.rng.Intn(3); k > 0; k-- {
			g.rule()
		}

		g.tok(sepOpt, "}")
	case x == 4 && depth < 2:
		g.feat["at-supports"] = true
		g.tok(sepOpt, "@supports")

		if g.chance(30) {
			g.tok(sepReq, "not")
		}

		g.tok(sepVal, "(") // now and then only a comment separates the keyword from "("
		g.tok(sepOpt, g.pick("display", "position", "--x"))
		g.tok(sepOpt, ":")
		g.tok(sepOpt, g.pick("grid", "sticky", "0"))
		g.tok(sepOpt, ")")
		g.tok(sepOpt, "{")

		if g.chance(30) {
			g.atRule(depth + 1)
		}

		g.rule()
		g.tok(sepOpt, "}")
	case x == 5:
		g.feat["at-font-face"] = true
		g.tok(sepOpt, g.pick("@font-face", "@page", "@page :first"))
		g.block()
	case x == 6:
		g.feat["at-keyframes"] = true
		g.tok(sepOpt, g.pick("@keyframes", "@-webkit-keyframes"))
		g.tok(sepReq, g.maybeUni(g.pick("spin", "fade-in", "x")))
		g.tok(sepOpt, "{")

		for _, sel := range []string{g.pick("from", "0%"), g.pick("50%", "33.3%"), g.pick("to", "100%")} {
			if g.chance(80) {
				g.tok(sepOpt, sel)

				if g.chance(20) {
					g.tok(sepOpt, ",")
					g.tok(sepOpt, "75%")
				}

				g.block()
			}
		}

		g.tok(sepOpt, "}")
	default:
		g.rule()
	}
}

func (g *cssGen) stylesheet() (string, map[string]bool) {
	g.b.Reset()
	g.feat = map[string]bool{}
	g.last = ""

	n := 1 + g.rng.Intn(6)
	for k := 0; k < n; k++ {
		if g.chance(25) {
			g.atRule(0)
		} else {
			g.rule()
		}

		if g.chance(30) {
			g.b.WriteString(g.pick("\n", "\n\n", " ", "\r\n"))
			g.last = ""
		}

		if g.chance(15) {
			g.b.WriteString(g.comment())
			g.b.WriteString(g.pick("\n", "", " "))
		}
	}

	return g.b.String(), g.feat
}

var c34Probes = map[string]string{
	"tokens-differ:comment-removal-merges-tokens":                  "a{margin:1px/**/-2px}",
	"tokens-differ:unquoted-url-altered:semicolon-removed":         "a{background:url(a;;b.png)}",
	"tokens-differ:unquoted-url-altered:comment-like-text-removed": "a{background:url(//cdn.example.com/*.png)}",
}

func TestC34(t *testing.T) {
	r := vh.New("C34", "css-tokens")
	r.Rule = "stylesheets generated from a selector/declaration/at-rule grammar (combinators, pseudo-classes/elements/functions, quoted and unquoted attribute values, " +
		"@media/@supports/@import/@charset/@font-face/@page/@keyframes, calc()/min()/var()/rgb(), quoted and unquoted url(), strings with escapes and line continuation, " +
		"!important, custom properties; non-ASCII identifiers in every name position incl. characters encoded with the bytes 0x85/0xA0, and VT/NEL/NBSP/LS between tokens) " +
		"with optional/required whitespace, CR/LF/FF and comments put between any two tokens; plus the shipped dashboard CSS; " +
		"distinct = distinct source text; non-trivial = at least one rule and four grammar features"
	r.Assume("the monitor's tokenizer implements CSS Syntax Module Level 3 §4 (checked against hand-written cases in TestC34Tokenizer)")

	check := func(src string, feat map[string]bool, origin string) {
		out := string(javascript.MinifyCSS([]byte(src)))
		r.Eval(vh.Hash(src), feat["rule"] && len(feat) >= 4)
		r.Count("stylesheets", 1)
		r.Count("tokens.compared", int64(len(cssItems(src))))
		r.Count("bytes.in", int64(len(src)))
		r.Count("bytes.out", int64(len(out)))

		for f := range feat {
			r.Count("feature:"+f, 1)
		}

		if utf8.ValidString(src) {
			r.Count("utf8.valid-inputs", 1)

			if !utf8.ValidString(out) {
				r.Violate(vh.Violation{Key: "invalid-utf8-output", Desc: origin + ": the input is valid UTF-8, the minified output is not", Case: map[string]any{"css": src},
					Expected: "valid UTF-8", Observed: map[string]any{"minified": vh.Trunc(out, 2000)}})
			}
		}

		if v := cssCompare(src, out); v != nil {
			r.Violate(vh.Violation{Key: v.Key, Desc: origin + ": " + v.Desc, Case: map[string]any{"css": src}, Expected: v.Expected, Observed: map[string]any{"tokens": v.Observed, "minified": vh.Trunc(out, 2000)}})
		}
	}

	if rc := vh.ReplayCase(); rc != nil {
		var c struct {
			CSS string `json:"css"`
		}

		if err := jsonUnmarshal(rc, &c); err != nil {
			t.Fatal(err)
		}

		check(c.CSS, map[string]bool{"rule": true, "replay": true, "a": true, "b": true}, "replay")
		r.Distinct = 2
		_ = r.Write()

		return
	}

	known := vh.KnownKeys("C34")
	g := &cssGen{rng: vh.Rand("c34"), avoid: known}

	for k := range known {
		r.Note("generator avoids the construct of known finding " + k + "; it stays under test through its probe")
	}

	for key, src := range c34Probes {
		r.Probe(key)
		check(src, map[string]bool{"rule": true, "probe": true, "comment": true, "x": true}, "probe")
	}

	// shipped stylesheets
	if src := os.Getenv("VERIF_EGO_SRC"); src != "" {
		files, _ := filepath.Glob(filepath.Join(src, "lib", "assets", "*", "*.css"))
		more, _ := filepath.Glob(filepath.Join(src, "lib", "assets", "*.css"))

		for _, f := range append(files, more...) {
			if b, err := os.ReadFile(f); err == nil {
				check(string(b), map[string]bool{"rule": true, "shipped": true, "comment": true, "at-rule": true}, "shipped "+filepath.Base(f))
				r.Count("shipped-files", 1)
			}
		}
	}

	n := vh.N(3000, 200000)
	for i := 0; i < n; i++ {
		src, feat := g.stylesheet()
		check(src, feat, "generated")

		if i%(n/5+1) == 7 {
			r.Sample(map[string]any{"css": vh.Trunc(src, 400), "minified": vh.Trunc(string(javascript.MinifyCSS([]byte(src))), 300)})
		}
	}

	if r.Counters["stylesheets"] == 0 {
		t.Fatal("observed nothing")
	}

	if err := r.Write(); err != nil {
		t.Fatal(err)
	}
}

// TestC34Tokenizer pins the monitor's tokenizer to cases worked out by hand from the specification.
func TestC34Tokenizer(t *testing.T) {
	cases := map[string]string{
		"a b":                  "ident ws ident",
		"a/**/b":               "ident comment ident",
		"1px-2px":              "dimension",
		"1px -2px":             "dimension ws dimension",
		"1px - 2px":            "dimension ws delim ws dimension",
		"and(":                 "function",
		"and (":                "ident ws (",
		"url(a b)":             "badurl",
		"url( a )":             "url",
		"url( 'a' )":           "function ws string ws )",
		"url(a;;b)":            "url",
		"#fff":                 "hash",
		"# fff":                "delim ws ident",
		"#1e3":                 "hash",
		".5em":                 "dimension",
		". 5em":                "delim ws dimension",
		"a.b":                  "ident delim ident",
		"-moz-x":               "ident",
		"--x":                  "ident",
		"-->":                  "cdc",
		"<!--":                 "cdo",
		"@media":               "at",
		"@ media":              "delim ws ident",
		"10%":                  "percentage",
		"1e3":                  "number",
		"1e3x":                 "dimension",
		"2n+1":                 "dimension number",
		"+2":                   "number",
		"+ 2":                  "delim ws number",
		`"a\"b"`:               "string",
		"\"a\nb\"":             "badstring ws ident string",
		"\"a\\\nb\"":           "string",
		`\31 0`:                "ident",
		`sm\:flex`:             "ident",
		"!important":           "delim ident",
		"a:hover":              "ident : ident",
		"a{b:c;}":              "ident { ident : ident ; }",
		"U+0025-00FF":          "ident number dimension",
		"/* unterminated":      "comment",
		"a/*x*/:/*y*/hover":    "ident comment : comment ident",
		"[type=\"a]\"]":        "[ ident delim string ]",
		"rgb(1,2,3)":           "function number , number , number )",
		"É":                    "ident",
		"\\":                   "delim",
		"url(data:x;base64,A)": "url",
	}

	for src, want := range cases {
		var kinds []string
		for _, tk := range cssTokenize(src) {
			kinds = append(kinds, tk.Kind)
		}

		if got := strings.Join(kinds, " "); got != want {
			t.Errorf("tokenize(%q) = %s, want %s", src, got, want)
		}
	}
}
