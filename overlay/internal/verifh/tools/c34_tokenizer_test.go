package tools

// A CSS Syntax Module Level 3 (§4 Tokenization) tokenizer, written for the C34
// monitor. It works on bytes; every byte >= 0x80 is a (part of a) non-ASCII
// name code point, which is exactly how the specification classes them.
import "strings"

type cssTok struct {
	Kind string // ws comment ident function at hash string badstring url badurl delim number percentage dimension cdo cdc : ; , [ ] ( ) { }
	Text string // raw source text
	Val  string // comparison value: decoded name for ident-like tokens, trimmed body for url, raw text otherwise
}

func cssNL(b byte) bool    { return b == '\n' || b == '\r' || b == '\f' }
func cssWS(b byte) bool    { return cssNL(b) || b == ' ' || b == '\t' }
func cssDigit(b byte) bool { return b >= '0' && b <= '9' }
func cssHex(b byte) bool   { return cssDigit(b) || (b >= 'a' && b <= 'f') || (b >= 'A' && b <= 'F') }
func cssNameStart(b byte) bool {
	return (b >= 'a' && b <= 'z') || (b >= 'A' && b <= 'Z') || b == '_' || b >= 0x80
}
func cssName(b byte) bool { return cssNameStart(b) || cssDigit(b) || b == '-' }

type cssLexer struct {
	s string
	i int
}

func (l *cssLexer) at(k int) byte {
	if l.i+k < len(l.s) {
		return l.s[l.i+k]
	}

	return 0
}

func (l *cssLexer) has(k int) bool { return l.i+k < len(l.s) }

func (l *cssLexer) validEscapeAt(k int) bool {
	return l.has(k) && l.at(k) == '\\' && l.has(k+1) && !cssNL(l.at(k+1))
}

func (l *cssLexer) startsIdentAt(k int) bool {
	if !l.has(k) {
		return false
	}

	c := l.at(k)

	switch {
	case c == '-':
		return (l.has(k+1) && (cssNameStart(l.at(k+1)) || l.at(k+1) == '-')) || l.validEscapeAt(k+1)
	case cssNameStart(c):
		return true
	case c == '\\':
		return l.validEscapeAt(k)
	}

	return false
}

func (l *cssLexer) startsNumberAt(k int) bool {
	if !l.has(k) {
		return false
	}

	c := l.at(k)

	switch {
	case c == '+' || c == '-':
		if l.has(k+1) && cssDigit(l.at(k+1)) {
			return true
		}

		return l.has(k+2) && l.at(k+1) == '.' && cssDigit(l.at(k+2))
	case c == '.':
		return l.has(k+1) && cssDigit(l.at(k+1))
	}

	return cssDigit(c)
}

// consumeEscape consumes an escape whose backslash has already been consumed and
// returns the decoded bytes.
func (l *cssLexer) consumeEscape() string {
	if !l.has(0) {
		return "�"
	}

	if cssHex(l.at(0)) {
		v, n := 0, 0
		for n < 6 && l.has(0) && cssHex(l.at(0)) {
			c := l.at(0)

			switch {
			case cssDigit(c):
				v = v*16 + int(c-'0')
			case c >= 'a':
				v = v*16 + int(c-'a'+10)
			default:
				v = v*16 + int(c-'A'+10)
			}

			l.i++
			n++
		}

		if l.has(0) && cssWS(l.at(0)) {
			if l.at(0) == '\r' && l.at(1) == '\n' {
				l.i++
			}

			l.i++
		}

		if v == 0 || v > 0x10FFFF || (v >= 0xD800 && v <= 0xDFFF) {
			return "�"
		}

		return string(rune(v))
	}

	c := l.at(0)
	l.i++

	return string([]byte{c})
}

func (l *cssLexer) consumeName() string {
	var b strings.Builder

	for l.has(0) {
		switch {
		case cssName(l.at(0)):
			b.WriteByte(l.at(0))
			l.i++
		case l.validEscapeAt(0):
			l.i++
			b.WriteString(l.consumeEscape())
		default:
			return b.String()
		}
	}

	return b.String()
}

func (l *cssLexer) consumeNumber() {
	if l.at(0) == '+' || l.at(0) == '-' {
		l.i++
	}

	for l.has(0) && cssDigit(l.at(0)) {
		l.i++
	}

	if l.at(0) == '.' && l.has(1) && cssDigit(l.at(1)) {
		l.i += 2
		for l.has(0) && cssDigit(l.at(0)) {
			l.i++
		}
	}

	if l.at(0) == 'e' || l.at(0) == 'E' {
		k := 1
		if l.at(1) == '+' || l.at(1) == '-' {
			k = 2
		}

		if l.has(k) && cssDigit(l.at(k)) {
			l.i += k
			for l.has(0) && cssDigit(l.at(0)) {
				l.i++
			}
		}
	}
}

func (l *cssLexer) numeric(start int) cssTok {
	l.consumeNumber()
	num := l.s[start:l.i]

	switch {
	case l.startsIdentAt(0):
		unit := l.consumeName()

		return cssTok{Kind: "dimension", Text: l.s[start:l.i], Val: num + "|" + unit}
	case l.at(0) == '%' && l.has(0):
		l.i++

		return cssTok{Kind: "percentage", Text: l.s[start:l.i], Val: num + "%"}
	}

	return cssTok{Kind: "number", Text: num, Val: num}
}

func (l *cssLexer) consumeURL(start int) cssTok {
	for l.has(0) && cssWS(l.at(0)) {
		l.i++
	}

	var b strings.Builder

	bad := func() cssTok {
		// consume the remnants of a bad url
		for l.has(0) {
			if l.at(0) == ')' {
				l.i++

				break
			}

			if l.validEscapeAt(0) {
				l.i++
				l.consumeEscape()

				continue
			}

			l.i++
		}

		return cssTok{Kind: "badurl", Text: l.s[start:l.i], Val: l.s[start:l.i]}
	}

	for {
		if !l.has(0) {
			return cssTok{Kind: "url", Text: l.s[start:l.i], Val: b.String()}
		}

		c := l.at(0)

		switch {
		case c == ')':
			l.i++

			return cssTok{Kind: "url", Text: l.s[start:l.i], Val: b.String()}
		case cssWS(c):
			for l.has(0) && cssWS(l.at(0)) {
				l.i++
			}

			if !l.has(0) || l.at(0) == ')' {
				if l.has(0) {
					l.i++
				}

				return cssTok{Kind: "url", Text: l.s[start:l.i], Val: b.String()}
			}

			return bad()
		case c == '"' || c == '\'' || c == '(' || c <= 8 || c == 0x0B || (c >= 0x0E && c <= 0x1F) || c == 0x7F:
			return bad()
		case c == '\\':
			if l.validEscapeAt(0) {
				l.i++
				b.WriteString(l.consumeEscape())
			} else {
				return bad()
			}
		default:
			b.WriteByte(c)
			l.i++
		}
	}
}

func (l *cssLexer) identLike(start int) cssTok {
	name := l.consumeName()

	if strings.EqualFold(name, "url") && l.at(0) == '(' && l.has(0) {
		l.i++
		// while the next two code points are whitespace, consume one
		for l.has(1) && cssWS(l.at(0)) && cssWS(l.at(1)) {
			l.i++
		}

		if l.at(0) == '"' || l.at(0) == '\'' || (cssWS(l.at(0)) && l.has(1) && (l.at(1) == '"' || l.at(1) == '\'')) {
			return cssTok{Kind: "function", Text: l.s[start:l.i], Val: strings.ToLower(name)}
		}

		return l.consumeURL(start)
	}

	if l.at(0) == '(' && l.has(0) {
		l.i++

		return cssTok{Kind: "function", Text: l.s[start:l.i], Val: name}
	}

	return cssTok{Kind: "ident", Text: l.s[start:l.i], Val: name}
}

func (l *cssLexer) next() cssTok {
	start := l.i
	c := l.at(0)

	simple := func(kind string, n int) cssTok {
		l.i += n

		return cssTok{Kind: kind, Text: l.s[start:l.i], Val: l.s[start:l.i]}
	}

	switch {
	case c == '/' && l.at(1) == '*' && l.has(1):
		l.i += 2
		for l.has(0) && !(l.at(0) == '*' && l.at(1) == '/' && l.has(1)) {
			l.i++
		}

		if l.has(0) {
			l.i += 2
		}

		return cssTok{Kind: "comment", Text: l.s[start:l.i]}
	case cssWS(c):
		for l.has(0) && cssWS(l.at(0)) {
			l.i++
		}

		return cssTok{Kind: "ws", Text: l.s[start:l.i], Val: " "}
	case c == '"' || c == '\'':
		l.i++

		for {
			if !l.has(0) {
				return cssTok{Kind: "string", Text: l.s[start:l.i], Val: l.s[start:l.i]}
			}

			d := l.at(0)

			switch {
			case d == c:
				l.i++

				return cssTok{Kind: "string", Text: l.s[start:l.i], Val: l.s[start:l.i]}
			case cssNL(d):
				return cssTok{Kind: "badstring", Text: l.s[start:l.i], Val: l.s[start:l.i]}
			case d == '\\':
				l.i++

				if !l.has(0) {
					continue
				}

				if cssNL(l.at(0)) {
					if l.at(0) == '\r' && l.at(1) == '\n' {
						l.i++
					}

					l.i++
				} else {
					l.consumeEscape()
				}
			default:
				l.i++
			}
		}
	case c == '#':
		if (l.has(1) && cssName(l.at(1))) || l.validEscapeAt(1) {
			l.i++
			name := l.consumeName()

			return cssTok{Kind: "hash", Text: l.s[start:l.i], Val: name}
		}

		return simple("delim", 1)
	case c == '(' || c == ')' || c == ',' || c == ':' || c == ';' || c == '[' || c == ']' || c == '{' || c == '}':
		return simple(string([]byte{c}), 1)
	case c == '+' || c == '.':
		if l.startsNumberAt(0) {
			return l.numeric(start)
		}

		return simple("delim", 1)
	case c == '-':
		switch {
		case l.startsNumberAt(0):
			return l.numeric(start)
		case l.at(1) == '-' && l.at(2) == '>' && l.has(2):
			return simple("cdc", 3)
		case l.startsIdentAt(0):
			return l.identLike(start)
		}

		return simple("delim", 1)
	case c == '<':
		if l.has(3) && l.s[l.i:l.i+4] == "<!--" {
			return simple("cdo", 4)
		}

		return simple("delim", 1)
	case c == '@':
		if l.startsIdentAt(1) {
			l.i++
			name := l.consumeName()

			return cssTok{Kind: "at", Text: l.s[start:l.i], Val: strings.ToLower(name)}
		}

		return simple("delim", 1)
	case c == '\\':
		if l.validEscapeAt(0) {
			return l.identLike(start)
		}

		return simple("delim", 1)
	case cssDigit(c):
		return l.numeric(start)
	case cssNameStart(c):
		return l.identLike(start)
	}

	return simple("delim", 1)
}

// cssTokenize returns the token stream of src (comments and whitespace included).
func cssTokenize(src string) []cssTok {
	l := &cssLexer{s: src}

	var out []cssTok

	for l.i < len(l.s) {
		before := l.i
		t := l.next()

		if l.i == before { // cannot happen; guards against an endless loop in the monitor itself
			l.i++
		}

		out = append(out, t)
	}

	return out
}
