package tools

// C36 — langlint rewrites are crash-safe.
//
// Instrument: strace as a kernel-level crash injector on the REAL langlint binary.
//   1. An uninjected traced run of a rewrite lists, in order, every file-system
//      system call that touches the message directory (the crash-point set).
//   2. For every such call k the binary is re-run on a fresh copy of the
//      directory and SIGKILLed on entry to that call (strace -e inject=...:when=N;
//      the kernel aborts the call, so the state is exactly "k-1 calls completed").
//      Which call was really hit is read from the injected run's own trace,
//      never assumed; an injection that did not fire is retried, never counted.
//   3. Oracle after the kill: the message path (resolved through a link) holds
//      exactly the original or exactly the formatted bytes.
//   4. Crash-then-rerun histories: from the state the kill left, the message
//      file is left alone / replaced by shorter content / replaced by longer
//      content, langlint runs again to completion (uninjected): the path must hold
//      exactly Format(content before that run) (reference = the real binary on a
//      pristine directory), the directory must hold its initial names only (no
//      temporary or backup file, stale ones included; unrelated files untouched,
//      byte for byte), and a third run must report no change.
import (
	"bytes"
	"fmt"
	"os"
	"os/exec"
	"path/filepath"
	"regexp"
	"sort"
	"strconv"
	"strings"
	"sync"
	"sync/atomic"
	"syscall"
	"testing"

	"github.com/tucats/ego/internal/verifh/vh"
)

const c36Syscalls = "openat,open,creat,read,write,pwrite64,writev,close,fchmod,fchmodat,chmod,rename,renameat,renameat2," +
	"unlink,unlinkat,link,linkat,symlink,symlinkat,mkdir,mkdirat,rmdir,truncate,ftruncate,fsync,fdatasync," +
	"newfstatat,fstat,getdents64,fchown,fchownat,utimensat"

// scall is one system call line of an strace -f -y log.
type scall struct {
	Pid      string
	Name     string
	Args     string
	Ret      string
	Killed   bool // "= ?" : entered, never returned (the injected kill)
	Sig      string
	Mutating bool
	Relevant bool
}

type c36Shape struct {
	Name     string
	Files    []string // base names of the message files in the directory
	Content  [][]byte
	Mode     os.FileMode
	Link     string                    // "" | symlink-same-dir | symlink-other-dir | hardlink : how the message path reaches its bytes
	Extra    map[string][]byte         // unrelated files (named like temporaries of OTHER tools/files): must keep their bytes
	Stale    map[string][]byte         // leftovers of an earlier interrupted run of THIS file: must be gone after a successful run
	Args     func(dir string) []string // langlint arguments
	Relative bool                      // cwd = dir and relative argument
	DirName  string                    // name of the message directory (default "msgs"): path-shape dimension
	CutWrite bool                      // the traced runs are made under RLIMIT_FSIZE = half the formatted size: the temp file is written by
	//                                    two write calls (short write, then EFBIG), so a kill BETWEEN them leaves a partially written file
	fsize int64
}

var (
	reLine    = regexp.MustCompile(`^(\d+)\s+(\w+)\((.*)$`)
	reResumed = regexp.MustCompile(`^(\d+)\s+<\.\.\. (\w+) resumed>(.*)$`)
	reQuoted  = regexp.MustCompile(`"((?:[^"\\]|\\.)*)"`)
	reFd      = regexp.MustCompile(`^(\d+)<([^>]*)>`)
	reRet     = regexp.MustCompile(`\)\s+= (\S+)`)
)

var c36NotExhaustive atomic.Bool

var c36FdCalls = map[string]bool{"read": true, "write": true, "pwrite64": true, "writev": true, "close": true, "fchmod": true,
	"fstat": true, "getdents64": true, "fsync": true, "fdatasync": true, "ftruncate": true, "fchown": true}

var c36MutatingCalls = map[string]bool{"write": true, "pwrite64": true, "writev": true, "fchmod": true, "fchmodat": true, "chmod": true,
	"rename": true, "renameat": true, "renameat2": true, "unlink": true, "unlinkat": true, "link": true, "linkat": true,
	"symlink": true, "symlinkat": true, "mkdir": true, "mkdirat": true, "rmdir": true, "truncate": true, "ftruncate": true,
	"fchown": true, "fchownat": true, "utimensat": true, "creat": true}

// c36Unescape undoes strace's C-style escaping of a printed string (\\ \" \n \t ... \ooo octal, \xhh): non-ASCII bytes,
// back-slashes and control characters of a path are printed escaped.
func c36Unescape(s string) string {
	if !strings.Contains(s, "\\") {
		return s
	}

	var b []byte

	for i := 0; i < len(s); i++ {
		if s[i] != '\\' || i+1 >= len(s) {
			b = append(b, s[i])

			continue
		}

		i++

		switch c := s[i]; {
		case c >= '0' && c <= '7':
			v, n := 0, 0
			for n < 3 && i < len(s) && s[i] >= '0' && s[i] <= '7' {
				v = v*8 + int(s[i]-'0')
				i++
				n++
			}

			i--
			b = append(b, byte(v))
		case c == 'x' && i+2 < len(s):
			v, _ := strconv.ParseUint(s[i+1:i+3], 16, 8)
			b = append(b, byte(v))
			i += 2
		case c == 'n':
			b = append(b, '\n')
		case c == 't':
			b = append(b, '\t')
		case c == 'r':
			b = append(b, '\r')
		case c == 'v':
			b = append(b, '\v')
		case c == 'f':
			b = append(b, '\f')
		default:
			b = append(b, c)
		}
	}

	return string(b)
}

// c36Role names a path relative to the message files: T (a message file), T.bak,
// T.tmp, dir, other:<name>; "" = outside the directory.
func c36Role(p, cwd, dir string, files []string) string {
	if p == "" {
		return ""
	}

	if !filepath.IsAbs(p) {
		p = filepath.Join(cwd, p)
	}

	p = filepath.Clean(p)
	if p == dir {
		return "dir"
	}

	if filepath.Dir(p) != dir {
		if strings.HasPrefix(p, dir+"/") {
			return "other"
		}

		return ""
	}

	base := filepath.Base(p)

	for _, f := range files {
		switch {
		case base == f:
			return "T"
		case base == f+".real":
			return "T.real" // the regular file a symbolic-link message path points to
		case base == f+".hardlink":
			return "T.hard" // second name of a hard-linked message file
		case base == f+".langlint-bak":
			return "T.bak"
		case strings.HasPrefix(base, f+".langlint-"):
			return "T.tmp"
		}
	}

	return "other"
}

// c36Parse reads an strace log and returns the calls in entry order.
func c36Parse(logPath, cwd, dir string, files []string) ([]scall, bool, error) {
	b, err := os.ReadFile(logPath)
	if err != nil {
		return nil, false, err
	}

	var (
		calls   []scall
		pending = map[string]int{} // pid -> index of unfinished call
		sigkill bool
	)

	for _, line := range strings.Split(string(b), "\n") {
		if strings.Contains(line, "+++ killed by SIGKILL +++") {
			sigkill = true

			continue
		}

		if m := reResumed.FindStringSubmatch(line); m != nil {
			if i, ok := pending[m[1]]; ok {
				calls[i].Args += m[3]
				delete(pending, m[1])
			}

			continue
		}

		m := reLine.FindStringSubmatch(line)
		if m == nil {
			continue
		}

		c := scall{Pid: m[1], Name: m[2], Args: m[3]}
		calls = append(calls, c)

		if strings.HasSuffix(strings.TrimSpace(line), "<unfinished ...>") {
			pending[m[1]] = len(calls) - 1
		}
	}

	seenRelevant := false

	for i := range calls {
		c := &calls[i]
		if m := reRet.FindStringSubmatch(c.Args); m != nil {
			c.Ret = m[1]
		}

		c.Killed = c.Ret == "?" || c.Ret == ""

		var roles []string

		if c36FdCalls[c.Name] {
			if m := reFd.FindStringSubmatch(c.Args); m != nil {
				role := ""
				if strings.HasPrefix(m[2], "/") {
					role = c36Role(c36Unescape(m[2]), cwd, dir, files)
				}

				if role == "" && (m[1] == "1" || m[1] == "2") && seenRelevant && c.Name != "close" {
					role = "stdout"
				}

				roles = append(roles, role)
			}
		} else {
			// path arguments are the quoted strings before the result
			args := c.Args
			if k := strings.LastIndex(args, ") = "); k >= 0 {
				args = args[:k]
			}

			for _, q := range reQuoted.FindAllStringSubmatch(args, -1) {
				roles = append(roles, c36Role(c36Unescape(q[1]), cwd, dir, files))
			}
		}

		rel := false

		for _, ro := range roles {
			if ro != "" {
				rel = true
			}
		}

		c.Relevant = rel
		if !rel {
			continue
		}

		seenRelevant = true
		name := c.Name

		if name == "openat" || name == "open" {
			switch {
			case strings.Contains(c.Args, "O_CREAT"):
				name += ":create"
				c.Mutating = true
			case strings.Contains(c.Args, "O_DIRECTORY"):
				name += ":dir"
			case strings.Contains(c.Args, "O_WRONLY") || strings.Contains(c.Args, "O_RDWR") || strings.Contains(c.Args, "O_TRUNC"):
				name += ":write"
				c.Mutating = strings.Contains(c.Args, "O_TRUNC")
			default:
				name += ":read"
			}
		}

		if c36MutatingCalls[c.Name] && !(len(roles) == 1 && roles[0] == "stdout") {
			c.Mutating = true
		}

		c.Sig = name + "(" + strings.Join(roles, ">") + ")"
	}

	return calls, sigkill, nil
}

func c36RelevantSigs(calls []scall) []string {
	var out []string

	for _, c := range calls {
		if c.Relevant {
			out = append(out, c.Sig)
		}
	}

	return out
}

// c36Window names the crash window: the last mutating call that completed
// before the kill (friendly names for the calls of rewriteFile).
func c36Window(done []scall) string {
	last, writes := "", 0

	for _, c := range done {
		if c.Relevant && c.Mutating {
			last = c.Sig

			switch c.Sig {
			case "openat:create(T.tmp)":
				writes = 0
			case "write(T.tmp)":
				writes++
			}
		}
	}

	switch last {
	case "":
		return "before-temp-create"
	case "openat:create(T.tmp)":
		return "after-temp-create"
	case "write(T.tmp)":
		if writes > 1 {
			return "after-temp-write-" + strconv.Itoa(writes)
		}

		return "after-temp-write"
	case "fchmodat(T.tmp)":
		return "after-temp-chmod"
	case "renameat(T>T.bak)":
		return "between-renames"
	case "renameat(T.tmp>T)":
		return "after-rename-into-place"
	case "unlinkat(T.bak)":
		return "after-backup-remove"
	}

	return "after-" + strings.NewReplacer("(", "-", ")", "", ">", "-to-", ":", "-", " ", "").Replace(last)
}

type c36Run struct {
	dir    string
	calls  []scall
	killed bool
	rc     int
	out    string
}

func c36StoreDir(dir string) string { return dir + "-store" }

// c36Setup builds the directory of a shape from scratch.
func c36Setup(dir string, sh c36Shape) error {
	for _, d := range []string{dir, c36StoreDir(dir)} {
		_ = os.Chmod(d, 0o755)
		_ = os.RemoveAll(d)
	}

	if err := os.MkdirAll(dir, 0o755); err != nil {
		return err
	}

	for i, f := range sh.Files {
		p := filepath.Join(dir, f)
		realPath := p

		switch sh.Link {
		case "symlink-same-dir":
			realPath = p + ".real"
			if err := os.Symlink(f+".real", p); err != nil {
				return err
			}
		case "symlink-other-dir":
			if err := os.MkdirAll(c36StoreDir(dir), 0o755); err != nil {
				return err
			}

			realPath = filepath.Join(c36StoreDir(dir), f)
			if err := os.Symlink(filepath.Join("..", filepath.Base(c36StoreDir(dir)), f), p); err != nil {
				return err
			}
		}

		if err := os.WriteFile(realPath, sh.Content[i], 0o644); err != nil {
			return err
		}

		if err := os.Chmod(realPath, sh.Mode); err != nil {
			return err
		}

		if sh.Link == "hardlink" {
			if err := os.Link(p, p+".hardlink"); err != nil {
				return err
			}
		}
	}

	for _, m := range []map[string][]byte{sh.Extra, sh.Stale} {
		for name, b := range m {
			if err := os.WriteFile(filepath.Join(dir, name), b, 0o644); err != nil {
				return err
			}
		}
	}

	return nil
}

// c36Entry / c36Snap: an in-memory copy of the shape's directories, so that several histories can start from the same post-crash state.
type c36Entry struct {
	name   string
	mode   os.FileMode
	target string // symlink target
	data   []byte
	ino    uint64
}

type c36Snap map[string][]c36Entry // directory -> entries

func c36TakeSnap(dirs ...string) c36Snap {
	snap := c36Snap{}

	for _, d := range dirs {
		ents, err := os.ReadDir(d)
		if err != nil {
			continue
		}

		snap[d] = []c36Entry{}

		for _, e := range ents {
			p := filepath.Join(d, e.Name())

			st, err := os.Lstat(p)
			if err != nil {
				continue
			}

			en := c36Entry{name: e.Name(), mode: st.Mode()}

			if sys, ok := st.Sys().(*syscall.Stat_t); ok {
				en.ino = sys.Ino
			}

			if st.Mode()&os.ModeSymlink != 0 {
				en.target, _ = os.Readlink(p)
			} else if st.Mode().IsRegular() {
				en.data, _ = os.ReadFile(p)
			}

			snap[d] = append(snap[d], en)
		}
	}

	return snap
}

var c36TempDigits = regexp.MustCompile(`\.langlint-\d+$`)

// hash identifies a post-crash state up to the random suffix of temp-file names.
func (snap c36Snap) hash() string {
	var dirs []string
	for d := range snap {
		dirs = append(dirs, d)
	}

	sort.Strings(dirs)

	var parts []any

	for _, d := range dirs {
		inoIndex := map[uint64]int{}

		for _, en := range snap[d] {
			if _, ok := inoIndex[en.ino]; !ok {
				inoIndex[en.ino] = len(inoIndex)
			}

			parts = append(parts, filepath.Base(d), c36TempDigits.ReplaceAllString(en.name, ".langlint-N"), en.mode.String(), en.target, vh.Hash(string(en.data)), inoIndex[en.ino])
		}
	}

	return vh.Hash(parts...)
}

func (snap c36Snap) restore() error {
	for d, ents := range snap {
		_ = os.RemoveAll(d)

		if err := os.MkdirAll(d, 0o755); err != nil {
			return err
		}

		first := map[uint64]string{}

		for _, en := range ents {
			p := filepath.Join(d, en.name)

			switch {
			case en.mode&os.ModeSymlink != 0:
				if err := os.Symlink(en.target, p); err != nil {
					return err
				}
			case en.mode.IsRegular():
				if prev, ok := first[en.ino]; ok && en.ino != 0 {
					if err := os.Link(prev, p); err != nil {
						return err
					}

					continue
				}

				if err := os.WriteFile(p, en.data, 0o644); err != nil {
					return err
				}

				if err := os.Chmod(p, en.mode.Perm()); err != nil {
					return err
				}

				first[en.ino] = p
			}
		}
	}

	return nil
}

func c36Env() []string {
	return append(os.Environ(), "GOMAXPROCS=1", "GODEBUG=asyncpreemptoff=1")
}

// c36Exec runs langlint in dir; traced (and possibly injected) under strace when logPath is set. A CutWrite shape makes its
// TRACED runs under RLIMIT_FSIZE (strace -> prlimit -> langlint, so the limit does not apply to the trace log).
func c36Exec(langlint, dir, logPath string, sh c36Shape, inject string) (*c36Run, error) {
	args := sh.Args(dir)
	cwd := filepath.Dir(dir)

	if sh.Relative {
		cwd = dir
	}

	var cmd *exec.Cmd

	if logPath != "" {
		sargs := []string{"-f", "-y", "-e", "trace=" + c36Syscalls}
		if inject != "" {
			sargs = append(sargs, "-e", "inject="+inject)
		}

		sargs = append(sargs, "-o", logPath)

		if sh.CutWrite && sh.fsize > 0 {
			sargs = append(sargs, "prlimit", fmt.Sprintf("--fsize=%d", sh.fsize))
		}

		sargs = append(sargs, langlint)
		cmd = exec.Command("strace", append(sargs, args...)...)
	} else {
		cmd = exec.Command(langlint, args...)
	}

	cmd.Dir = cwd
	cmd.Env = c36Env()

	var buf bytes.Buffer

	cmd.Stdout = &buf
	cmd.Stderr = &buf
	err := cmd.Run()
	run := &c36Run{dir: dir, out: buf.String()}

	if cmd.ProcessState != nil {
		run.rc = cmd.ProcessState.ExitCode()
	}

	if err != nil {
		if _, ok := err.(*exec.ExitError); !ok {
			return nil, err
		}
	}

	if logPath != "" {
		calls, killed, perr := c36Parse(logPath, cwd, dir, sh.Files)
		if perr != nil {
			return nil, perr
		}

		run.calls, run.killed = calls, killed
	}

	return run, nil
}

func c36List(dir string) []string {
	ents, _ := os.ReadDir(dir)

	var names []string

	for _, e := range ents {
		names = append(names, e.Name())
	}

	sort.Strings(names)

	return names
}

func c36Shapes() []c36Shape {
	small := []byte("# header comment\n\n[zeta]\nzulu=last {{name}}\nalpha=first\n\n\n[beta]\nb=2\na=1\n")

	var big bytes.Buffer

	big.WriteString("# large file\n[big]\n")

	for i := 20000; i > 0; i-- {
		fmt.Fprintf(&big, "key.%06d=message number %d with some padding text to make the line longer {{n}}\n", i, i)
	}

	var medium bytes.Buffer

	medium.WriteString("[m]\n")

	for i := 600; i > 0; i-- {
		fmt.Fprintf(&medium, "k%04d=text %d\n", i, i)
	}

	abs := func(f string) func(string) []string {
		return func(dir string) []string { return []string{filepath.Join(dir, f)} }
	}

	one := []string{"messages_xx.txt"}
	longJunk := bytes.Repeat([]byte("STALE-BYTES-THAT-MUST-NEVER-REACH-THE-MESSAGE-FILE\n"), 400)

	return []c36Shape{
		{Name: "small-0644", Files: one, Content: [][]byte{small}, Mode: 0o644, Args: abs("messages_xx.txt")},
		{Name: "large-0644", Files: one, Content: [][]byte{big.Bytes()}, Mode: 0o644, Args: abs("messages_xx.txt")},
		{Name: "symlink-same-dir", Files: one, Content: [][]byte{medium.Bytes()}, Mode: 0o444, Link: "symlink-same-dir", Args: abs("messages_xx.txt")},
		{Name: "symlink-other-dir", Files: one, Content: [][]byte{small}, Mode: 0o640, Link: "symlink-other-dir", Args: abs("messages_xx.txt")},
		{Name: "hardlink", Files: one, Content: [][]byte{medium.Bytes()}, Mode: 0o644, Link: "hardlink", Args: abs("messages_xx.txt")},
		{Name: "unrelated-temp-like-files", Files: one, Content: [][]byte{small}, Mode: 0o644, Args: abs("messages_xx.txt"),
			Extra: map[string][]byte{"messages_yy.txt.langlint-123": []byte("temp of another file\n"), "messages_xx.txt.bak": longJunk, "messages_xx.txt~": []byte("editor backup\n"),
				".messages_xx.txt.swp": []byte("swap\n"), "notes.langlint-bak": []byte("not ours\n"), "messages_xx.txt.tmp": longJunk, "messages_xx.txtx.langlint-1": []byte("x\n")}},
		{Name: "stale-files-from-earlier-crash", Files: one, Content: [][]byte{small}, Mode: 0o644, Args: abs("messages_xx.txt"),
			Stale: map[string][]byte{"messages_xx.txt.langlint-777": longJunk, "messages_xx.txt.langlint-bak": longJunk, "messages_xx.txt.langlint-0000000000": []byte("[old]\nshort=1\n")}},
		{Name: "write-cut-in-two", Files: one, Content: [][]byte{medium.Bytes()}, Mode: 0o644, CutWrite: true, Args: abs("messages_xx.txt")},
		{Name: "readonly-0444", Files: one, Content: [][]byte{small}, Mode: 0o444, Args: abs("messages_xx.txt")},
		// path shapes: the same rewrite with directory and file names that a pattern-based or shell-like treatment of the path gets wrong
		{Name: "path-glob-metacharacters", DirName: "a[1]", Files: []string{"m[ain]*?.txt"}, Content: [][]byte{small}, Mode: 0o644, Args: abs("m[ain]*?.txt")},
		{Name: "path-unbalanced-bracket-backslash", DirName: "x[", Files: []string{`b\s[.txt`}, Content: [][]byte{small}, Mode: 0o644, Args: abs(`b\s[.txt`)},
		{Name: "path-spaces-unicode", DirName: "my dir é", Files: []string{"mes sages_日本 ü.txt"}, Content: [][]byte{small}, Mode: 0o644, Args: abs("mes sages_日本 ü.txt")},
		{Name: "path-very-long-name", DirName: "d" + strings.Repeat("long-", 30), Files: []string{"messages_" + strings.Repeat("n", 200) + ".txt"}, Content: [][]byte{small}, Mode: 0o644,
			Args: abs("messages_" + strings.Repeat("n", 200) + ".txt")},
		{Name: "private-0600", Files: one, Content: [][]byte{small}, Mode: 0o600, Args: abs("messages_xx.txt")},
		{Name: "exec-0755-relative", Files: one, Content: [][]byte{small}, Mode: 0o755, Relative: true,
			Args: func(string) []string { return []string{"messages_xx.txt"} }},
		{Name: "two-files-path-option", Files: []string{"messages_aa.txt", "messages_bb.txt"}, Content: [][]byte{small, append([]byte("[x]\nq=1\nc=2\n"), small...)}, Mode: 0o640,
			Args: func(dir string) []string { return []string{"-p", dir} }},
	}
}

const c36QuickShapes = 13 // the first thirteen shapes run in the quick tier; thorough runs all sixteen

// c36Edits are what happens to the message file between the crash and the next run.
var c36Edits = []string{"keep", "shorter", "longer"}

func c36Edited(orig []byte, edit string) []byte {
	switch edit {
	case "shorter":
		return []byte("[s]\nzz=2\naa=1\n")
	case "longer":
		var b bytes.Buffer

		b.Write(orig)

		if !bytes.HasSuffix(orig, []byte("\n")) {
			b.WriteByte('\n')
		}

		b.WriteString("\n[zzz.added]\n")

		for i := 60; i > 0; i-- {
			fmt.Fprintf(&b, "added.%02d=line %d added after the crash, long enough to make the file clearly longer\n", i, i)
		}

		return b.Bytes()
	}

	return orig
}

// c36Reference formats content with the real binary in a pristine directory.
func c36Reference(langlint, base string, content []byte) ([]byte, error) {
	d := filepath.Join(base, "ref")
	_ = os.RemoveAll(d)

	if err := os.MkdirAll(d, 0o755); err != nil {
		return nil, err
	}

	p := filepath.Join(d, "messages_ref.txt")
	if err := os.WriteFile(p, content, 0o644); err != nil {
		return nil, err
	}

	cmd := exec.Command(langlint, p)
	cmd.Env = c36Env()

	if out, err := cmd.CombinedOutput(); err != nil {
		return nil, fmt.Errorf("reference run failed: %v: %s", err, out)
	}

	if l := c36List(d); len(l) != 1 {
		return nil, fmt.Errorf("reference run left %v", l)
	}

	return os.ReadFile(p)
}

type c36Ctx struct {
	t          *testing.T
	r          *vh.Report
	langlint   string
	base, dir  string
	logPath    string
	sh         c36Shape
	formatted  [][]byte            // Format(original) per file
	expected   map[string][][]byte // edit -> Format(edited content) per file
	initial    []string            // names in dir right after set-up
	final      []string            // names expected after a successful run (initial minus stale files)
	store      []string            // names in the link-target directory (symlink-other-dir)
	baseSigs   []string
	covered    []int
	statesSeen map[string]bool
}

func TestC36(t *testing.T) {
	r := vh.New("C36", "crashpoints")
	r.Exhaustive = true
	r.Rule = "crash point = entry to the k-th file-system system call (of the traced set) that touches the message directory, k enumerated per file shape from the " +
		"uninjected strace of that shape's rewrite; shapes: regular files (small, 1.7 MB, read-only), a symbolic link to a file in the same / another directory, a hard-linked " +
		"file, a directory with unrelated files named like temporaries, a directory with stale temp/backup files of an earlier crash, a rewrite whose temp-file write is cut in " +
		"two by RLIMIT_FSIZE (kill between the partial and the second write); history = (shape, k, edit of the file after the crash: keep/shorter/longer) followed by two " +
		"uninjected runs; distinct = distinct (shape, call signature, ordinal[, edit]); non-trivial = the kill really fired at that call (read back from the injected run's trace)"
	r.Assume("strace -e inject=<call>:signal=SIGKILL aborts the call on entry (the directory state is checked against a replay of the completed calls of the same trace)")
	r.Assume("crash = process death between two system calls; power loss with unflushed page cache is not modelled")
	r.Assume("Format(content) for the re-run oracle is what the same langlint binary writes for that content in a pristine directory")

	langlint := filepath.Join(os.Getenv("VERIF_BIN"), "langlint")
	if _, err := os.Stat(langlint); err != nil {
		t.Fatalf("langlint binary missing: %v", err)
	}

	for _, tool := range []string{"strace", "prlimit"} {
		if _, err := exec.LookPath(tool); err != nil {
			r.Inconcl(tool + " not installed")
			_ = r.Write()
			t.Fatalf("%s not installed: C36 cannot observe anything", tool)
		}
	}

	arena := os.Getenv("VERIF_ARENA")
	if arena == "" {
		arena = t.TempDir()
	}

	shapes := c36Shapes()

	var only struct {
		Shape string `json:"shape"`
	}

	if c := vh.ReplayCase(); c != nil {
		_ = jsonUnmarshal(c, &only)
	}

	if vh.Tier() != "thorough" && only.Shape == "" {
		shapes = shapes[:c36QuickShapes]
	}

	var wg sync.WaitGroup

	for _, sh := range shapes {
		if only.Shape != "" && only.Shape != sh.Name {
			continue
		}

		wg.Add(1)

		go func(sh c36Shape) {
			defer wg.Done()
			c36RunShape(t, r, langlint, filepath.Join(arena, "c36-"+sh.Name), sh)
		}(sh)
	}

	wg.Wait()

	if c36NotExhaustive.Load() || only.Shape != "" {
		r.Exhaustive = false
	}

	if r.Counters["kills.evaluated"] == 0 {
		_ = r.Write()
		t.Fatal("observed nothing: no injected kill fired")
	}

	if err := r.Write(); err != nil {
		t.Fatal(err)
	}
}

func c36RunShape(t *testing.T, r *vh.Report, langlint, base string, sh c36Shape) {
	_ = os.RemoveAll(base)

	if err := os.MkdirAll(base, 0o755); err != nil {
		t.Errorf("setup: %v", err)

		return
	}

	dirName := sh.DirName
	if dirName == "" {
		dirName = "msgs"
	}

	c := &c36Ctx{t: t, r: r, langlint: langlint, base: base, dir: filepath.Join(base, dirName), logPath: filepath.Join(base, "trace.log"), sh: sh,
		expected: map[string][][]byte{}, statesSeen: map[string]bool{}}

	// --- 0. reference results of the real binary on pristine directories
	for _, edit := range c36Edits {
		for i := range sh.Files {
			ref, err := c36Reference(langlint, base, c36Edited(sh.Content[i], edit))
			if err != nil {
				t.Errorf("shape %s: %v", sh.Name, err)

				return
			}

			c.expected[edit] = append(c.expected[edit], ref)
		}
	}

	c.formatted = c.expected["keep"]

	for i := range sh.Files {
		if bytes.Equal(c.formatted[i], sh.Content[i]) {
			t.Errorf("shape %s: file %d is not changed by formatting", sh.Name, i)

			return
		}
	}

	if sh.CutWrite {
		c.sh.fsize = int64(len(c.formatted[0]) / 2)
		sh = c.sh
	}

	// --- 1. baseline: uninjected traced run of THIS shape
	if err := c36Setup(c.dir, sh); err != nil {
		t.Errorf("setup: %v", err)

		return
	}

	c.initial = c36List(c.dir)
	c.store = c36List(c36StoreDir(c.dir))

	for _, n := range c.initial {
		if _, stale := sh.Stale[n]; !stale {
			c.final = append(c.final, n)
		}
	}

	baseRun, err := c36Exec(langlint, c.dir, c.logPath, sh, "")

	wantRC := 0
	if sh.CutWrite {
		wantRC = 1 // the write fails with EFBIG: langlint reports the error and must leave the file alone
	}

	if err != nil || baseRun.rc != wantRC || baseRun.killed {
		t.Errorf("baseline run of %s failed: %v rc=%d out=%s", sh.Name, err, baseRun.rc, baseRun.out)

		return
	}

	for i, f := range sh.Files {
		got, _ := os.ReadFile(filepath.Join(c.dir, f))

		want := c.formatted[i]
		if sh.CutWrite {
			want = sh.Content[i]
		}

		if !bytes.Equal(got, want) {
			r.Violate(vh.Violation{Key: "clean-run-wrong-content", Desc: fmt.Sprintf("uninterrupted run (shape %s, exit %d): %s does not hold the expected content", sh.Name, baseRun.rc, f),
				Case: map[string]any{"shape": sh.Name}, Expected: vh.Trunc(string(want), 200), Observed: vh.Trunc(string(got), 200)})
		}
	}

	wantNames := c.final
	if sh.CutWrite {
		wantNames = c.initial
	}

	if l := c36List(c.dir); strings.Join(l, ",") != strings.Join(wantNames, ",") {
		// a clean run that leaves files behind is itself a violation of the second half of the property
		r.Violate(vh.Violation{Key: "stale-files-after-clean-run", Desc: fmt.Sprintf("uninterrupted run (shape %s) left %v, expected %v", sh.Name, l, wantNames), Case: map[string]any{"shape": sh.Name}})
	}

	c.baseSigs = c36RelevantSigs(baseRun.calls)
	K := len(c.baseSigs)

	if K < 3 {
		t.Errorf("shape %s: baseline trace lists only %d calls: %v", sh.Name, K, c.baseSigs)

		return
	}

	r.Count("baseline.points:"+sh.Name, int64(K))
	r.Note(fmt.Sprintf("%s: baseline call sequence (%d crash points): %s", sh.Name, K, strings.Join(c.baseSigs, " ")))

	// per syscall name: how many calls of that name the whole process made (upper bound for when=) and how many of them
	// precede the first call on the message directory: those are made by the start-up on the main thread, so when=N with
	// N <= that number always fires there and is useless.
	total := map[string]int{}
	startup := map[string]int{}
	needNames := map[string]bool{}
	seen := false

	for _, sc := range baseRun.calls {
		total[sc.Name]++

		if sc.Relevant {
			needNames[sc.Name] = true
			seen = true
		} else if !seen {
			startup[sc.Name]++
		}
	}

	// one directed kill before the first file call (state must be the untouched original)
	c.covered = make([]int, K)
	c.inject("openat:signal=SIGKILL:when=1")
	c.covered = make([]int, K)

	names := make([]string, 0, len(needNames))
	for n := range needNames {
		names = append(names, n)
	}

	sort.Strings(names)

	uncovered := func() int {
		n := 0

		for _, h := range c.covered {
			if h == 0 {
				n++
			}
		}

		return n
	}

	const maxSweeps = 60

	for sweep := 0; sweep < maxSweeps && uncovered() > 0; sweep++ {
		for _, name := range names {
			for n := startup[name] + 1; n <= total[name]; n++ {
				// skip (name, n) pairs that cannot help any more: every point with this call name is covered
				need := false

				for k, s := range c.baseSigs {
					if c.covered[k] == 0 && strings.HasPrefix(s, name) {
						need = true
					}
				}

				if !need {
					continue
				}

				c.inject(fmt.Sprintf("%s:signal=SIGKILL:when=%d", name, n))
			}
		}
	}

	for k, h := range c.covered {
		if h == 0 {
			r.Inconcl(fmt.Sprintf("%s: crash point %d (%s) was never hit in %d sweeps", sh.Name, k+1, c.baseSigs[k], maxSweeps))
			c36NotExhaustive.Store(true)
		}
	}

	r.Count("points.covered:"+sh.Name, int64(K-uncovered()))
}

// inject makes one injected run and evaluates the oracles on it.
func (c *c36Ctx) inject(inject string) {
	r, sh, dir := c.r, c.sh, c.dir

	if err := c36Setup(dir, sh); err != nil {
		c.t.Errorf("setup: %v", err)

		return
	}

	run, err := c36Exec(c.langlint, dir, c.logPath, sh, inject)
	if err != nil {
		c.t.Errorf("strace: %v", err)

		return
	}

	r.Count("runs.injected", 1)

	if !run.killed {
		r.Count("runs.injection-did-not-fire", 1) // retried by the caller; never counted as a pass

		return
	}

	// which call was hit: the (single) call that never returned
	hit := -1

	for i, sc := range run.calls {
		if sc.Killed {
			if hit >= 0 {
				r.Count("runs.ambiguous-trace", 1)

				return
			}

			hit = i
		}
	}

	if hit < 0 {
		r.Count("runs.ambiguous-trace", 1)

		return
	}

	done := run.calls[:hit]
	doneSigs := c36RelevantSigs(done)
	k := len(doneSigs) // 0-based ordinal of the hit call among relevant calls

	if !run.calls[hit].Relevant {
		if k == 0 {
			r.Count("kills.before-first-file-call", 1)
		} else {
			r.Count("kills.at-unrelated-call", 1)
		}
	} else if k >= len(c.baseSigs) || run.calls[hit].Sig != c.baseSigs[k] || strings.Join(doneSigs, " ") != strings.Join(c.baseSigs[:k], " ") {
		// the run must have followed the baseline sequence up to and including the hit call
		r.Inconcl(fmt.Sprintf("%s: injected run diverged from the baseline sequence at call %d: %v + %s", sh.Name, k+1, doneSigs, run.calls[hit].Sig))

		return
	}

	window := c36Window(done)
	point := fmt.Sprintf("%d:%s", k+1, run.calls[hit].Sig)

	if !run.calls[hit].Relevant {
		point = fmt.Sprintf("%d:(unrelated %s)", k+1, run.calls[hit].Name)
	}

	caseDoc := map[string]any{"shape": sh.Name, "inject": inject, "crash_point": point, "window": window, "completed_calls": doneSigs}

	// sanity of the instrument: replay the completed mutating calls of THIS trace over the initial listing
	if want, ok := c36Predict(c.initial, done, dir, sh.Relative); ok {
		if got := c36List(dir); strings.Join(got, ",") != strings.Join(want, ",") {
			r.Inconcl(fmt.Sprintf("%s: directory after kill at %s is %v, trace replay predicts %v (instrument mismatch, not a verdict)", sh.Name, point, got, want))

			return
		}

		r.Count("instrument.state-matches-trace-replay", 1)
	}

	r.Eval(sh.Name+"/"+point, run.calls[hit].Relevant)
	r.Count("kills.evaluated", 1)
	r.Count("window:"+window, 1)

	if run.calls[hit].Relevant {
		c.covered[k]++
	}

	after := c36List(dir)
	caseDoc["dir_after_kill"] = after
	bad := false

	// --- oracle 1: each message path (resolved through a link) holds exactly the original or exactly the formatted bytes
	for i, f := range sh.Files {
		p := filepath.Join(dir, f)
		st, err := os.Stat(p)

		var kind, obs string

		switch {
		case err != nil:
			kind, obs = "no-file", err.Error()
		case !st.Mode().IsRegular():
			kind, obs = "not-regular", st.Mode().String()
		default:
			b, _ := os.ReadFile(p)

			switch {
			case bytes.Equal(b, c.formatted[i]):
				r.Count("after-kill.path-holds-formatted", 1)
			case bytes.Equal(b, sh.Content[i]):
				r.Count("after-kill.path-holds-original", 1)
			default:
				kind, obs = "wrong-content", fmt.Sprintf("%d bytes, neither original (%d) nor formatted (%d): %q", len(b), len(sh.Content[i]), len(c.formatted[i]), vh.Trunc(string(b), 120))
			}
		}

		if kind != "" {
			bad = true

			r.Violate(vh.Violation{Key: "crash:" + window + ":" + kind,
				Desc:     fmt.Sprintf("langlint killed on entry to %s (shape %s): %s afterwards: %s; directory holds %v", point, sh.Name, f, obs, after),
				Case:     caseDoc,
				Expected: "path holds exactly the original or exactly the formatted content", Observed: kind + ": " + obs})
		}
	}

	if e := c.unrelatedChanged(); e != "" {
		r.Violate(vh.Violation{Key: "unrelated-file-changed", Desc: fmt.Sprintf("kill at %s (shape %s): %s", point, sh.Name, e), Case: caseDoc})
	}

	// --- oracle 2: crash-then-rerun histories. They presuppose a state that oracle 1 accepts.
	if bad {
		r.Count("histories.skipped-after-lost-file", 1)

		return
	}

	snap := c36TakeSnap(dir, c36StoreDir(dir))

	// In the quick tier a history is started once per distinct post-crash STATE of a shape (names with the random part of
	// temp names masked, contents, modes, link structure): crash points that complete no further mutating call leave the
	// same state, and langlint's behaviour from a given directory state does not depend on how that state was reached.
	// The thorough tier starts the histories at every crash point.
	if vh.Tier() != "thorough" {
		h := snap.hash()
		if c.statesSeen[h] {
			r.Count("histories.skipped-identical-post-crash-state", int64(len(c36Edits)))

			return
		}

		c.statesSeen[h] = true
		r.Count("histories.distinct-post-crash-states", 1)
	}

	for _, edit := range c36Edits {
		if err := snap.restore(); err != nil {
			c.t.Errorf("restore: %v", err)

			return
		}

		c.history(edit, window, point, caseDoc)
	}
}

// unrelatedChanged checks the files that are none of langlint's business.
func (c *c36Ctx) unrelatedChanged() string {
	for name, want := range c.sh.Extra {
		got, err := os.ReadFile(filepath.Join(c.dir, name))
		if err != nil {
			return fmt.Sprintf("unrelated file %s is gone", name)
		}

		if !bytes.Equal(got, want) {
			return fmt.Sprintf("unrelated file %s changed", name)
		}
	}

	if got := c36List(c36StoreDir(c.dir)); strings.Join(got, ",") != strings.Join(c.store, ",") {
		return fmt.Sprintf("the directory the link points into now holds %v (was %v)", got, c.store)
	}

	return ""
}

// history: from the restored post-crash state, edit the message file, run langlint to completion, run it a third time.
func (c *c36Ctx) history(edit, window, point string, crashDoc map[string]any) {
	r, sh, dir := c.r, c.sh, c.dir

	doc := map[string]any{"edit": edit}
	for k, v := range crashDoc {
		doc[k] = v
	}

	expected := make([][]byte, len(sh.Files))

	for i, f := range sh.Files {
		p := filepath.Join(dir, f)

		if edit != "keep" {
			// written through the path, as an editor that saves in place would (follows a link, keeps the inode)
			if err := os.WriteFile(p, c36Edited(sh.Content[i], edit), 0o644); err != nil {
				c.t.Errorf("edit: %v", err)

				return
			}
		}

		expected[i] = c.expected[edit][i]
	}

	r.Eval(sh.Name+"/"+point+"/"+edit, true)
	r.Count("histories", 1)
	r.Count("histories.edit:"+edit, 1)

	plain := sh
	plain.CutWrite = false

	run2, err := c36Exec(c.langlint, dir, "", plain, "")
	if err != nil {
		c.t.Errorf("second run: %v", err)

		return
	}

	if run2.rc != 0 {
		r.Violate(vh.Violation{Key: "rerun-fails:" + window + ":" + edit, Desc: fmt.Sprintf("after a kill at %s (shape %s, file then %s) the next langlint run fails rc=%d: %s", point, sh.Name, edit, run2.rc, vh.Trunc(run2.out, 300)),
			Case: doc, Expected: "rc=0", Observed: run2.rc})

		return
	}

	for i, f := range sh.Files {
		b, _ := os.ReadFile(filepath.Join(dir, f))
		if !bytes.Equal(b, expected[i]) {
			r.Violate(vh.Violation{Key: "rerun-wrong-content:" + window + ":" + edit,
				Desc: fmt.Sprintf("kill at %s (shape %s), file then %s, langlint run to completion: %s holds %d bytes, Format(content before the run) is %d bytes; first difference at byte %d",
					point, sh.Name, edit, f, len(b), len(expected[i]), c36FirstDiff(b, expected[i])),
				Case: doc, Expected: vh.Trunc(string(expected[i]), 300), Observed: vh.Trunc(string(b), 300)})
		} else {
			r.Count("histories.content-is-Format(current)", 1)
		}
	}

	final := c36List(dir)
	if strings.Join(final, ",") == strings.Join(c.final, ",") {
		r.Count("histories.directory-clean", 1)
	} else {
		kinds := map[string][]string{}
		have := map[string]bool{}

		for _, n := range final {
			have[n] = true
		}

		want := map[string]bool{}

		for _, n := range c.final {
			want[n] = true

			if !have[n] {
				kinds["expected-file-removed"] = append(kinds["expected-file-removed"], n)
			}
		}

		for _, n := range final {
			if want[n] {
				continue
			}

			key := map[string]string{"T.tmp": "stale-temp-after-success", "T.bak": "stale-backup-after-success"}[c36Role(filepath.Join(dir, n), dir, dir, sh.Files)]
			if key == "" {
				key = "stale-other-after-success"
			}

			kinds[key] = append(kinds[key], n)
		}

		for key, files := range kinds {
			r.Violate(vh.Violation{Key: key, Desc: fmt.Sprintf("kill at %s (window %s, shape %s), file then %s, then a successful uninjected langlint run: %v (directory holds %v, expected %v)", point, window, sh.Name, edit, files, final, c.final),
				Case: doc, Expected: c.final, Observed: final})
		}
	}

	if e := c.unrelatedChanged(); e != "" {
		r.Violate(vh.Violation{Key: "unrelated-file-changed", Desc: fmt.Sprintf("kill at %s (shape %s), file then %s, successful run: %s", point, sh.Name, edit, e), Case: doc})
	}

	// third run: nothing left to do
	before := make([][]byte, len(sh.Files))
	for i, f := range sh.Files {
		before[i], _ = os.ReadFile(filepath.Join(dir, f))
	}

	run3, err := c36Exec(c.langlint, dir, "", plain, "")
	if err != nil {
		c.t.Errorf("third run: %v", err)

		return
	}

	changed := false

	for i, f := range sh.Files {
		b, _ := os.ReadFile(filepath.Join(dir, f))
		if !bytes.Equal(b, before[i]) {
			changed = true
		}
	}

	if run3.rc != 0 || changed || strings.Contains(run3.out, "reformatted") || strings.Join(c36List(dir), ",") != strings.Join(final, ",") {
		r.Violate(vh.Violation{Key: "third-run-not-a-no-op:" + edit, Desc: fmt.Sprintf("kill at %s (shape %s), file then %s, two more runs: the third run rc=%d output %q bytes-changed=%v", point, sh.Name, edit, run3.rc, vh.Trunc(run3.out, 200), changed),
			Case: doc})
	} else {
		r.Count("histories.third-run-no-change", 1)
	}
}

func c36FirstDiff(a, b []byte) int {
	n := len(a)
	if len(b) < n {
		n = len(b)
	}

	for i := 0; i < n; i++ {
		if a[i] != b[i] {
			return i
		}
	}

	return n
}

// c36Predict replays the completed mutating calls of a trace over the initial
// directory listing (names only; temp names are taken from the trace).
func c36Predict(initial []string, done []scall, dir string, relative bool) ([]string, bool) {
	set := map[string]bool{}
	for _, f := range initial {
		set[f] = true
	}

	cwd := filepath.Dir(dir)
	if relative {
		cwd = dir
	}

	baseOf := func(p string) (string, bool) {
		if !filepath.IsAbs(p) {
			p = filepath.Join(cwd, p)
		}

		p = filepath.Clean(p)

		return filepath.Base(p), filepath.Dir(p) == dir
	}

	for _, c := range done {
		if !c.Relevant || !c.Mutating || c.Killed {
			continue
		}

		if strings.HasPrefix(c.Ret, "-1") {
			continue
		}

		args := c.Args
		if k := strings.LastIndex(args, ") = "); k >= 0 {
			args = args[:k]
		}

		var paths []string
		for _, q := range reQuoted.FindAllStringSubmatch(args, -1) {
			paths = append(paths, c36Unescape(q[1]))
		}

		switch c.Name {
		case "openat", "open", "creat":
			if len(paths) >= 1 {
				if b, in := baseOf(paths[0]); in {
					set[b] = true
				}
			}
		case "rename", "renameat", "renameat2":
			if len(paths) == 2 {
				from, in1 := baseOf(paths[0])
				to, in2 := baseOf(paths[1])

				if in1 {
					delete(set, from)
				}

				if in2 {
					set[to] = true
				}
			}
		case "unlink", "unlinkat", "rmdir":
			if len(paths) >= 1 {
				if b, in := baseOf(paths[0]); in {
					delete(set, b)
				}
			}
		case "link", "linkat", "symlink", "symlinkat", "mkdir", "mkdirat":
			return nil, false
		}
	}

	out := make([]string, 0, len(set))
	for n := range set {
		out = append(out, n)
	}

	sort.Strings(out)

	return out, true
}
