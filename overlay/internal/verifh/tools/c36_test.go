package tools

// C36 — langlint rewrites are crash-safe.
//
// Instrument: strace as a kernel-level crash injector on the REAL langlint binary.
//   1. An uninjected traced run of a rewrite lists, in order, every file-system
//      system call that touches the message directory (the crash-point set).
//   2. For every such call k the binary is re-run on a fresh copy of the
//      directory and SIGKILLed on entry to that call (strace -e inject=...:when=N;
//      the kernel aborts the call, so the state is exactly "k-1 calls completed").
//      Which call was really hit is read from the injected run's own trace,
//      never assumed; an injection that did not fire is retried, never counted.
//   3. Oracle: the message path holds exactly the original or exactly the
//      formatted bytes; then an uninjected run is made and afterwards the
//      directory holds only the message file(s), with the formatted bytes.
import (
	"bytes"
	"fmt"
	"os"
	"os/exec"
	"path/filepath"
	"regexp"
	"sort"
	"strconv"
	"strings"
	"sync"
	"sync/atomic"
	"testing"

	"github.com/tucats/ego/internal/verifh/vh"
)

const c36Syscalls = "openat,open,creat,read,write,pwrite64,writev,close,fchmod,fchmodat,chmod,rename,renameat,renameat2," +
	"unlink,unlinkat,link,linkat,symlink,symlinkat,mkdir,mkdirat,rmdir,truncate,ftruncate,fsync,fdatasync," +
	"newfstatat,fstat,getdents64,fchown,fchownat,utimensat"

// scall is one system call line of an strace -f -y log.
type scall struct {
	Pid      string
	Name     string
	Args     string
	Ret      string
	Killed   bool // "= ?" : entered, never returned (the injected kill)
	Sig      string
	Mutating bool
	Relevant bool
}

type c36Shape struct {
	Name     string
	Files    []string // base names of message files in the directory
	Content  [][]byte
	Mode     os.FileMode
	Args     func(dir string) []string // langlint arguments
	Relative bool                      // cwd = dir and relative argument
}

var (
	reLine    = regexp.MustCompile(`^(\d+)\s+(\w+)\((.*)$`)
	reResumed = regexp.MustCompile(`^(\d+)\s+<\.\.\. (\w+) resumed>(.*)$`)
	reQuoted  = regexp.MustCompile(`"((?:[^"\\]|\\.)*)"`)
	reFd      = regexp.MustCompile(`^(\d+)<([^>]*)>`)
	reRet     = regexp.MustCompile(`\)\s+= (\S+)`)
)

var c36NotExhaustive atomic.Bool

var c36FdCalls = map[string]bool{"read": true, "write": true, "pwrite64": true, "writev": true, "close": true, "fchmod": true,
	"fstat": true, "getdents64": true, "fsync": true, "fdatasync": true, "ftruncate": true, "fchown": true}

var c36MutatingCalls = map[string]bool{"write": true, "pwrite64": true, "writev": true, "fchmod": true, "fchmodat": true, "chmod": true,
	"rename": true, "renameat": true, "renameat2": true, "unlink": true, "unlinkat": true, "link": true, "linkat": true,
	"symlink": true, "symlinkat": true, "mkdir": true, "mkdirat": true, "rmdir": true, "truncate": true, "ftruncate": true,
	"fchown": true, "fchownat": true, "utimensat": true, "creat": true}

// c36Role names a path relative to the message files: T (a message file), T.bak,
// T.tmp, dir, other:<name>; "" = outside the directory.
func c36Role(p, cwd, dir string, files []string) string {
	if p == "" {
		return ""
	}

	if !filepath.IsAbs(p) {
		p = filepath.Join(cwd, p)
	}

	p = filepath.Clean(p)
	if p == dir {
		return "dir"
	}

	if filepath.Dir(p) != dir {
		if strings.HasPrefix(p, dir+"/") {
			return "other"
		}

		return ""
	}

	base := filepath.Base(p)

	for _, f := range files {
		switch {
		case base == f:
			return "T"
		case base == f+".langlint-bak":
			return "T.bak"
		case strings.HasPrefix(base, f+".langlint-"):
			return "T.tmp"
		}
	}

	return "other"
}

// c36Parse reads an strace log and returns the calls in entry order.
func c36Parse(logPath, cwd, dir string, files []string) ([]scall, bool, error) {
	b, err := os.ReadFile(logPath)
	if err != nil {
		return nil, false, err
	}

	var (
		calls   []scall
		pending = map[string]int{} // pid -> index of unfinished call
		sigkill bool
	)

	for _, line := range strings.Split(string(b), "\n") {
		if strings.Contains(line, "+++ killed by SIGKILL +++") {
			sigkill = true

			continue
		}

		if m := reResumed.FindStringSubmatch(line); m != nil {
			if i, ok := pending[m[1]]; ok {
				calls[i].Args += m[3]
				delete(pending, m[1])
			}

			continue
		}

		m := reLine.FindStringSubmatch(line)
		if m == nil {
			continue
		}

		c := scall{Pid: m[1], Name: m[2], Args: m[3]}
		calls = append(calls, c)

		if strings.HasSuffix(strings.TrimSpace(line), "<unfinished ...>") {
			pending[m[1]] = len(calls) - 1
		}
	}

	seenRelevant := false

	for i := range calls {
		c := &calls[i]
		if m := reRet.FindStringSubmatch(c.Args); m != nil {
			c.Ret = m[1]
		}

		c.Killed = c.Ret == "?" || c.Ret == ""

		var roles []string

		if c36FdCalls[c.Name] {
			if m := reFd.FindStringSubmatch(c.Args); m != nil {
				role := ""
				if strings.HasPrefix(m[2], "/") {
					role = c36Role(m[2], cwd, dir, files)
				}

				if role == "" && (m[1] == "1" || m[1] == "2") && seenRelevant && c.Name != "close" {
					role = "stdout"
				}

				roles = append(roles, role)
			}
		} else {
			// path arguments are the quoted strings before the result
			args := c.Args
			if k := strings.LastIndex(args, ") = "); k >= 0 {
				args = args[:k]
			}

			for _, q := range reQuoted.FindAllStringSubmatch(args, -1) {
				roles = append(roles, c36Role(q[1], cwd, dir, files))
			}
		}

		rel := false

		for _, ro := range roles {
			if ro != "" {
				rel = true
			}
		}

		c.Relevant = rel
		if !rel {
			continue
		}

		seenRelevant = true
		name := c.Name

		if name == "openat" || name == "open" {
			switch {
			case strings.Contains(c.Args, "O_CREAT"):
				name += ":create"
				c.Mutating = true
			case strings.Contains(c.Args, "O_DIRECTORY"):
				name += ":dir"
			case strings.Contains(c.Args, "O_WRONLY") || strings.Contains(c.Args, "O_RDWR") || strings.Contains(c.Args, "O_TRUNC"):
				name += ":write"
				c.Mutating = strings.Contains(c.Args, "O_TRUNC")
			default:
				name += ":read"
			}
		}

		if c36MutatingCalls[c.Name] && !(len(roles) == 1 && roles[0] == "stdout") {
			c.Mutating = true
		}

		c.Sig = name + "(" + strings.Join(roles, ">") + ")"
	}

	return calls, sigkill, nil
}

func c36RelevantSigs(calls []scall) []string {
	var out []string

	for _, c := range calls {
		if c.Relevant {
			out = append(out, c.Sig)
		}
	}

	return out
}

// c36Window names the crash window: the last mutating call that completed
// before the kill (friendly names for the calls of rewriteFile).
func c36Window(done []scall) string {
	last, writes := "", 0

	for _, c := range done {
		if c.Relevant && c.Mutating {
			last = c.Sig

			switch c.Sig {
			case "openat:create(T.tmp)":
				writes = 0
			case "write(T.tmp)":
				writes++
			}
		}
	}

	switch last {
	case "":
		return "before-temp-create"
	case "openat:create(T.tmp)":
		return "after-temp-create"
	case "write(T.tmp)":
		if writes > 1 {
			return "after-temp-write-" + strconv.Itoa(writes)
		}

		return "after-temp-write"
	case "fchmodat(T.tmp)":
		return "after-temp-chmod"
	case "renameat(T>T.bak)":
		return "between-renames"
	case "renameat(T.tmp>T)":
		return "after-rename-into-place"
	case "unlinkat(T.bak)":
		return "after-backup-remove"
	}

	return "after-" + strings.NewReplacer("(", "-", ")", "", ">", "-to-", ":", "-", " ", "").Replace(last)
}

type c36Run struct {
	dir    string
	calls  []scall
	killed bool
	rc     int
	out    string
}

func c36Setup(dir string, sh c36Shape) error {
	_ = os.Chmod(dir, 0o755)
	_ = os.RemoveAll(dir)

	if err := os.MkdirAll(dir, 0o755); err != nil {
		return err
	}

	for i, f := range sh.Files {
		p := filepath.Join(dir, f)
		if err := os.WriteFile(p, sh.Content[i], 0o644); err != nil {
			return err
		}

		if err := os.Chmod(p, sh.Mode); err != nil {
			return err
		}
	}

	return nil
}

func c36Env() []string {
	return append(os.Environ(), "GOMAXPROCS=1", "GODEBUG=asyncpreemptoff=1")
}

// c36Exec runs langlint in dir, under strace when inject/trace is wanted.
func c36Exec(langlint, dir, logPath string, sh c36Shape, inject string) (*c36Run, error) {
	args := sh.Args(dir)
	cwd := filepath.Dir(dir)

	if sh.Relative {
		cwd = dir
	}

	var cmd *exec.Cmd

	if logPath != "" {
		sargs := []string{"-f", "-y", "-e", "trace=" + c36Syscalls}
		if inject != "" {
			sargs = append(sargs, "-e", "inject="+inject)
		}

		sargs = append(sargs, "-o", logPath, langlint)
		cmd = exec.Command("strace", append(sargs, args...)...)
	} else {
		cmd = exec.Command(langlint, args...)
	}

	cmd.Dir = cwd
	cmd.Env = c36Env()

	var buf bytes.Buffer

	cmd.Stdout = &buf
	cmd.Stderr = &buf
	err := cmd.Run()
	run := &c36Run{dir: dir, out: buf.String()}

	if cmd.ProcessState != nil {
		run.rc = cmd.ProcessState.ExitCode()
	}

	if err != nil {
		if _, ok := err.(*exec.ExitError); !ok {
			return nil, err
		}
	}

	if logPath != "" {
		calls, killed, perr := c36Parse(logPath, cwd, dir, sh.Files)
		if perr != nil {
			return nil, perr
		}

		run.calls, run.killed = calls, killed
	}

	return run, nil
}

func c36List(dir string) []string {
	ents, _ := os.ReadDir(dir)

	var names []string

	for _, e := range ents {
		names = append(names, e.Name())
	}

	sort.Strings(names)

	return names
}

func c36Shapes() []c36Shape {
	small := []byte("# header comment\n\n[zeta]\nzulu=last {{name}}\nalpha=first\n\n\n[beta]\nb=2\na=1\n")

	var big bytes.Buffer

	big.WriteString("# large file: well above any buffer size so that the temp file needs as many write calls as the runtime issues\n[big]\n")

	for i := 20000; i > 0; i-- {
		fmt.Fprintf(&big, "key.%06d=message number %d with some padding text to make the line longer {{n}}\n", i, i)
	}

	abs := func(f string) func(string) []string {
		return func(dir string) []string { return []string{filepath.Join(dir, f)} }
	}

	return []c36Shape{
		{Name: "small-0644", Files: []string{"messages_xx.txt"}, Content: [][]byte{small}, Mode: 0o644, Args: abs("messages_xx.txt")},
		{Name: "large-0644", Files: []string{"messages_xx.txt"}, Content: [][]byte{big.Bytes()}, Mode: 0o644, Args: abs("messages_xx.txt")},
		{Name: "readonly-0444", Files: []string{"messages_xx.txt"}, Content: [][]byte{small}, Mode: 0o444, Args: abs("messages_xx.txt")},
		{Name: "private-0600", Files: []string{"messages_xx.txt"}, Content: [][]byte{small}, Mode: 0o600, Args: abs("messages_xx.txt")},
		{Name: "exec-0755-relative", Files: []string{"messages_xx.txt"}, Content: [][]byte{small}, Mode: 0o755, Relative: true,
			Args: func(string) []string { return []string{"messages_xx.txt"} }},
		{Name: "two-files-path-option", Files: []string{"messages_aa.txt", "messages_bb.txt"}, Content: [][]byte{small, append([]byte("[x]\nq=1\nc=2\n"), small...)}, Mode: 0o640,
			Args: func(dir string) []string { return []string{"-p", dir} }},
	}
}

func TestC36(t *testing.T) {
	r := vh.New("C36", "crashpoints")
	r.Exhaustive = true
	r.Rule = "crash point = entry to the k-th file-system system call (of the traced set) that touches the message directory, k enumerated from the " +
		"uninjected strace of the same rewrite; case = (file shape, k); distinct = distinct (shape, call signature, ordinal); non-trivial = the kill " +
		"really fired at that call (read back from the injected run's trace) and at least the message file had been opened"
	r.Assume("strace -e inject=<call>:signal=SIGKILL aborts the call on entry (the directory state is checked against a replay of the completed calls of the same trace)")
	r.Assume("crash = process death between two system calls; power loss with unflushed page cache is not modelled")

	langlint := filepath.Join(os.Getenv("VERIF_BIN"), "langlint")
	if _, err := os.Stat(langlint); err != nil {
		t.Fatalf("langlint binary missing: %v", err)
	}

	if _, err := exec.LookPath("strace"); err != nil {
		r.Inconcl("strace not installed")
		_ = r.Write()
		t.Fatal("strace not installed: C36 cannot observe anything")
	}

	arena := os.Getenv("VERIF_ARENA")
	if arena == "" {
		arena = t.TempDir()
	}

	shapes := c36Shapes()

	var only struct {
		Shape string `json:"shape"`
	}

	if c := vh.ReplayCase(); c != nil {
		_ = jsonUnmarshal(c, &only)
	}

	if vh.Tier() != "thorough" && only.Shape == "" {
		shapes = shapes[:4] // quick = thorough apart from shapes: the four single-file shapes
	}

	var wg sync.WaitGroup

	for _, sh := range shapes {
		if only.Shape != "" && only.Shape != sh.Name {
			continue
		}

		wg.Add(1)

		go func(sh c36Shape) {
			defer wg.Done()
			c36RunShape(t, r, langlint, filepath.Join(arena, "c36-"+sh.Name), sh)
		}(sh)
	}

	wg.Wait()

	if c36NotExhaustive.Load() || only.Shape != "" {
		r.Exhaustive = false
	}

	if r.Counters["kills.evaluated"] == 0 {
		_ = r.Write()
		t.Fatal("observed nothing: no injected kill fired")
	}

	if err := r.Write(); err != nil {
		t.Fatal(err)
	}
}

func c36RunShape(t *testing.T, r *vh.Report, langlint, base string, sh c36Shape) {
	_ = os.RemoveAll(base)

	if err := os.MkdirAll(base, 0o755); err != nil {
		t.Errorf("setup: %v", err)

		return
	}

	dir := filepath.Join(base, "msgs")
	logPath := filepath.Join(base, "trace.log")

	// --- 1. baseline: uninjected traced run
	if err := c36Setup(dir, sh); err != nil {
		t.Errorf("setup: %v", err)

		return
	}

	baseRun, err := c36Exec(langlint, dir, logPath, sh, "")
	if err != nil || baseRun.rc != 0 || baseRun.killed {
		t.Errorf("baseline run of %s failed: %v rc=%d out=%s", sh.Name, err, baseRun.rc, baseRun.out)

		return
	}

	formatted := make([][]byte, len(sh.Files))

	for i, f := range sh.Files {
		formatted[i], _ = os.ReadFile(filepath.Join(dir, f))
		if bytes.Equal(formatted[i], sh.Content[i]) {
			t.Errorf("shape %s: file %s is not changed by formatting", sh.Name, f)

			return
		}
	}

	if l := c36List(dir); strings.Join(l, ",") != strings.Join(sh.Files, ",") {
		// a clean run that leaves files behind is itself a violation of the second half of the property
		r.Violate(vh.Violation{Key: "stale-files-after-clean-run", Desc: fmt.Sprintf("uninterrupted rewrite left %v", l), Case: map[string]any{"shape": sh.Name}})
	}

	baseSigs := c36RelevantSigs(baseRun.calls)
	K := len(baseSigs)

	if K < 6 {
		t.Errorf("shape %s: baseline trace lists only %d calls: %v", sh.Name, K, baseSigs)

		return
	}

	r.Count("baseline.points:"+sh.Name, int64(K))
	r.Note(fmt.Sprintf("%s: baseline call sequence (%d crash points): %s", sh.Name, K, strings.Join(baseSigs, " ")))

	// per syscall name: how many calls of that name the whole process made (upper bound for when=)
	// and how many of them precede the first call on the message directory: those are made by the runtime's
	// start-up on the main thread, so when=N with N <= that number always fires there and is useless.
	total := map[string]int{}
	startup := map[string]int{}
	needNames := map[string]bool{}
	seen := false

	for _, c := range baseRun.calls {
		total[c.Name]++

		if c.Relevant {
			needNames[c.Name] = true
			seen = true
		} else if !seen {
			startup[c.Name]++
		}
	}

	// one directed kill before the first file call (state must be the untouched original)
	c36Inject(t, r, langlint, dir, logPath, sh, formatted, baseSigs, make([]int, K), "openat:signal=SIGKILL:when=1")

	names := make([]string, 0, len(needNames))
	for n := range needNames {
		names = append(names, n)
	}

	sort.Strings(names)

	covered := make([]int, K) // hits per crash point
	uncovered := func() int {
		n := 0

		for _, h := range covered {
			if h == 0 {
				n++
			}
		}

		return n
	}

	const maxSweeps = 60

	for sweep := 0; sweep < maxSweeps && uncovered() > 0; sweep++ {
		for _, name := range names {
			for n := startup[name] + 1; n <= total[name]; n++ {
				// skip (name, n) pairs that cannot help any more: every point with this call name is covered
				need := false

				for k, s := range baseSigs {
					if covered[k] == 0 && strings.HasPrefix(s, name) {
						need = true
					}
				}

				if !need {
					continue
				}

				c36Inject(t, r, langlint, dir, logPath, sh, formatted, baseSigs, covered, fmt.Sprintf("%s:signal=SIGKILL:when=%d", name, n))
			}
		}
	}

	for k, h := range covered {
		if h == 0 {
			r.Inconcl(fmt.Sprintf("%s: crash point %d (%s) was never hit in %d sweeps", sh.Name, k+1, baseSigs[k], maxSweeps))
			c36NotExhaustive.Store(true)
		}
	}

	r.Count("points.covered:"+sh.Name, int64(K-uncovered()))
}

// c36Inject makes one injected run and evaluates the oracle on it.
func c36Inject(t *testing.T, r *vh.Report, langlint, dir, logPath string, sh c36Shape, formatted [][]byte, baseSigs []string, covered []int, inject string) {
	if err := c36Setup(dir, sh); err != nil {
		t.Errorf("setup: %v", err)

		return
	}

	run, err := c36Exec(langlint, dir, logPath, sh, inject)
	if err != nil {
		t.Errorf("strace: %v", err)

		return
	}

	r.Count("runs.injected", 1)

	if !run.killed {
		r.Count("runs.injection-did-not-fire", 1) // retried by the caller; never counted as a pass

		return
	}

	// which call was hit: the (single) call that never returned
	hit := -1

	for i, c := range run.calls {
		if c.Killed {
			if hit >= 0 {
				r.Count("runs.ambiguous-trace", 1)

				return
			}

			hit = i
		}
	}

	if hit < 0 {
		r.Count("runs.ambiguous-trace", 1)

		return
	}

	done := run.calls[:hit]
	doneSigs := c36RelevantSigs(done)
	k := len(doneSigs) // 0-based ordinal of the hit call among relevant calls

	if !run.calls[hit].Relevant {
		if k == 0 {
			r.Count("kills.before-first-file-call", 1)
		} else {
			r.Count("kills.at-unrelated-call", 1)
		}
	} else {
		// the run must have followed the baseline sequence up to and including the hit call
		if k >= len(baseSigs) || run.calls[hit].Sig != baseSigs[k] || strings.Join(doneSigs, " ") != strings.Join(baseSigs[:k], " ") {
			r.Inconcl(fmt.Sprintf("%s: injected run diverged from the baseline sequence at call %d: %v + %s", sh.Name, k+1, doneSigs, run.calls[hit].Sig))

			return
		}
	}

	window := c36Window(done)
	point := fmt.Sprintf("%d:%s", k+1, run.calls[hit].Sig)

	if !run.calls[hit].Relevant {
		point = fmt.Sprintf("%d:(unrelated %s)", k+1, run.calls[hit].Name)
	}

	caseDoc := map[string]any{"shape": sh.Name, "inject": inject, "crash_point": point, "window": window, "completed_calls": doneSigs}

	// sanity of the instrument: replay the completed mutating calls of THIS trace over the initial listing
	if want, ok := c36Predict(sh, done, dir); ok {
		if got := c36List(dir); strings.Join(got, ",") != strings.Join(want, ",") {
			r.Inconcl(fmt.Sprintf("%s: directory after kill at %s is %v, trace replay predicts %v (instrument mismatch, not a verdict)", sh.Name, point, got, want))

			return
		}

		r.Count("instrument.state-matches-trace-replay", 1)
	}

	r.Eval(sh.Name+"/"+point, run.calls[hit].Relevant)
	r.Count("kills.evaluated", 1)
	r.Count("window:"+window, 1)

	if run.calls[hit].Relevant {
		covered[k]++
	}

	after := c36List(dir)
	caseDoc["dir_after_kill"] = after
	bad := false

	// --- oracle 1: each message path holds exactly the original or exactly the formatted bytes
	for i, f := range sh.Files {
		p := filepath.Join(dir, f)
		st, err := os.Lstat(p)

		var kind, obs string

		switch {
		case err != nil:
			kind, obs = "no-file", err.Error()
		case !st.Mode().IsRegular():
			kind, obs = "not-regular", st.Mode().String()
		default:
			b, _ := os.ReadFile(p)
			if !bytes.Equal(b, sh.Content[i]) && !bytes.Equal(b, formatted[i]) {
				kind, obs = "wrong-content", fmt.Sprintf("%d bytes, neither original (%d) nor formatted (%d): %q", len(b), len(sh.Content[i]), len(formatted[i]), vh.Trunc(string(b), 120))
			} else if bytes.Equal(b, formatted[i]) {
				r.Count("after-kill.path-holds-formatted", 1)
			} else {
				r.Count("after-kill.path-holds-original", 1)
			}
		}

		if kind != "" {
			bad = true

			r.Violate(vh.Violation{Key: "crash:" + window + ":" + kind,
				Desc:     fmt.Sprintf("langlint killed on entry to %s (shape %s): %s afterwards: %s; directory holds %v", point, sh.Name, f, obs, after),
				Case:     caseDoc,
				Expected: "path holds exactly the original or exactly the formatted content", Observed: kind + ": " + obs})
		}
	}

	// --- oracle 2: a later uninjected run succeeds and leaves only the message files.
	// It presupposes a state that oracle 1 accepts; after a lost/corrupt file the violation is already recorded.
	if bad {
		r.Count("later-runs.skipped-after-lost-file", 1)

		return
	}

	later, err := c36Exec(langlint, dir, "", sh, "")
	if err != nil {
		t.Errorf("later run: %v", err)

		return
	}

	r.Count("later-runs", 1)

	if later.rc != 0 {
		r.Violate(vh.Violation{Key: "later-run-fails:" + window, Desc: fmt.Sprintf("after a kill at %s (shape %s) the next langlint run fails rc=%d: %s", point, sh.Name, later.rc, vh.Trunc(later.out, 300)),
			Case: caseDoc, Expected: "rc=0", Observed: later.rc})

		return
	}

	for i, f := range sh.Files {
		b, _ := os.ReadFile(filepath.Join(dir, f))
		if !bytes.Equal(b, formatted[i]) {
			r.Violate(vh.Violation{Key: "later-run-wrong-content:" + window, Desc: fmt.Sprintf("after a kill at %s (shape %s) and a successful later run %s does not hold the formatted content", point, sh.Name, f),
				Case: caseDoc, Expected: "formatted content", Observed: vh.Trunc(string(b), 200)})
		}
	}

	final := c36List(dir)
	if strings.Join(final, ",") == strings.Join(sh.Files, ",") {
		r.Count("later-runs.directory-clean", 1)

		return
	}

	kinds := map[string][]string{}

	for _, n := range final {
		role := c36Role(filepath.Join(dir, n), dir, dir, sh.Files)
		if role == "T" {
			continue
		}

		key := map[string]string{"T.tmp": "stale-temp-after-success", "T.bak": "stale-backup-after-success"}[role]
		if key == "" {
			key = "stale-other-after-success"
		}

		kinds[key] = append(kinds[key], n)
	}

	for key, files := range kinds {
		r.Violate(vh.Violation{Key: key, Desc: fmt.Sprintf("kill at %s (window %s, shape %s), then a successful uninjected langlint run: directory still holds %v", point, window, sh.Name, files),
			Case: caseDoc, Expected: sh.Files, Observed: final})
	}
}

// c36Predict replays the completed mutating calls of a trace over the initial
// directory listing (names only; temp names are taken from the trace).
func c36Predict(sh c36Shape, done []scall, dir string) ([]string, bool) {
	set := map[string]bool{}
	for _, f := range sh.Files {
		set[f] = true
	}

	cwd := filepath.Dir(dir)
	if sh.Relative {
		cwd = dir
	}

	baseOf := func(p string) (string, bool) {
		if !filepath.IsAbs(p) {
			p = filepath.Join(cwd, p)
		}

		p = filepath.Clean(p)

		return filepath.Base(p), filepath.Dir(p) == dir
	}

	for _, c := range done {
		if !c.Relevant || !c.Mutating || c.Killed {
			continue
		}

		if strings.HasPrefix(c.Ret, "-1") {
			continue
		}

		args := c.Args
		if k := strings.LastIndex(args, ") = "); k >= 0 {
			args = args[:k]
		}

		var paths []string
		for _, q := range reQuoted.FindAllStringSubmatch(args, -1) {
			paths = append(paths, q[1])
		}

		switch c.Name {
		case "openat", "open", "creat":
			if len(paths) >= 1 {
				if b, in := baseOf(paths[0]); in {
					set[b] = true
				}
			}
		case "rename", "renameat", "renameat2":
			if len(paths) == 2 {
				from, in1 := baseOf(paths[0])
				to, in2 := baseOf(paths[1])

				if in1 {
					delete(set, from)
				}

				if in2 {
					set[to] = true
				}
			}
		case "unlink", "unlinkat", "rmdir":
			if len(paths) >= 1 {
				if b, in := baseOf(paths[0]); in {
					delete(set, b)
				}
			}
		case "link", "linkat", "symlink", "symlinkat", "mkdir", "mkdirat":
			return nil, false
		}
	}

	out := make([]string, 0, len(set))
	for n := range set {
		out = append(out, n)
	}

	sort.Strings(out)

	return out, true
}
