package tools

// C27 — decryption never accepts a forged ciphertext.
//
// Events: (text, err) of util.Decrypt, settings.Decrypt and tokens.Unwrap.
// Oracle: Decrypt(Encrypt(p,k),k) == p; every other input — each single-byte
// edit of the raw and of the encoded ciphertext, truncation to EVERY length,
// extension, version-prefix swaps between the v3/v2/legacy formats, the right
// ciphertext under another key — must give err != nil. An encoded string that
// decodes to the very same raw bytes (hex case, base64 padding bits) is not a
// forgery and is not evaluated.
import (
	"bytes"
	"crypto/aes"
	"crypto/cipher"
	"crypto/md5"
	"crypto/sha256"
	"encoding/base64"
	"encoding/hex"
	"fmt"
	"math/rand"
	"os"
	"runtime"
	"strings"
	"sync"
	"testing"

	"golang.org/x/crypto/pbkdf2"

	"github.com/tucats/ego/internal/cli/settings"
	"github.com/tucats/ego/internal/language/tokens"
	"github.com/tucats/ego/internal/util"
	"github.com/tucats/ego/internal/verifh/vh"
)

type c27Job struct {
	Surface string `json:"surface"` // util | settings | tokens
	Format  string `json:"format"`  // format of the genuine ciphertext this input was derived from
	Kind    string `json:"kind"`
	Detail  string `json:"detail"`
	Input   string `json:"-"`
	InputX  string `json:"input_hex"`
	Key     string `json:"key"`
	Pair    int    `json:"pair"`
	// Genuine: the input IS the untouched ciphertext and must decrypt to Plain.
	Genuine bool   `json:"genuine"`
	Plain   string `json:"plain"`
}

type c27Result struct {
	text string
	err  error
}

var c27Ballast []byte

var (
	c27MagicV3 = []byte{0xFF, 0x45, 0x47, 0x33}
	c27MagicV2 = []byte{0xFF, 0x45, 0x47, 0x4F}
)

func c27Seal(key, plain []byte, rng *rand.Rand) []byte {
	block, err := aes.NewCipher(key)
	if err != nil {
		panic(err)
	}

	gcm, err := cipher.NewGCM(block)
	if err != nil {
		panic(err)
	}

	nonce := make([]byte, gcm.NonceSize())
	rng.Read(nonce)

	return gcm.Seal(nonce, nonce, plain, nil)
}

func c27MD5Key(pass string) []byte {
	h := md5.Sum([]byte(pass))

	return []byte(hex.EncodeToString(h[:]))
}

// c27Old builds ciphertext in the older formats the real Decrypt still accepts
// (documented in the two crypto.go files); the harness checks that the real
// Decrypt opens them before using them as forgery bases.
func c27Old(surface, format, plain, pass string, rng *rand.Rand) string {
	switch surface + "/" + format {
	case "util/v2":
		salt := make([]byte, 16)
		rng.Read(salt)

		key := pbkdf2.Key([]byte(pass), salt, 100_000, 32, sha256.New)
		out := append([]byte{}, c27MagicV2...)
		out = append(out, salt...)

		return string(append(out, c27Seal(key, []byte(plain), rng)...))
	case "util/legacy":
		return string(c27Seal(c27MD5Key(pass), []byte(plain), rng))
	case "settings/v2":
		k := sha256.Sum256([]byte(pass))

		return "v2:" + base64.StdEncoding.EncodeToString(c27Seal(k[:], []byte(plain), rng))
	case "settings/legacy":
		return base64.StdEncoding.EncodeToString(c27Seal(c27MD5Key(pass), []byte(plain), rng))
	}

	panic("unknown format " + surface + "/" + format)
}

// c27Raw splits an input the way the documented dispatch does: which format it
// will be taken for and the raw bytes after the version marker. ok=false when the
// encoding (base64/hex) is invalid, in which case only an error is acceptable.
func c27Raw(surface, input string) (route string, body []byte, ok bool) {
	switch surface {
	case "util":
		b := []byte(input)

		switch {
		case len(b) > 4 && bytes.Equal(b[:4], c27MagicV3):
			return "v3", b[4:], true
		case len(b) > 4 && bytes.Equal(b[:4], c27MagicV2):
			return "v2", b[4:], true
		}

		return "legacy", b, true
	case "settings":
		route, enc := "legacy", input

		switch {
		case strings.HasPrefix(input, "v3:"):
			route, enc = "v3", input[3:]
		case strings.HasPrefix(input, "v2:"):
			route, enc = "v2", input[3:]
		}

		b, err := base64.StdEncoding.DecodeString(enc)

		return route, b, err == nil
	case "tokens":
		b, err := hex.DecodeString(input)
		if err != nil {
			return "hex", nil, false
		}

		r, body, _ := c27Raw("util", string(b))

		return r, body, true
	}

	return "", nil, false
}

// c27Region names the length class of the raw body for its route.
func c27Region(surface, route string, body []byte, ok bool) string {
	if !ok {
		return "bad-encoding"
	}

	salt := 0
	if route == "v3" || (route == "v2" && surface != "settings") {
		salt = 16
	}

	switch {
	case len(body) < salt:
		return "short-salt"
	case len(body) < salt+12:
		return "short-nonce"
	case len(body) < salt+12+16:
		return "short-tag"
	}

	return "full"
}

func c27Do(j *c27Job) c27Result {
	switch j.Surface {
	case "util":
		t, err := util.Decrypt(j.Input, j.Key)

		return c27Result{t, err}
	case "settings":
		t, err := settings.Decrypt(j.Input, j.Key)

		return c27Result{t, err}
	case "tokens":
		tok, err := tokens.Unwrap(j.Input, 0)
		if tok != nil {
			return c27Result{tok.Name + "\x00" + tok.Data, err}
		}

		return c27Result{"", err}
	}

	panic("surface")
}

// c27Forgeries derives the forged inputs from one genuine ciphertext.
func c27Forgeries(surface, format, ct, key, plain string, pair int, rng *rand.Rand, editsPerPos int, otherKeys []string) []*c27Job {
	var jobs []*c27Job

	add := func(kind, detail, input, k string) {
		jobs = append(jobs, &c27Job{Surface: surface, Format: format, Kind: kind, Detail: detail, Input: input, Key: k, Pair: pair, Plain: plain})
	}

	// truncation of the ciphertext string to every length (0 .. len-1)
	for n := 0; n < len(ct); n++ {
		add("truncate", fmt.Sprintf("to %d of %d bytes", n, len(ct)), ct[:n], key)
	}

	// single-byte edits of the string as the caller sees it (raw for util, base64/hex text otherwise)
	alphabet := ""

	switch surface {
	case "settings":
		alphabet = "ABCDEFGHIJKLMNOPQRSTUVWXYZabcdefghijklmnopqrstuvwxyz0123456789+/=:v23 "
	case "tokens":
		alphabet = "0123456789abcdefABCDEFg "
	}

	encStep := 1
	if surface == "tokens" {
		encStep = 3 // a token is ~600 hex digits and every attempt costs one Argon2id run
	}

	for i := rng.Intn(encStep); i < len(ct); i += encStep {
		for e := 0; e < editsPerPos; e++ {
			b := []byte(ct)

			if alphabet == "" {
				b[i] ^= byte(1 + rng.Intn(255))
			} else {
				c := alphabet[rng.Intn(len(alphabet))]
				for c == b[i] {
					c = alphabet[rng.Intn(len(alphabet))]
				}

				b[i] = c
			}

			add("edit-encoded", fmt.Sprintf("byte %d: %#x -> %#x", i, ct[i], b[i]), string(b), key)
		}
	}

	// single-byte edits, insertions and deletions of the RAW ciphertext, re-encoded canonically
	if surface != "util" {
		pre, enc := "", ct

		if surface == "settings" && (strings.HasPrefix(ct, "v3:") || strings.HasPrefix(ct, "v2:")) {
			pre, enc = ct[:3], ct[3:]
		}

		var raw []byte

		if surface == "settings" {
			raw, _ = base64.StdEncoding.DecodeString(enc)
		} else {
			raw, _ = hex.DecodeString(enc)
		}

		recode := func(b []byte) string {
			if surface == "settings" {
				return pre + base64.StdEncoding.EncodeToString(b)
			}

			return hex.EncodeToString(b)
		}

		step := 2 // the encoded edits above already touch every character
		if surface == "tokens" {
			step = 5
		}

		for i := rng.Intn(step); i < len(raw); i += step {
			b := append([]byte{}, raw...)
			b[i] ^= byte(1 << uint(rng.Intn(8)))
			add("edit-raw", fmt.Sprintf("raw byte %d bit flip", i), recode(b), key)
		}

		for _, i := range []int{0, len(raw) / 2, len(raw) - 1} {
			if i < 0 || i >= len(raw) {
				continue
			}

			add("delete-raw", fmt.Sprintf("raw byte %d deleted", i), recode(append(append([]byte{}, raw[:i]...), raw[i+1:]...)), key)
			add("insert-raw", fmt.Sprintf("raw byte inserted at %d", i), recode(append(append(append([]byte{}, raw[:i]...), byte(rng.Intn(256))), raw[i:]...)), key)
		}

		add("extend-raw", "one raw byte appended", recode(append(append([]byte{}, raw...), byte(rng.Intn(256)))), key)
		add("extend-raw", "16 raw bytes appended", recode(append(append([]byte{}, raw...), make([]byte, 16)...)), key)
		add("extend-raw", "raw ciphertext doubled", recode(append(append([]byte{}, raw...), raw...)), key)
	} else {
		raw := []byte(ct)

		for _, i := range []int{0, len(raw) / 2, len(raw) - 1} {
			add("delete-raw", fmt.Sprintf("byte %d deleted", i), string(append(append([]byte{}, raw[:i]...), raw[i+1:]...)), key)
			add("insert-raw", fmt.Sprintf("byte inserted at %d", i), string(append(append(append([]byte{}, raw[:i]...), byte(rng.Intn(256))), raw[i:]...)), key)
		}
	}

	// extension of the string itself
	add("extend", "one byte appended", ct+string(rune('0'+rng.Intn(10))), key)
	add("extend", "ciphertext doubled", ct+ct, key)
	add("extend", "one byte prepended", "A"+ct, key)

	// version-prefix swaps
	switch surface {
	case "util":
		body := ct
		if format != "legacy" {
			body = ct[4:]
		}

		for name, magic := range map[string][]byte{"v3": c27MagicV3, "v2": c27MagicV2, "legacy": nil} {
			if name != format {
				add("prefix-swap", format+" body relabelled "+name, string(magic)+body, key)
			}
		}

		add("prefix-swap", "magic duplicated", string(c27MagicV3)+ct, key)
	case "settings":
		body := ct
		if format != "legacy" {
			body = ct[3:]
		}

		for name, p := range map[string]string{"v3": "v3:", "v2": "v2:", "legacy": "", "v1": "v1:", "V3": "V3:"} {
			if name != format {
				add("prefix-swap", format+" body relabelled "+name, p+body, key)
			}
		}
	}

	// the right ciphertext under another key (tokens: done by the caller, the key is process-global)
	if surface != "tokens" {
		for _, k := range otherKeys {
			if k != key {
				add("wrong-key", fmt.Sprintf("key %q instead of %q", vh.Trunc(k, 20), vh.Trunc(key, 20)), ct, k)
			}
		}
	}

	return jobs
}

func c27Plain(rng *rand.Rand, i int) string {
	lens := []int{0, 1, 5, 15, 16, 17, 31, 32, 33}
	n := rng.Intn(41)

	if i < len(lens) {
		n = lens[i]
	}

	switch rng.Intn(4) {
	case 0:
		b := make([]byte, n)
		rng.Read(b)

		return string(b) // arbitrary bytes
	case 1:
		return strings.Repeat("é日", n)[:n]
	}

	const al = "abcdefghijklmnopqrstuvwxyz ABCDEFGHIJKLMNOPQRSTUVWXYZ0123456789{}\":,"

	b := make([]byte, n)
	for k := range b {
		b[k] = al[rng.Intn(len(al))]
	}

	return string(b)
}

func c27Key(rng *rand.Rand, i int) string {
	fixed := []string{"", "k", "secret", "a much longer pass phrase with spaces and ünïcode", strings.Repeat("K", 128)}
	if i < len(fixed) {
		return fixed[i]
	}

	const al = "ABCDEFGHIJKLMNOPQRSTUVWXYZabcdefghijklmnopqrstuvwxyz0123456789"

	b := make([]byte, 1+rng.Intn(40))
	for k := range b {
		b[k] = al[rng.Intn(len(al))]
	}

	return string(b)
}

func c27OtherKeys(key string, rng *rand.Rand) []string {
	// (no NUL-suffixed variant: HMAC zero-pads its key, so PBKDF2(k) == PBKDF2(k+"\x00") by construction — not a different key for the v2 format)
	out := []string{key + "x", "x" + key, strings.ToUpper(key), key + " ", "", c27Key(rng, 99)}
	if len(key) > 1 {
		out = append(out, key[:len(key)-1], key[1:])
	}

	return out
}

// c27Run executes jobs on a worker pool and evaluates each one.
func c27Run(r *vh.Report, jobs []*c27Job, workers int) {
	var wg sync.WaitGroup

	ch := make(chan *c27Job)

	for w := 0; w < workers; w++ {
		wg.Add(1)

		go func() {
			defer wg.Done()

			for j := range ch {
				c27Eval(r, j, c27Do(j))
			}
		}()
	}

	for _, j := range jobs {
		ch <- j
	}

	close(ch)
	wg.Wait()
}

func c27Eval(r *vh.Report, j *c27Job, res c27Result) {
	j.InputX = hex.EncodeToString([]byte(j.Input))

	if j.Genuine {
		want := j.Plain
		r.Eval("genuine/"+j.Surface+"/"+j.Format+"/"+vh.Hash(j.Input, j.Key), true)
		r.Count("roundtrip."+j.Surface+"."+j.Format, 1)

		if res.err != nil || res.text != want {
			r.Violate(vh.Violation{Key: "roundtrip:" + j.Surface + ":" + j.Format, Desc: fmt.Sprintf("%s: Decrypt(Encrypt(p,k),k) = (%q, %v), p = %q", j.Surface, vh.Trunc(res.text, 80), res.err, vh.Trunc(want, 80)),
				Case: j, Expected: want, Observed: fmt.Sprintf("%q / %v", res.text, res.err)})
		}

		return
	}

	route, body, ok := c27Raw(j.Surface, j.Input)
	region := c27Region(j.Surface, route, body, ok)

	r.Eval(j.Surface+"/"+vh.Hash(j.Input, j.Key), region == "full" || region == "short-tag")
	r.Count("forged."+j.Surface+"."+j.Kind, 1)
	r.Count("forged.region."+region, 1)

	if (route == "v3" || (route == "v2" && j.Surface != "settings")) && ok && len(body) >= 16 {
		r.Count("forged.key-derivations(argon2id/pbkdf2)", 1)
	}

	if res.err != nil {
		r.Count("forged.rejected", 1)

		return
	}

	outcome := "nil-error-text"
	if res.text == "" {
		outcome = "nil-error-empty-text"
	}

	r.Violate(vh.Violation{Key: j.Surface + ":" + route + ":" + region + ":" + outcome,
		Desc: fmt.Sprintf("%s decrypt of a forged input (%s of a %s ciphertext: %s; %d raw bytes after the version marker) returned (%q, nil)",
			j.Surface, j.Kind, j.Format, j.Detail, len(body), vh.Trunc(res.text, 60)),
		Case: j, Expected: "err != nil", Observed: fmt.Sprintf("(%q, nil)", vh.Trunc(res.text, 200))})
}

func TestC27(t *testing.T) {
	r := vh.New("C27", "forgery")
	r.Rule = "pair = (plaintext of 0..40 bytes incl. block-size boundaries, binary and multi-byte; key incl. empty/1-char/128-char); per pair and format: truncation to EVERY length, " +
		"an edit at EVERY byte of the caller-visible string and of the raw ciphertext, insert/delete/extend, version-prefix swaps, 6-8 related wrong keys; " +
		"distinct = distinct (input,key); non-trivial = the forged input is long enough to reach the AEAD open (nonce present)"
	r.Assume("AES-GCM, Argon2id, PBKDF2 from the Go standard/x libraries are trusted; the monitor builds v2/legacy ciphertext itself from the documented wire formats and first checks that the real Decrypt opens it")
	r.Assume("an encoded string that decodes to the same raw bytes as the genuine ciphertext is not a forgery")

	if home := os.Getenv("VERIF_HOME"); home != "" {
		os.Setenv("HOME", home)
	}

	const tokenKey = "verif-token-key-0123456789"

	os.Setenv("EGO_SERVER_TOKEN_KEY", tokenKey)

	// Argon2id allocates 32 MiB per call. An untouched ballast keeps the GC goal (and what the scavenger retains) above the
	// workers' working set, so those pages are recycled instead of being returned to the OS and faulted in again on every call.
	c27Ballast = make([]byte, 512<<20)
	defer runtime.KeepAlive(c27Ballast)

	workers := 8

	if rc := vh.ReplayCase(); rc != nil {
		var j c27Job
		if err := jsonUnmarshal(rc, &j); err != nil {
			t.Fatal(err)
		}

		b, _ := hex.DecodeString(j.InputX)
		j.Input = string(b)

		if j.Surface == "tokens" && j.Key != "" {
			os.Setenv("EGO_SERVER_TOKEN_KEY", j.Key)
		}

		c27Eval(r, &j, c27Do(&j))
		r.Distinct = 2
		_ = r.Write()

		return
	}

	rng := vh.Rand("c27")
	pairs := vh.N(40, 1000)

	var jobs []*c27Job

	flush := func(force bool) {
		if len(jobs) > 4000 || force {
			c27Run(r, jobs, workers)
			jobs = jobs[:0]
		}
	}

	dropAliases := func(surface, ct string, in []*c27Job) []*c27Job {
		_, gbody, _ := c27Raw(surface, ct)
		groute, _, _ := c27Raw(surface, ct)
		out := in[:0]

		for _, j := range in {
			route, body, ok := c27Raw(surface, j.Input)
			if j.Kind != "wrong-key" && ok && route == groute && bytes.Equal(body, gbody) {
				r.Count("skipped.encoding-alias-of-genuine", 1)

				continue
			}

			out = append(out, j)
		}

		return out
	}

	// Every attempt on an input that still has its salt costs one Argon2id (32 MiB) or PBKDF2 (100k rounds) derivation in the real
	// code. In the quick tier the first fullPairs pairs get the complete treatment in those formats; the remaining pairs keep every
	// forgery that is shorter than salt+nonce (where the derivation is skipped or the input is classed short), all structural ones
	// (swap/extend/insert/delete), two wrong keys, and a PRNG 24th of the full-length truncations and edits. The MD5/SHA-256
	// keyed formats (legacy, settings v2) are cheap and always get the complete treatment.
	fullPairs := vh.N(2, 1000)
	thin := func(i int, surface string, in []*c27Job) []*c27Job {
		if i < fullPairs {
			return in
		}

		out, wrong := in[:0], 0

		for _, j := range in {
			route, body, ok := c27Raw(surface, j.Input)
			region := c27Region(surface, route, body, ok)

			switch {
			case j.Kind == "wrong-key":
				wrong++
				if wrong > 2 {
					continue
				}
			case (j.Kind == "truncate" || j.Kind == "edit-encoded" || j.Kind == "edit-raw") && (region == "full" || region == "short-tag") && (route == "v3" || route == "v2"):
				if rng.Intn(24) != 0 {
					continue
				}
			}

			out = append(out, j)
		}

		r.Count("thinned-pairs", 1)

		return out
	}

	for i := 0; i < pairs; i++ {
		plain, key := c27Plain(rng, i), c27Key(rng, i)
		surface := []string{"util", "settings"}[i%2]

		// --- current format: the REAL Encrypt
		var (
			ct  string
			err error
		)

		if surface == "util" {
			ct, err = util.Encrypt(plain, key)
		} else {
			ct, err = settings.Encrypt(plain, key)
		}

		if err != nil {
			t.Fatalf("Encrypt failed: %v", err)
		}

		jobs = append(jobs, &c27Job{Surface: surface, Format: "v3", Kind: "genuine", Input: ct, Key: key, Pair: i, Genuine: true, Plain: plain})
		jobs = append(jobs, thin(i, surface, dropAliases(surface, ct, c27Forgeries(surface, "v3", ct, key, plain, i, rng, 1, c27OtherKeys(key, rng))))...)

		if i < 6 {
			r.Sample(map[string]any{"surface": surface, "plain": vh.Trunc(fmt.Sprintf("%q", plain), 60), "key": vh.Trunc(key, 24), "ciphertext_hex": vh.Trunc(hex.EncodeToString([]byte(ct)), 80)})
		}

		// --- older formats still accepted by Decrypt. legacy and settings/v2 are cheap (MD5/SHA-256 keys): every pair.
		// util/v2 costs a 100k-round PBKDF2 per attempt: every 5th pair.
		formats := []string{"legacy"}
		if surface == "settings" || i%5 == 0 || i == 2 {
			formats = append(formats, "v2")
		}

		for _, f := range formats {
			old := c27Old(surface, f, plain, key, rng)
			jobs = append(jobs, &c27Job{Surface: surface, Format: f, Kind: "genuine", Input: old, Key: key, Pair: i, Genuine: true, Plain: plain})
			fj := dropAliases(surface, old, c27Forgeries(surface, f, old, key, plain, i, rng, 1, c27OtherKeys(key, rng)))
			if surface == "util" && f == "v2" {
				fj = thin(i, surface, fj)
			}

			jobs = append(jobs, fj...)
		}

		flush(false)
	}

	flush(true)

	// --- tokens: real tokens.New, forged token strings through tokens.Unwrap
	nTok := vh.N(2, 24)
	instance := "0e5f5c1e-3f0b-4b0a-9d6a-7f1f3a9b2c11"

	var genuine []string

	for i := 0; i < nTok; i++ {
		name := fmt.Sprintf("user%d", i)
		data := c27Key(rng, 50+i)

		tok, err := tokens.New(name, data, "24h", instance, 0)
		if err != nil {
			t.Fatalf("tokens.New: %v", err)
		}

		genuine = append(genuine, tok)
		plain := name + "\x00" + data
		jobs = append(jobs, &c27Job{Surface: "tokens", Format: "v3", Kind: "genuine", Input: tok, Key: tokenKey, Pair: i, Genuine: true, Plain: plain})

		f := c27Forgeries("tokens", "v3", tok, tokenKey, plain, i, rng, 1, nil)
		{
			// a token is ~600 hex digits and every attempt costs one Argon2id run: the first token keeps a PRNG third
			// of its forgeries (quick) or all of them (thorough), later tokens an eighth
			keepOf := 8
			if i == 0 {
				keepOf = vh.N(3, 1)
			}

			k := 0

			for _, j := range f {
				if rng.Intn(keepOf) == 0 {
					f[k] = j
					k++
				}
			}

			f = f[:k]
		}

		jobs = append(jobs, dropAliases("tokens", tok, f)...)
		flush(false)
	}

	flush(true)

	// the right token under another server key (the key is process-global: sequential, after the pool is idle)
	for i, tok := range genuine {
		for _, k := range []string{tokenKey + "x", strings.ToUpper(tokenKey), "other"} {
			os.Setenv("EGO_SERVER_TOKEN_KEY", k)

			j := &c27Job{Surface: "tokens", Format: "v3", Kind: "wrong-key", Detail: "server token key changed", Input: tok, Key: k, Pair: i}
			c27Eval(r, j, c27Do(j))
		}
	}

	os.Setenv("EGO_SERVER_TOKEN_KEY", tokenKey)

	if r.Counters["forged.region.full"] == 0 {
		_ = r.Write()
		t.Fatal("observed nothing: no full-length forgery was evaluated")
	}

	if err := r.Write(); err != nil {
		t.Fatal(err)
	}
}
