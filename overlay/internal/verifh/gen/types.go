// Package gen is the shared random program generator of the /verif language
// checks (C01, C02, C04, C05, C10, C12). It emits programs of the documented
// Go-compatible core of Ego that are well-typed, terminating and deterministic
// by construction, once as Ego source and once as Go source (for batching into
// one reference build, see GoBatch / RunGoBatch).
//
// It lives in the scratch copy of the tree only; it is not part of tucats/ego.
package gen

import (
	"fmt"
	"math"
	"strconv"
)

type kind int

const (
	kInt kind = iota
	kInt8
	kInt16
	kInt32
	kInt64
	kUint
	kUint8
	kUint16
	kUint32
	kUint64
	kFloat32
	kFloat64
	kString
	kBool
	kSlice
	kMap
	kStruct
	kFunc
)

var kindNames = map[kind]string{
	kInt: "int", kInt8: "int8", kInt16: "int16", kInt32: "int32", kInt64: "int64",
	kUint: "uint", kUint8: "uint8", kUint16: "uint16", kUint32: "uint32", kUint64: "uint64",
	kFloat32: "float32", kFloat64: "float64", kString: "string", kBool: "bool",
}

// IntegerTypes / SignedTypes / FloatTypes name the scalar kinds (used by the
// directed tables of the checks).
var (
	IntegerTypes = []string{"int", "int8", "int16", "int32", "int64", "uint", "uint8", "uint16", "uint32", "uint64"}
	SignedTypes  = []string{"int", "int8", "int16", "int32", "int64"}
	FloatTypes   = []string{"float32", "float64"}
)

type typ struct {
	k    kind
	elem *typ       // slice element / map value
	key  *typ       // map key
	sd   *structDef // struct
	sig  *fn        // func value (closures)
}

type field struct {
	name string
	t    *typ
}

type structDef struct {
	name    string
	fields  []field
	methods []*fn
	t       *typ
}

type param struct {
	name string
	t    *typ
}

type fn struct {
	name      string
	params    []param
	variadic  bool // last param is ...elem (its t is the slice type)
	results   []*typ
	recv      *structDef
	ptrRecv   bool
	pure      bool // does not mutate anything the caller can see (printing is allowed)
	cost      int
	panics    bool // contains a reachable panic() that it does not recover itself
	rangeRet  bool // returns from inside a range loop, or calls a function that does
	recursive bool // first parameter is the decreasing counter: call with a small literal
}

var scalars = map[kind]*typ{}

func init() {
	for k := kInt; k <= kBool; k++ {
		scalars[k] = &typ{k: k}
	}
}

var numericKinds = []kind{kInt, kInt8, kInt16, kInt32, kInt64, kUint, kUint8, kUint16, kUint32, kUint64, kFloat32, kFloat64}
var intKinds = []kind{kInt, kInt8, kInt16, kInt32, kInt64, kUint, kUint8, kUint16, kUint32, kUint64}

func (t *typ) isInt() bool     { return t.k >= kInt && t.k <= kUint64 }
func (t *typ) isSigned() bool  { return t.k >= kInt && t.k <= kInt64 }
func (t *typ) isFloat() bool   { return t.k == kFloat32 || t.k == kFloat64 }
func (t *typ) isNumeric() bool { return t.isInt() || t.isFloat() }
func (t *typ) isScalar() bool  { return t.k <= kBool }

// isDefaultKind: a bare literal of this kind already has this type in both languages.
func (t *typ) isDefaultKind() bool {
	return t.k == kInt || t.k == kFloat64 || t.k == kString || t.k == kBool
}

func (t *typ) name() string {
	switch t.k {
	case kSlice:
		return "[]" + t.elem.name()
	case kMap:
		return "map[" + t.key.name() + "]" + t.elem.name()
	case kStruct:
		return pfx + t.sd.name
	case kFunc:
		s := "func("
		for i, p := range t.sig.params {
			if i > 0 {
				s += ", "
			}
			s += p.t.name()
		}
		s += ")"
		if len(t.sig.results) == 1 {
			s += " " + t.sig.results[0].name()
		}
		return s
	default:
		return kindNames[t.k]
	}
}

func sameType(a, b *typ) bool {
	if a == b {
		return true
	}
	if a.k != b.k {
		return false
	}
	switch a.k {
	case kSlice:
		return sameType(a.elem, b.elem)
	case kMap:
		return sameType(a.key, b.key) && sameType(a.elem, b.elem)
	case kStruct:
		return a.sd == b.sd
	case kFunc:
		return false
	}
	return true
}

// intRange returns the inclusive literal range used for an integer kind. The
// most negative int64 and anything above MaxInt64 are literal-spelling matters
// (C06) and never written as literals here.
func intRange(k kind) (lo, hi int64) {
	switch k {
	case kInt8:
		return math.MinInt8, math.MaxInt8
	case kInt16:
		return math.MinInt16, math.MaxInt16
	case kInt32:
		return math.MinInt32, math.MaxInt32
	case kInt, kInt64:
		return math.MinInt64 + 1, math.MaxInt64
	case kUint8:
		return 0, math.MaxUint8
	case kUint16:
		return 0, math.MaxUint16
	case kUint32:
		return 0, math.MaxUint32
	case kUint, kUint64:
		return 0, math.MaxInt64
	}
	return 0, 0
}

func fmtFloat(v float64) string {
	s := strconv.FormatFloat(v, 'f', -1, 64)
	for _, c := range s {
		if c == '.' {
			return s
		}
	}
	return s + ".0"
}

// Placeholders of the rendering template.
const (
	pfx      = "__P__"    // prefix of every top-level name
	fmtMark  = "__F__"    // print call prefix
	mainMark = "__MAIN__" // head of func main
)

func sprintf(f string, a ...any) string { return fmt.Sprintf(f, a...) }
