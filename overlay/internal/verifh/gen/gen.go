package gen

import (
	"math"
	"math/rand"
	"sort"
	"strings"
)

// Version identifies the generator's output language; bump when the stream of
// programs for a given seed changes.
const Version = "gen-3"

// Options selects the sub-language.
type Options struct {
	Strict      bool            // emit "strict-clean" programs: explicit casts everywhere, no reliance on Ego coercions, so the program is valid Go AND valid under --types strict
	EgoOnly     bool            // may use Ego-only documented features (try/catch ...); such programs have Go == ""
	Comments    bool            // decorate with comments in every position the generator can name (for C05)
	Concurrency bool            // reserved (C08 has its own generator)
	Avoid       map[string]bool // known-finding keys: constructs named here must not be emitted (see AvoidKeys)
	MaxDepth    int             // 0 = default (3)
	MaxStmts    int             // 0 = default (45)
}

// Program is one generated program in both renderings.
type Program struct {
	Ego         string   // Ego source (a full program with func main)
	Go          string   // the same program as Go declarations with the top-level prefix placeholder "__P__"; "" if Ego-only features are used
	Features    []string // sorted set of feature names used
	StrictClean bool     // every literal that is not of its context's default kind is explicitly converted
	Aborts      string   // "" or the kind of deliberate abort planted in main ("div0", "mod0", "index", "panic")
}

// Construct keys understood in Options.Avoid. A key in the avoid set may carry
// further ":"-separated qualifiers (mode, optimizer level); the construct is
// avoided when any avoid key equals it or has it as a ":"-terminated prefix.
//
//	neg:<type>:var     unary minus applied to a non-constant operand of <type>
//	incdec:<type>      x++ / x-- on a variable, element or field of <type>
//	selfadd:<type>     the statement form x = x + k / x = x - k (k literal) on <type>
//	compound:<type>    x += k, -=, *=, /= on <type>
//	conv:<from>:<to>   explicit conversion
//	feature:<name>     a whole feature (names as in Program.Features)
func (g *gen) avoided(construct string) bool {
	if len(g.o.Avoid) == 0 {
		return false
	}
	if g.o.Avoid[construct] {
		return true
	}
	for k := range g.o.Avoid {
		if strings.HasPrefix(k, construct+":") {
			return true
		}
	}
	return false
}

type vr struct {
	name    string
	t       *typ
	ro      bool // the generator never assigns to it
	used    bool
	minLen  int      // slices: lower bound of the length, valid for the whole life of the variable
	keys    []string // maps: key literals that are present for the whole life of the variable
	xkeys   []string // maps: key literals that may be present (never read with the one-value form)
	max     int64    // ro int: inclusive upper bound when known (loop variables), else -1
	min     int64
	known   bool // ro numeric with a known literal value
	val     float64
	noCapt  bool // must not be referenced from a closure body (named results)
	bnd     bool // min/max are meaningful
	declPos int  // offset in the output where the variable became visible
	noArg   bool // never passed as an argument of slice type (variadic parameter)
	noCheck bool // used by construction (switch init variable)
	idxFor  *vr  // ro int that is a valid index of this slice variable (range index)
}

type scope struct {
	vars    []*vr
	closure bool // first scope of a closure body
	lines   int  // statements emitted so far directly in this scope
}

type ctxKind int

const (
	cxLoop ctxKind = iota
	cxSwitch
)

type ctl struct {
	kind    ctxKind
	label   string
	isRange bool
}

type fctx struct {
	f          *fn
	isMain     bool
	results    []*typ
	named      *vr // named result of a recovering function
	ctl        []ctl
	impure     bool
	panics     bool
	noDefer    bool
	deferred   int
	retGuarded bool
	rangeRet   bool // a return inside a range loop was emitted, or a rangeRet function is called
}

type gen struct {
	r             *rand.Rand
	o             Options
	sb            *strings.Builder
	ind           int
	feats         map[string]bool
	structs       []*structDef
	funcs         []*fn
	consts        []*vr
	scopes        []*scope
	fc            *fctx
	nameN         int
	budget        int // dynamic cost left for the function being generated
	mult          int
	stmts         int // static statements left
	cmtN          int
	egoOnly       bool
	abort         string
	maxD          int
	tagN          int
	inExprClosure int
	inExprCall    int
	inCollection  int  // >0: generating an element of a slice literal / an append argument
	rangeDepth    int  // >0: lexically inside a range loop of an enclosing function (closure bodies)
	strSafe       int  // >0: string operands are literals, constants and read-only variables only
	noReturn      int  // >0: no early return statements (inside a default clause)
	noCmt         int  // >0: no comment decoration (inside type / const groups)
	skipCmt       bool // no comment line before the next statement (it follows a label)
	rangeNext     bool // the next loop body pushed belongs to a range loop
	noCalls       int  // >0: expressions must not contain calls
	smallLits     int  // >0: integer literals stay small (inside map literals when maplit:int:above-int32 is avoided)
	noPanicCalls  int
}

// New generates one program.
func New(rng *rand.Rand, o Options) Program {
	g := &gen{r: rng, o: o, sb: &strings.Builder{}, feats: map[string]bool{}, mult: 1}
	g.maxD = o.MaxDepth
	if g.maxD <= 0 {
		g.maxD = 3
	}
	g.stmts = o.MaxStmts
	if g.stmts <= 0 {
		g.stmts = 45
	}
	g.program()

	tmpl := g.sb.String()
	p := Program{StrictClean: o.Strict, Aborts: g.abort}
	p.Ego = renderEgo(tmpl)
	if !g.egoOnly {
		p.Go = renderGo(tmpl)
	}
	for f := range g.feats {
		p.Features = append(p.Features, f)
	}
	sort.Strings(p.Features)
	return p
}

func renderEgo(tmpl string) string {
	s := strings.ReplaceAll(tmpl, mainMark, "func main() {")
	s = strings.ReplaceAll(s, fmtMark+"Printf(", "fmt.Printf(")
	s = strings.ReplaceAll(s, fmtMark+"Println(", "fmt.Println(")
	s = strings.ReplaceAll(s, pfx, "")
	return "package main\n\nimport \"fmt\"\n\n" + s
}

func renderGo(tmpl string) string {
	s := strings.ReplaceAll(tmpl, mainMark, "func "+pfx+"main(w io.Writer) {\n\t"+pfx+"w = w")
	s = strings.ReplaceAll(s, fmtMark+"Printf(", "fmt.Fprintf("+pfx+"w, ")
	s = strings.ReplaceAll(s, fmtMark+"Println(", "fmt.Fprintln("+pfx+"w, ")
	return "var " + pfx + "w io.Writer\n\n" + s
}

// ---------------------------------------------------------------- utilities

func (g *gen) feat(n string)         { g.feats[n] = true }
func (g *gen) chance(pct int) bool   { return g.r.Intn(100) < pct }
func (g *gen) pick(n int) int        { return g.r.Intn(n) }
func (g *gen) fresh(p string) string { g.nameN++; return p + itoa(g.nameN) }

func itoa(n int) string { return sprintf("%d", n) }

func (g *gen) line(f string, a ...any) {
	s := f
	if len(a) > 0 {
		s = sprintf(f, a...)
	}
	if len(g.scopes) > 0 {
		g.scopes[len(g.scopes)-1].lines++
	}
	// no comment line between a label and its loop, before a case/default clause, or inside a type/const
	// group: the Ego compiler does not accept a comment line in those places
	quiet := g.noCmt > 0 || g.skipCmt || strings.HasPrefix(s, "case ") || strings.HasPrefix(s, "default:")
	g.skipCmt = false
	if g.o.Comments && !quiet && g.chance(18) {
		g.sb.WriteString(strings.Repeat("\t", g.ind))
		g.sb.WriteString(g.comment("before"))
		g.sb.WriteString("\n")
	}
	g.sb.WriteString(strings.Repeat("\t", g.ind))
	g.sb.WriteString(s)
	if g.o.Comments && g.chance(15) && !strings.HasSuffix(s, "{") {
		g.sb.WriteString(" " + g.comment("eol"))
	}
	g.sb.WriteString("\n")
}

// raw writes a line without comment decoration.
func (g *gen) raw(s string) {
	g.sb.WriteString(strings.Repeat("\t", g.ind))
	g.sb.WriteString(s)
	g.sb.WriteString("\n")
}

func (g *gen) comment(where string) string {
	g.cmtN++
	g.feat("comment:" + where)
	return sprintf("// c%d %s", g.cmtN, where)
}

func (g *gen) blockComment(where string) string {
	g.cmtN++
	g.feat("comment:" + where)
	return sprintf("/* c%d %s */", g.cmtN, where)
}

func (g *gen) push(closure bool) { g.scopes = append(g.scopes, &scope{closure: closure}) }

func (g *gen) declare(v *vr) *vr {
	if !v.bnd {
		v.max, v.min = -1, 0
	}
	s := g.scopes[len(g.scopes)-1]
	s.vars = append(s.vars, v)
	v.declPos = g.sb.Len()
	return v
}

// readSince reports whether name is read anywhere in the text emitted since pos.
// It is deliberately conservative: an occurrence at the start of a statement
// (an assignment target) does not count unless it is a call, selector or index.
func (g *gen) readSince(name string, pos int) bool {
	text := g.sb.String()
	if pos > len(text) {
		return false
	}
	text = text[pos:]
	isWord := func(c byte) bool {
		return c == '_' || c >= '0' && c <= '9' || c >= 'a' && c <= 'z' || c >= 'A' && c <= 'Z'
	}
	for from := 0; ; {
		k := strings.Index(text[from:], name)
		if k < 0 {
			return false
		}
		k += from
		from = k + len(name)
		if k > 0 && isWord(text[k-1]) || from < len(text) && isWord(text[from]) {
			continue
		}
		// start of a statement?
		j := k - 1
		for j >= 0 && text[j] == '\t' {
			j--
		}
		if j < 0 || text[j] == '\n' {
			if from < len(text) && (text[from] == '(' || text[from] == '.' || text[from] == '[') {
				return true
			}
			continue
		}
		if strings.HasPrefix(text[j+1-min(j+1, 4):j+1], "_ = ") {
			return true
		}
		return true
	}
}

// pop closes the innermost scope: optionally dumps its scalar variables, and
// makes every still-unused variable used (Go rejects unused locals).
func (g *gen) pop(dump bool) {
	s := g.scopes[len(g.scopes)-1]
	if dump {
		var vs []*vr
		for _, v := range s.vars {
			if v.t.isScalar() && len(vs) < 5 && !(v.noCapt && g.inClosure()) {
				vs = append(vs, v)
			}
		}
		if len(vs) > 0 && g.spend(1) {
			g.printVars(vs)
		}
	}
	for _, v := range s.vars {
		if !v.noCheck && !g.readSince(v.name, v.declPos) {
			g.line("_ = %s", v.name)
		}
		v.used = true
	}
	g.scopes = g.scopes[:len(g.scopes)-1]
}

func (g *gen) inClosure() bool {
	for _, s := range g.scopes {
		if s.closure {
			return true
		}
	}
	return false
}

// visible returns the variables that can be named here, innermost first.
func (g *gen) visible(pred func(*vr) bool) []*vr {
	var out []*vr
	crossed := false
	for i := len(g.scopes) - 1; i >= 0; i-- {
		s := g.scopes[i]
		for j := len(s.vars) - 1; j >= 0; j-- {
			v := s.vars[j]
			if crossed && v.noCapt {
				continue
			}
			if pred == nil || pred(v) {
				out = append(out, v)
			}
		}
		if s.closure {
			crossed = true
		}
	}
	return out
}

func (g *gen) spend(n int) bool {
	c := n * g.mult
	if c > g.budget {
		return false
	}
	g.budget -= c
	return true
}

func (g *gen) tag() string { g.tagN++; return sprintf("t%d", g.tagN) }

// ---------------------------------------------------------------- types

func (g *gen) scalarType() *typ {
	switch n := g.pick(100); {
	case n < 22:
		return scalars[kInt]
	case n < 34:
		return scalars[kString]
	case n < 42:
		return scalars[kBool]
	case n < 50:
		return scalars[kFloat64]
	default:
		return scalars[numericKinds[g.pick(len(numericKinds))]]
	}
}

func (g *gen) numericType() *typ {
	if g.chance(30) {
		return scalars[kInt]
	}
	return scalars[numericKinds[g.pick(len(numericKinds))]]
}

func (g *gen) intType() *typ {
	if g.chance(35) {
		return scalars[kInt]
	}
	return scalars[intKinds[g.pick(len(intKinds))]]
}

func (g *gen) sliceOf(e *typ) *typ { return &typ{k: kSlice, elem: e} }

func (g *gen) mapType() *typ {
	key := scalars[kString]
	if g.chance(35) {
		key = scalars[kInt]
	}
	var val *typ
	if g.chance(50) {
		val = scalars[kInt]
	} else {
		val = g.scalarType()
	}
	return &typ{k: kMap, key: key, elem: val}
}

// typeName renders a type name at a declaration site (uint8 is sometimes spelled byte).
func (g *gen) typeName(t *typ) string {
	if t.k == kUint8 && g.chance(40) {
		g.feat("byte")
		return "byte"
	}
	if t.k == kSlice && t.elem.k == kUint8 && g.chance(30) {
		return "[]byte"
	}
	return t.name()
}

// ---------------------------------------------------------------- literals

type litPos int

const (
	posInit      litPos = iota // var x T = <lit>   (bare allowed when not strict)
	posOperand                 // x op <lit>        (bare allowed when not strict)
	posArg                     // f(<lit>)
	posReturn                  // return <lit>
	posMethodArg               // v.M(<lit>)
	posPlain                   // x = <lit>, x := <lit>, composite elements: always explicit
)

func (g *gen) intLitValue(t *typ) int64 {
	lo, hi := intRange(t.k)
	if g.smallLits > 0 {
		v := int64(g.pick(100))
		if lo < 0 && g.chance(25) {
			v = -v
		}
		return v
	}
	switch n := g.pick(100); {
	case n < 70:
		v := int64(g.pick(10))
		if g.chance(25) && lo < 0 {
			v = -v
		}
		return v
	case n < 85:
		v := int64(g.pick(120))
		if g.chance(25) && lo < 0 {
			v = -v
		}
		if v > hi {
			v = hi
		}
		return v
	case n < 90:
		return hi
	case n < 94:
		return hi - int64(g.pick(3))
	case n < 97:
		return lo
	default:
		// a mid-size value of the type
		span := hi/2 + 1
		v := g.r.Int63n(span)
		if lo < 0 && g.chance(40) {
			v = -v
		}
		return v
	}
}

func (g *gen) floatLitValue() float64 {
	v := float64(g.pick(41)-20) / 4
	if g.chance(10) {
		v = float64(g.pick(2001)-1000) / 8
	}
	return v
}

var words = []string{"a", "b", "ab", "xy", "go", "ego", "k1", "zz", "", "hello", "A b", "q-7", "x_y", "It's", "50%", "tab\\there", "say \\\"hi\\\""}

func (g *gen) strLit() string {
	return `"` + words[g.pick(len(words))] + `"`
}

// lit renders a literal of scalar type t for the given position. Negative
// numbers are parenthesised in operand position.
func (g *gen) lit(t *typ, pos litPos) string {
	switch {
	case t.k == kBool:
		if g.chance(50) {
			return "true"
		}
		return "false"
	case t.k == kString:
		return g.strLit()
	case t.isInt():
		return g.intText(t, g.intLitValue(t), pos)
	default:
		return g.floatText(t, g.floatLitValue(), pos)
	}
}

func (g *gen) bare(t *typ, pos litPos) bool {
	if t.isDefaultKind() {
		return true
	}
	if g.o.Strict || pos == posPlain {
		return false
	}
	if pos == posMethodArg && (g.avoided("method-arg-const:"+t.name()) || g.avoided("arg-const:"+t.name())) {
		return false
	}
	if pos == posArg && g.avoided("arg-const:"+t.name()) || pos == posReturn && g.avoided("return-const:"+t.name()) ||
		pos == posInit && g.avoided("decl-const:"+t.name()) {
		return false
	}
	g.feat("untyped-const-adapts")
	return true
}

func (g *gen) intText(t *typ, v int64, pos litPos) string {
	s := sprintf("%d", v)
	if t.k == kInt && (v > math.MaxInt32 || v < math.MinInt32) && g.avoided("intlit:above-int32") {
		// Ego types an integer literal outside the int32 range as int64, not int
		return "int(" + s + ")"
	}
	if g.bare(t, pos) {
		if v < 0 && pos == posOperand {
			return "(" + s + ")"
		}
		return s
	}
	return t.name() + "(" + s + ")"
}

func (g *gen) floatText(t *typ, v float64, pos litPos) string {
	s := fmtFloat(v)
	if v < 0 && t.k == kFloat32 && g.avoided("negconst:float32") {
		return t.name() + "(" + s + ")"
	}
	if g.bare(t, pos) {
		if v < 0 && pos == posOperand {
			return "(" + s + ")"
		}
		return s
	}
	return t.name() + "(" + s + ")"
}

// ---------------------------------------------------------------- program

func (g *gen) program() {
	// what main will do at its deliberate abort point, if any
	switch n := g.pick(100); {
	case n < 5:
		g.abort = "div0"
	case n < 8:
		g.abort = "mod0"
	case n < 14:
		g.abort = "index"
	case n < 20:
		g.abort = "panic"
	}

	ns := g.pick(5) // up to four struct types, so that values nest three and four levels deep
	for i := 0; i < ns; i++ {
		g.structDecl()
	}
	if g.chance(40) {
		g.constDecls()
	}
	nf := 1 + g.pick(4)
	for i := 0; i < nf; i++ {
		g.funcDecl()
		if g.o.Comments && g.chance(40) {
			g.raw(g.comment("between-decls"))
			g.raw("")
		}
	}
	g.mainDecl()
}

func (g *gen) constDecls() {
	g.feat("const")
	n := 1 + g.pick(3)
	if n == 1 {
		c := &vr{name: pfx + g.fresh("K"), t: scalars[kInt], ro: true, used: true, known: true}
		c.val = float64(1 + g.pick(9))
		g.line("const %s = %d", c.name, int(c.val))
		g.consts = append(g.consts, c)
		g.raw("")
		return
	}
	g.line("const (")
	g.noCmt++
	g.ind++
	for i := 0; i < n; i++ {
		if g.chance(70) {
			c := &vr{name: pfx + g.fresh("K"), t: scalars[kInt], ro: true, used: true, known: true}
			c.val = float64(1 + g.pick(9))
			g.line("%s = %d", c.name, int(c.val))
			g.consts = append(g.consts, c)
		} else {
			c := &vr{name: pfx + g.fresh("K"), t: scalars[kString], ro: true, used: true}
			g.line("%s = %s", c.name, g.strLit())
			g.consts = append(g.consts, c)
		}
	}
	g.ind--
	g.line(")")
	g.noCmt--
	g.raw("")
}

func (g *gen) structDecl() {
	g.feat("struct")
	sd := &structDef{name: g.fresh("S")}
	sd.t = &typ{k: kStruct, sd: sd}
	nf := 2 + g.pick(3)
	g.line("type %s%s struct {", pfx, sd.name)
	g.noCmt++
	g.ind++
	for i := 0; i < nf; i++ {
		var t *typ
		if len(g.structs) > 0 && (g.chance(15) || i == 0 && g.chance(55)) {
			// mostly the struct declared last, so that chains T4{T3{T2{T1}}} are common
			t = g.structs[len(g.structs)-1].t
			if g.chance(25) {
				t = g.structs[g.pick(len(g.structs))].t
			}
			g.feat("struct-nested")
		} else {
			t = g.scalarType()
		}
		f := field{name: sprintf("F%d", i), t: t}
		sd.fields = append(sd.fields, f)
		g.line("%s %s", f.name, g.typeName(t))
	}
	g.ind--
	g.line("}")
	g.noCmt--
	g.raw("")
	g.structs = append(g.structs, sd)

	// methods
	nm := g.pick(3)
	for i := 0; i < nm; i++ {
		g.methodDecl(sd, i)
	}
}

// scalarFields lists the access paths (".F0", ".F2.F1") to scalar fields of type t (nil: any scalar).
func scalarFields(sd *structDef, t *typ, prefix string, depth int) []field {
	var out []field
	for _, f := range sd.fields {
		if f.t.k == kStruct {
			if depth < 4 {
				out = append(out, scalarFields(f.t.sd, t, prefix+"."+f.name, depth+1)...)
			}
			continue
		}
		if t == nil || sameType(f.t, t) {
			out = append(out, field{name: prefix + "." + f.name, t: f.t})
		}
	}
	return out
}

func (g *gen) methodDecl(sd *structDef, i int) {
	m := &fn{name: sprintf("M%d", i), recv: sd, pure: true}
	m.ptrRecv = g.chance(45)
	if g.chance(60) {
		m.params = append(m.params, param{name: g.fresh("a"), t: g.scalarType()})
	}
	fields := scalarFields(sd, nil, "", 0)
	if !m.ptrRecv || g.chance(40) {
		// value-returning method
		rf := fields[g.pick(len(fields))]
		m.results = []*typ{rf.t}
	}
	g.feat("method")
	recvName := g.fresh("r")
	star := ""
	if m.ptrRecv {
		star = "*"
		g.feat("method-ptr-recv")
	}
	sig := sprintf("func (%s %s%s%s) %s(", recvName, star, pfx, sd.name, m.name)
	for j, p := range m.params {
		if j > 0 {
			sig += ", "
		}
		sig += p.name + " " + g.typeName(p.t)
	}
	sig += ")"
	if len(m.results) == 1 {
		sig += " " + g.typeName(m.results[0])
	}
	g.line("%s {", sig)
	g.ind++

	saveScopes, saveFc, saveBudget, saveMult := g.scopes, g.fc, g.budget, g.mult
	g.scopes = nil
	g.fc = &fctx{f: m, results: m.results, noDefer: true}
	g.budget, g.mult = 60, 1
	g.push(false)
	rv := g.declare(&vr{name: recvName, t: sd.t, used: true, ro: !m.ptrRecv && g.chance(50)})
	for _, p := range m.params {
		g.declare(&vr{name: p.name, t: p.t, used: true})
	}
	if m.ptrRecv {
		// mutate the receiver: visible to the caller
		m.pure = false
		n := 1 + g.pick(2)
		for j := 0; j < n; j++ {
			f := fields[g.pick(len(fields))]
			g.assignTo(rv.name+f.name, f.t, true)
		}
	} else if !rv.ro && g.chance(50) {
		// mutate the copy: must NOT be visible to the caller
		f := fields[g.pick(len(fields))]
		g.assignTo(rv.name+f.name, f.t, true)
		g.feat("method-value-recv-mutates-copy")
	}
	if g.chance(50) {
		g.stmtPrint()
	}
	if len(m.results) == 1 {
		e := g.expr(m.results[0], 2)
		g.pop(false)
		g.line("return %s", e)
	} else {
		g.pop(false)
	}
	m.cost = 60 - g.budget + 1
	g.scopes, g.fc, g.budget, g.mult = saveScopes, saveFc, saveBudget, saveMult
	g.ind--
	g.line("}")
	g.raw("")
	sd.methods = append(sd.methods, m)
}

// funcDecl emits one top-level helper function of a PRNG-chosen shape.
func (g *gen) funcDecl() {
	f := &fn{name: g.fresh("h"), pure: true}
	shape := g.pick(100)
	g.feat("func")

	np := 1 + g.pick(3)
	for i := 0; i < np; i++ {
		var t *typ
		switch n := g.pick(100); {
		case n < 70:
			t = g.scalarType()
		case n < 82:
			t = g.sliceOf(g.scalarType())
		case n < 90 && len(g.structs) > 0:
			t = g.structs[g.pick(len(g.structs))].t
		case n < 95:
			t = g.mapType()
		default:
			t = g.scalarType()
		}
		f.params = append(f.params, param{name: g.fresh("a"), t: t})
	}
	recursive := shape < 12
	variadic := !recursive && shape < 30
	recovering := shape >= 30 && shape < 48 && !g.avoided("feature:recover")
	if recursive {
		f.params[0].t = scalars[kInt]
		f.recursive = true
		g.feat("recursion")
	}
	if variadic {
		e := g.scalarType()
		f.params = append(f.params, param{name: g.fresh("va"), t: g.sliceOf(e)})
		f.variadic = true
		g.feat("variadic")
	}
	nr := 1
	switch n := g.pick(100); {
	case n < 15 && !recursive && !recovering:
		nr = 0
	case n < 40 && !recursive && !recovering:
		nr = 2 + g.pick(2)
		g.feat("multi-return")
	}
	for i := 0; i < nr; i++ {
		f.results = append(f.results, g.scalarType())
	}
	if recursive {
		f.results = []*typ{g.intType()}
	}

	sig := "func " + pfx + f.name + "("
	for i, p := range f.params {
		if i > 0 {
			sig += ", "
		}
		if f.variadic && i == len(f.params)-1 {
			sig += p.name + " ..." + g.typeName(p.t.elem)
		} else {
			sig += p.name + " " + g.typeName(p.t)
		}
	}
	sig += ")"
	var named *vr
	switch {
	case recovering:
		named = &vr{name: g.fresh("res"), t: f.results[0], used: true, noCapt: false}
		sig += sprintf(" (%s %s)", named.name, g.typeName(f.results[0]))
		g.feat("named-result")
	case len(f.results) == 1:
		sig += " " + g.typeName(f.results[0])
	case len(f.results) > 1:
		sig += " ("
		for i, t := range f.results {
			if i > 0 {
				sig += ", "
			}
			sig += g.typeName(t)
		}
		sig += ")"
	}
	g.line("%s {", sig)
	g.ind++

	saveScopes, saveFc, saveBudget, saveMult, saveStmts := g.scopes, g.fc, g.budget, g.mult, g.stmts
	g.scopes = nil
	g.fc = &fctx{f: f, results: f.results, named: named}
	const fb = 400
	g.budget, g.mult = fb, 1
	g.stmts = 4 + g.pick(8)
	g.push(false)
	for i, p := range f.params {
		v := g.declare(&vr{name: p.name, t: p.t, used: true})
		if recursive && i == 0 {
			v.ro = true
		}
		if f.variadic && i == len(f.params)-1 && g.avoided("variadic-param:as-slice-arg") {
			v.noArg = true
		}
		if p.t.k == kSlice || p.t.k == kMap {
			v.ro = true // never appended to / reassigned; element stores are allowed
		}
	}
	if named != nil {
		g.declare(named)
	}

	switch {
	case recursive:
		// terminates: the first argument decreases by a literal and the base case is n <= 0
		n := f.params[0].name
		if g.avoided("defer:before-return-expr") {
			g.fc.noDefer = true // the return expression is the recursive call
		}
		g.line("if %s <= 0 {", n)
		g.ind++
		g.line("return %s", g.lit(f.results[0], posReturn))
		g.ind--
		g.line("}")
		if g.chance(60) {
			g.stmtPrint()
		}
		g.block(g.pick(3), 1)
		args := []string{sprintf("%s - %d", n, 1+g.pick(2))}
		for _, p := range f.params[1:] {
			args = append(args, g.expr(p.t, 1))
		}
		call := sprintf("%s%s(%s)", pfx, f.name, strings.Join(args, ", "))
		var e string
		if f.results[0].k == kInt {
			e = sprintf("%s + %s", call, n)
		} else {
			e = sprintf("%s + %s(%s)", call, f.results[0].name(), n)
		}
		g.pop(false)
		g.line("return %s", e)
		f.cost = (fb - g.budget + 2) * 7 // called with a literal <= 6

	case recovering:
		g.feat("defer")
		g.feat("recover")
		ev := g.fresh("e")
		g.line("defer func() {")
		g.ind++
		g.line("%s := recover()", ev)
		g.line("if %s != nil {", ev)
		g.ind++
		g.line("%sPrintf(\"%s recovered %%v\\n\", %s)", fmtMark, g.tag(), ev)
		g.line("%s = %s", named.name, g.lit(named.t, posPlain))
		g.ind--
		g.line("}")
		g.ind--
		g.line("}()")
		g.fc.deferred++
		g.block(1+g.pick(3), 2)
		// the panic: conditional on a parameter, or through a callee that panics
		g.panicStmt(true)
		g.block(g.pick(3), 2)
		g.retGuard()
		e := g.expr(f.results[0], 2)
		g.retDone()
		g.pop(g.chance(40))
		g.line("return %s", e)
		f.cost = fb - g.budget + 2

	default:
		g.block(g.stmts, 2)
		var es []string
		g.retGuard()
		if len(f.results) > 1 && g.avoided("multi-return:eval-order") {
			g.noCalls++
		}
		for _, t := range f.results {
			es = append(es, g.exprPos(t, 2, posReturn))
		}
		if len(f.results) > 1 && g.avoided("multi-return:eval-order") {
			g.noCalls--
		}
		g.retDone()
		g.pop(g.chance(40))
		if len(es) > 0 {
			g.line("return %s", strings.Join(es, ", "))
		}
		f.cost = fb - g.budget + 2
	}
	f.pure = !g.fc.impure
	f.rangeRet = g.fc.rangeRet
	f.panics = g.fc.panics && !recovering
	g.scopes, g.fc, g.budget, g.mult, g.stmts = saveScopes, saveFc, saveBudget, saveMult, saveStmts
	g.ind--
	g.line("}")
	g.raw("")
	g.funcs = append(g.funcs, f)
}

func (g *gen) mainDecl() {
	g.raw(mainMark)
	g.ind++
	g.fc = &fctx{isMain: true}
	if g.abort == "div0" || g.abort == "mod0" || g.abort == "index" {
		// a runtime-error abort must not happen while a deferred call is pending
		// (whether deferred calls run then is not part of the documented core)
		g.fc.noDefer = true
	}
	g.budget, g.mult = 8000, 1
	g.scopes = nil
	g.push(false)
	total := g.stmts
	abortAt := -1
	if g.abort != "" {
		abortAt = total/3 + g.pick(total-total/3)
	}
	first := abortAt
	if first < 0 {
		first = total
	}
	g.stmts = first
	g.block(first, g.maxD)
	if abortAt >= 0 {
		g.abortStmt()
		g.stmts = total - first
		g.block(g.stmts, g.maxD)
	}
	g.line("%sPrintln(\"done\")", fmtMark)
	g.pop(true)
	g.ind--
	g.line("}")
}

// abortStmt plants the program's deliberate abort.
func (g *gen) abortStmt() {
	g.feat("abort:" + g.abort)
	switch g.abort {
	case "div0", "mod0":
		t := g.intType()
		z := g.fresh("z")
		n := g.fresh("n")
		g.line("var %s %s = %s", z, g.typeName(t), g.intText(t, 0, posInit))
		g.line("var %s %s = %s", n, g.typeName(t), g.intText(t, int64(1+g.pick(50)), posInit))
		op := "/"
		if g.abort == "mod0" {
			op = "%"
		}
		if g.chance(30) && op == "/" {
			g.line("%s /= %s", n, z)
		}
		g.line("%sPrintf(\"%s %%d\\n\", %s %s %s)", fmtMark, g.tag(), n, op, z)
	case "index":
		et := g.scalarType()
		s := g.fresh("s")
		k := 1 + g.pick(3)
		var elems []string
		for i := 0; i < k; i++ {
			elems = append(elems, g.lit(et, posPlain))
		}
		g.line("%s := []%s{%s}", s, et.name(), strings.Join(elems, ", "))
		i := g.fresh("i")
		iv := k + g.pick(3)
		if g.chance(25) {
			iv = -1 - g.pick(2)
		}
		g.line("%s := %d", i, iv)
		if g.chance(30) {
			g.line("%s[%s] = %s", s, i, g.lit(et, posPlain))
		} else {
			g.line("%sPrintf(\"%s %%v\\n\", %s[%s])", fmtMark, g.tag(), s, i)
		}
		g.line("_ = %s", s)
	case "panic":
		g.line("panic(%s)", g.strLit())
	}
}

// panicStmt emits a conditional panic() (or a call of a helper that panics).
func (g *gen) panicStmt(likely bool) {
	g.feat("panic")
	g.fc.panics = true
	cond := g.boolExpr(1)
	if likely && g.chance(60) {
		cond = "true"
		if ps := g.visible(func(v *vr) bool { return v.t.k == kInt }); len(ps) > 0 {
			cond = sprintf("%s < %d", ps[0].name, 1000)
			ps[0].used = true
		}
	}
	g.line("if %s {", cond)
	g.ind++
	g.line("panic(%s)", g.strLit())
	g.ind--
	g.line("}")
}
