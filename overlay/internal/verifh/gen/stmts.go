package gen

import (
	"regexp"
	"strings"
)

// bareNumRe matches a numeric literal written without a conversion.
var bareNumRe = regexp.MustCompile(`^\(?-?[0-9]+(\.[0-9]+)?\)?$`)

// block emits up to n statements at nesting allowance d.
func (g *gen) block(n, d int) {
	for i := 0; i < n && g.stmts > 0; i++ {
		g.stmt(d)
	}
}

// nonEmpty makes sure the innermost scope holds at least one statement: an
// empty block after a condition that ends in a name reads as "name{}" to Ego.
func (g *gen) nonEmpty() {
	if g.scopes[len(g.scopes)-1].lines == 0 {
		g.line("%sPrintln(\"%s\")", fmtMark, g.tag())
	}
}

type choice struct {
	w int
	f func()
}

func (g *gen) stmt(d int) {
	g.stmts--
	if !g.spend(1) {
		return
	}
	inLoop := false
	for _, c := range g.fc.ctl {
		if c.kind == cxLoop {
			inLoop = true
		}
	}
	cs := []choice{
		{14, g.stmtDecl},
		{16, g.stmtAssign},
		{12, g.stmtPrint},
		{5, g.stmtCall},
		{4, g.stmtMapOp},
		{3, g.stmtAppend},
		{3, g.stmtMulti},
	}
	if d > 0 {
		cs = append(cs,
			choice{8, func() { g.stmtIf(d) }},
			choice{9, func() { g.stmtLoop(d) }},
			choice{5, func() { g.stmtSwitch(d) }},
			choice{3, func() { g.stmtClosure(d) }},
			choice{1, func() { g.stmtBlock(d) }},
		)
		if !g.fc.noDefer && len(g.fc.ctl) <= 1 {
			cs = append(cs, choice{3, func() { g.stmtDefer(d) }})
		}
		if g.o.EgoOnly {
			cs = append(cs, choice{6, func() { g.stmtTry(d) }})
		}
	}
	if inLoop {
		cs = append(cs, choice{5, g.stmtJump})
	}
	if g.fc.f != nil && g.fc.f.recv == nil && g.fc.named == nil && g.inExprClosure == 0 && !g.insideClosure() && g.noReturn == 0 && !g.fc.isMain {
		w := 2
		for _, c := range g.fc.ctl {
			if c.kind == cxLoop {
				w += 5 // returns that abandon loops (range loops most of all) are worth more programs
				if c.isRange {
					w += 6
				}
			}
		}
		cs = append(cs, choice{w, g.stmtEarlyReturn})
	}
	if g.fc.f != nil && g.fc.named == nil && g.chance(4) && !g.insideClosure() {
		cs = append(cs, choice{3, func() { g.panicStmt(false) }})
	}
	total := 0
	for _, c := range cs {
		total += c.w
	}
	n := g.pick(total)
	for _, c := range cs {
		if n < c.w {
			c.f()
			return
		}
		n -= c.w
	}
}

func (g *gen) insideClosure() bool { return g.inClosure() }

// ---------------------------------------------------------------- declarations

func (g *gen) stmtDecl() {
	switch n := g.pick(100); {
	case n < 62:
		g.declScalar()
	case n < 76:
		g.declSlice()
	case n < 86:
		g.declMap()
	case n < 96 && len(g.structs) > 0:
		g.declStruct()
	default:
		g.declScalar()
	}
}

func (g *gen) declScalar() {
	t := g.scalarType()
	name := g.fresh("v")
	v := &vr{name: name, t: t}
	switch n := g.pick(100); {
	case n < 10:
		g.feat("var-zero")
		g.line("var %s %s", name, g.typeName(t))
	case n < 20 && t.isNumeric():
		// read-only with a known literal value: usable as divisor / conversion source
		v.ro, v.known = true, true
		if t.isInt() {
			iv := g.intLitValue(t)
			if iv > 1000 || iv < -1000 {
				iv = int64(2 + g.pick(7))
			}
			v.val = float64(iv)
			if t.k == kInt {
				v.min, v.max, v.bnd = iv, iv, true
			}
			g.line("var %s %s = %s", name, g.typeName(t), g.intText(t, iv, posInit))
		} else {
			fv := g.floatLitValue()
			v.val = fv
			g.line("var %s %s = %s", name, g.typeName(t), g.floatText(t, fv, posInit))
		}
		g.feat("var-typed-init")
	case n < 55:
		g.feat("var-typed-init")
		e := g.exprPos(t, 2, posInit)
		g.line("var %s %s = %s", name, g.typeName(t), e)
	default:
		g.feat("define")
		e := g.expr(t, 2)
		g.line("%s := %s", name, e)
	}
	g.declare(v)
}

func (g *gen) declSlice() {
	var et *typ
	if len(g.structs) > 0 && g.chance(12) {
		et = g.structs[g.pick(len(g.structs))].t
	} else {
		et = g.scalarType()
	}
	t := g.sliceOf(et)
	name := g.fresh("s")
	v := &vr{name: name, t: t}
	switch n := g.pick(100); {
	case n < 12:
		g.feat("var-nil-slice")
		g.line("var %s %s", name, g.typeName(t))
	case n < 25 && et.isScalar():
		k := 1 + g.pick(4)
		v.minLen = k
		g.feat("make-slice")
		g.line("%s := make(%s, %d)", name, t.name(), k)
	default:
		k := g.pick(5)
		v.minLen = k
		g.line("%s := %s", name, g.sliceLit(t, k))
	}
	g.declare(v)
}

func (g *gen) declMap() {
	t := g.mapType()
	name := g.fresh("m")
	v := &vr{name: name, t: t}
	if g.chance(25) {
		g.feat("make-map")
		g.line("%s := make(%s)", name, t.name())
	} else {
		s, keys := g.mapLit(t)
		v.keys = keys
		g.line("%s := %s", name, s)
	}
	g.declare(v)
}

func (g *gen) declStruct() {
	sd := g.structs[g.pick(len(g.structs))]
	name := g.fresh("p")
	v := &vr{name: name, t: sd.t}
	switch n := g.pick(100); {
	case n < 15:
		g.feat("var-zero-struct")
		g.line("var %s %s%s", name, pfx, sd.name)
	case n < 50:
		// copy of another struct value
		vs := g.visible(func(o *vr) bool { return sameType(o.t, sd.t) })
		if len(vs) > 0 {
			o := vs[g.pick(len(vs))]
			o.used = true
			g.feat("struct-copy")
			g.line("%s := %s", name, o.name)
			break
		}
		fallthrough
	default:
		g.line("%s := %s", name, g.structLit(sd, 2))
	}
	g.declare(v)
}

// ---------------------------------------------------------------- assignment

func (g *gen) isOuter(v *vr) bool {
	// declared outside the innermost enclosing closure?
	for i := len(g.scopes) - 1; i >= 0; i-- {
		s := g.scopes[i]
		for _, x := range s.vars {
			if x == v {
				return false
			}
		}
		if s.closure {
			return true
		}
	}
	return false
}

func (g *gen) stmtAssign() {
	for try := 0; try < 6; try++ {
		switch g.pick(6) {
		case 0, 1, 2:
			vs := g.visible(func(v *vr) bool { return v.t.isScalar() && !v.ro })
			if len(vs) == 0 {
				continue
			}
			v := vs[g.pick(len(vs))]
			if g.isOuter(v) {
				g.fc.impure = true
				g.feat("closure-mutates-capture")
			}
			g.assignTo(v.name, v.t, true)
			return
		case 3:
			vs := g.visible(func(v *vr) bool { return v.t.k == kStruct && !v.ro })
			if len(vs) == 0 {
				continue
			}
			v := vs[g.pick(len(vs))]
			fs := scalarFields(v.t.sd, nil, "", 0)
			f := fs[g.pick(len(fs))]
			if g.isOuter(v) {
				g.fc.impure = true
			}
			g.feat("field-store")
			g.assignTo(v.name+f.name, f.t, true)
			v.used = true
			return
		case 4:
			t := g.scalarType()
			ref, ok := g.elemRef(t, true)
			if !ok {
				continue
			}
			g.fc.impure = true // conservatively: the slice may be a parameter or a capture
			g.feat("index-store")
			g.assignTo(ref, t, true)
			return
		case 5:
			vs := g.visible(func(v *vr) bool { return v.t.k == kStruct && !v.ro })
			if len(vs) == 0 || g.chance(50) {
				// whole-struct assignment
				if len(vs) == 0 {
					continue
				}
				v := vs[g.pick(len(vs))]
				if g.isOuter(v) {
					g.fc.impure = true
				}
				g.feat("struct-assign")
				g.line("%s = %s", v.name, g.structExpr(v.t, 1))
				return
			}
		}
	}
	g.stmtPrint()
}

// assignTo emits one assignment statement form to the scalar l-value lhs of type t.
func (g *gen) assignTo(lhs string, t *typ, allowForms bool) {
	tn := t.name()
	switch {
	case t.k == kBool:
		if g.chance(25) {
			g.line("%s = !%s", lhs, lhs)
			return
		}
		g.line("%s = %s", lhs, g.boolExpr(2))
	case t.k == kString:
		// What is assigned to an existing string never mentions a string that can itself have been
		// assigned to (only literals, constants and read-only strings, no calls): otherwise loops
		// like s += s or s = f(s) grow a string exponentially.
		g.strSafe++
		g.noCalls++
		defer func() { g.strSafe--; g.noCalls-- }()
		if g.chance(35) {
			s, _ := g.strExpr(1)
			g.feat("compound:+=:string")
			g.line("%s += %s", lhs, s)
			return
		}
		g.line("%s = %s", lhs, g.expr(t, 2))
	default:
		n := g.pick(100)
		switch {
		case n < 22 && !g.avoided("compound:"+tn):
			ops := []string{"+=", "-=", "*=", "/="}
			op := ops[g.pick(len(ops))]
			var r string
			if op == "/=" {
				r, _ = g.safeDivisor(t)
			} else {
				r = g.exprPos(t, 1, posOperand)
			}
			if bareNumRe.MatchString(r) && !t.isDefaultKind() && g.avoided("compound-const:"+tn) {
				r = tn + "(" + strings.Trim(r, "()") + ")"
			}
			g.feat("compound:" + op + ":" + tn)
			g.line("%s %s %s", lhs, op, r)
		case n < 34 && t.isNumeric() && !g.avoided("incdec:"+tn):
			op := "++"
			if g.chance(40) {
				op = "--"
			}
			g.feat("incdec:" + tn)
			g.line("%s%s", lhs, op)
		case n < 44 && !g.avoided("selfadd:"+tn):
			op := "+"
			if g.chance(40) {
				op = "-"
			}
			var k string
			if t.isInt() {
				k = g.intText(t, int64(1+g.pick(3)), posOperand)
			} else {
				k = g.floatText(t, float64(1+g.pick(3)), posOperand)
			}
			if bareNumRe.MatchString(k) && !t.isDefaultKind() && g.avoided("selfadd-const:"+tn) {
				k = tn + "(" + k + ")"
			}
			g.feat("selfadd:" + tn)
			g.line("%s = %s %s %s", lhs, lhs, op, k)
		default:
			g.line("%s = %s", lhs, g.expr(t, 2))
		}
	}
}

// ---------------------------------------------------------------- printing

func verbFor(g *gen, t *typ) string {
	switch {
	case t.isInt():
		if g.chance(25) {
			return "%v"
		}
		return "%d"
	case t.isFloat():
		if g.chance(40) {
			return "%.6f"
		}
		return "%v"
	case t.k == kBool:
		if g.chance(25) {
			return "%v"
		}
		return "%t"
	default:
		switch g.pick(4) {
		case 0:
			return "%s"
		case 1:
			return "%v"
		default:
			return "%q"
		}
	}
}

func (g *gen) printVars(vs []*vr) {
	f := g.tag()
	var args []string
	for _, v := range vs {
		f += " " + verbFor(g, v.t)
		args = append(args, v.name)
		v.used = true
	}
	g.feat("printf")
	g.line("%sPrintf(\"%s\\n\", %s)", fmtMark, f, strings.Join(args, ", "))
}

func (g *gen) stmtPrint() {
	if g.chance(8) {
		// Println of strings only (its number and collection formats are outside the property)
		n := 1 + g.pick(3)
		var args []string
		for i := 0; i < n; i++ {
			s, _ := g.strExpr(1)
			args = append(args, s)
		}
		g.feat("println-strings")
		g.line("%sPrintln(%s)", fmtMark, strings.Join(args, ", "))
		return
	}
	n := 1 + g.pick(4)
	f := g.tag()
	var args []string
	for i := 0; i < n; i++ {
		var t *typ
		if vs := g.visible(func(v *vr) bool { return v.t.isScalar() }); len(vs) > 0 && g.chance(70) {
			t = vs[g.pick(len(vs))].t
		} else {
			t = g.scalarType()
		}
		f += " " + verbFor(g, t)
		args = append(args, g.expr(t, 2))
	}
	g.feat("printf")
	g.line("%sPrintf(\"%s\\n\", %s)", fmtMark, f, strings.Join(args, ", "))
}

// ---------------------------------------------------------------- if / switch / block

func (g *gen) body(n, d int, dump bool) {
	g.ind++
	g.push(false)
	if g.o.Comments && g.chance(20) {
		g.raw(g.comment("block-start"))
	}
	g.block(n, d)
	g.nonEmpty()
	g.pop(dump && g.chance(35))
	g.ind--
}

func (g *gen) stmtIf(d int) {
	g.feat("if")
	cond := g.boolExpr(2)
	inLoop := false
	for _, c := range g.fc.ctl {
		if c.kind == cxLoop {
			inLoop = true
		}
	}
	if g.chance(12) && !(inLoop && g.avoided("loopvar-capture:continue-in-if-init")) {
		// if with an init statement (not inside a loop while the known finding is listed: a continue
		// executed under an if-init corrupts the captured per-iteration loop variable)
		t := g.intType()
		name := g.fresh("v")
		e := g.expr(t, 1)
		g.feat("if-init")
		g.line("if %s := %s; %s > %s {", name, e, name, g.intText(t, int64(g.pick(5)), posOperand))
	} else {
		g.line("if %s {", cond)
	}
	g.body(1+g.pick(3), d-1, true)
	for g.chance(25) {
		g.feat("else-if")
		g.elseLine(sprintf("else if %s {", g.boolExpr(1)))
		g.body(1+g.pick(2), d-1, true)
	}
	if g.chance(45) {
		g.feat("else")
		g.elseLine("else {")
		g.body(1+g.pick(3), d-1, true)
	}
	g.line("}")
}

func (g *gen) elseLine(rest string) {
	if g.o.Comments && g.chance(30) {
		g.raw("} " + g.blockComment("before-else") + " " + rest)
		return
	}
	g.raw("} " + rest)
}

func (g *gen) stmtBlock(d int) {
	g.feat("block")
	g.line("{")
	g.body(1+g.pick(3), d-1, true)
	g.line("}")
}

func (g *gen) stmtSwitch(d int) {
	g.fc.ctl = append(g.fc.ctl, ctl{kind: cxSwitch})
	defer func() { g.fc.ctl = g.fc.ctl[:len(g.fc.ctl)-1] }()
	caseBody := func(isDefault bool) {
		g.ind++
		g.push(false)
		if isDefault && g.avoided("switch-default:return-call") {
			// no return statement inside a default clause
			g.noReturn++
			defer func() { g.noReturn-- }()
		}
		if isDefault && g.avoided("switch-default:jump") {
			// break/continue written inside a default clause must not target anything outside it
			saved := g.fc.ctl
			g.fc.ctl = nil
			defer func() { g.fc.ctl = saved }()
		}
		g.block(1+g.pick(2), d-1)
		g.nonEmpty()
		if g.chance(15) && len(g.fc.ctl) > 0 {
			g.feat("break-in-switch")
			g.line("if %s {", g.boolExpr(1))
			g.ind++
			g.line("break")
			g.ind--
			g.line("}")
			g.block(1, d-1)
		}
		g.pop(false)
		g.ind--
	}
	if g.chance(30) {
		g.feat("switch-tagless")
		g.line("switch {")
		n := 1 + g.pick(3)
		for i := 0; i < n; i++ {
			g.line("case %s:", g.boolExpr(1))
			caseBody(false)
		}
		if g.chance(60) {
			g.line("default:")
			caseBody(true)
		}
		g.line("}")
		return
	}
	var t *typ
	if g.chance(30) {
		t = scalars[kString]
	} else {
		t = g.intType()
	}
	tag := g.expr(t, 1)
	g.feat("switch:" + t.name())
	if g.chance(20) {
		name := g.fresh("v")
		g.feat("switch-init")
		g.line("switch %s := %s; %s {", name, tag, name)
		g.push(false)
		g.declare(&vr{name: name, t: t, ro: true, used: true, noCheck: true})
		defer g.pop(false)
	} else {
		g.line("switch %s {", tag)
	}
	// distinct case constants
	n := 1 + g.pick(3)
	used := map[string]bool{}
	for i := 0; i < n; i++ {
		var vals []string
		k := 1
		if g.chance(30) {
			k = 2
			g.feat("case-list")
		}
		for j := 0; j < k; j++ {
			var raw, txt string
			if t.k == kString {
				txt = g.strLit()
				raw = txt
			} else {
				v := int64(g.pick(8))
				raw = sprintf("%d", v)
				txt = g.intText(t, v, posOperand)
			}
			if used[raw] {
				continue
			}
			used[raw] = true
			vals = append(vals, txt)
		}
		if len(vals) == 0 {
			continue
		}
		g.line("case %s:", strings.Join(vals, ", "))
		caseBody(false)
	}
	if g.chance(60) {
		g.line("default:")
		caseBody(true)
	}
	g.line("}")
}

// ---------------------------------------------------------------- loops

func (g *gen) loopBody(d int, label string, pre func()) {
	g.fc.ctl = append(g.fc.ctl, ctl{kind: cxLoop, label: label, isRange: g.rangeNext})
	g.rangeNext = false
	g.ind++
	g.push(false)
	if pre != nil {
		pre()
	}
	g.block(1+g.pick(3), d-1)
	g.nonEmpty()
	g.pop(g.chance(25))
	g.ind--
	g.fc.ctl = g.fc.ctl[:len(g.fc.ctl)-1]
}

func (g *gen) stmtLoop(d int) {
	bound := 1 + g.pick(4)
	if g.budget < 40*g.mult*bound {
		g.stmtPrint()
		return
	}
	saveMult := g.mult
	defer func() { g.mult = saveMult }()

	form := g.pick(100)
	outerKind := "for3"
	switch {
	case form >= 34 && form < 48:
		outerKind = "cond"
	case form >= 48 && form < 58:
		outerKind = "forever"
	case form >= 58:
		outerKind = "range"
	}
	unlabeled := false
	label := ""
	labeled := d >= 2 && g.chance(22)
	if labeled && g.avoided("break-label:"+outerKind+"-outer") && g.avoided("continue-label:"+outerKind+"-outer") {
		labeled = false // a label must be used, and no labeled jump is usable here
	}
	if labeled {
		label = g.fresh("L")
	}
	emitLabel := func() {
		if labeled {
			g.feat("label")
			if g.scopes[len(g.scopes)-1].lines == 0 && g.avoided("label:first-in-block") {
				g.line("%sPrintln(\"%s\")", fmtMark, g.tag())
			}
			g.raw(label + ":")
			g.skipCmt = true
		}
	}
	// pre is run at the top of the body of a labeled loop: plants the inner loop that uses the label
	inner := func() {
		if !labeled {
			return
		}
		g.block(g.pick(2), 0)
		j := g.fresh("j")
		b2 := 2 + g.pick(2)
		g.line("for %s := 0; %s < %d; %s++ {", j, j, b2, j)
		m2 := g.mult
		g.mult *= b2
		g.fc.ctl = append(g.fc.ctl, ctl{kind: cxLoop})
		g.ind++
		g.push(false)
		g.declare(&vr{name: j, t: scalars[kInt], ro: true, used: true, min: 0, max: int64(b2 - 1), bnd: true})
		g.block(g.pick(2), 0)
		kw := "break"
		if g.chance(50) {
			kw = "continue"
		}
		if g.avoided(kw + "-label:" + outerKind + "-outer") {
			// fall back to the other keyword, or to an unlabeled jump of the inner loop
			other := map[string]string{"break": "continue", "continue": "break"}[kw]
			if !g.avoided(other + "-label:" + outerKind + "-outer") {
				kw = other
			} else {
				unlabeled = true
			}
		}
		g.feat(kw + "-label")
		g.line("if %s {", g.boolExpr(1))
		g.ind++
		if unlabeled {
			g.line("%s", kw)
		} else {
			g.line("%s %s", kw, label)
		}
		g.ind--
		g.line("}")
		g.block(1+g.pick(2), 0)
		g.pop(false)
		g.ind--
		g.fc.ctl = g.fc.ctl[:len(g.fc.ctl)-1]
		g.line("}")
		g.mult = m2
	}

	switch n := form; {
	case n < 34:
		// three-clause for
		i := g.fresh("i")
		g.feat("for-3")
		emitLabel()
		// the documented post statements are i++ and i = i + 1
		step := "++"
		if g.pick(4) == 0 {
			step = sprintf(" = %s + 1", i)
		}
		if g.chance(20) {
			// counting down
			g.feat("for-3-down")
			g.line("for %s := %d; %s > 0; %s-- {", i, bound, i, i)
			g.mult *= bound
			g.loopBody(d, label, func() {
				g.declare(&vr{name: i, t: scalars[kInt], ro: true, used: true, min: 1, max: int64(bound), bnd: true})
				inner()
			})
		} else {
			g.line("for %s := 0; %s < %d; %s%s {", i, i, bound, i, step)
			g.mult *= bound
			g.loopBody(d, label, func() {
				g.declare(&vr{name: i, t: scalars[kInt], ro: true, used: true, min: 0, max: int64(bound - 1), bnd: true})
				inner()
			})
		}
		g.line("}")
	case n < 48:
		// condition-only for; the counter is advanced first so that continue cannot skip it
		c := g.fresh("c")
		g.feat("for-cond")
		g.line("%s := 0", c)
		cv := g.declare(&vr{name: c, t: scalars[kInt], ro: true, used: true, min: 0, max: int64(bound), bnd: true})
		emitLabel()
		g.line("for %s < %d {", c, bound)
		g.mult *= bound
		g.loopBody(d, label, func() {
			switch g.pick(3) {
			case 0:
				g.line("%s++", c)
			case 1:
				g.line("%s = %s + 1", c, c)
			default:
				g.line("%s += 1", c)
			}
			inner()
		})
		g.line("}")
		_ = cv
	case n < 58:
		// for { } with a guaranteed break
		c := g.fresh("c")
		g.feat("for-forever")
		g.line("%s := 0", c)
		g.declare(&vr{name: c, t: scalars[kInt], ro: true, used: true, min: 0, max: int64(bound + 1), bnd: true})
		emitLabel()
		g.line("for {")
		g.mult *= bound
		g.loopBody(d, label, func() {
			g.line("%s++", c)
			g.line("if %s > %d {", c, bound)
			g.ind++
			g.line("break")
			g.ind--
			g.line("}")
			inner()
		})
		g.line("}")
	case n < 80:
		g.rangeSlice(d, label, emitLabel, inner)
	case n < 90:
		g.rangeMap()
	default:
		// range over a string: index is the byte offset, value the code point (ASCII only here)
		str := []string{"abc", "go", "x", "hello", ""}[g.pick(5)]
		i, ch := g.fresh("i"), g.fresh("ch")
		g.feat("range-string")
		emitLabel()
		g.line("for %s, %s := range %q {", i, ch, str)
		if len(str) > 0 {
			g.mult *= len(str)
		}
		g.rangeNext = true
		g.loopBody(d, label, func() {
			g.declare(&vr{name: i, t: scalars[kInt], ro: true, min: 0, max: int64(len(str)), bnd: true})
			g.declare(&vr{name: ch, t: scalars[kInt32], ro: true})
			inner()
		})
		g.line("}")
	}
}

func (g *gen) rangeSlice(d int, label string, emitLabel, inner func()) {
	vs := g.visible(func(v *vr) bool { return v.t.k == kSlice })
	var (
		sv   *vr
		src  string
		et   *typ
		size int
	)
	if len(vs) > 0 && g.chance(80) {
		sv = vs[g.pick(len(vs))]
		sv.used = true
		src, et = sv.name, sv.t.elem
		size = sv.minLen + 3
		// (slice expressions a[lo:hi] are not part of the documented language and are not generated)
	} else {
		et = g.scalarType()
		size = g.pick(4)
		src = g.sliceLit(g.sliceOf(et), size)
	}
	if size < 1 {
		size = 1
	}
	g.mult *= size
	i, v := g.fresh("i"), g.fresh("e")
	form := g.pick(3)
	g.feat("range-slice")
	emitLabel()
	switch form {
	case 0:
		g.line("for %s, %s := range %s {", i, v, src)
	case 1:
		g.line("for _, %s := range %s {", v, src)
	default:
		g.line("for %s := range %s {", i, src)
	}
	// the ranged slice is not appended to inside the loop
	wasRo := false
	if sv != nil {
		wasRo = sv.ro
		sv.ro = true
	}
	g.rangeNext = true
	g.loopBody(d, label, func() {
		if form != 1 {
			g.declare(&vr{name: i, t: scalars[kInt], ro: true, idxFor: sv, min: 0, max: -1, bnd: true})
		}
		if form != 2 {
			g.declare(&vr{name: v, t: et, ro: true})
		}
		inner()
	})
	if sv != nil {
		sv.ro = wasRo
	}
	g.line("}")
}

// rangeMap iterates a map accumulating only order-independent results.
func (g *gen) rangeMap() {
	vs := g.visible(func(v *vr) bool { return v.t.k == kMap })
	if len(vs) == 0 {
		g.stmtDecl()
		return
	}
	m := vs[g.pick(len(vs))]
	m.used = true
	g.feat("range-map")
	cnt := g.fresh("n")
	g.line("%s := 0", cnt)
	g.declare(&vr{name: cnt, t: scalars[kInt], ro: true})
	k, v := g.fresh("k"), g.fresh("e")
	switch {
	case m.t.elem.isInt():
		acc := g.fresh("acc")
		g.line("var %s %s", acc, m.t.elem.name())
		g.declare(&vr{name: acc, t: m.t.elem, ro: true})
		if g.chance(50) {
			g.line("for _, %s := range %s {", v, m.name)
		} else {
			g.line("for %s, %s := range %s {", k, v, m.name)
			g.ind++
			g.line("_ = %s", k)
			g.ind--
		}
		g.ind++
		g.line("%s += %s", acc, v)
		g.line("%s++", cnt)
		g.ind--
		g.line("}")
	case m.t.key.k == kString && g.chance(50):
		g.line("for %s := range %s {", k, m.name)
		g.ind++
		g.line("%s += len(%s)", cnt, k)
		g.ind--
		g.line("}")
	default:
		g.line("for %s := range %s {", k, m.name)
		g.ind++
		g.line("_ = %s", k)
		g.line("%s++", cnt)
		g.ind--
		g.line("}")
	}
}

func (g *gen) stmtJump() {
	kw := "break"
	if g.chance(50) {
		kw = "continue"
	}
	g.feat(kw)
	g.line("if %s {", g.boolExpr(1))
	g.ind++
	g.line("%s", kw)
	g.ind--
	g.line("}")
}

func (g *gen) stmtEarlyReturn() {
	loops, inRange := 0, false
	for _, c := range g.fc.ctl {
		if c.kind == cxLoop {
			loops++
			if c.isRange {
				inRange = true
			}
		}
	}
	if loops >= 2 && len(g.fc.results) > 0 && g.avoided("return:in-nested-loop") {
		// known-bad shape: a VALUE-returning function that returns from inside two or more nested loops
		g.stmtPrint()
		return
	}
	if inRange {
		g.fc.rangeRet = true
		g.feat("return-in-range-loop")
	}
	if loops >= 2 {
		g.feat("return-in-nested-loops")
	}
	g.feat("early-return")
	g.line("if %s {", g.boolExpr(1))
	g.ind++
	var es []string
	g.retGuard()
	multi := len(g.fc.results) > 1 && g.avoided("multi-return:eval-order")
	if multi {
		g.noCalls++
	}
	for _, t := range g.fc.results {
		es = append(es, g.exprPos(t, 1, posReturn))
	}
	if multi {
		g.noCalls--
	}
	g.retDone()
	if len(es) == 0 {
		g.line("return")
	} else {
		g.line("return %s", strings.Join(es, ", "))
	}
	g.ind--
	g.line("}")
}

// retGuard / retDone bracket the generation of a return expression: while a
// deferred call is pending in this function the expression has no calls.
func (g *gen) retGuard() {
	if g.fc.deferred > 0 && g.avoided("defer:before-return-expr") {
		g.noCalls++
		g.fc.retGuarded = true
	}
}

func (g *gen) retDone() {
	if g.fc.retGuarded {
		g.noCalls--
		g.fc.retGuarded = false
	}
}

// ---------------------------------------------------------------- calls

func (g *gen) stmtCall() {
	type cand struct {
		f      *fn
		callee string
		recv   *vr
	}
	var cs []cand
	for _, f := range g.funcs {
		if g.callable(f) {
			cs = append(cs, cand{f: f, callee: pfx + f.name})
		}
	}
	for _, v := range g.visible(func(v *vr) bool { return v.t.k == kStruct }) {
		for _, m := range v.t.sd.methods {
			if m.ptrRecv && (v.ro || g.isOuter(v) && false) {
				continue
			}
			cs = append(cs, cand{f: m, callee: v.name + "." + m.name, recv: v})
		}
	}
	for _, v := range g.visible(func(v *vr) bool { return v.t.k == kFunc }) {
		cs = append(cs, cand{f: v.t.sig, callee: v.name, recv: v})
	}
	if len(cs) == 0 {
		g.stmtPrint()
		return
	}
	c := cs[g.pick(len(cs))]
	call, ok := g.callText(c.f, c.callee)
	if !ok {
		g.stmtPrint()
		return
	}
	if c.recv != nil {
		c.recv.used = true
		if !c.f.pure && g.isOuter(c.recv) {
			g.fc.impure = true
		}
	}
	if !c.f.pure {
		g.fc.impure = true // conservatively
	}
	switch {
	case c.recv != nil && c.recv.t.k == kFunc:
		g.feat("closure-call")
	case c.f.recv != nil:
		g.feat("method-call")
	default:
		g.feat("call")
	}
	switch len(c.f.results) {
	case 0:
		g.line("%s", call)
	case 1:
		t := c.f.results[0]
		switch n := g.pick(100); {
		case n < 45:
			name := g.fresh("v")
			g.line("%s := %s", name, call)
			g.declare(&vr{name: name, t: t})
		case n < 65:
			vs := g.visible(func(v *vr) bool { return sameType(v.t, t) && !v.ro })
			if len(vs) > 0 {
				v := vs[g.pick(len(vs))]
				if g.isOuter(v) {
					g.fc.impure = true
				}
				g.line("%s = %s", v.name, call)
				break
			}
			fallthrough
		case n < 85:
			g.line("%sPrintf(\"%s %s\\n\", %s)", fmtMark, g.tag(), verbFor(g, t), call)
		default:
			g.feat("call-result-ignored")
			g.line("%s", call)
		}
	default:
		var names []string
		var decl []*vr
		for i, t := range c.f.results {
			if g.chance(20) && !(i == len(c.f.results)-1 && len(decl) == 0) {
				names = append(names, "_")
				g.feat("blank-target")
				continue
			}
			name := g.fresh("v")
			names = append(names, name)
			decl = append(decl, &vr{name: name, t: t})
		}
		g.feat("multi-assign-call")
		g.line("%s := %s", strings.Join(names, ", "), call)
		for _, v := range decl {
			g.declare(v)
		}
	}
}

// ---------------------------------------------------------------- closures / defer

// closureLit emits "func(params) result {" ... "}" up to but excluding what follows the brace.
func (g *gen) closureBody(sig *fn, d int, head, tail string) {
	g.line("%s", head)
	g.ind++
	saveFc, saveStmts := g.fc, g.stmts
	inRange := 0
	for _, c := range saveFc.ctl {
		if c.kind == cxLoop && c.isRange {
			inRange = 1
		}
	}
	g.rangeDepth += inRange
	defer func() { g.rangeDepth -= inRange }()
	g.fc = &fctx{f: sig, results: sig.results, noDefer: saveFc.noDefer}
	g.stmts = 1 + g.pick(4)
	g.scopes = append(g.scopes, &scope{closure: true})
	for _, p := range sig.params {
		g.declare(&vr{name: p.name, t: p.t, used: false})
	}
	g.block(g.stmts, d-1)
	var ret string
	if len(sig.results) == 1 {
		g.retGuard()
		ret = g.exprPos(sig.results[0], 2, posReturn)
		g.retDone()
	}
	g.pop(false)
	if ret != "" {
		g.line("return %s", ret)
	}
	sig.pure = !g.fc.impure
	sig.rangeRet = g.fc.rangeRet
	if g.fc.rangeRet {
		saveFc.rangeRet = true
	}
	sig.panics = g.fc.panics
	if g.fc.panics {
		saveFc.panics = true
	}
	if g.fc.impure {
		// what a closure mutates may belong to an enclosing closure or function
		saveFc.impure = true
	}
	g.fc, g.stmts = saveFc, saveStmts
	g.ind--
	g.raw(tail)
}

func (g *gen) stmtClosure(d int) {
	g.feat("closure")
	sig := &fn{pure: true}
	np := g.pick(3)
	for i := 0; i < np; i++ {
		sig.params = append(sig.params, param{name: g.fresh("a"), t: g.scalarType()})
	}
	if g.chance(70) {
		sig.results = []*typ{g.scalarType()}
	}
	head := "func("
	for i, p := range sig.params {
		if i > 0 {
			head += ", "
		}
		head += p.name + " " + g.typeName(p.t)
	}
	head += ")"
	if len(sig.results) == 1 {
		head += " " + g.typeName(sig.results[0])
	}
	startBudget := g.budget
	saveMult := g.mult
	if g.chance(15) && len(sig.params) == 0 {
		// immediately invoked
		g.feat("closure-iife")
		if len(sig.results) == 1 {
			name := g.fresh("v")
			g.closureBody(sig, d, name+" := "+head+" {", "}()")
			g.declare(&vr{name: name, t: sig.results[0]})
		} else {
			g.closureBody(sig, d, head+" {", "}()")
		}
		return
	}
	name := g.fresh("f")
	// the body is generated as if executed once; calls pay its cost again
	g.mult = 1
	g.closureBody(sig, d, name+" := "+head+" {", "}")
	g.mult = saveMult
	sig.cost = startBudget - g.budget + 2
	g.budget = startBudget // defining is free; calling pays
	g.declare(&vr{name: name, t: &typ{k: kFunc, sig: sig}, ro: true})
}

func (g *gen) stmtDefer(d int) {
	g.feat("defer")
	g.fc.deferred++
	sig := &fn{pure: true}
	if g.chance(45) {
		t := g.scalarType()
		sig.params = []param{{name: g.fresh("a"), t: t}}
		arg := g.expr(t, 1)
		g.feat("defer-arg")
		g.line("defer func(%s %s) {", sig.params[0].name, g.typeName(t))
		g.deferBody(sig)
		g.raw("}(" + arg + ")")
		return
	}
	g.line("defer func() {")
	g.deferBody(sig)
	g.raw("}()")
}

func (g *gen) deferBody(sig *fn) {
	g.ind++
	saveFc, saveStmts := g.fc, g.stmts
	g.fc = &fctx{f: sig, noDefer: true}
	g.noPanicCalls++
	defer func() { g.noPanicCalls-- }()
	g.scopes = append(g.scopes, &scope{closure: true})
	for _, p := range sig.params {
		g.declare(&vr{name: p.name, t: p.t, used: false})
	}
	g.stmtPrint()
	g.stmts = g.pick(3)
	if g.avoided("defer:before-return-expr") {
		// deferred code must not change anything a later return expression reads
		for i := 0; i < g.stmts; i++ {
			g.stmtPrint()
		}
	} else {
		g.block(g.stmts, 0)
	}
	g.pop(false)
	if g.fc.impure {
		saveFc.impure = true
	}
	g.fc, g.stmts = saveFc, saveStmts
	g.ind--
}

// ---------------------------------------------------------------- maps / slices / multi-assign

func (g *gen) stmtMapOp() {
	vs := g.visible(func(v *vr) bool { return v.t.k == kMap })
	if len(vs) == 0 {
		g.declMap()
		return
	}
	m := vs[g.pick(len(vs))]
	m.used = true
	pool := keyPool(m.t)
	k := pool[g.pick(len(pool))]
	definite := false
	for _, x := range m.keys {
		if x == k {
			definite = true
		}
	}
	if g.isOuter(m) || m.ro {
		g.fc.impure = true
	}
	switch n := g.pick(100); {
	case n < 40:
		// two-value read; the value is only looked at when the key was present
		// (a missing key yields nil in Ego, the zero value in Go: documented difference)
		v, ok := g.fresh("v"), g.fresh("ok")
		g.feat("map-comma-ok")
		g.line("%s, %s := %s[%s]", v, ok, m.name, k)
		g.declare(&vr{name: ok, t: scalars[kBool], ro: true})
		g.line("if %s {", ok)
		g.ind++
		g.line("%sPrintf(\"%s %s\\n\", %s)", fmtMark, g.tag(), verbFor(g, m.t.elem), v)
		g.ind--
		g.line("}")
		if g.chance(50) {
			g.line("%sPrintf(\"%s %%t\\n\", %s)", fmtMark, g.tag(), ok)
		}
	case n < 70:
		g.feat("map-store")
		if m.t.elem.k == kString {
			g.strSafe++
			g.noCalls++
		}
		val := g.expr(m.t.elem, 1)
		if m.t.elem.k == kString {
			g.strSafe--
			g.noCalls--
		}
		g.line("%s[%s] = %s", m.name, k, val)
		if !definite {
			m.xkeys = append(m.xkeys, k)
		}
	case n < 82:
		if definite || m.ro {
			// keys of the literal stay for the life of the map so that one-value reads of them are safe
			g.line("%sPrintf(\"%s %%d\\n\", len(%s))", fmtMark, g.tag(), m.name)
			return
		}
		g.feat("map-delete")
		g.line("delete(%s, %s)", m.name, k)
	case n < 92 && definite && m.t.elem.isNumeric():
		g.feat("map-elem-compound")
		g.line("%s[%s] += %s", m.name, k, g.exprPos(m.t.elem, 1, posOperand))
	default:
		g.feat("len-map")
		g.line("%sPrintf(\"%s %%d\\n\", len(%s))", fmtMark, g.tag(), m.name)
	}
}

func (g *gen) stmtAppend() {
	vs := g.visible(func(v *vr) bool { return v.t.k == kSlice && !v.ro })
	if len(vs) == 0 {
		g.declSlice()
		return
	}
	s := vs[g.pick(len(vs))]
	if g.isOuter(s) {
		g.fc.impure = true
	}
	s.used = true
	n := 1 + g.pick(2)
	var es []string
	g.inCollection++
	for i := 0; i < n; i++ {
		es = append(es, g.expr(s.t.elem, 1))
	}
	g.inCollection--
	g.feat("append")
	g.line("%s = append(%s, %s)", s.name, s.name, strings.Join(es, ", "))
}

func (g *gen) stmtMulti() {
	inLoop := false
	for _, c := range g.fc.ctl {
		if c.kind == cxLoop {
			inLoop = true
		}
	}
	_ = inLoop
	if g.chance(50) && !g.avoided("parallel-assign") {
		// swap / rotate two variables of one type
		vs := g.visible(func(v *vr) bool { return v.t.isScalar() && !v.ro })
		for i := 0; i < len(vs); i++ {
			for j := i + 1; j < len(vs); j++ {
				if sameType(vs[i].t, vs[j].t) && g.chance(50) {
					if g.isOuter(vs[i]) || g.isOuter(vs[j]) {
						g.fc.impure = true
					}
					g.feat("parallel-assign")
					g.line("%s, %s = %s, %s", vs[i].name, vs[j].name, vs[j].name, vs[i].name)
					return
				}
			}
		}
	}
	a, b := g.fresh("v"), g.fresh("v")
	ta, tb := g.scalarType(), g.scalarType()
	g.feat("parallel-define")
	eb := g.expr(tb, 1)
	if g.avoided("parallel-define:last-call") && strings.Contains(eb, "(") {
		// the last value of the list must not be a call (or conversion)
		for !tb.isDefaultKind() {
			tb = g.scalarType()
		}
		g.smallLits++
		eb = g.lit(tb, posPlain)
		g.smallLits--
		if vs := g.visible(func(v *vr) bool { return sameType(v.t, tb) }); len(vs) > 0 {
			vs[0].used = true
			eb = vs[0].name
		}
	}
	ea := g.expr(ta, 1)
	if g.avoided("parallel-define:first-is-index") && strings.Contains(ea, "[") {
		// "a, b := m[k], x" is read as the two-value map lookup
		ea = g.lit(ta, posPlain)
	}
	g.line("%s, %s := %s, %s", a, b, ea, eb)
	g.declare(&vr{name: a, t: ta})
	g.declare(&vr{name: b, t: tb})
}

// ---------------------------------------------------------------- Ego-only

// stmtTry emits try { ... } catch (e) { ... } around a block that may raise a
// catchable runtime error. Only with Options.EgoOnly; the program then has no Go form.
func (g *gen) stmtTry(d int) {
	g.egoOnly = true
	g.feat("try-catch")
	g.line("try {")
	g.ind++
	g.push(false)
	g.block(g.pick(3), d-1)
	switch g.pick(4) {
	case 0:
		t := g.intType()
		z := g.fresh("z")
		g.line("var %s %s = %s", z, t.name(), g.intText(t, 0, posInit))
		g.line("%sPrintf(\"%s %%d\\n\", %s / %s)", fmtMark, g.tag(), g.intText(t, int64(1+g.pick(9)), posPlain), z)
		g.feat("try:div0")
	case 1:
		s, i := g.fresh("s"), g.fresh("i")
		g.line("%s := []int{1, 2}", s)
		g.line("%s := %d", i, 2+g.pick(3))
		g.line("%sPrintf(\"%s %%d\\n\", %s[%s])", fmtMark, g.tag(), s, i)
		g.feat("try:index")
	case 2:
		g.line("panic(%s)", g.strLit())
		g.feat("try:panic")
	default:
		g.feat("try:no-error")
	}
	g.block(g.pick(2), d-1)
	g.pop(false)
	g.ind--
	if g.chance(80) {
		e := g.fresh("e")
		g.raw("} catch (" + e + ") {")
		g.ind++
		g.push(false)
		g.line("%sPrintf(\"%s caught %%v\\n\", %s)", fmtMark, g.tag(), e)
		g.block(g.pick(2), d-1)
		g.pop(false)
		g.ind--
	}
	g.line("}")
}
