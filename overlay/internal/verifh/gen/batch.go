package gen

import (
	"bytes"
	"context"
	"fmt"
	"os"
	"os/exec"
	"path/filepath"
	"runtime"
	"strings"
	"time"
)

// batchMark starts every delimiter line of the batch output protocol.
const batchMark = "\x1e=VERIF-BATCH="

// GoResult is what the Go reference did with one program.
type GoResult struct {
	Out      string // what the program wrote
	Panicked bool   // the program ended in a Go panic (runtime error or panic())
	PanicMsg string // text of the panic value
	Runtime  bool   // the panic value was a runtime.Error (division by zero, index out of range, ...)
	BuildErr string // non-empty: the Go compiler rejected this program (a generator defect, never a verdict)
	Missing  bool   // no section for this program in the batch output (the batch process died)
}

// GoBody returns the Go declarations of p with every top-level name prefixed by prefix.
func GoBody(p Program, prefix string) string {
	return strings.ReplaceAll(p.Go, pfx, prefix)
}

// GoBatch renders ONE Go file (package main) that holds every program of progs
// (those with Go != "") renamed apart as p<i>_..., and a main that runs each
// p<i>_main(w) under recover(), framing its output with delimiter lines.
func GoBatch(progs []Program) string {
	var b strings.Builder
	b.WriteString("package main\n\nimport (\n\t\"bufio\"\n\t\"fmt\"\n\t\"io\"\n\t\"os\"\n\t\"runtime\"\n)\n\nvar _ = fmt.Sprint\n\n")
	for i, p := range progs {
		if p.Go == "" {
			continue
		}
		fmt.Fprintf(&b, "// ---- program %d\n%s\n", i, GoBody(p, fmt.Sprintf("p%d_", i)))
	}
	b.WriteString(`func run(out *bufio.Writer, i int, f func(io.Writer)) {
	fmt.Fprintf(out, "` + `\x1e=VERIF-BATCH=` + `%d BEGIN\n", i)
	status, msg := "OK", ""
	func() {
		defer func() {
			if r := recover(); r != nil {
				status = "PANIC"
				if _, ok := r.(runtime.Error); ok {
					status = "PANIC-RUNTIME"
				}
				msg = fmt.Sprint(r)
			}
		}()
		f(out)
	}()
	fmt.Fprintf(out, "\n` + `\x1e=VERIF-BATCH=` + `%d END %s %q\n", i, status, msg)
	out.Flush()
}

func main() {
	out := bufio.NewWriterSize(os.Stdout, 1<<16)
`)
	for i, p := range progs {
		if p.Go == "" {
			continue
		}
		fmt.Fprintf(&b, "\trun(out, %d, p%d_main)\n", i, i)
	}
	b.WriteString("\tout.Flush()\n}\n")
	return b.String()
}

// GoSingle renders p as a stand-alone Go program (for replay files and debugging).
func GoSingle(p Program) string {
	return GoBatch([]Program{p})
}

// ParseBatch splits the output of a batch binary into per-program results.
func ParseBatch(out string, n int) []GoResult {
	res := make([]GoResult, n)
	for i := range res {
		res[i].Missing = true
	}
	parts := strings.Split(out, batchMark)
	// parts[k] = "<i> BEGIN\n<output>\n" or "<i> END STATUS \"msg\"\n"
	cur := -1
	for _, part := range parts[1:] {
		nl := strings.IndexByte(part, '\n')
		if nl < 0 {
			continue
		}
		head, rest := part[:nl], part[nl+1:]
		var idx int
		var kw string
		if _, err := fmt.Sscanf(head, "%d %s", &idx, &kw); err != nil || idx < 0 || idx >= n {
			continue
		}
		switch kw {
		case "BEGIN":
			cur = idx
			res[idx].Out = strings.TrimSuffix(rest, "\n") // the newline the END line was preceded by
		case "END":
			if idx != cur {
				continue
			}
			res[idx].Missing = false
			f := strings.SplitN(head, " ", 4)
			if len(f) >= 3 && strings.HasPrefix(f[2], "PANIC") {
				res[idx].Panicked = true
				res[idx].Runtime = f[2] == "PANIC-RUNTIME"
				if len(f) == 4 {
					var m string
					if _, err := fmt.Sscanf(f[3], "%q", &m); err == nil {
						res[idx].PanicMsg = m
					} else {
						res[idx].PanicMsg = f[3]
					}
				}
			}
		}
	}
	return res
}

// goMod is the go.mod of a batch directory: the language version of the toolchain
// this harness itself was built with (the one the scratch tree's go.mod selects).
func goMod() string {
	v := strings.TrimPrefix(runtime.Version(), "go")
	if i := strings.IndexAny(v, " -+"); i > 0 {
		v = v[:i]
	}
	return "module batch\n\ngo " + v + "\n"
}

// origHome is $HOME as the harness process was started: the in-process Ego
// runner later points HOME at an isolated directory, but the go command must
// keep the real one (module cache and the cached toolchain live under it).
var origHome = os.Getenv("HOME")

func goEnv() []string {
	env := os.Environ()
	out := env[:0:0]
	for _, e := range env {
		if strings.HasPrefix(e, "GOFLAGS=") || strings.HasPrefix(e, "GOPROXY=") || strings.HasPrefix(e, "GOMAXPROCS=") ||
			strings.HasPrefix(e, "HOME=") || strings.HasPrefix(e, "EGO_PATH=") {
			continue
		}
		out = append(out, e)
	}
	return append(out, "GOFLAGS=-mod=mod", "GOPROXY=off", "HOME="+origHome)
}

// RunGoBatch builds progs as one Go program in a fresh directory under dir
// (normally $VERIF_ARENA) and runs it. Programs with Go == "" get Missing. If
// the build fails the batch is bisected, so that only the programs the Go
// compiler really rejects carry BuildErr; every other program still gets its result.
func RunGoBatch(dir string, progs []Program) ([]GoResult, error) {
	res := make([]GoResult, len(progs))
	for i := range res {
		res[i].Missing = true
	}
	idx := make([]int, 0, len(progs))
	for i, p := range progs {
		if p.Go != "" {
			idx = append(idx, i)
		}
	}
	if len(idx) == 0 {
		return res, nil
	}
	err := runSubset(dir, progs, idx, res)
	return res, err
}

var batchSeq int

func runSubset(dir string, progs []Program, idx []int, res []GoResult) error {
	sub := make([]Program, len(progs))
	for _, i := range idx {
		sub[i] = progs[i]
	}
	batchSeq++
	wd, err := os.MkdirTemp(dir, fmt.Sprintf("gobatch-%d-", batchSeq))
	if err != nil {
		return err
	}
	defer os.RemoveAll(wd)
	if err := os.WriteFile(filepath.Join(wd, "go.mod"), []byte(goMod()), 0o644); err != nil {
		return err
	}
	src := GoBatch(sub)
	if err := os.WriteFile(filepath.Join(wd, "main.go"), []byte(src), 0o644); err != nil {
		return err
	}
	build := exec.Command("go", "build", "-trimpath", "-gcflags=-e", "-o", "batch.bin", ".")
	build.Dir = wd
	build.Env = goEnv()
	if msg, err := build.CombinedOutput(); err != nil {
		if len(idx) == 1 {
			res[idx[0]] = GoResult{BuildErr: trunc(string(msg), 1500)}
			return nil
		}
		if !bytes.Contains(msg, []byte("main.go:")) {
			return fmt.Errorf("go build failed (not a source error): %v: %s", err, trunc(string(msg), 2000))
		}
		// Attribute each reported line to the program whose section contains it,
		// drop those programs and rebuild the rest (-gcflags=-e: report all errors).
		bad := map[int]string{}
		lines := strings.Split(src, "\n")
		for _, el := range strings.Split(string(msg), "\n") {
			var ln int
			el = strings.TrimSpace(el)
			if !strings.HasPrefix(el, "./main.go:") {
				continue
			}
			if _, err := fmt.Sscanf(el, "./main.go:%d:", &ln); err != nil || ln < 1 || ln > len(lines) {
				continue
			}
			for k := ln - 1; k >= 0; k-- {
				var pi int
				if _, err := fmt.Sscanf(lines[k], "// ---- program %d", &pi); err == nil {
					bad[pi] += el + "\n"
					break
				}
			}
		}
		var rest []int
		for _, i := range idx {
			if m, ok := bad[i]; ok {
				res[i] = GoResult{BuildErr: trunc(m, 1500)}
			} else {
				rest = append(rest, i)
			}
		}
		if len(rest) == len(idx) {
			// could not attribute: fall back to bisection
			h := len(idx) / 2
			if err := runSubset(dir, progs, idx[:h], res); err != nil {
				return err
			}
			return runSubset(dir, progs, idx[h:], res)
		}
		if len(rest) == 0 {
			return nil
		}
		return runSubset(dir, progs, rest, res)
	}
	// watchdog only: generated programs end in milliseconds; a batch that runs for ten minutes is
	// reported as an error (its unfinished programs stay Missing), never as a verdict
	ctx, cancel := context.WithTimeout(context.Background(), 10*time.Minute)
	defer cancel()
	run := exec.CommandContext(ctx, filepath.Join(wd, "batch.bin"))
	run.Dir = wd
	var stdout, stderr bytes.Buffer
	run.Stdout, run.Stderr = &stdout, &stderr
	runErr := run.Run()
	parsed := ParseBatch(stdout.String(), len(progs))
	for _, i := range idx {
		res[i] = parsed[i]
	}
	if runErr != nil {
		// the batch process died (fatal error, stack overflow): programs after the crash stay Missing
		return fmt.Errorf("batch run: %v: %s", runErr, trunc(stderr.String(), 1500))
	}
	return nil
}

func trunc(s string, n int) string {
	if len(s) <= n {
		return s
	}
	return s[:n] + "…"
}

// FromTemplate builds a Program from hand-written template text that uses the
// generator's placeholders: "__P__" before every top-level name, "__F__Printf(" /
// "__F__Println(" for printing and a line "__MAIN__" as the head of func main.
// It is used by the directed probes of the checks so that their Go and Ego
// renderings come from one text.
func FromTemplate(tmpl string, strictClean bool) Program {
	return Program{Ego: renderEgo(tmpl), Go: renderGo(tmpl), StrictClean: strictClean, Features: []string{"directed"}}
}

// KnownAvoid merges known-finding key sets (as returned by vh.KnownKeys) into one avoid set.
func KnownAvoid(sets ...map[string]bool) map[string]bool {
	out := map[string]bool{}
	for _, s := range sets {
		for k := range s {
			out[k] = true
		}
	}
	return out
}

// RunGoFile builds and runs one complete batch file (as produced by GoSingle)
// and returns the result of its only program. Used by replays.
func RunGoFile(dir, src string) (GoResult, error) {
	wd, err := os.MkdirTemp(dir, "gofile-")
	if err != nil {
		return GoResult{}, err
	}
	defer os.RemoveAll(wd)
	if err := os.WriteFile(filepath.Join(wd, "go.mod"), []byte(goMod()), 0o644); err != nil {
		return GoResult{}, err
	}
	if err := os.WriteFile(filepath.Join(wd, "main.go"), []byte(src), 0o644); err != nil {
		return GoResult{}, err
	}
	build := exec.Command("go", "build", "-trimpath", "-o", "batch.bin", ".")
	build.Dir = wd
	build.Env = goEnv()
	if msg, err := build.CombinedOutput(); err != nil {
		return GoResult{BuildErr: trunc(string(msg), 1500)}, fmt.Errorf("go build: %v: %s", err, trunc(string(msg), 600))
	}
	run := exec.Command(filepath.Join(wd, "batch.bin"))
	run.Dir = wd
	var stdout bytes.Buffer
	run.Stdout = &stdout
	_ = run.Run()
	res := ParseBatch(stdout.String(), 1)
	return res[0], nil
}
