package gen

import "strings"

// Operator precedence levels used to decide where parentheses may be dropped.
const (
	precOr   = 1
	precAnd  = 2
	precCmp  = 3
	precAdd  = 4
	precMul  = 5
	precLeaf = 10
)

// expr returns an expression of static type t. A result that is a lone literal
// is rendered for a "plain" position (explicitly typed unless of default kind).
func (g *gen) expr(t *typ, d int) string {
	return g.exprPos(t, d, posPlain)
}

// exprPos is expr for a position with its own literal policy (initialiser, argument).
func (g *gen) exprPos(t *typ, d int, pos litPos) string {
	switch {
	case t.isNumeric():
		s, _, _ := g.num(t, d, pos)
		return s
	case t.k == kBool:
		return g.boolExpr(d)
	case t.k == kString:
		s, _ := g.strExpr(d)
		return s
	case t.k == kStruct:
		return g.structExpr(t, d)
	case t.k == kSlice:
		return g.sliceExpr(t, d)
	case t.k == kMap:
		return g.mapExpr(t)
	}
	panic("gen: expr of unsupported type " + t.name())
}

// ---------------------------------------------------------------- numeric

// num returns (text, isConstant, precedence).
func (g *gen) num(t *typ, d int, pos litPos) (string, bool, int) {
	if d <= 0 || g.chance(28) {
		return g.numLeaf(t, true, pos)
	}
	switch n := g.pick(100); {
	case n < 62:
		return g.numBinary(t, d, pos)
	case n < 72:
		if (t.isSigned() || t.isFloat()) && !g.avoided("neg:"+t.name()+":var") {
			s, ok := g.nonConstLeaf(t)
			if ok {
				g.feat("neg:" + t.name())
				if g.chance(30) {
					inner, c, _ := g.num(t, d-1, posOperand)
					if !c {
						return "(-(" + inner + "))", false, precLeaf
					}
				}
				return "(-" + s + ")", false, precLeaf
			}
		}
		return g.numLeaf(t, true, pos)
	case n < 86:
		if s, ok := g.conversion(t, d); ok {
			return s, false, precLeaf
		}
		return g.numLeaf(t, true, pos)
	default:
		return g.numLeaf(t, true, pos)
	}
}

func (g *gen) numBinary(t *typ, d int, pos litPos) (string, bool, int) {
	ops := []string{"+", "-", "*", "+", "-", "*", "/"}
	if t.isInt() {
		ops = append(ops, "%", "/")
	}
	op := ops[g.pick(len(ops))]
	prec := precAdd
	if op == "*" || op == "/" || op == "%" {
		prec = precMul
	}
	l, lc, lp := g.num(t, d-1, posOperand)
	var (
		r  string
		rc bool
		rp int
	)
	if op == "/" || op == "%" {
		r, rc = g.safeDivisor(t)
		rp = precLeaf
	} else {
		r, rc, rp = g.num(t, d-1, posOperand)
	}
	if lc && rc {
		// Go folds (and range-checks) constant expressions; keep one side variable
		s, ok := g.nonConstLeaf(t)
		if !ok {
			return g.numLeaf(t, true, pos)
		}
		l, lc, lp = s, false, precLeaf
	}
	if lp < prec || g.chance(25) && lp != precLeaf {
		l = "(" + l + ")"
	}
	if rp <= prec || g.chance(25) && rp != precLeaf {
		r = "(" + r + ")"
	}
	g.feat("arith:" + op + ":" + t.name())
	return l + " " + op + " " + r, false, prec
}

// safeDivisor returns a divisor that is never zero: a non-zero literal or a
// read-only variable with a known non-zero value.
func (g *gen) safeDivisor(t *typ) (string, bool) {
	if g.chance(30) {
		vs := g.visible(func(v *vr) bool { return sameType(v.t, t) && v.ro && v.known && v.val != 0 })
		if len(vs) > 0 {
			v := vs[g.pick(len(vs))]
			v.used = true
			g.feat("div-by-var")
			return v.name, false
		}
	}
	if t.isFloat() {
		ds := []float64{2, 4, 0.5, 8, -2, 0.25}
		return g.floatText(t, ds[g.pick(len(ds))], posOperand), true
	}
	v := int64(1 + g.pick(9))
	if t.isSigned() && g.chance(20) {
		v = -v
	}
	return g.intText(t, v, posOperand), true
}

// conversion returns T(e) with e a non-constant expression of another numeric type.
func (g *gen) conversion(t *typ, d int) (string, bool) {
	for try := 0; try < 4; try++ {
		from := scalars[numericKinds[g.pick(len(numericKinds))]]
		if from.k == t.k {
			continue
		}
		if from.isFloat() && t.isInt() {
			// only a known small value: out-of-range float->int conversion is implementation-defined in Go
			vs := g.visible(func(v *vr) bool { return sameType(v.t, from) && v.ro && v.known })
			if len(vs) == 0 {
				continue
			}
			if t.k >= kUint && t.k <= kUint64 && vs[0].val < 0 {
				continue
			}
			if g.avoided("conv:" + from.name() + ":" + t.name()) {
				continue
			}
			vs[0].used = true
			g.feat("conv:float-int")
			return t.name() + "(" + vs[0].name + ")", true
		}
		if g.avoided("conv:" + from.name() + ":" + t.name()) {
			continue
		}
		s, c, _ := g.num(from, d-1, posOperand)
		if c {
			var ok bool
			s, ok = g.nonConstLeaf(from)
			if !ok {
				continue
			}
		}
		switch {
		case from.isInt() && t.isInt():
			g.feat("conv:int-int")
		case from.isInt():
			g.feat("conv:int-float")
		default:
			g.feat("conv:float-float")
		}
		return t.name() + "(" + s + ")", true
	}
	return "", false
}

func (g *gen) numLeaf(t *typ, allowLit bool, pos litPos) (string, bool, int) {
	if !allowLit || g.chance(62) {
		if s, ok := g.nonConstLeaf(t); ok {
			return s, false, precLeaf
		}
	}
	if t.isInt() && len(g.consts) > 0 && g.chance(15) && !g.o.Strict {
		var cs []*vr
		for _, c := range g.consts {
			if c.t.k == kInt {
				cs = append(cs, c)
			}
		}
		// a named constant is only used where its own kind (int) is wanted: Ego documents
		// the adaptation of constant literals, not of named constants
		if len(cs) > 0 && t.k == kInt {
			g.feat("const-use")
			return cs[g.pick(len(cs))].name, true, precLeaf
		}
	}
	return g.lit(t, pos), true, precLeaf
}

// nonConstLeaf returns a non-constant operand of scalar type t, if one can be named here.
func (g *gen) nonConstLeaf(t *typ) (string, bool) {
	if t.k == kString && g.strSafe > 0 {
		vs := g.visible(func(v *vr) bool { return v.t.k == kString && v.ro })
		if len(vs) > 0 {
			v := vs[g.pick(len(vs))]
			v.used = true
			return v.name, true
		}
		return "", false
	}
	order := g.r.Perm(8)
	for _, c := range order {
		switch c {
		case 0, 1: // variable (twice as likely to be tried first)
			vs := g.visible(func(v *vr) bool { return sameType(v.t, t) })
			if len(vs) > 0 {
				v := vs[g.pick(len(vs))]
				v.used = true
				return v.name, true
			}
		case 2: // struct field
			vs := g.visible(func(v *vr) bool { return v.t.k == kStruct && len(scalarFields(v.t.sd, t, "", 0)) > 0 })
			if len(vs) > 0 {
				v := vs[g.pick(len(vs))]
				fs := scalarFields(v.t.sd, t, "", 0)
				v.used = true
				g.feat("field-read")
				return v.name + fs[g.pick(len(fs))].name, true
			}
		case 3: // slice element
			if s, ok := g.elemRef(t, false); ok {
				g.feat("index-read")
				return s, true
			}
		case 4: // map element with a key that is present
			vs := g.visible(func(v *vr) bool { return v.t.k == kMap && sameType(v.t.elem, t) && len(v.keys) > 0 })
			if len(vs) > 0 {
				v := vs[g.pick(len(vs))]
				v.used = true
				g.feat("map-read-present")
				return v.name + "[" + v.keys[g.pick(len(v.keys))] + "]", true
			}
		case 5: // call
			if s, ok := g.callExpr(t); ok {
				return s, true
			}
		case 6: // len
			if t.k == kInt {
				vs := g.visible(func(v *vr) bool { return v.t.k == kSlice || v.t.k == kMap || v.t.k == kString })
				if len(vs) > 0 {
					v := vs[g.pick(len(vs))]
					v.used = true
					g.feat("len")
					return "len(" + v.name + ")", true
				}
			}
		}
	}
	return "", false
}

// elemRef names an element of a visible slice with element type t using an
// index that is in range by construction.
func (g *gen) elemRef(t *typ, forStore bool) (string, bool) {
	vs := g.visible(func(v *vr) bool { return v.t.k == kSlice && sameType(v.t.elem, t) })
	if len(vs) == 0 {
		return "", false
	}
	v := vs[g.pick(len(vs))]
	// an index variable known to be within this slice
	idx := g.visible(func(i *vr) bool {
		return i.t.k == kInt && i.ro && (i.idxFor == v || (i.max >= 0 && i.min >= 0 && int(i.max) < v.minLen))
	})
	if len(idx) > 0 && g.chance(60) {
		i := idx[g.pick(len(idx))]
		i.used, v.used = true, true
		return v.name + "[" + i.name + "]", true
	}
	if v.minLen > 0 {
		v.used = true
		return v.name + "[" + itoa(g.pick(v.minLen)) + "]", true
	}
	return "", false
}

// callExpr returns a call of a pure function / method / closure whose single result has type t.
func (g *gen) callExpr(t *typ) (string, bool) {
	if g.inExprCall > 1 || g.noCalls > 0 {
		return "", false
	}
	g.inExprCall++
	defer func() { g.inExprCall-- }()
	order := g.r.Perm(3)
	for _, c := range order {
		switch c {
		case 0:
			var fs []*fn
			for _, f := range g.funcs {
				if f.pure && len(f.results) == 1 && sameType(f.results[0], t) && g.callable(f) {
					fs = append(fs, f)
				}
			}
			if len(fs) > 0 {
				f := fs[g.pick(len(fs))]
				if s, ok := g.callText(f, pfx+f.name); ok {
					g.feat("call-in-expr")
					return s, true
				}
			}
		case 1:
			vs := g.visible(func(v *vr) bool {
				if v.t.k != kStruct {
					return false
				}
				for _, m := range v.t.sd.methods {
					if m.pure && len(m.results) == 1 && sameType(m.results[0], t) {
						return true
					}
				}
				return false
			})
			if len(vs) > 0 {
				v := vs[g.pick(len(vs))]
				var ms []*fn
				for _, m := range v.t.sd.methods {
					if m.pure && len(m.results) == 1 && sameType(m.results[0], t) {
						ms = append(ms, m)
					}
				}
				m := ms[g.pick(len(ms))]
				if s, ok := g.callText(m, v.name+"."+m.name); ok {
					v.used = true
					g.feat("method-call-in-expr")
					return s, true
				}
			}
		case 2:
			vs := g.visible(func(v *vr) bool {
				return v.t.k == kFunc && v.t.sig.pure && len(v.t.sig.results) == 1 && sameType(v.t.sig.results[0], t)
			})
			if len(vs) > 0 {
				v := vs[g.pick(len(vs))]
				if s, ok := g.callText(v.t.sig, v.name); ok {
					v.used = true
					g.feat("closure-call-in-expr")
					return s, true
				}
			}
		}
	}
	return "", false
}

// callable says whether f may be called from the current context.
func (g *gen) callable(f *fn) bool {
	if g.fc != nil && g.fc.f == f {
		return false
	}
	if f.panics && g.noPanicCalls > 0 {
		return false
	}
	if f.panics {
		// a panicking callee: inside a recovering function, or rarely elsewhere (then the program may abort; Go decides)
		if g.fc != nil && g.fc.named != nil {
			return true
		}
		return g.chance(10)
	}
	return true
}

// callText renders callee(args) and pays for it.
func (g *gen) callText(f *fn, callee string) (string, bool) {
	if f.rangeRet && g.avoided("return:in-range-loop") {
		// known-bad shape (optimizer level 2): a callee that returns from inside a range loop, called from
		// inside a range loop of the caller. Everywhere else such callees are called freely.
		for _, c := range g.fc.ctl {
			if c.kind == cxLoop && c.isRange {
				return "", false
			}
		}
		if g.rangeDepth > 0 {
			return "", false
		}
	}
	if !g.spend(f.cost) {
		return "", false
	}
	if f.rangeRet {
		g.fc.rangeRet = true
	}
	if f.panics && g.fc != nil {
		g.fc.panics = true
	}
	var args []string
	argPos := posArg
	if f.recv != nil {
		argPos = posMethodArg
	}
	for i, p := range f.params {
		switch {
		case f.recursive && i == 0:
			args = append(args, itoa(g.pick(6)))
		case f.variadic && i == len(f.params)-1:
			if g.chance(30) {
				vs := g.visible(func(v *vr) bool { return sameType(v.t, p.t) && !v.noArg })
				if len(vs) > 0 {
					vs[0].used = true
					args = append(args, vs[0].name+"...")
					g.feat("variadic-spread")
					continue
				}
			}
			n := g.pick(4)
			vpos := argPos
			if g.avoided("variadic-arg-const") {
				vpos = posPlain // an untyped constant is not adapted to the element type of a variadic parameter
			}
			for j := 0; j < n; j++ {
				args = append(args, g.exprPos(p.t.elem, 1, vpos))
			}
		default:
			args = append(args, g.exprPos(p.t, 1, argPos))
		}
	}
	return callee + "(" + strings.Join(args, ", ") + ")", true
}

// ---------------------------------------------------------------- bool

func (g *gen) boolExpr(d int) string {
	s, _ := g.boolE(d)
	return s
}

func (g *gen) boolE(d int) (string, int) {
	if d > 0 {
		switch n := g.pick(100); {
		case n < 18:
			l, lp := g.boolE(d - 1)
			r, rp := g.boolE(d - 1)
			if lp < precAnd {
				l = "(" + l + ")"
			}
			if rp <= precAnd {
				r = "(" + r + ")"
			}
			g.feat("logic:&&")
			return l + " && " + r, precAnd
		case n < 32:
			l, lp := g.boolE(d - 1)
			r, rp := g.boolE(d - 1)
			if lp < precOr {
				l = "(" + l + ")"
			}
			if rp <= precOr {
				r = "(" + r + ")"
			}
			g.feat("logic:||")
			return l + " || " + r, precOr
		case n < 42:
			s, _ := g.boolE(d - 1)
			g.feat("logic:!")
			return "!(" + s + ")", precLeaf
		}
	}
	switch n := g.pick(100); {
	case n < 12:
		vs := g.visible(func(v *vr) bool { return v.t.k == kBool })
		if len(vs) > 0 {
			v := vs[g.pick(len(vs))]
			v.used = true
			return v.name, precLeaf
		}
	case n < 18:
		if s, ok := g.nonConstLeaf(scalars[kBool]); ok {
			return s, precLeaf
		}
	case n < 30:
		// string comparison
		l, lc := g.strExpr(0)
		r, rc := g.strExpr(0)
		if lc && rc {
			if s, ok := g.nonConstLeaf(scalars[kString]); ok {
				l = s
			}
		}
		op := []string{"==", "!=", "<", "<=", ">", ">="}[g.pick(6)]
		g.feat("cmp:string")
		return l + " " + op + " " + r, precCmp
	}
	// numeric comparison: prefer a type that has a variable in scope
	t := g.numericType()
	if vs := g.visible(func(v *vr) bool { return v.t.isNumeric() }); len(vs) > 0 && g.chance(75) {
		t = vs[g.pick(len(vs))].t
	}
	dd := d
	if dd > 1 {
		dd = 1
	}
	l, lc, lp := g.num(t, dd, posOperand)
	r, rc, rp := g.num(t, dd, posOperand)
	if lc && rc {
		if s, ok := g.nonConstLeaf(t); ok {
			l, lp = s, precLeaf
		} else {
			// two literals: compare typed values so that both languages see the same operands
			l, r = g.lit(t, posPlain), g.lit(t, posPlain)
			lp, rp = precLeaf, precLeaf
		}
	}
	if lp <= precCmp {
		l = "(" + l + ")"
	}
	if rp <= precCmp {
		r = "(" + r + ")"
	}
	op := []string{"==", "!=", "<", "<=", ">", ">="}[g.pick(6)]
	g.feat("cmp:" + t.name())
	return l + " " + op + " " + r, precCmp
}

// ---------------------------------------------------------------- string

func (g *gen) strExpr(d int) (string, bool) {
	if d > 0 && g.chance(40) {
		l, lc := g.strExpr(d - 1)
		r, rc := g.strExpr(d - 1)
		g.feat("concat")
		return l + " + " + r, lc && rc
	}
	if g.chance(65) {
		if s, ok := g.nonConstLeaf(scalars[kString]); ok {
			return s, false
		}
	}
	if len(g.consts) > 0 && g.chance(15) {
		for _, c := range g.consts {
			if c.t.k == kString {
				g.feat("const-use")
				return c.name, true
			}
		}
	}
	return g.strLit(), true
}

// ---------------------------------------------------------------- composites

func (g *gen) structLit(sd *structDef, d int) string {
	g.feat("struct-literal")
	var parts []string
	for _, f := range sd.fields {
		if g.chance(15) {
			continue // zero value
		}
		var e string
		if f.t.k == kStruct {
			e = g.structLit(f.t.sd, d-1)
		} else {
			e = g.expr(f.t, d-1)
		}
		parts = append(parts, f.name+": "+e)
	}
	if g.o.Comments && len(parts) > 1 && g.chance(30) {
		// multi-line literal with a comment inside
		ind := strings.Repeat("\t", g.ind+1)
		s := pfx + sd.name + "{\n"
		for i, p := range parts {
			s += ind + p + ","
			if i == 0 {
				s += " " + g.comment("in-literal")
			}
			s += "\n"
		}
		return s + strings.Repeat("\t", g.ind) + "}"
	}
	return pfx + sd.name + "{" + strings.Join(parts, ", ") + "}"
}

func (g *gen) structExpr(t *typ, d int) string {
	// known finding struct-alias:store-into-collection: a struct VARIABLE stored into a slice (literal,
	// append) is not copied; while it is listed, collection elements are written as struct literals
	if g.chance(60) && !(g.inCollection > 0 && g.avoided("struct-alias:store-into-collection")) {
		vs := g.visible(func(v *vr) bool { return sameType(v.t, t) })
		if len(vs) > 0 {
			v := vs[g.pick(len(vs))]
			v.used = true
			return v.name
		}
	}
	return g.structLit(t.sd, d)
}

func (g *gen) sliceLit(t *typ, n int) string {
	g.feat("slice-literal")
	var parts []string
	g.inCollection++
	for i := 0; i < n; i++ {
		parts = append(parts, g.expr(t.elem, 1))
	}
	g.inCollection--
	return "[]" + t.elem.name() + "{" + strings.Join(parts, ", ") + "}"
}

func (g *gen) sliceExpr(t *typ, d int) string {
	if g.chance(70) {
		vs := g.visible(func(v *vr) bool { return sameType(v.t, t) && !v.noArg })
		if len(vs) > 0 {
			v := vs[g.pick(len(vs))]
			v.used = true
			return v.name
		}
	}
	return g.sliceLit(t, g.pick(4))
}

var strKeys = []string{`"a"`, `"b"`, `"c"`, `"d"`, `"e"`}
var intKeys = []string{"1", "2", "3", "5", "8"}

func keyPool(t *typ) []string {
	if t.key.k == kString {
		return strKeys
	}
	return intKeys
}

// mapLit returns a literal and the keys it contains.
func (g *gen) mapLit(t *typ) (string, []string) {
	g.feat("map-literal")
	if g.avoided("maplit:int:above-int32") {
		g.smallLits++
		defer func() { g.smallLits-- }()
	}
	pool := keyPool(t)
	n := g.pick(4)
	perm := g.r.Perm(len(pool))
	var parts, keys []string
	for i := 0; i < n; i++ {
		k := pool[perm[i]]
		keys = append(keys, k)
		parts = append(parts, k+": "+g.expr(t.elem, 1))
	}
	return t.name() + "{" + strings.Join(parts, ", ") + "}", keys
}

func (g *gen) mapExpr(t *typ) string {
	if g.chance(75) {
		vs := g.visible(func(v *vr) bool { return sameType(v.t, t) })
		if len(vs) > 0 {
			v := vs[g.pick(len(vs))]
			v.used = true
			return v.name
		}
	}
	s, _ := g.mapLit(t)
	return s
}
