package cells

// C03, family "named": the constant operand is a NAMED constant declared at file
// scope (untyped `const K = 100`, `const K = 2.5`; typed `const K int = 100`, ...), and
// every expression site is executed repeatedly: three iterations of a loop and three
// calls of a function containing the same site. Three ways the constant reaches the
// operator: folded at compile time (the default), loaded by name because a parameter of
// the same name in an EARLIER function disables folding for that name, loaded by name
// because ego.compiler.constfold is off.
//
// Oracle: an untyped named constant behaves like the literal of the same value
// (constRule); a typed constant behaves like a typed variable (same kind: Go's result in
// that kind; other kind: promoted in dynamic/relaxed, rejected in strict). All six
// executions of a site must print the same line.

import (
	"fmt"
	"strings"
)

type kdecl struct {
	name    string // coordinate
	untyped bool
	kind    string // typed: the declared kind ("" = the variable's own kind); untyped: the default kind of the literal
	text    string // the literal on the right-hand side
	k       kconst // value as an untyped constant
}

var kdecls = []kdecl{
	{"untyped-int", true, "int", "100", kconst{"100", int64(100)}},
	{"untyped-float", true, "float64", "2.5", kconst{"2.5", 2.5}},
	{"typed-same", false, "", "100", kconst{"100", int64(100)}},
	{"typed-int", false, "int", "100", kconst{"100", int64(100)}},
	{"typed-float64", false, "float64", "2.5", kconst{"2.5", 2.5}},
}

type namedForm struct {
	name string
	op   string
	side string // "R": a op K, "L": K op a, "S": statement on x
	site func(k string) []string
}

func namedForms() []namedForm {
	var out []namedForm

	for _, op := range binOps {
		o := op
		out = append(out, namedForm{opNames[o] + "-R", o, "R", func(k string) []string {
			return []string{fmt.Sprintf("r := a %s %s", o, k), printStmt("r")}
		}})
	}

	for _, op := range []string{"-", "/"} {
		o := op
		out = append(out, namedForm{opNames[o] + "-L", o, "L", func(k string) []string {
			return []string{fmt.Sprintf("r := %s %s a", k, o), printStmt("r")}
		}})
	}

	for _, f := range []struct{ name, op, stmt string }{
		{"add-assign", "+", "x += %s"}, {"assign-add", "+", "x = x + %s"}, {"mul-assign", "*", "x *= %s"}, {"assign-div", "/", "x = x / %s"},
	} {
		ff := f
		out = append(out, namedForm{ff.name, ff.op, "S", func(k string) []string {
			return []string{"x := a", fmt.Sprintf(ff.stmt, k), printStmt("x")}
		}})
	}

	return out
}

const namedRuns = 6 // three loop iterations + three calls

// typedModelMatches: the observed outcome is exactly what a TYPED variable of the
// literal's default kind would give (two-typed-kinds rule). Used to name the one
// known way an untyped named constant deviates, so that any other deviation keeps its
// coordinate key.
func typedModelMatches(o outcome, mode string, f namedForm, t numType, a any, d kdecl) bool {
	if t.name == d.kind {
		return false
	}

	dk, _ := typeByName(d.kind)
	kv, _ := conv(d.k.v, d.kind)
	res := o.lines[1:]

	if mode == "strict" {
		return o.err != "" && len(res) == 0
	}

	if f.op == "%" && dk.class >= kFloat {
		// a typed float operand makes it a float remainder, which the interpreter refuses (outside the table)
		return o.err != "" && len(res) == 0
	}

	if o.err != "" || len(res) != namedRuns {
		return false
	}

	for _, line := range res {
		if f.side != "S" || mode == "dynamic" {
			x, y, tx, ty := a, kv, t, dk
			if f.side == "L" {
				x, y, tx, ty = kv, a, dk, t
			}

			if _, bad := promoted("", "", line, f.op, tx, ty, x, y); bad != nil {
				return false
			}

			continue
		}

		// relaxed statement: the variable keeps its kind, the value is the promoted result converted back
		ok := false

		for _, r := range []string{t.name, dk.name} {
			ca, ok1 := conv(a, r)
			cb, ok2 := conv(kv, r)

			if !ok1 || !ok2 {
				continue
			}

			if w, okw := arith(f.op, ca, cb); okw {
				cw, okc := convWrap(w, t.name)
				if okc && show(cw) == line {
					ok = true
				}

				if lt, _ := splitTV(line); !okc && lt == t.name {
					ok = true // the conversion back is undefined in Go (float far outside the integer range): any value of the kind is the typed model's
				}
			}
		}

		if !ok {
			return false
		}
	}

	return true
}

func famNamed(mode string, vals map[string][]nval) []*cell {
	var out []*cell

	forms := namedForms()

	for _, d := range kdecls {
		for _, t := range numTypes {
			if !d.untyped && d.kind == t.name {
				continue // identical to typed-same
			}

			a := pick(vals[t.name], "mid")[0]
			declKind := d.kind

			if !d.untyped && d.kind == "" {
				declKind = t.name
			}

			for _, f := range forms {
				otherKind := !d.untyped && declKind != t.name

				if otherKind && f.side == "S" {
					continue // the statement forms against another kind are the stmtMixed family's subject
				}

				if otherKind && mode == "strict" && !(f.side == "R" && (f.op == "+" || f.op == "*")) {
					continue // strict rejection depends on the kinds only
				}

				// ---- the oracle for this (declaration, kind, form, mode)
				var (
					end  = endOK
					want string
					typd any // typed constant's value
				)

				switch {
				case d.untyped:
					kv, e, defined := constRule(mode, t, d.k)
					if !defined {
						continue
					}

					end = e

					var (
						w  any
						ok bool
					)

					if f.side == "L" {
						w, ok = arith(f.op, kv, a.v)
					} else {
						w, ok = arith(f.op, a.v, kv)
					}

					if !ok {
						continue
					}

					want = show(w)

				case !otherKind:
					kv, _ := conv(d.k.v, t.name)

					var (
						w  any
						ok bool
					)

					if f.side == "L" {
						w, ok = arith(f.op, kv, a.v)
					} else {
						w, ok = arith(f.op, a.v, kv)
					}

					if !ok {
						continue
					}

					want = show(w)

				default:
					if f.op == "%" && (t.class >= kFloat || declKind == "float64") {
						continue
					}

					typd, _ = conv(d.k.v, declKind)

					if mode == "strict" {
						end = endReject
					}
				}

				for _, variant := range []string{"fold", "shadow", "nofold"} {
					group := fmt.Sprintf("named:%s:%s:%s:%s", d.name, variant, f.name, t.name)
					id := group + "/" + mode

					if dropped(id) {
						continue
					}

					constLine := fmt.Sprintf("const K@N@ = %s", d.text)
					if !d.untyped {
						constLine = fmt.Sprintf("const K@N@ %s = %s", declKind, d.text)
					}

					pre := []string{constLine}

					if variant == "shadow" {
						// a parameter of the same name in an earlier function: the compiler may no longer fold the name
						pre = append(pre, "func e@N@(K@N@ int) int {", "\treturn K@N@ + 1", "}")
					}

					pre = append(pre, fmt.Sprintf("func s@N@(a %s) {", t.name))
					for _, l := range f.site("K@N@") {
						pre = append(pre, "\t"+l)
					}

					pre = append(pre, "}")

					body := append(declare("a", a.v), printStmt("a"), "for i := 0; i < 3; i++ {")
					for _, l := range f.site("K@N@") {
						body = append(body, "\t"+l)
					}

					body = append(body, "}", "for j := 0; j < 3; j++ {", "\ts@N@(a)", "}")

					what := fmt.Sprintf("%s; a=%s(%v); %s x%d [%s, %s]", strings.ReplaceAll(constLine, "@N@", ""), t.name, a.v, strings.Join(f.site("K"), "; "), namedRuns, variant, mode)
					dd, ff, tt, av, endc, wantc, typdc, otherc, modec := d, f, t, a, end, want, typd, otherKind, mode
					dkT, _ := typeByName(declKind)

					out = append(out, &cell{
						id: id, fam: "named", group: group, mode: mode, pre: pre, body: body, cfold: variant != "nofold",
						solo: end != endOK,
						eval: func(o outcome) []finding {
							if o.panic != "" {
								return []finding{{Base: "panic:" + group, Desc: what + ": Go panic inside the interpreter", Expected: "no panic", Observed: firstLine(o.panic)}}
							}

							if f := setupCheck(o, []opnd{{tt, av.cls, av.v}}, what); f != nil {
								return []finding{*f}
							}

							res := o.lines[1:]

							var fs []finding

							// (2) repeated execution: the three executions of the loop site print one line, the three calls
							// of the function site print one line, and a site that ran once runs every time. (Whether the two
							// sites print the SAME line is the oracle's matter below: they are two compilations of one text.)
							iterBase := "named-iter:" + dd.name + ":" + ff.name + ":" + tt.name

							for _, site := range [][2]int{{0, 3}, {3, 6}} {
								for i := site[0] + 1; i < site[1] && i < len(res); i++ {
									if res[i] != res[site[0]] {
										fs = append(fs, finding{Base: iterBase, Desc: what + ": executions of one expression site disagree",
											Expected: "3 equal lines per site", Observed: strings.Join(res, " / ")})

										break
									}
								}
							}

							if len(fs) == 0 && len(res) > 0 && len(res) != namedRuns && len(res) != 3 {
								fs = append(fs, finding{Base: iterBase, Desc: what + ": the site succeeded on some executions and failed on a later one",
									Expected: "3 equal lines per site", Observed: strings.Join(res, " / ") + errSuffix(o)})
							}

							// (1) the oracle
							base := group

							fail := func(desc, exp, obs string) {
								if dd.untyped && typedModelMatches(o, modec, ff, tt, av.v, dd) {
									base = "named:untyped:behaves-as-typed-" + dd.kind
									desc += " (it behaves exactly like a typed " + dd.kind + " variable)"
								}

								fs = append(fs, finding{Base: base, Desc: what + ": " + desc, Expected: exp, Observed: obs})
							}

							switch {
							case otherc && modec != "strict":
								if o.err != "" || len(res) == 0 {
									fail("failed, the document prescribes promotion in this mode", "a value", strings.Join(res, " / ")+errSuffix(o))

									break
								}

								x, y, tx, ty := av.v, typdc, tt, dkT
								if ff.side == "L" {
									x, y, tx, ty = typdc, av.v, dkT, tt
								}

								if len(res) != namedRuns {
									fail("some executions of the site did not print", fmt.Sprint(namedRuns, " lines"), strings.Join(res, " / ")+errSuffix(o))

									break
								}

								for _, l := range res {
									if _, bad := promoted(group, what, l, ff.op, tx, ty, x, y); bad != nil {
										fs = append(fs, *bad)

										break
									}
								}

							case endc == endReject:
								if o.err == "" {
									fail("accepted, the document prescribes rejection in this mode", "an error", strings.Join(res, " / "))
								}

							case o.err != "":
								if endc == endOK {
									fail("failed, the document prescribes a value", wantc, strings.Join(res, " / ")+errSuffix(o))
								}

							default:
								bad := len(res) != namedRuns
								for _, l := range res {
									if l != wantc {
										bad = true
									}
								}

								if bad {
									fail("wrong type or value (loop site x3 / function site x3)", wantc, strings.Join(res, " / "))
								}
							}

							return fs
						},
					})
				}
			}
		}
	}

	return out
}

// convWrap is conv, except that a floating value outside the integer kind's range is
// truncated and then wrapped (the document: "an integer conversion that overflows the
// target width silently wraps") instead of being left undefined.
func convWrap(v any, to string) (any, bool) {
	if r, ok := conv(v, to); ok {
		return r, true
	}

	p, ok := decompose(v)
	if !ok || !p.flt || p.f != p.f || p.f > 9e18 || p.f < -9e18 {
		return nil, false
	}

	return conv(int64(p.f), to)
}
