package cells

// C03, family "retyped": the SAME statement site (x += k, x = x + k, x -= k with a
// literal k whose adaptation is lossy for some kinds) is executed several times while
// the variable x is re-bound to a value of another numeric kind in between (dynamic
// typing: storing a value of a different type changes the variable's type). The site
// lives in a helper function step() that is called with x of kind T1, then T2, then T1
// again. x is name-addressed: a file-scope global, or a local of a function that holds
// the closure step. Oracle, per call: what the reference prescribes for x's type AT
// THAT TIME, i.e. the constant adapts to the current kind (lossy allowed in dynamic
// mode) and the result is Go's arithmetic in that kind — the same as a fresh r = x + k.

import (
	"fmt"
	"strings"
)

// retypedValue: a value of the kind that every literal below can be combined with,
// and the Ego expression producing exactly that typed value.
func retypedValue(t numType) (any, string) {
	switch t.class {
	case kSigned, kUnsigned:
		v, _ := conv(int64(57), t.name)

		return v, fmt.Sprintf("%s(57)", t.name)
	case kFloat:
		v, _ := conv(1234.5, t.name)

		return v, fmt.Sprintf("%s(1234.5)", t.name)
	default:
		if t.bits == 32 {
			return complex64(complex(2.5, -1.5)), "complex(float32(2.5), float32(-1.5))"
		}

		return complex(2.5, -1.5), "complex(2.5, -1.5)"
	}
}

func famRetyped() []*cell {
	var out []*cell

	const mode = "dynamic" // only dynamic typing lets an assignment change a variable's type

	lits := []kconst{{"2.5", 2.5}, {"300", int64(300)}}
	forms := []struct{ name, op, stmt string }{
		{"add-assign", "+", "%s += %s"}, {"assign-add", "+", "%s = %s + %s"}, {"sub-assign", "-", "%s -= %s"},
	}

	for _, t1 := range numTypes {
		for _, t2 := range numTypes {
			if t1.name == t2.name {
				continue
			}

			v1, e1 := retypedValue(t1)
			v2, e2 := retypedValue(t2)

			for _, f := range forms {
				for _, k := range lits {
					for _, variant := range []string{"global", "closure"} {
						group := fmt.Sprintf("retyped:%s:%s:%s:%s", variant, f.name, t1.name, t2.name)
						id := fmt.Sprintf("%s/k%s/%s", group, k.text, mode)

						if dropped(id) {
							continue
						}

						// per-call oracle
						var want []string

						okAll := true

						for _, st := range []struct {
							t numType
							v any
						}{{t1, v1}, {t2, v2}, {t1, v1}} {
							kv, _, defined := constRule(mode, st.t, k)
							if !defined {
								okAll = false

								break
							}

							r, ok := arith(f.op, st.v, kv)
							if !ok {
								okAll = false

								break
							}

							want = append(want, show(st.v), show(r))
						}

						if !okAll {
							continue
						}

						x := "x@N@"
						site := fmt.Sprintf(f.stmt, x, k.text)

						if strings.Count(f.stmt, "%s") == 3 {
							site = fmt.Sprintf(f.stmt, x, x, k.text)
						}

						var pre, body []string

						seq := []string{
							x + " = " + e1, printStmt(x), "step@N@()", printStmt(x),
							x + " = " + e2, printStmt(x), "step@N@()", printStmt(x),
							x + " = " + e1, printStmt(x), "step@N@()", printStmt(x),
						}

						if variant == "global" {
							pre = []string{"var " + x + " = 0", "func step@N@() {", "\t" + site, "}"}
							body = seq
						} else {
							// a local of a function that holds a closure is addressed by name, not by slot
							body = append([]string{"var " + x + " = 0", "step@N@ := func() {", "\t" + site, "}"}, seq...)
						}

						what := fmt.Sprintf("x=%s; step(); x=%s; step(); x=%s; step() with step: %s [%s]", e1, e2, e1, strings.ReplaceAll(site, "@N@", ""), variant)
						wantc := want

						out = append(out, &cell{
							id: id, fam: "retyped", group: group, mode: mode, pre: pre, body: body, cfold: true,
							eval: func(o outcome) []finding {
								if o.panic != "" {
									return []finding{{Base: "panic:" + group, Desc: what + ": Go panic inside the interpreter", Expected: "no panic", Observed: firstLine(o.panic)}}
								}

								for i, w := range wantc {
									got := "(nothing)"
									if i < len(o.lines) {
										got = o.lines[i]
									}

									if got == w {
										continue
									}

									if i%2 == 0 {
										return []finding{{Base: "setup:retyped:" + strings.Fields(w)[0], Desc: what + ": re-binding x did not produce the intended typed value", Expected: w, Observed: strings.Join(o.lines, " / ") + errSuffix(o)}}
									}

									return []finding{{Base: group, Desc: fmt.Sprintf("%s: call %d of the site gives a result that is not the one prescribed for x's type at that time", what, i/2+1),
										Expected: strings.Join(wantc, " / "), Observed: strings.Join(o.lines, " / ") + errSuffix(o)}}
								}

								if o.err != "" {
									return []finding{{Base: group, Desc: what + ": failed", Expected: strings.Join(wantc, " / "), Observed: strings.Join(o.lines, " / ") + errSuffix(o)}}
								}

								return nil
							},
						})
					}
				}
			}
		}
	}

	return out
}
