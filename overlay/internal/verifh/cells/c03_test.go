package cells

// C03 — Arithmetic follows the documented typing rules.
//
// Events: for every enumerated cell (operand type x operator x operand source x value
// class x type mode x optimizer level) the printed `%T %v` of the operands and of the
// result of one tiny Ego program, or the fact that the program was rejected.
// Oracle: executable transcription of docs/LANGUAGE.md "Type Conversions" (num_test.go,
// c03_table_test.go): same type -> Go's wrapping result; untyped constant adapts to the
// variable's type (strict: only losslessly); two typed kinds -> rejected in strict,
// promoted in dynamic/relaxed (one of the two operand types, the same one both ways, the
// lossless one when only one choice is lossless, value = Go's computation in that type);
// x++ / x += 1 / x = x + 1 agree in value and %T; unary minus on signed/floating types.
//
// The interpreter's settings are process-global, so the table is split over worker
// processes (this same test binary, TestC03Worker); each worker runs its share of the
// cells sequentially, evaluates them and returns compact records to the parent.

import (
	"encoding/json"
	"fmt"
	"hash/fnv"
	"os"
	"os/exec"
	"path/filepath"
	"runtime"
	"sort"
	"strings"
	"sync"
	"testing"

	"github.com/tucats/ego/internal/verifh/egorun"
	"github.com/tucats/ego/internal/verifh/vh"
)

func hash32(s string) uint32 {
	h := fnv.New32a()
	h.Write([]byte(s))

	return h.Sum32()
}

type c03Case struct {
	Cell    string `json:"cell"`
	Mode    string `json:"mode"`
	Opt     int    `json:"opt"`
	GC      bool   `json:"gc"`
	Seed    int64  `json:"seed"`
	Program string `json:"program"`
}

// cellRec is what a worker reports for one (cell, level).
type cellRec struct {
	ID       string    `json:"id"`
	Opt      int       `json:"opt"`
	GC       bool      `json:"gc"`
	Runs     int       `json:"runs,omitempty"` // named family: how many executions of the site printed a line
	Err      string    `json:"err,omitempty"`
	Sig      string    `json:"sig,omitempty"` // outcome signature after the set-up line (agreement groups only)
	RT       string    `json:"rt,omitempty"`  // result type of a mixed-kind expression
	Findings []finding `json:"findings,omitempty"`
	Program  string    `json:"program,omitempty"` // only with findings
	Lines    []string  `json:"lines,omitempty"`   // only for sampled cells
}

type workerOut struct {
	Recs  []cellRec `json:"recs"`
	Progs int64     `json:"programs"`
	Solo  int64     `json:"solo"`
	Break int64     `json:"breaks"`
}

// c03Configs lists the configurations a cell runs in. The classic families (literal
// and variable operands) do not depend on the global-reference cache: they run with
// it off at every optimizer level of the tier. The named-constant family runs with the
// cache on (the default) and off, at optimizer 0 and 3 (quick) or 0-3 (thorough);
// level 3 turns cache and constant folding on by definition, so there is no
// "off" variant of it, and the fold-disabled variant does not exist at level 3.
func c03Configs(c *cell) []runCfg {
	thorough := vh.Tier() == "thorough"

	if c.fam == "named" {
		cfgs := []runCfg{{0, true}, {0, false}}
		if thorough {
			cfgs = append(cfgs, runCfg{1, true}, runCfg{1, false}, runCfg{2, true}, runCfg{2, false})
		}

		if c.cfold {
			cfgs = append(cfgs, runCfg{3, true})
		}

		return cfgs
	}

	if c.fam == "retyped" {
		// optimizer 0 and 2 (2 fuses x += k into the Increment opcode for name-addressed variables), cache on and off
		cfgs := []runCfg{{0, true}, {0, false}, {2, true}, {2, false}}
		if thorough {
			cfgs = append(cfgs, runCfg{1, true}, runCfg{1, false}, runCfg{3, true})
		}

		return cfgs
	}

	if thorough {
		return []runCfg{{0, false}, {1, false}, {2, false}, {3, false}}
	}

	if c.fam == "stmt1" || hash32(c.group)%10 == 0 {
		return []runCfg{{0, false}, {2, false}}
	}

	return []runCfg{{0, false}}
}

// isBase: the configuration against which "fails only under configuration X" is judged.
func isBase(c *cell, rc runCfg) bool {
	return rc.Opt == 0 && rc.GC == (c.fam == "named" || c.fam == "retyped")
}

func cfgTag(c *cell, rc runCfg) string {
	t := fmt.Sprintf("o%d", rc.Opt)
	if (c.fam == "named" || c.fam == "retyped") && !rc.GC && rc.Opt < 3 {
		t += "-nocache"
	}

	return t
}

func allConfigs(table []*cell) []runCfg {
	seen := map[runCfg]bool{}

	var out []runCfg

	for _, c := range table {
		for _, rc := range c03Configs(c) {
			if !seen[rc] {
				seen[rc] = true
				out = append(out, rc)
			}
		}
	}

	sort.Slice(out, func(i, j int) bool {
		if out[i].Opt != out[j].Opt {
			return out[i].Opt < out[j].Opt
		}

		return !out[i].GC && out[j].GC
	})

	return out
}

func runsIn(c *cell, rc runCfg) bool {
	for _, x := range c03Configs(c) {
		if x == rc {
			return true
		}
	}

	return false
}

func recOf(c *cell, rc runCfg, o outcome) cellRec {
	opt := rc.Opt
	rec := cellRec{ID: c.id, Opt: rc.Opt, GC: rc.GC, Err: o.err}
	if o.panic != "" && rec.Err == "" {
		rec.Err = "PANIC " + firstLine(o.panic)
	}

	rec.Findings = c.eval(o)
	if len(rec.Findings) > 0 {
		rec.Program = o.program
		if !o.solo {
			rec.Program = program([]*cell{c}, opt) + "\n// observed inside this batch program:\n" + o.program
		}
	}

	if c.agree != "" {
		rec.Sig = strings.Join(o.lines[min(1, len(o.lines)):], "|")
		if o.err != "" || o.panic != "" {
			rec.Sig += "|ERR"
		}
	}

	if c.fam == "named" && len(o.lines) > 1 {
		rec.Runs = len(o.lines) - 1
	}

	if c.fam == "mixed" && c.mode != "strict" && len(o.lines) == 3 {
		rec.RT, _ = splitTV(o.lines[1])
	}

	if hash32("sample/"+c.id)%997 == 0 {
		rec.Lines = o.lines
	}

	return rec
}

// c03RunShard runs the cells of shard k of n (all modes, all levels of the tier).
func c03RunShard(table []*cell, k, n int) workerOut {
	var (
		out workerOut
		st  runStats
	)

	for _, rc := range allConfigs(table) {
		for _, m := range modes {
			var sel []*cell

			for _, c := range table {
				if c.mode == m && int(hash32(c.id)%uint32(n)) == k && runsIn(c, rc) {
					sel = append(sel, c)
				}
			}

			cfg := rc
			runCells(sel, cfg, 40, &st, func(c *cell, o outcome) { out.Recs = append(out.Recs, recOf(c, cfg, o)) })
		}
	}

	out.Progs, out.Solo, out.Break = st.programs, st.soloRuns, st.batchBreaks

	return out
}

// TestC03Worker is the child side; it does nothing unless started by TestC03.
func TestC03Worker(t *testing.T) {
	spec := os.Getenv("VERIF_C03_SHARD")
	if spec == "" {
		t.Skip("worker only")
	}

	var k, n int
	if _, err := fmt.Sscanf(spec, "%d/%d", &k, &n); err != nil || n <= 0 {
		t.Fatalf("bad shard spec %q", spec)
	}

	egorun.Init()

	c03Keep = func(id string) bool { return int(hash32(id)%uint32(n)) == k }

	out := c03RunShard(buildC03(vh.Seed()), k, n)

	b, err := json.Marshal(out)
	if err != nil {
		t.Fatal(err)
	}

	if err := os.WriteFile(os.Getenv("VERIF_C03_OUT"), b, 0o644); err != nil {
		t.Fatal(err)
	}
}

func c03Workers(n int) ([]workerOut, error) {
	arena := os.Getenv("VERIF_ARENA")
	if arena == "" {
		arena = os.TempDir()
	}

	dir := filepath.Join(arena, "c03-workers")
	_ = os.MkdirAll(dir, 0o755)

	outs := make([]workerOut, n)
	errs := make([]error, n)

	var wg sync.WaitGroup

	for k := 0; k < n; k++ {
		wg.Add(1)

		go func(k int) {
			defer wg.Done()

			outFile := filepath.Join(dir, fmt.Sprintf("shard%d.json", k))
			home := filepath.Join(dir, fmt.Sprintf("home%d", k))
			_ = os.MkdirAll(home, 0o755)

			cmd := exec.Command(os.Args[0], "-test.run", "^TestC03Worker$", "-test.timeout", "0", "-test.count", "1")
			cmd.Env = append(os.Environ(), fmt.Sprintf("VERIF_C03_SHARD=%d/%d", k, n), "VERIF_C03_OUT="+outFile, "VERIF_HOME="+home, "VERIF_OUT="+outFile+".unused", "GOMAXPROCS=1", "GOGC=400")

			b, err := cmd.CombinedOutput()
			if err != nil {
				errs[k] = fmt.Errorf("worker %d: %v\n%s", k, err, vh.Trunc(string(b), 4000))

				return
			}

			raw, err := os.ReadFile(outFile)
			if err != nil {
				errs[k] = err

				return
			}

			errs[k] = json.Unmarshal(raw, &outs[k])
		}(k)
	}

	wg.Wait()

	for _, err := range errs {
		if err != nil {
			return nil, err
		}
	}

	return outs, nil
}

type witness struct {
	f    finding
	c    *cell
	rc   runCfg
	prog string
}

type gmKey struct{ base, mode string }

func TestC03(t *testing.T) {
	r := vh.New("C03", "cells")
	r.Rule = "every cell of the table {14 numeric kinds} x {+ - * / %, unary -, ++ --, += -= *= /=, x = x op k} x {same-type variable, untyped constant (12 spellings, both sides), typed variable of another kind} x " +
		"{0, 1, -1, min, max, max-1, mid, seed-chosen rnd} x {dynamic, relaxed, strict} is one Ego function; distinct = distinct cell id x optimizer level; every cell is non-trivial (it executes the operation and its printed type and value are compared). " +
		"quick: all cells at optimizer 0 plus, at level 2, the 10% of cell groups with fnv(group)%10==0 and every ++/--/+=1/x=x+1 group; thorough: all cells at levels 0,1,2,3 (level-1 cells are padded past the 50-instruction threshold so the optimizer really runs)."
	r.Assume("Go's fixed-width arithmetic and numeric conversions (the monitor computes expected values with them)")
	r.Assume("fmt.Printf(\"%T %v\") inside Ego hands the native value to Go's fmt (operands are printed and checked before every operation, so a printing difference would show as a set-up finding, not as an arithmetic one)")
	r.Assume("docs/LANGUAGE.md 'Type Conversions' read as: result type of two typed kinds is one of the operand types; where the text is silent (float32 rounding of a decimal constant in strict mode, the sign of a floating zero) both outcomes are accepted")

	seed := vh.Seed()

	var replay *c03Case

	if rc := vh.ReplayCase(); rc != nil {
		replay = &c03Case{}
		if err := json.Unmarshal(rc, replay); err != nil || replay.Cell == "" {
			t.Fatalf("replay case unreadable: %v", err)
		}

		seed = replay.Seed
	}

	// workers first (they are the long part), the parent's own copy of the table meanwhile
	var (
		workerOuts []workerOut
		workerErr  error
		wdone      = make(chan struct{})
	)

	if replay == nil {
		n := runtime.NumCPU() / 2
		if n > 8 {
			n = 8
		}

		if n < 1 {
			n = 1
		}

		r.Count("run.workers", int64(n))

		go func() {
			defer close(wdone)

			workerOuts, workerErr = c03Workers(n)
		}()
	} else {
		close(wdone)
	}

	table := buildC03(seed)
	byID := map[string]*cell{}

	for _, c := range table {
		if byID[c.id] != nil {
			t.Fatalf("harness: duplicate cell id %s", c.id)
		}

		byID[c.id] = c
	}

	r.Count("table.cells", int64(len(table)))

	var recs []cellRec

	if replay != nil {
		egorun.Init()

		var st runStats

		if target := byID[replay.Cell]; target != nil {
			stem := strings.TrimSuffix(target.id, "/"+target.mode)

			for _, c := range table {
				// the cell itself, the same cell in the other type modes (the key says whether all three fail) and,
				// for an agreement finding, the other statement forms of its group
				if c == target || c.id == stem+"/"+c.mode || (target.agree != "" && c.agree == target.agree) {
					base := runCfg{0, c.fam == "named" || c.fam == "retyped"}
					recs = append(recs, recOf(c, base, runSolo(c, base, &st)))

					if rc := (runCfg{replay.Opt, replay.GC}); rc != base {
						recs = append(recs, recOf(c, rc, runSolo(c, rc, &st)))
					}
				}
			}
		} else {
			t.Fatalf("replay: no cell %q in the table of seed %d", replay.Cell, seed)
		}

		r.Distinct = 2
	} else {
		<-wdone

		if workerErr != nil {
			t.Fatalf("harness: %v", workerErr)
		}

		for _, w := range workerOuts {
			recs = append(recs, w.Recs...)
			r.Count("run.programs", w.Progs)
			r.Count("run.solo-programs", w.Solo)
			r.Count("run.batch-breaks", w.Break)
		}
	}

	// deterministic order whatever the worker scheduling was
	sort.Slice(recs, func(i, j int) bool {
		if recs[i].Opt != recs[j].Opt {
			return recs[i].Opt < recs[j].Opt
		}

		if recs[i].GC != recs[j].GC {
			return !recs[i].GC
		}

		return recs[i].ID < recs[j].ID
	})

	var (
		wits       []witness
		failedAt0  = map[gmKey]bool{}
		agreeSigs  = map[string]map[string][]string{} // level/agree-tag -> signature -> cell ids
		agreeBad   = map[string]bool{}
		agreeCells = map[string]*cell{}
		agreeCfg   = map[string]runCfg{}
		promo      = map[string]string{}
	)

	for _, rec := range recs {
		c := byID[rec.ID]
		if c == nil {
			t.Fatalf("harness: worker reported unknown cell %s", rec.ID)
		}

		rc := runCfg{rec.Opt, rec.GC}

		r.Eval(fmt.Sprintf("%s@%s", c.id, cfgTag(c, rc)), true)
		r.Count("cells."+c.fam, 1)
		r.Count(fmt.Sprintf("cells.o%d", rec.Opt), 1)

		if c.fam == "retyped" {
			r.Count("retyped.config."+cfgTag(c, rc), 1)
			r.Count("retyped.variant."+strings.Split(c.group, ":")[1], 1)
		}

		if c.fam == "named" {
			r.Count("named.config."+cfgTag(c, rc), 1)
			r.Count("named.variant."+strings.Split(c.group, ":")[2], 1)
			r.Count("named.site-executions", int64(rec.Runs))
		}
		r.Count("cells.mode."+c.mode, 1)

		if rec.Err != "" {
			r.Count("observed.rejected."+c.mode, 1)
			r.Count("observed.error-class."+errClass(rec.Err), 1)
		} else {
			r.Count("observed.completed."+c.mode, 1)
		}

		for _, f := range rec.Findings {
			wits = append(wits, witness{f: f, c: c, rc: rc, prog: rec.Program})

			if isBase(c, rc) {
				failedAt0[gmKey{f.Base, c.mode}] = true
			}
		}

		if c.agree != "" {
			tag := fmt.Sprintf("o%d/%s", rec.Opt, c.agree)
			agreeCfg[tag] = rc
			if agreeSigs[tag] == nil {
				agreeSigs[tag] = map[string][]string{}
			}

			agreeSigs[tag][rec.Sig] = append(agreeSigs[tag][rec.Sig], c.id)
			agreeCells[tag] = c

			if len(rec.Findings) > 0 {
				agreeBad[tag] = true
			}
		}

		if rec.RT != "" && rec.Opt == 0 && !rec.GC {
			parts := strings.Split(c.group, ":")
			promo[parts[2]+"+"+parts[3]] = rec.RT
		}

		if rec.Lines != nil && len(rec.Findings) == 0 {
			r.Sample(map[string]any{"cell": c.id, "opt": rec.Opt, "body": c.body, "printed": rec.Lines, "error": rec.Err})
		}
	}

	// agreement of statement forms (reported only when no form of the group already has an oracle finding)
	var tags []string
	for tag := range agreeSigs {
		tags = append(tags, tag)
	}

	sort.Strings(tags)

	for _, tag := range tags {
		sigs := agreeSigs[tag]
		r.Count("agreement.groups", 1)

		if len(sigs) <= 1 || agreeBad[tag] {
			continue
		}

		c := agreeCells[tag]
		arc := agreeCfg[tag]

		base := strings.SplitN(strings.SplitN(tag, "/", 2)[1], "/", 2)[0]
		desc := []string{}

		for s, idl := range sigs {
			desc = append(desc, fmt.Sprintf("%v -> %q", idl, s))
		}

		sort.Strings(desc)
		wits = append(wits, witness{f: finding{Base: base, Desc: "statement forms that must agree differ", Expected: "equal outcome", Observed: strings.Join(desc, " ; ")}, c: c, rc: arc})

		if isBase(c, arc) {
			failedAt0[gmKey{base, c.mode}] = true
		}
	}

	// keys: base [+ :mode unless all three modes fail] [+ :oN when the group passes at level 0]
	type ko struct{ base, optTag string }

	modesOf := map[ko]map[string]bool{}
	tagOf := func(w witness) (string, bool) {
		if isBase(w.c, w.rc) {
			return "", true
		}

		if failedAt0[gmKey{w.f.Base, w.c.mode}] {
			return "", false // same defect as in the base configuration: already keyed there
		}

		return ":" + cfgTag(w.c, w.rc), true
	}

	for _, w := range wits {
		if tg, ok := tagOf(w); ok {
			k := ko{w.f.Base, tg}
			if modesOf[k] == nil {
				modesOf[k] = map[string]bool{}
			}

			modesOf[k][w.c.mode] = true
		}
	}

	for _, w := range wits {
		tg, ok := tagOf(w)
		if !ok {
			r.Count("findings.repeated-at-higher-level", 1)

			continue
		}

		key := w.f.Base
		if len(modesOf[ko{w.f.Base, tg}]) < 3 {
			key += ":" + w.c.mode
		}

		key += tg

		prog := w.prog
		if prog == "" {
			prog = program([]*cell{w.c}, w.rc.Opt)
		}

		r.Violate(vh.Violation{Key: key, Desc: fmt.Sprintf("[%s %s] %s", w.c.mode, cfgTag(w.c, w.rc), w.f.Desc),
			Case:     c03Case{Cell: w.c.id, Mode: w.c.mode, Opt: w.rc.Opt, GC: w.rc.GC, Seed: seed, Program: prog},
			Expected: w.f.Expected, Observed: w.f.Observed})
	}

	// what the implementation chose for every pair of kinds (observed promotion lattice)
	var lat []string
	for k, v := range promo {
		lat = append(lat, k+"->"+v)
	}

	sort.Strings(lat)
	r.Note("observed promotion (dynamic/relaxed, level 0): " + strings.Join(lat, " "))
	r.Count("observed.promotion-pairs", int64(len(promo)))

	if replay == nil {
		egorun.Init()
		crossCheckCLI(r, table)

		r.Exhaustive = true
	}

	if r.Evaluations == 0 {
		t.Fatal("observed nothing")
	}

	if err := r.Write(); err != nil {
		t.Fatal(err)
	}
}

// crossCheckCLI re-runs a fixed sample of cells through the real `ego run` binary and
// compares with the in-process runner: shows the harness represents the CLI path.
func crossCheckCLI(r *vh.Report, table []*cell) {
	bin := filepath.Join(os.Getenv("VERIF_BIN"), "ego")
	if _, err := os.Stat(bin); err != nil {
		r.Note("CLI cross-check skipped: no ego binary in $VERIF_BIN")

		return
	}

	arena := os.Getenv("VERIF_ARENA")
	if arena == "" {
		arena = os.TempDir()
	}

	dir := filepath.Join(arena, "c03-cli")
	_ = os.MkdirAll(dir, 0o755)

	var st runStats

	n := 0

	for _, c := range table {
		if hash32("cli/"+c.id)%2500 != 0 || n >= 24 {
			continue
		}

		if c.fam == "named" && !c.cfold {
			continue // the CLI has no flag for constant folding; its default is on
		}

		opt := []int{0, 2}[n%2]
		n++

		// the CLI's defaults: global cache on; the in-process runs of the classic families use it off, which is part of what is cross-checked
		in := runSolo(c, runCfg{opt, c.fam == "named" || c.fam == "retyped"}, &st)
		file := filepath.Join(dir, fmt.Sprintf("cell%d.ego", n))
		_ = os.WriteFile(file, []byte(in.program), 0o644)

		cmd := exec.Command(bin, "run", "--types", c.mode, "--optimize", fmt.Sprint(opt), file)
		cmd.Env = append(os.Environ(), "HOME="+egorun.Home)

		var stdout, stderr strings.Builder

		cmd.Stdout, cmd.Stderr = &stdout, &stderr
		err := cmd.Run()

		var lines []string

		for _, l := range strings.Split(stdout.String(), "\n") {
			if l == "" || l == "#0" || l == "#end" {
				continue
			}

			lines = append(lines, normLine(l))
		}

		r.Count("cli.crosschecks", 1)

		if strings.Join(lines, "|") != strings.Join(in.lines, "|") || (err != nil) != (in.err != "") {
			r.Inconcl(fmt.Sprintf("CLI and in-process runner disagree on cell %s (o%d): cli=%q/%v in-process=%q/%q", c.id, opt, lines, err, in.lines, in.err))
		} else {
			r.Count("cli.agree", 1)
		}
	}
}
