package cells

// C06 literal generator: spellings derived from the Go spec grammar
// (https://go.dev/ref/spec#Lexical_elements), a classifier that names the literal
// class of any spelling (the violation key), and a validator that only lets
// through what Go's own scanner and strconv accept.

import (
	"fmt"
	"go/scanner"
	"go/token"
	"math"
	"math/rand"
	"strconv"
	"strings"
	"unicode/utf8"
)

type litKind int

const (
	litInt litKind = iota
	litFloat
	litImag
	litRune
	litString
	litRaw
)

// litItem is one literal spelling in one expression context.
type litItem struct {
	kind  litKind
	text  string // the literal exactly as written (a leading '-' is the unary operator applied to it)
	class string // violation key
	ctx   string // "arg": printed directly; "var": assigned to a variable first
	from  string // "enum" or "random"
}

// expr is the expression printed in both languages.
func (it litItem) expr() string {
	if it.kind == litInt {
		mag := strings.TrimPrefix(it.text, "-")
		if v, err := strconv.ParseUint(strings.ReplaceAll(mag, "_", ""), 0, 64); err == nil && v > math.MaxInt64 && !strings.HasPrefix(it.text, "-") {
			return "uint64(" + it.text + ")" // Go: an untyped constant above MaxInt64 needs a typed context
		}
	}

	return it.text
}

func (it litItem) verbAndArgs(name string) (string, string) {
	switch it.kind {
	case litInt, litRune:
		return "%d", name
	case litFloat:
		return "%b", name
	case litImag:
		return "%b %b", "real(" + name + "), imag(" + name + ")"
	default:
		return "%q", name
	}
}

// stmt renders the statement(s) printing the item; identical text for Go and Ego.
func (it litItem) stmt(i int) string {
	if it.ctx == "var" {
		name := fmt.Sprintf("v%d", i)
		verb, args := it.verbAndArgs(name)

		return fmt.Sprintf("%s := %s\n\tfmt.Printf(\"%s\\n\", %s)", name, it.expr(), verb, args)
	}

	verb, args := it.verbAndArgs(it.expr())

	return fmt.Sprintf("fmt.Printf(\"%s\\n\", %s)", verb, args)
}

// goAccepts: the spelling is exactly one Go token of the expected kind, scanned
// without error, and its value is in the range Go's compiler accepts.
func goAccepts(kind litKind, text string) bool {
	body := strings.TrimPrefix(text, "-")

	var s scanner.Scanner

	fset := token.NewFileSet()
	file := fset.AddFile("", fset.Base(), len(body))
	nerr := 0

	s.Init(file, []byte(body), func(token.Position, string) { nerr++ }, 0)

	_, tok, lit := s.Scan()
	_, next, _ := s.Scan()

	if nerr != 0 || lit != body && !(kind == litRaw) {
		return false
	}

	if next != token.EOF && !(next == token.SEMICOLON) {
		return false
	}

	switch kind {
	case litInt:
		if tok != token.INT {
			return false
		}

		v, err := strconv.ParseUint(body, 0, 64)
		if err != nil {
			return false
		}

		if strings.HasPrefix(text, "-") && v > 1<<63 {
			return false
		}

		return true

	case litFloat:
		if tok != token.FLOAT {
			return false
		}

		f, err := strconv.ParseFloat(body, 64)

		return err == nil && !math.IsInf(f, 0)

	case litImag:
		if tok != token.IMAG {
			return false
		}

		num := strings.TrimSuffix(body, "i")
		if f, err := strconv.ParseFloat(num, 64); err == nil {
			return !math.IsInf(f, 0)
		}

		_, err := strconv.ParseUint(num, 0, 64)

		return err == nil

	case litRune:
		if tok != token.CHAR {
			return false
		}

		_, err := strconv.Unquote(body)

		return err == nil

	case litString:
		if tok != token.STRING || !strings.HasPrefix(body, "\"") {
			return false
		}

		_, err := strconv.Unquote(body)

		return err == nil

	case litRaw:
		return tok == token.STRING && strings.HasPrefix(body, "`") && !strings.Contains(body[1:len(body)-1], "`") && utf8.ValidString(body)
	}

	return false
}

// ---------------------------------------------------------------- classifier

func intRadix(mag string) (name string, digits string, prefixLen int) {
	l := strings.ToLower(mag)

	switch {
	case strings.HasPrefix(l, "0x"):
		return "hex", mag[2:], 2
	case strings.HasPrefix(l, "0b"):
		return "binary", mag[2:], 2
	case strings.HasPrefix(l, "0o"):
		return "octal", mag[2:], 2
	case len(mag) > 1 && mag[0] == '0':
		return "octal-legacy", mag[1:], 1
	}

	return "dec", mag, 0
}

func classifyInt(text string) string {
	neg := strings.HasPrefix(text, "-")
	mag := strings.TrimPrefix(text, "-")
	radix, digits, plen := intRadix(mag)
	v, _ := strconv.ParseUint(mag, 0, 64)

	if neg && v == 1<<63 {
		return "int:min-int64" // whatever the radix: the magnitude does not fit an int64 before the sign is applied
	}

	if v > math.MaxInt64 {
		return "int:above-int64"
	}

	key := "int:" + radix

	if plen == 2 && mag[1] >= 'A' && mag[1] <= 'Z' {
		key += ":upper-prefix"
	}

	if strings.HasPrefix(digits, "_") {
		key += ":underscore-after-prefix"
		digits = digits[1:]
	}

	if strings.Contains(digits, "_") {
		key += ":underscore"
	}

	if v > math.MaxInt32 {
		key += ":wide"
	}

	if neg {
		key += ":neg"
	}

	return key
}

func classifyFloat(text string) string {
	mag := strings.TrimPrefix(text, "-")
	l := strings.ToLower(mag)
	key := "float:dec"
	mant := l

	if strings.HasPrefix(l, "0x") {
		key = "float:hex"
		mant = l[2:]

		if i := strings.IndexByte(mant, 'p'); i >= 0 {
			mant = mant[:i]
		}

		if strings.HasPrefix(mant, "_") {
			key += ":underscore-after-prefix"
		}
	} else {
		if i := strings.IndexByte(mant, 'e'); i >= 0 {
			mant = mant[:i]
			key += ":exp"
		}

		if len(mant) > 1 && mant[0] == '0' && mant[1] != '.' {
			key += ":leading-zeros"
		}
	}

	if strings.HasPrefix(mant, ".") {
		key += ":leading-dot"
	}

	if strings.HasSuffix(mant, ".") {
		key += ":trailing-dot"
	}

	if strings.Contains(strings.TrimPrefix(l, "0x_"), "_") {
		key += ":underscore"
	}

	if f, err := strconv.ParseFloat(mag, 64); err == nil && f != 0 && math.Abs(f) < 2.2250738585072014e-308 {
		key += ":denormal"
	}

	if strings.HasPrefix(text, "-") {
		key += ":neg"
	}

	return key
}

func classifyImag(text string) string {
	num := strings.TrimSuffix(text, "i")
	l := strings.ToLower(num)
	key := ""

	switch {
	case strings.HasPrefix(l, "0x") && strings.Contains(l, "p"):
		key = "imag:hex-float"
	case strings.HasPrefix(l, "0x"), strings.HasPrefix(l, "0b"), strings.HasPrefix(l, "0o"):
		key = "imag:radix-int"
	case strings.ContainsAny(l, ".e"):
		key = "imag:float"
	case len(l) > 1 && l[0] == '0':
		key = "imag:leading-zero-int" // decimal, for backward compatibility, even with a leading 0
	default:
		key = "imag:dec-int"
	}

	if strings.Contains(l, "_") {
		key += ":underscore"
	}

	return key
}

// escapeKind names the escape at the start of s (s[0] == '\\').
func escapeKind(s string) (kind string, length int) {
	switch s[1] {
	case 'x':
		return "escape-hex", 4
	case 'u':
		return "escape-u4", 6
	case 'U':
		return "escape-u8", 10
	case '0', '1', '2', '3', '4', '5', '6', '7':
		return "escape-octal", 4
	}

	return "escape-simple", 2
}

func classifyRune(text string) string {
	body := text[1 : len(text)-1]
	if body[0] == '\\' {
		k, _ := escapeKind(body)

		return "rune:" + k
	}

	if body[0] < utf8.RuneSelf {
		return "rune:ascii"
	}

	return "rune:unicode"
}

func classifyString(text string) string {
	body := text[1 : len(text)-1]
	feats := map[string]bool{}

	for i := 0; i < len(body); {
		if body[i] == '\\' {
			k, n := escapeKind(body[i:])
			feats[k] = true
			i += n

			continue
		}

		if body[i] >= utf8.RuneSelf {
			feats["unicode"] = true
		}

		i++
	}

	switch len(feats) {
	case 0:
		return "string:plain"
	case 1:
		for k := range feats {
			return "string:" + k
		}
	}

	return "string:mixed"
}

func classifyRaw(text string) string {
	body := text[1 : len(text)-1]

	switch {
	case strings.Contains(body, "\r"):
		return "raw:cr" // Go discards carriage returns inside raw strings
	case strings.Contains(body, "\n"):
		// the interpreter re-assembles source lines; the last line of a multi-line raw string is its own case
		if last := body[strings.LastIndexByte(body, '\n')+1:]; strings.HasPrefix(last, " ") || strings.HasPrefix(last, "\t") {
			return "raw:newline:last-line-indented"
		}

		return "raw:newline"
	case strings.Contains(body, "\\"):
		return "raw:backslash"
	case strings.Contains(body, "\""):
		return "raw:quote"
	case !isASCII(body):
		return "raw:unicode"
	}

	return "raw:plain"
}

func isASCII(s string) bool {
	for i := 0; i < len(s); i++ {
		if s[i] >= utf8.RuneSelf {
			return false
		}
	}

	return true
}

func classify(kind litKind, text string) string {
	switch kind {
	case litInt:
		return classifyInt(text)
	case litFloat:
		return classifyFloat(text)
	case litImag:
		return classifyImag(text)
	case litRune:
		return classifyRune(text)
	case litString:
		return classifyString(text)
	default:
		return classifyRaw(text)
	}
}

// ---------------------------------------------------------------- enumeration

type litSet struct {
	items []litItem
	seen  map[string]bool
	drops int // spellings the validator refused (never emitted)
}

func (ls *litSet) add(kind litKind, text, from string) {
	k := fmt.Sprintf("%d/%s", kind, text)
	if ls.seen[k] {
		return
	}

	ls.seen[k] = true

	if !goAccepts(kind, text) {
		ls.drops++

		return
	}

	ls.items = append(ls.items, litItem{kind: kind, text: text, class: classify(kind, text), ctx: "arg", from: from})
}

// underscoreVariants returns digits with '_' inserted at every single legal
// position (between two digits), at every pair of positions, and at all positions.
func underscoreVariants(digits string) []string {
	n := len(digits)

	var out []string

	ins := func(pos map[int]bool) string {
		var b strings.Builder

		for i := 0; i < n; i++ {
			if pos[i] {
				b.WriteByte('_')
			}

			b.WriteByte(digits[i])
		}

		return b.String()
	}

	for i := 1; i < n; i++ {
		out = append(out, ins(map[int]bool{i: true}))
	}

	if n <= 8 { // every pair of positions for the short digit strings
		for i := 1; i < n; i++ {
			for j := i + 1; j < n; j++ {
				out = append(out, ins(map[int]bool{i: true, j: true}))
			}
		}
	}

	all := map[int]bool{}
	for i := 1; i < n; i++ {
		all[i] = true
	}

	if n > 2 {
		out = append(out, ins(all))
	}

	return out
}

var intBoundary = []uint64{0, 1, 2, 7, 8, 9, 10, 15, 16, 17, 31, 63, 64, 100, 127, 128, 255, 256, 511, 512, 1000, 4095, 32767, 32768, 65535, 65536,
	1000000, 16777215, 16777216, 2147483647, 2147483648, 4294967295, 4294967296, 1 << 40, 1<<53 - 1, 1 << 53, 1<<53 + 1, 1<<62 + 12345, 1<<63 - 2, 1<<63 - 1}

func radixSpellings(v uint64) []string {
	h := strconv.FormatUint(v, 16)
	o := strconv.FormatUint(v, 8)
	b := strconv.FormatUint(v, 2)
	out := []string{strconv.FormatUint(v, 10), "0x" + h, "0X" + h, "0x" + strings.ToUpper(h), "0X" + strings.ToUpper(h), "0o" + o, "0O" + o, "0b" + b, "0B" + b}

	if v != 0 {
		out = append(out, "0"+o, "00"+o, "0x00"+h, "0b0"+b, "0o0"+o)
	}

	// mixed-case hex digits
	if strings.ContainsAny(h, "abcdef") && len(h) > 1 {
		m := []byte(h)
		for i := range m {
			if i%2 == 0 && m[i] >= 'a' {
				m[i] -= 32
			}
		}

		out = append(out, "0x"+string(m))
	}

	return out
}

func enumerateLiterals() *litSet {
	ls := &litSet{seen: map[string]bool{}}
	E := "enum"

	// ---- integers: every boundary value in every radix spelling
	for _, v := range intBoundary {
		for _, s := range radixSpellings(v) {
			ls.add(litInt, s, E)
		}
	}

	// ---- integers: '_' in every legal position, every radix
	for _, d := range []struct{ prefix, digits string }{
		{"", "12345"}, {"", "9000000000"}, {"0x", "1F2e"}, {"0X", "ABCDEF01"}, {"0x", "7fffFFFFffff"}, {"0b", "10110"}, {"0B", "1111000011110000111100001111000011"},
		{"0o", "1750"}, {"0O", "17777777777777"}, {"0", "1750"}, {"0", "7"}, {"0", "17777777777777"},
	} {
		for _, u := range underscoreVariants(d.digits) {
			ls.add(litInt, d.prefix+u, E)

			if d.prefix != "" {
				ls.add(litInt, d.prefix+"_"+u, E) // also one directly after the prefix
			}
		}

		if d.prefix != "" {
			ls.add(litInt, d.prefix+"_"+d.digits, E)
		}
	}

	// ---- integers: boundary of the int64 range and the uint64 range (typed context)
	for _, s := range radixSpellings(1<<63 - 1) {
		ls.add(litInt, s, E)
	}

	for _, v := range []uint64{1 << 63, 1<<63 + 1, 1<<64 - 2, 1<<64 - 1, 12345678901234567890} {
		for _, s := range radixSpellings(v) {
			ls.add(litInt, s, E)
		}
	}

	for _, s := range radixSpellings(1 << 63) {
		ls.add(litInt, "-"+s, E) // the most negative int64
	}

	for _, v := range []uint64{1, 255, 2147483648, 1<<63 - 1} {
		for _, s := range radixSpellings(v)[:6] {
			ls.add(litInt, "-"+s, E)
		}
	}

	// ---- decimal floats: mantissa shape x exponent shape
	mants := []string{"0.", "1.", "5.", "12.", "0.0", "0.5", "1.5", "00.5", "01.5", "08.5", "09.", "007.25", "1.50", "123.456", "3.14159265358979", ".5", ".0", ".25", ".000001", "0.1", "0.2", "0.3",
		"100.", "1234567890.123456789", "0.000000000000000000000000000001", "123456789012345678901234567890.", "9007199254740993.", "0.30000000000000004", "1.0000000000000002"}
	exps := []string{"", "e0", "E0", "e1", "E1", "e+1", "e-1", "E+1", "E-1", "e2", "e10", "e+10", "e-10", "e01", "e007", "e22", "e-22", "e23", "e100", "e-100", "e300", "e-300"}

	for _, m := range mants {
		for _, e := range exps {
			ls.add(litFloat, m+e, E)
		}
	}

	for _, m := range []string{"0", "1", "5", "12", "123", "00", "01", "08", "09", "1234567890"} {
		for _, e := range exps[1:] {
			ls.add(litFloat, m+e, E)
		}
	}

	// '_' in mantissa, fraction and exponent
	for _, s := range []string{"1_0.5", "1_0_0.2_5", "1.2_5", "1_2.3_4e5_6", "1e1_0", "1_0e1", "1_0E+1_0", "0_1.5", "0_0.5", "1_000.000_1", "1_0.", ".2_5", "0.0_1e-1_0", "1_2e-0_5"} {
		ls.add(litFloat, s, E)
	}

	// boundary values
	for _, s := range []string{"1.7976931348623157e308", "1.7976931348623157e+308", "17976931348623157e292", "0.17976931348623157e309", "2.2250738585072014e-308", "2.2250738585072011e-308",
		"5e-324", "4.9406564584124654e-324", "4.9e-324", "3e-324", "1e-323", "2.225073858507201e-308", "1e308", "1e-307", "4.35e-320", "8.5e-310",
		"179769313486231570000000000000000000000000000000000000000000000000000000000000000000000000000000000000000000000000000000000000000000000000000000000000000000000000000000000000000000000000000000000000000000000000000000000000000000000000000000000000000000000000000000000000000000000000000000000000000000000000000000.",
		"0.000000000000000000000000000000000000000000000000000000000000000000000000000000000000000000000000000000000000000000000000000000000000000000000000000000000000000000000000000000000000000000000000000000000000000000000000000000000000000000000000000000000000000000000000000000000000000000000000000000000000000000022250738585072014",
		"1.00000000000000011102230246251565404236316680908203125", "1.00000000000000011102230246251565404236316680908203124", "1.00000000000000011102230246251565404236316680908203126",
		"-1.5", "-0.5e-3", "-.5", "-5.", "-1e10"} {
		ls.add(litFloat, s, E)
	}

	// ---- hex floats
	hm := []string{"0x1", "0X1", "0x1.", "0x1.8", "0x.8", "0x.1", "0xA", "0xa.b", "0XA.B", "0x1.fffffffffffff", "0x0.8", "0x10", "0x1F.F", "0x00.1", "0x123456789abcdef", "0x1.0000000000001", "0x1.00000000000008"}
	he := []string{"p0", "P0", "p1", "P1", "p+1", "p-1", "P+1", "P-1", "p4", "p10", "p-10", "p01", "p52", "p-52", "p1000", "p-1000", "p1023", "p-1022", "p-1074", "p-1070"}

	for _, m := range hm {
		for _, e := range he {
			ls.add(litFloat, m+e, E)
		}
	}

	for _, s := range []string{"0x_1p0", "0x1_0p0", "0x_1_0p0", "0x1.8_8p1", "0x1_f.f_fp1_0", "0x1p1_0", "0X_Ap-1_0", "0x.8_8p0", "0x1_0.p0", "-0x1p-2", "-0x1.8p1"} {
		ls.add(litFloat, s, E)
	}

	// ---- imaginary literals
	for _, n := range []string{"0", "1", "7", "10", "123", "1234567890", "9223372036854775807", "017", "08", "09", "007", "0123456789", "1_0", "1_000_000", "0_7", "0_9",
		"0.", "1.", "1.5", ".5", "0.5", "00.5", "1e2", "1E2", "1e+2", "1e-2", "1.5e3", ".5e-3", "1.e2", "1_0.5", "1e1_0", "1.7976931348623157e308", "5e-324",
		"0x1p-2", "0X1P+2", "0x1.8p1", "0x.8p1", "0x_1p0", "0x1_0p0",
		"0x1F", "0X1f", "0xff", "0b101", "0B101", "0o17", "0O17", "0x_1F", "0b_101", "0o_17", "0x1_F", "0b1_01", "0o1_7"} {
		ls.add(litImag, n+"i", E)
	}

	// ---- runes
	for c := rune(32); c < 127; c++ {
		if c == '\'' || c == '\\' {
			continue
		}

		ls.add(litRune, "'"+string(c)+"'", E)
	}

	for _, c := range []rune{0x80, 0xA0, 0xE9, 0xFF, 0x100, 0x3A9, 0x7FF, 0x800, 0x4E16, 0xD7FF, 0xE000, 0xFFFD, 0xFFFF, 0x10000, 0x1F600, 0x10FFFF} {
		ls.add(litRune, "'"+string(c)+"'", E)
	}

	for _, e := range []string{`\a`, `\b`, `\f`, `\n`, `\r`, `\t`, `\v`, `\\`, `\'`} {
		ls.add(litRune, "'"+e+"'", E)
	}

	for v := 0; v < 256; v++ {
		ls.add(litRune, fmt.Sprintf("'\\%03o'", v), E)
		ls.add(litRune, fmt.Sprintf("'\\x%02x'", v), E)

		if v%5 == 0 {
			ls.add(litRune, fmt.Sprintf("'\\x%02X'", v), E)
		}
	}

	for _, c := range []rune{0, 1, 9, 0x27, 0x41, 0x5C, 0x7F, 0x80, 0xFF, 0x100, 0x7FF, 0x800, 0xABCD, 0xD7FF, 0xE000, 0xFFFD, 0xFFFE, 0xFFFF} {
		ls.add(litRune, fmt.Sprintf("'\\u%04x'", c), E)
		ls.add(litRune, fmt.Sprintf("'\\u%04X'", c), E)
		ls.add(litRune, fmt.Sprintf("'\\U%08x'", c), E)
	}

	for _, c := range []rune{0x10000, 0x1F600, 0x1f600, 0xABCDE, 0x10FFFF} {
		ls.add(litRune, fmt.Sprintf("'\\U%08x'", c), E)
		ls.add(litRune, fmt.Sprintf("'\\U%08X'", c), E)
	}

	// ---- interpreted strings: every escape alone, at the start, in the middle, at the end, doubled
	pieces := []string{`\a`, `\b`, `\f`, `\n`, `\r`, `\t`, `\v`, `\\`, `\"`,
		`\000`, `\007`, `\101`, `\177`, `\200`, `\377`, `\x00`, `\x41`, `\x7f`, `\x80`, `\xff`, `\xFF`, `\xe4\xb8\x96`,
		`\u0000`, `\u0041`, `\u00e9`, `\u00E9`, `\u4e16`, `\uFFFD`, `\uffff`, `\U00000041`, `\U0001F600`, `\U0001f600`, `\U0010FFFF`, `\U0000FFFD`}

	for _, p := range pieces {
		for _, f := range []string{"%s", "a%s", "%sb", "a%sb", "%s%s", "a%sb%sc", " %s ", "'%s'"} {
			ls.add(litString, "\""+fmt.Sprintf(f, repeatArgs(p, strings.Count(f, "%s"))...)+"\"", E)
		}
	}

	for _, s := range []string{``, `a`, `hello, world`, ` `, `'`, `''`, "`", `a'b`, `//`, `/* x */`, `a // b`, `{}[]()`, `%d %s %%`, `é`, `世界`, `😀`, `aé世😀z`, `tab	tab`,
		strings.Repeat("x", 300), `\\\\`, `\"\"`, `a\\nb`, `\\x41`, `\\u0041`, `"`[:0] + `\x41\101\u0041\U00000041A`, `\a\b\f\n\r\t\v\\\"`, `é\xe9\u00e9\351`, `\t世\n界\x00`} {
		ls.add(litString, "\""+s+"\"", E)
	}

	// ---- raw strings
	for _, s := range []string{"", "a", "hello, world", " ", "'", "\"", "\"quoted\"", "a\\nb", "\\", "\\\\", "\\x41\\u0041\\101", "\\\"", "C:\\dir\\file", "é", "世界", "😀", "tab\ttab",
		"a\nb", "\n", "\n\n", "a\n", "\na", "line1\n  line2\n\tline3\n", "a\n// not a comment\nb", "a\n/* not\na comment */\nb", "x := 1\ny := 2", "a;\nb", "{\n}\n",
		"a\n b", "a\n\tb", "a\n  b\n  c", "a\n  ", "  a\n  b", "a  \nb  ", "a\n b // c",
		"a\rb", "a\r\nb", "\r", "a\\\nb", strings.Repeat("y", 300), "%d %s", "a // b", "'\\n'"} {
		ls.add(litRaw, "`"+s+"`", E)
	}

	// a fixed quarter of the spellings is also exercised through a variable
	n := len(ls.items)
	for i := 0; i < n; i++ {
		if hash32("ctx/"+ls.items[i].text)%4 == 0 {
			it := ls.items[i]
			it.ctx = "var"
			ls.items = append(ls.items, it)
		}
	}

	return ls
}

func repeatArgs(p string, n int) []any {
	out := make([]any, n)
	for i := range out {
		out[i] = p
	}

	return out
}

// ---------------------------------------------------------------- random compositions

func randDigits(rng *rand.Rand, alphabet string, n int, underscores bool) string {
	var b strings.Builder

	for i := 0; i < n; i++ {
		if i > 0 && underscores && rng.Intn(4) == 0 {
			b.WriteByte('_')
		}

		b.WriteByte(alphabet[rng.Intn(len(alphabet))])
	}

	return b.String()
}

func randInt(rng *rand.Rand) string {
	us := rng.Intn(3) == 0

	switch rng.Intn(5) {
	case 0:
		d := randDigits(rng, "0123456789", 1+rng.Intn(19), us)
		d = strings.TrimLeft(d, "0_")

		if d == "" {
			d = "0"
		}

		return d
	case 1:
		p := []string{"0x", "0X"}[rng.Intn(2)]
		if us && rng.Intn(3) == 0 {
			p += "_"
		}

		return p + randDigits(rng, "0123456789abcdefABCDEF", 1+rng.Intn(16), us)
	case 2:
		p := []string{"0b", "0B"}[rng.Intn(2)]
		if us && rng.Intn(3) == 0 {
			p += "_"
		}

		return p + randDigits(rng, "01", 1+rng.Intn(64), us)
	case 3:
		p := []string{"0o", "0O"}[rng.Intn(2)]
		if us && rng.Intn(3) == 0 {
			p += "_"
		}

		return p + randDigits(rng, "01234567", 1+rng.Intn(21), us)
	default:
		p := "0"
		if us && rng.Intn(3) == 0 {
			p += "_"
		}

		return p + randDigits(rng, "01234567", 1+rng.Intn(20), us)
	}
}

func randFloat(rng *rand.Rand) string {
	us := rng.Intn(4) == 0

	if rng.Intn(4) == 0 { // hex float
		p := []string{"0x", "0X"}[rng.Intn(2)]
		if us && rng.Intn(3) == 0 {
			p += "_"
		}

		var m string

		switch rng.Intn(3) {
		case 0:
			m = randDigits(rng, "0123456789abcdefABCDEF", 1+rng.Intn(14), us)
		case 1:
			m = randDigits(rng, "0123456789abcdefABCDEF", 1+rng.Intn(8), us) + "." + optDigits(rng, "0123456789abcdefABCDEF", 8, us)
		default:
			m = "." + randDigits(rng, "0123456789abcdefABCDEF", 1+rng.Intn(10), us)
			p = strings.TrimSuffix(p, "_")
		}

		return p + m + []string{"p", "P"}[rng.Intn(2)] + []string{"", "+", "-"}[rng.Intn(3)] + randDigits(rng, "0123456789", 1+rng.Intn(3), us)
	}

	var m string

	switch rng.Intn(4) {
	case 0:
		m = randDigits(rng, "0123456789", 1+rng.Intn(18), us) + "." + optDigits(rng, "0123456789", 18, us)
	case 1:
		m = "." + randDigits(rng, "0123456789", 1+rng.Intn(18), us)
	case 2:
		m = randDigits(rng, "0123456789", 1+rng.Intn(18), us) // exponent mandatory below
	default:
		m = "0." + strings.Repeat("0", rng.Intn(20)) + randDigits(rng, "0123456789", 1+rng.Intn(17), false)
	}

	if !strings.Contains(m, ".") || rng.Intn(2) == 0 {
		m += []string{"e", "E"}[rng.Intn(2)] + []string{"", "+", "-"}[rng.Intn(3)] + randDigits(rng, "0123456789", 1+rng.Intn(3), us)
	}

	return m
}

func optDigits(rng *rand.Rand, alphabet string, max int, us bool) string {
	if rng.Intn(4) == 0 {
		return ""
	}

	return randDigits(rng, alphabet, 1+rng.Intn(max), us)
}

func randRuneValue(rng *rand.Rand) rune {
	for {
		var c rune

		switch rng.Intn(4) {
		case 0:
			c = rune(rng.Intn(128))
		case 1:
			c = rune(rng.Intn(0x800))
		case 2:
			c = rune(rng.Intn(0x10000))
		default:
			c = rune(rng.Intn(0x110000))
		}

		if c >= 0xD800 && c < 0xE000 {
			continue
		}

		return c
	}
}

// randPiece returns one element of a rune/string literal body and its kind.
func randPiece(rng *rand.Rand, quote byte) (string, string) {
	switch rng.Intn(7) {
	case 0:
		e := []string{`\a`, `\b`, `\f`, `\n`, `\r`, `\t`, `\v`, `\\`, `\` + string(quote)}[rng.Intn(9)]

		return e, "escape-simple"
	case 1:
		return fmt.Sprintf("\\%03o", rng.Intn(256)), "escape-octal"
	case 2:
		return fmt.Sprintf([]string{"\\x%02x", "\\x%02X"}[rng.Intn(2)], rng.Intn(256)), "escape-hex"
	case 3:
		c := randRuneValue(rng)
		if c > 0xFFFF {
			c &= 0x7FF
		}

		return fmt.Sprintf([]string{"\\u%04x", "\\u%04X"}[rng.Intn(2)], c), "escape-u4"
	case 4:
		return fmt.Sprintf([]string{"\\U%08x", "\\U%08X"}[rng.Intn(2)], randRuneValue(rng)), "escape-u8"
	case 5:
		c := randRuneValue(rng)
		if c < 0x80 {
			c += 0xA0
		}

		return string(c), "unicode"
	default:
		for {
			c := byte(32 + rng.Intn(95))
			if c != quote && c != '\\' {
				return string(c), "plain"
			}
		}
	}
}

// randomLiterals produces n validated random compositions whose class is not in avoid.
func randomLiterals(rng *rand.Rand, n int, avoid map[string]bool, ls *litSet) (skippedKnown int) {
	for tries := 0; len(ls.items) < n && tries < 40*n; tries++ {
		var (
			kind litKind
			text string
		)

		switch rng.Intn(8) {
		case 0, 1:
			kind, text = litInt, randInt(rng)
			if rng.Intn(10) == 0 {
				text = "-" + text
			}
		case 2, 3:
			kind, text = litFloat, randFloat(rng)
		case 4:
			kind = litImag
			if rng.Intn(2) == 0 {
				text = randFloat(rng) + "i"
			} else {
				text = randInt(rng) + "i"
			}
		case 5:
			kind = litRune

			for {
				p, k := randPiece(rng, '\'')
				if k == "escape-octal" || k == "escape-hex" || k == "escape-simple" || k == "plain" || k == "unicode" || k == "escape-u4" || k == "escape-u8" {
					text = "'" + p + "'"

					break
				}
			}
		case 6:
			kind = litString

			var b strings.Builder

			// single-feature strings half of the time, mixtures otherwise; never a piece of an avoided class in a mixture
			_, only := randPiece(rng, '"')
			single := rng.Intn(2) == 0

			for i, m := 0, rng.Intn(12); i < m; i++ {
				p, k := randPiece(rng, '"')
				if single && k != only && k != "plain" {
					continue
				}

				if !single && avoid["string:"+k] {
					continue
				}

				b.WriteString(p)
			}

			text = "\"" + b.String() + "\""
		default:
			kind = litRaw

			var b strings.Builder

			for i, m := 0, rng.Intn(16); i < m; i++ {
				switch rng.Intn(8) {
				case 0:
					b.WriteByte('\n')
				case 1:
					b.WriteByte('\\')
				case 2:
					b.WriteByte('"')
				case 3:
					b.WriteString(string(randRuneValue(rng)))
				default:
					c := byte(32 + rng.Intn(95))
					if c != '`' {
						b.WriteByte(c)
					}
				}
			}

			text = "`" + strings.ReplaceAll(strings.ReplaceAll(b.String(), "`", ""), "\r", "") + "`"
		}

		if kind == litRaw && !utf8.ValidString(text) {
			continue
		}

		if kind == litRaw {
			// control characters other than newline and tab are legal Go but unrelated to the property; keep sources printable
			bad := false

			for _, c := range text {
				if c < 32 && c != '\n' && c != '\t' || c == 0xFEFF || c == utf8.RuneError {
					bad = true
				}
			}

			if bad {
				continue
			}
		}

		if !goAccepts(kind, text) {
			continue
		}

		cl := classify(kind, text)
		if avoid[cl] {
			skippedKnown++

			continue
		}

		k := fmt.Sprintf("%d/%s", kind, text)
		if ls.seen[k] {
			continue
		}

		ls.seen[k] = true
		ls.items = append(ls.items, litItem{kind: kind, text: text, class: cl, ctx: []string{"arg", "arg", "var"}[rng.Intn(3)], from: "random"})
	}

	return skippedKnown
}
