package cells

// Numeric model used by the C03 oracle: Go's own fixed-width arithmetic and
// Go's own numeric conversions, applied to native Go values. Nothing in this
// file imports the interpreter; it is the "executable transcription" side.

import (
	"fmt"
	"math"
	"reflect"
	"strconv"
	"strings"
)

type kclass int

const (
	kSigned kclass = iota
	kUnsigned
	kFloat
	kComplex
)

type numType struct {
	name  string
	class kclass
	bits  int // integer width, float width, or complex component width
}

// The 14 numeric kinds of docs/LANGUAGE.md "Base Types" (byte is uint8).
var numTypes = []numType{
	{"int8", kSigned, 8}, {"int16", kSigned, 16}, {"int32", kSigned, 32}, {"int64", kSigned, 64}, {"int", kSigned, 64},
	{"uint8", kUnsigned, 8}, {"uint16", kUnsigned, 16}, {"uint32", kUnsigned, 32}, {"uint64", kUnsigned, 64}, {"uint", kUnsigned, 64},
	{"float32", kFloat, 32}, {"float64", kFloat, 64},
	{"complex64", kComplex, 32}, {"complex128", kComplex, 64},
}

func typeByName(n string) (numType, bool) {
	if n == "byte" {
		n = "uint8"
	}

	for _, t := range numTypes {
		if t.name == n {
			return t, true
		}
	}

	return numType{}, false
}

type integer interface {
	~int8 | ~int16 | ~int32 | ~int64 | ~int | ~uint8 | ~uint16 | ~uint32 | ~uint64 | ~uint
}

type floating interface{ ~float32 | ~float64 }

type cplx interface{ ~complex64 | ~complex128 }

func intOp[T integer](op string, a, b T) (any, bool) {
	switch op {
	case "+":
		return a + b, true
	case "-":
		return a - b, true
	case "*":
		return a * b, true
	case "/":
		if b == 0 {
			return nil, false
		}

		return a / b, true
	case "%":
		if b == 0 {
			return nil, false
		}

		return a % b, true
	}

	return nil, false
}

func floatOp[T floating](op string, a, b T) (any, bool) {
	switch op {
	case "+":
		return a + b, true
	case "-":
		return a - b, true
	case "*":
		return a * b, true
	case "/":
		if b == 0 {
			return nil, false
		}

		return a / b, true
	}

	return nil, false // % on floats is outside the table
}

func cplxOp[T cplx](op string, a, b T) (any, bool) {
	switch op {
	case "+":
		return a + b, true
	case "-":
		return a - b, true
	case "*":
		return a * b, true
	case "/":
		if b == 0 {
			return nil, false
		}

		return a / b, true
	}

	return nil, false
}

// arith computes a op b with Go's arithmetic in the (common) Go type of a and b.
// ok=false: the operation is outside the table (division by zero, % on
// non-integers) or the operands are not of one type.
func arith(op string, a, b any) (any, bool) {
	if reflect.TypeOf(a) != reflect.TypeOf(b) {
		return nil, false
	}

	switch x := a.(type) {
	case int8:
		return intOp(op, x, b.(int8))
	case int16:
		return intOp(op, x, b.(int16))
	case int32:
		return intOp(op, x, b.(int32))
	case int64:
		return intOp(op, x, b.(int64))
	case int:
		return intOp(op, x, b.(int))
	case uint8:
		return intOp(op, x, b.(uint8))
	case uint16:
		return intOp(op, x, b.(uint16))
	case uint32:
		return intOp(op, x, b.(uint32))
	case uint64:
		return intOp(op, x, b.(uint64))
	case uint:
		return intOp(op, x, b.(uint))
	case float32:
		return floatOp(op, x, b.(float32))
	case float64:
		return floatOp(op, x, b.(float64))
	case complex64:
		return cplxOp(op, x, b.(complex64))
	case complex128:
		return cplxOp(op, x, b.(complex128))
	}

	return nil, false
}

// negate is Go's unary minus in the value's own type.
func negate(a any) any {
	switch x := a.(type) {
	case int8:
		return -x
	case int16:
		return -x
	case int32:
		return -x
	case int64:
		return -x
	case int:
		return -x
	case uint8:
		return -x
	case uint16:
		return -x
	case uint32:
		return -x
	case uint64:
		return -x
	case uint:
		return -x
	case float32:
		return -x
	case float64:
		return -x
	case complex64:
		return -x
	case complex128:
		return -x
	}

	return nil
}

// decomposed view of a numeric value
type parts struct {
	signed, unsigned, flt, cx bool
	i                         int64
	u                         uint64
	f                         float64
	c                         complex128
}

func decompose(v any) (p parts, ok bool) {
	ok = true

	switch x := v.(type) {
	case int8:
		p.signed, p.i = true, int64(x)
	case int16:
		p.signed, p.i = true, int64(x)
	case int32:
		p.signed, p.i = true, int64(x)
	case int64:
		p.signed, p.i = true, x
	case int:
		p.signed, p.i = true, int64(x)
	case uint8:
		p.unsigned, p.u = true, uint64(x)
	case uint16:
		p.unsigned, p.u = true, uint64(x)
	case uint32:
		p.unsigned, p.u = true, uint64(x)
	case uint64:
		p.unsigned, p.u = true, x
	case uint:
		p.unsigned, p.u = true, uint64(x)
	case float32:
		p.flt, p.f = true, float64(x)
	case float64:
		p.flt, p.f = true, x
	case complex64:
		p.cx, p.c = true, complex128(x)
	case complex128:
		p.cx, p.c = true, x
	default:
		ok = false
	}

	return p, ok
}

func toInt[T integer](p parts, t numType) (any, bool) {
	switch {
	case p.signed:
		return T(p.i), true // Go conversion: wraps (keeps the low bits)
	case p.unsigned:
		return T(p.u), true
	case p.flt:
		// truncation toward zero; only defined when the truncated value is in range
		if math.IsNaN(p.f) || math.IsInf(p.f, 0) {
			return nil, false
		}

		tr := math.Trunc(p.f)
		lo, hiExcl := 0.0, math.Ldexp(1, t.bits)

		if t.class == kSigned {
			lo, hiExcl = -math.Ldexp(1, t.bits-1), math.Ldexp(1, t.bits-1)
		}

		if tr < lo || tr >= hiExcl {
			return nil, false
		}

		return T(p.f), true
	}

	return nil, false // complex -> real is never implicit
}

func toFloat[T floating](p parts) (any, bool) {
	switch {
	case p.signed:
		return T(p.i), true
	case p.unsigned:
		return T(p.u), true
	case p.flt:
		return T(p.f), true
	}

	return nil, false
}

// conv is Go's numeric conversion T(v) (plus real -> complex with a zero
// imaginary part, which Ego performs implicitly). ok=false when Go leaves the
// conversion undefined (float out of the integer's range) or it is not an
// implicit conversion at all (complex -> real).
func conv(v any, to string) (any, bool) {
	p, ok := decompose(v)
	if !ok {
		return nil, false
	}

	t, ok := typeByName(to)
	if !ok {
		return nil, false
	}

	switch t.name {
	case "int8":
		return toInt[int8](p, t)
	case "int16":
		return toInt[int16](p, t)
	case "int32":
		return toInt[int32](p, t)
	case "int64":
		return toInt[int64](p, t)
	case "int":
		return toInt[int](p, t)
	case "uint8":
		return toInt[uint8](p, t)
	case "uint16":
		return toInt[uint16](p, t)
	case "uint32":
		return toInt[uint32](p, t)
	case "uint64":
		return toInt[uint64](p, t)
	case "uint":
		return toInt[uint](p, t)
	case "float32":
		return toFloat[float32](p)
	case "float64":
		return toFloat[float64](p)
	case "complex64":
		if p.cx {
			return complex64(p.c), true
		}

		r, ok := toFloat[float32](p)
		if !ok {
			return nil, false
		}

		return complex(r.(float32), 0), true
	case "complex128":
		if p.cx {
			return p.c, true
		}

		r, ok := toFloat[float64](p)
		if !ok {
			return nil, false
		}

		return complex(r.(float64), 0), true
	}

	return nil, false
}

func isZero(v any) bool {
	p, ok := decompose(v)
	if !ok {
		return false
	}

	switch {
	case p.signed:
		return p.i == 0
	case p.unsigned:
		return p.u == 0
	case p.flt:
		return p.f == 0
	default:
		return p.c == 0
	}
}

// lossless classification of adapting a constant to a type.
const (
	lossNo        = iota // conversion is exact: strict mode must accept it
	lossYes              // information is lost: strict mode must reject it
	lossAmbiguous        // binary floating-point rounding only: the document does not decide (Go accepts, "no information lost" rejects)
)

// constLoss classifies converting the constant k (int64 or float64) to type t.
func constLoss(k any, t numType) int {
	p, _ := decompose(k)

	var (
		isIntegral bool
		asFloat    float64
	)

	switch {
	case p.signed:
		isIntegral, asFloat = true, float64(p.i)
	case p.flt:
		isIntegral, asFloat = p.f == math.Trunc(p.f), p.f
	}

	switch t.class {
	case kSigned, kUnsigned:
		if !isIntegral {
			return lossYes
		}

		lo, hiExcl := 0.0, math.Ldexp(1, t.bits)
		if t.class == kSigned {
			lo, hiExcl = -math.Ldexp(1, t.bits-1), math.Ldexp(1, t.bits-1)
		}

		if asFloat < lo || asFloat >= hiExcl {
			return lossYes
		}

		return lossNo

	default: // float or complex: only the real component's width matters
		if t.bits == 32 {
			if float64(float32(asFloat)) == asFloat && (!p.signed || int64(asFloat) == p.i) {
				return lossNo
			}

			return lossAmbiguous
		}

		if p.signed && (p.i > 1<<53 || p.i < -(1<<53)) {
			return lossAmbiguous
		}

		return lossNo
	}
}

// embeds reports whether every value of type a is exactly representable in type b.
func embeds(a, b numType) bool {
	if a.name == b.name {
		return true
	}

	mant := func(t numType) int {
		if t.bits == 32 {
			return 24
		}

		return 53
	}

	switch a.class {
	case kSigned:
		switch b.class {
		case kSigned:
			return a.bits <= b.bits
		case kUnsigned:
			return false
		default:
			return a.bits-1 <= mant(b)
		}
	case kUnsigned:
		switch b.class {
		case kSigned:
			return a.bits < b.bits
		case kUnsigned:
			return a.bits <= b.bits
		default:
			return a.bits <= mant(b)
		}
	case kFloat:
		switch b.class {
		case kFloat, kComplex:
			return a.bits <= b.bits
		}

		return false
	case kComplex:
		return b.class == kComplex && a.bits <= b.bits
	}

	return false
}

// show renders a value the way the cell programs print it: "%T %v".
func show(v any) string {
	return normLine(fmt.Sprintf("%T %v", v, v))
}

// normLine maps Ego's spelling "byte" of the uint8 kind to "uint8".
func normLine(s string) string {
	f := strings.Fields(s)
	for i, w := range f {
		switch w {
		case "byte":
			f[i] = "uint8"
		case "-0":
			f[i] = "0" // IEEE negative zero equals zero; the document says nothing about its sign
		}
	}

	return strings.Join(f, " ")
}

func floatLit(f float64) string {
	s := strconv.FormatFloat(f, 'g', -1, 64)
	if !strings.ContainsAny(s, ".e") {
		s += ".0"
	}

	return s
}

// declare returns Ego statements that leave a local variable `name` holding
// exactly the typed value v. The cell prints the variable afterwards and the
// oracle checks that print, so the spelling chosen here is validated, not trusted.
func declare(name string, v any) []string {
	tn := fmt.Sprintf("%T", v)
	p, _ := decompose(v)

	switch {
	case p.signed:
		if p.i == math.MinInt64 {
			// the literal -9223372036854775808 itself is a C06 matter; build it by arithmetic
			return []string{fmt.Sprintf("var %s %s = %d", name, tn, p.i+1), fmt.Sprintf("%s = %s - 1", name, name)}
		}

		return []string{fmt.Sprintf("var %s %s = %d", name, tn, p.i)}

	case p.unsigned:
		if p.u > math.MaxInt64 {
			out := []string{fmt.Sprintf("var %s %s = %d", name, tn, p.u>>1), fmt.Sprintf("%s = %s + %s", name, name, name)}
			if p.u&1 == 1 {
				// "1 + x", not "x + 1": keeps the set-up clear of the optimizer's increment fusion
				out = append(out, fmt.Sprintf("%s = 1 + %s", name, name))
			}

			return out
		}

		return []string{fmt.Sprintf("var %s %s = %d", name, tn, p.u)}

	case p.flt:
		return []string{fmt.Sprintf("var %s %s = %s", name, tn, floatLit(p.f))}

	default:
		if tn == "complex64" {
			return []string{fmt.Sprintf("var %s complex64 = complex(float32(%s), float32(%s))", name, floatLit(real(p.c)), floatLit(imag(p.c)))}
		}

		return []string{fmt.Sprintf("var %s complex128 = complex(%s, %s)", name, floatLit(real(p.c)), floatLit(imag(p.c)))}
	}
}
