package cells

// C03 cell table: operand type x operator x operand source x value class x type mode.
// Each cell is a tiny Ego function that prints "%T %v" of its operands (validating the
// set-up) and of the result; its eval closure is the transcription of
// docs/LANGUAGE.md "Type Conversions" for that cell.

import (
	"fmt"
	"math"
	"math/rand"
	"strings"
)

var modes = []string{"dynamic", "relaxed", "strict"}

type nval struct {
	cls string
	v   any
}

var opNames = map[string]string{"+": "add", "-": "sub", "*": "mul", "/": "div", "%": "mod"}
var binOps = []string{"+", "-", "*", "/", "%"}

func mustConv(v any, to string) any {
	r, ok := conv(v, to)
	if !ok {
		panic(fmt.Sprintf("harness: conv(%v,%s) undefined", v, to))
	}

	return r
}

// valuesOf returns the value classes of a type: 0, 1, -1, min, max, max-1, mid, rnd.
func valuesOf(t numType, rng *rand.Rand) []nval {
	var out []nval

	add := func(cls string, v any) { out = append(out, nval{cls, v}) }

	switch t.class {
	case kSigned:
		minV := int64(math.MinInt64) >> (64 - t.bits)
		maxV := int64(math.MaxInt64) >> (64 - t.bits)
		mid := map[int]int64{8: 57, 16: 12345, 32: 1234567, 64: 1234567890123}[t.bits]
		rnd := int64(rng.Uint64()) >> (64 - t.bits)

		if rnd == 0 || rnd == 1 || rnd == -1 {
			rnd = 3
		}

		for _, x := range []struct {
			c string
			v int64
		}{{"0", 0}, {"1", 1}, {"m1", -1}, {"min", minV}, {"max", maxV}, {"max1", maxV - 1}, {"mid", mid}, {"rnd", rnd}} {
			add(x.c, mustConv(x.v, t.name))
		}

	case kUnsigned:
		maxV := uint64(math.MaxUint64) >> (64 - t.bits)
		mid := map[int]uint64{8: 157, 16: 42345, 32: 3234567890, 64: 12345678901234567890}[t.bits]
		rnd := rng.Uint64() >> (64 - t.bits)

		if rnd < 2 {
			rnd = 3
		}

		for _, x := range []struct {
			c string
			v uint64
		}{{"0", 0}, {"1", 1}, {"max", maxV}, {"max1", maxV - 1}, {"mid", mid}, {"rnd", rnd}} {
			add(x.c, mustConv(x.v, t.name))
		}

	case kFloat:
		maxV := math.MaxFloat64
		if t.bits == 32 {
			maxV = math.MaxFloat32
		}

		rnd := float64(float32(rng.Float64()*2000 - 1000))
		if rnd == 0 {
			rnd = 3.25
		}

		for _, x := range []struct {
			c string
			v float64
		}{{"0", 0}, {"1", 1}, {"m1", -1}, {"2.5", 2.5}, {"mid", 1234.5}, {"max", maxV}, {"min", -maxV}, {"rnd", rnd}} {
			add(x.c, mustConv(x.v, t.name))
		}

	case kComplex:
		rnd := complex(float64(rng.Intn(4000)-2000)/4, float64(rng.Intn(4000)-2000)/8)
		if rnd == 0 {
			rnd = complex(3, -4)
		}

		for _, x := range []struct {
			c string
			v complex128
		}{{"0", 0}, {"1", 1}, {"m1", -1}, {"1+2i", complex(1, 2)}, {"mid", complex(2.5, -1.5)}, {"rnd", rnd}} {
			if t.bits == 32 {
				add(x.c, complex64(x.v))
			} else {
				add(x.c, x.v)
			}
		}
	}

	return out
}

func pick(vs []nval, classes ...string) []nval {
	var out []nval

	for _, c := range classes {
		for _, v := range vs {
			if v.cls == c {
				out = append(out, v)
			}
		}
	}

	return out
}

// untyped constants: text as written in the program, value as Ego and Go read it.
type kconst struct {
	text string
	v    any // int64 or float64
}

var kconsts = []kconst{
	{"0", int64(0)}, {"1", int64(1)}, {"-1", int64(-1)}, {"2", int64(2)}, {"100", int64(100)}, {"300", int64(300)},
	{"70000", int64(70000)}, {"5000000000", int64(5000000000)}, {"2.0", 2.0}, {"2.5", 2.5}, {"2.7", 2.7}, {"-2.5", -2.5},
}

// constCat names how the constant relates to the type: fit (exact), frac (fraction
// lost), range (out of range), round (binary float rounding only).
func constCat(k kconst, t numType) string {
	// a floating literal under a unary minus is its own category: whether "-2.5" is
	// still a constant is decided in one place of the interpreter (the negate opcode)
	suffix := ""
	if _, isF := k.v.(float64); isF && strings.HasPrefix(k.text, "-") {
		suffix = "-negfloat"
	}

	switch constLoss(k.v, t) {
	case lossNo:
		return "fit" + suffix
	case lossAmbiguous:
		return "round" + suffix
	}

	if f, ok := k.v.(float64); ok && f != math.Trunc(f) {
		return "frac" + suffix
	}

	return "range" + suffix
}

func printStmt(names ...string) string {
	f := strings.TrimSpace(strings.Repeat("%T %v ", len(names)))

	var args []string
	for _, n := range names {
		args = append(args, n, n)
	}

	return fmt.Sprintf("fmt.Printf(\"%s\\n\", %s)", f, strings.Join(args, ", "))
}

func showAll(vs ...any) string {
	var p []string
	for _, v := range vs {
		p = append(p, show(v))
	}

	return strings.Join(p, " ")
}

type endKind int

const (
	endOK endKind = iota
	endReject
	endEither
)

func errClass(e string) string {
	if i := strings.Index(e, "), "); i >= 0 && strings.HasPrefix(e, "at ") {
		e = e[i+3:]
	}

	if i := strings.Index(e, ":"); i >= 0 {
		e = e[:i]
	}

	return strings.ReplaceAll(strings.TrimSpace(e), " ", "-")
}

// seqEval is the oracle of a straight-line cell: the set-up line(s) must be printed
// exactly; then either the result lines exactly (endOK), or an Ego error before any
// result line (endReject), or one of the two (endEither).
func seqEval(base string, setup []opnd, results []string, end endKind, what string) func(o outcome) []finding {
	return func(o outcome) []finding {
		if o.panic != "" {
			return []finding{{Base: "panic:" + base, Desc: what + ": Go panic inside the interpreter", Expected: "no panic", Observed: firstLine(o.panic)}}
		}

		if f := setupCheck(o, setup, what); f != nil {
			return []finding{*f}
		}

		rest := o.lines[1:]

		switch end {
		case endOK:
			if o.err != "" {
				return []finding{{Base: base, Desc: what + ": failed, the document prescribes a value", Expected: strings.Join(results, " / "), Observed: "error: " + o.err}}
			}

			if strings.Join(rest, "\n") != strings.Join(results, "\n") {
				return []finding{{Base: base, Desc: what + ": wrong type or value", Expected: strings.Join(results, " / "), Observed: strings.Join(rest, " / ")}}
			}

		case endReject:
			if o.err == "" {
				return []finding{{Base: base, Desc: what + ": accepted, the document prescribes rejection in this mode", Expected: "an error", Observed: strings.Join(rest, " / ")}}
			}

			if o.compile && !strings.Contains(o.err, "type") && !strings.Contains(o.err, "precision") {
				return []finding{{Base: "harness:" + base, Desc: what + ": compile error unrelated to typing", Expected: "a typing error", Observed: o.err}}
			}

		case endEither:
			if o.err == "" && strings.Join(rest, "\n") != strings.Join(results, "\n") {
				return []finding{{Base: base, Desc: what + ": accepted with a wrong type or value", Expected: strings.Join(results, " / ") + " (or rejection)", Observed: strings.Join(rest, " / ")}}
			}
		}

		return nil
	}
}

func errSuffix(o outcome) string {
	if o.err != "" {
		return " ; error: " + o.err
	}

	return ""
}

func firstLine(s string) string {
	if i := strings.IndexByte(s, '\n'); i >= 0 {
		return s[:i]
	}

	return s
}

// opnd is one operand of a cell: the typed value the set-up must produce.
type opnd struct {
	t   numType
	cls string
	v   any
}

// setupCheck validates the first printed line (operands as "%T %v" pairs). A
// mismatch is keyed by the first operand that is not the intended typed value.
func setupCheck(o outcome, setup []opnd, what string) *finding {
	var want []string
	for _, p := range setup {
		want = append(want, show(p.v))
	}

	line := ""
	if len(o.lines) > 0 {
		line = o.lines[0]
	}

	if line == strings.Join(want, " ") {
		return nil
	}

	got := strings.Fields(line)
	key := "setup:" + setup[0].t.name + ":" + setup[0].cls

	for i, p := range setup {
		if 2*i+1 >= len(got) || got[2*i]+" "+got[2*i+1] != want[i] {
			key = "setup:" + p.t.name + ":" + p.cls

			break
		}
	}

	return &finding{Base: key, Desc: what + ": operand set-up did not produce the intended typed values",
		Expected: strings.Join(want, " "), Observed: strings.Join(o.lines, " / ") + errSuffix(o)}
}

// ---------------------------------------------------------------- families

// c03Keep, when set, restricts table construction to the cells a worker will run
// (building a cell allocates its program text and oracle closure).
var c03Keep func(id string) bool

func dropped(id string) bool { return c03Keep != nil && !c03Keep(id) }

// same: two variables of one type; every mode; result = Go's arithmetic in that type.
func famSame(mode string, vals map[string][]nval) []*cell {
	var out []*cell

	for _, t := range numTypes {
		vs := vals[t.name]

		for _, op := range binOps {
			group := fmt.Sprintf("same:%s:%s", opNames[op], t.name)

			for _, a := range vs {
				for _, b := range vs {
					id := fmt.Sprintf("%s/%s,%s/%s", group, a.cls, b.cls, mode)
					if dropped(id) {
						continue
					}

					want, ok := arith(op, a.v, b.v)
					if !ok {
						continue
					}

					body := append(declare("a", a.v), declare("b", b.v)...)
					body = append(body, printStmt("a", "b"), fmt.Sprintf("r := a %s b", op), printStmt("r"))
					what := fmt.Sprintf("%s(%v) %s %s(%v) [%s]", t.name, a.v, op, t.name, b.v, mode)
					out = append(out, &cell{
						id: id, fam: "same", group: group, mode: mode, body: body,
						eval: seqEval(group, []opnd{{t, a.cls, a.v}, {t, b.cls, b.v}}, []string{show(want)}, endOK, what),
					})
				}
			}
		}
	}

	return out
}

// constRule is the documented outcome of combining a typed variable with an
// untyped constant: the constant adapts to the variable's type (lossy allowed in
// dynamic/relaxed; strict requires a lossless adaptation).
func constRule(mode string, t numType, k kconst) (kv any, end endKind, defined bool) {
	kv, defined = conv(k.v, t.name)
	if !defined {
		return nil, endOK, false
	}

	end = endOK

	if mode == "strict" {
		switch constLoss(k.v, t) {
		case lossYes:
			end = endReject
		case lossAmbiguous:
			end = endEither
		}
	}

	return kv, end, true
}

// const: typed variable op untyped constant, and constant op variable.
func famConst(mode string, vals map[string][]nval) []*cell {
	var out []*cell

	for _, t := range numTypes {
		vs := pick(vals[t.name], "mid", "max", "m1", "rnd")

		for _, k := range kconsts {
			kv, end, defined := constRule(mode, t, k)
			if !defined {
				continue
			}

			for _, op := range binOps {
				for _, side := range []string{"R", "L"} {
					group := fmt.Sprintf("const:%s:%s:%s:%s", opNames[op], t.name, side, constCat(k, t))
					if strings.HasSuffix(constCat(k, t), "-negfloat") {
						// one coordinate less: whether "-2.5" is a constant does not depend on the operator or the side
						group = fmt.Sprintf("const:negfloat:%s:%s", t.name, strings.TrimSuffix(constCat(k, t), "-negfloat"))
					}

					for _, a := range vs {
						if end == endReject && a.cls != "mid" {
							continue // rejection depends on the constant and the kind, not on the variable's value
						}

						id := fmt.Sprintf("%s/%s%s/%s/k%s/%s", group, opNames[op], side, a.cls, k.text, mode)
						if dropped(id) {
							continue
						}

						var (
							want any
							ok   bool
							expr string
						)

						if side == "R" {
							want, ok = arith(op, a.v, kv)
							expr = fmt.Sprintf("a %s %s", op, k.text)
						} else {
							want, ok = arith(op, kv, a.v)
							expr = fmt.Sprintf("%s %s a", k.text, op)
						}

						if !ok {
							continue
						}

						body := append(declare("a", a.v), printStmt("a"), "r := "+expr, printStmt("r"))
						what := fmt.Sprintf("a=%s(%v); %s [%s]", t.name, a.v, expr, mode)

						out = append(out, &cell{
							id: id, fam: "const", group: group, mode: mode, body: body, solo: end != endOK,
							eval: seqEval(group, []opnd{{t, a.cls, a.v}}, []string{show(want)}, end, what),
						})
					}
				}
			}
		}
	}

	return out
}

func splitTV(line string) (typ, val string) {
	i := strings.IndexByte(line, ' ')
	if i < 0 {
		return line, ""
	}

	return line[:i], line[i+1:]
}

// promoted checks one "two typed kinds" result line against the document: the
// type is one of the two operand types, it is the lossless one when exactly one
// choice loses nothing, and the value is Go's computation in that type.
func promoted(base, what, line, op string, t1, t2 numType, a, b any) (string, *finding) {
	rt, _ := splitTV(line)

	if rt != t1.name && rt != t2.name {
		return rt, &finding{Base: base, Desc: what + ": result type is neither operand type", Expected: t1.name + " or " + t2.name, Observed: line}
	}

	if embeds(t1, t2) && !embeds(t2, t1) && rt != t2.name {
		return rt, &finding{Base: base, Desc: what + ": promoted to the type that loses precision although the other loses none", Expected: t2.name, Observed: line}
	}

	if embeds(t2, t1) && !embeds(t1, t2) && rt != t1.name {
		return rt, &finding{Base: base, Desc: what + ": promoted to the type that loses precision although the other loses none", Expected: t1.name, Observed: line}
	}

	ca, ok1 := conv(a, rt)
	cb, ok2 := conv(b, rt)

	if !ok1 || !ok2 {
		return rt, nil // Go leaves the conversion undefined: value not judged
	}

	want, ok := arith(op, ca, cb)
	if !ok {
		return rt, nil
	}

	if show(want) != line {
		return rt, &finding{Base: base, Desc: what + ": value differs from Go's computation in the promoted type", Expected: show(want), Observed: line}
	}

	return rt, nil
}

// mixed: two typed variables of different kinds.
func famMixed(mode string, vals map[string][]nval) []*cell {
	var out []*cell

	pairsOf := func(t1, t2 numType) [][2]nval {
		v1, v2 := vals[t1.name], vals[t2.name]
		sel := func(vs []nval, c string) nval {
			if p := pick(vs, c); len(p) > 0 {
				return p[0]
			}

			return pick(vs, "1")[0]
		}

		all := [][2]nval{{sel(v1, "1"), sel(v2, "1")}, {sel(v1, "mid"), sel(v2, "mid")}, {sel(v1, "max"), sel(v2, "max")},
			{sel(v1, "min"), sel(v2, "rnd")}, {sel(v1, "rnd"), sel(v2, "m1")}}
		if mode == "strict" {
			all = all[1:2] // rejection depends on the kinds, not on the values
		}

		var out [][2]nval

		seen := map[string]bool{}

		for _, p := range all {
			if k := p[0].cls + "," + p[1].cls; !seen[k] {
				seen[k] = true
				out = append(out, p)
			}
		}

		return out
	}

	for i, t1 := range numTypes {
		for j, t2 := range numTypes {
			if j <= i {
				continue
			}

			for _, op := range binOps {
				if op == "%" && (t1.class >= kFloat || t2.class >= kFloat) {
					continue // % on floats is outside the table
				}

				group := fmt.Sprintf("mixed:%s:%s:%s", opNames[op], t1.name, t2.name)

				for _, pr := range pairsOf(t1, t2) {
					a, b := pr[0], pr[1]
					if (op == "/" || op == "%") && (isZero(a.v) || isZero(b.v)) {
						continue
					}

					setup := append(declare("a", a.v), declare("b", b.v)...)
					setup = append(setup, printStmt("a", "b"))
					ops2 := []opnd{{t1, a.cls, a.v}, {t2, b.cls, b.v}}
					what := fmt.Sprintf("a=%s(%v) b=%s(%v) a%sb / b%sa [%s]", t1.name, a.v, t2.name, b.v, op, op, mode)
					idb := fmt.Sprintf("%s/%s,%s", group, a.cls, b.cls)
					if mode != "strict" && dropped(idb+"/"+mode) {
						continue
					}

					if mode == "strict" {
						for _, ord := range []string{"ab", "ba"} {
							if dropped(idb + "/" + ord + "/strict") {
								continue
							}

							expr := fmt.Sprintf("a %s b", op)
							if ord == "ba" {
								expr = fmt.Sprintf("b %s a", op)
							}

							body := append(append([]string{}, setup...), "r := "+expr, printStmt("r"))
							out = append(out, &cell{
								id: idb + "/" + ord + "/strict", fam: "mixed", group: group, mode: mode, body: body, solo: true,
								eval: seqEval(group, ops2, nil, endReject, what+" "+expr),
							})
						}

						continue
					}

					body := append(append([]string{}, setup...), fmt.Sprintf("r := a %s b", op), printStmt("r"), fmt.Sprintf("s := b %s a", op), printStmt("s"))
					t1c, t2c, av, bv, opc := t1, t2, a.v, b.v, op

					out = append(out, &cell{
						id: idb + "/" + mode, fam: "mixed", group: group, mode: mode, body: body,
						eval: func(o outcome) []finding {
							if o.panic != "" {
								return []finding{{Base: "panic:" + group, Desc: what + ": Go panic", Expected: "no panic", Observed: firstLine(o.panic)}}
							}

							if f := setupCheck(o, ops2, what); f != nil {
								return []finding{*f}
							}

							if o.err != "" || len(o.lines) != 3 {
								return []finding{{Base: group, Desc: what + ": failed, the document prescribes promotion in this mode", Expected: "two result lines", Observed: strings.Join(o.lines[1:], " / ") + errSuffix(o)}}
							}

							var fs []finding

							rt, f := promoted(group, what+" (a"+opc+"b)", o.lines[1], opc, t1c, t2c, av, bv)
							if f != nil {
								fs = append(fs, *f)
							}

							st, f := promoted(group, what+" (b"+opc+"a)", o.lines[2], opc, t2c, t1c, bv, av)
							if f != nil {
								fs = append(fs, *f)
							}

							if rt != st {
								fs = append(fs, finding{Base: group, Desc: what + ": a op b and b op a promote to different types", Expected: "same type both ways", Observed: o.lines[1] + " / " + o.lines[2]})
							}

							return fs
						},
					})
				}
			}
		}
	}

	return out
}

// stmt1: x++ / x += 1 / x = x + 1 and the -- forms: every numeric type, every mode.
func famStmt1(mode string, vals map[string][]nval) []*cell {
	var out []*cell

	one := kconst{"1", int64(1)}

	for _, t := range numTypes {
		k1, _, _ := constRule(mode, t, one)

		for _, dir := range []struct{ name, op string }{{"inc", "+"}, {"dec", "-"}} {
			forms := []struct{ name, stmt string }{
				{dir.name, "x" + dir.op + dir.op},
				{opNames[dir.op] + "-assign-1", "x " + dir.op + "= 1"},
				{"assign-" + opNames[dir.op] + "-1", "x = x " + dir.op + " 1"},
				// the same operator in a for-clause (executed once: the body runs once, then the clause)
				{"for-" + dir.name, "for n := 0; n < 1; x" + dir.op + dir.op + " {\n\t\tn = n + 1\n\t}"},
			}

			for _, a := range vals[t.name] {
				want, _ := arith(dir.op, a.v, k1)

				for _, f := range forms {
					group := fmt.Sprintf("stmt:%s:%s", f.name, t.name)
					id := fmt.Sprintf("%s/%s/%s", group, a.cls, mode)

					if dropped(id) {
						continue
					}

					body := append(declare("x", a.v), printStmt("x"), f.stmt, printStmt("x"))
					what := fmt.Sprintf("x=%s(%v); %s [%s]", t.name, a.v, f.stmt, mode)

					out = append(out, &cell{
						id: id, fam: "stmt1", group: group, mode: mode, body: body,
						eval:  seqEval(group, []opnd{{t, a.cls, a.v}}, []string{show(want)}, endOK, what),
						agree: fmt.Sprintf("agree:%s:%s/%s/%s", dir.name, t.name, a.cls, mode),
					})
				}
			}
		}
	}

	return out
}

// stmtK: x op= k against x = x op k for the documented compound operators.
func famStmtK(mode string, vals map[string][]nval) []*cell {
	var out []*cell

	for _, t := range numTypes {
		vs := pick(vals[t.name], "mid", "max", "rnd")

		for _, k := range kconsts {
			if k.text == "1" {
				continue // stmt1
			}

			kv, end, defined := constRule(mode, t, k)
			if !defined {
				continue
			}

			for _, op := range []string{"+", "-", "*", "/"} {
				for _, a := range vs {
					if end == endReject && a.cls != "mid" {
						continue
					}

					want, ok := arith(op, a.v, kv)
					if !ok {
						continue
					}

					for _, f := range []struct{ name, stmt string }{
						{opNames[op] + "-assign", fmt.Sprintf("x %s= %s", op, k.text)},
						{"assign-" + opNames[op], fmt.Sprintf("x = x %s %s", op, k.text)},
					} {
						group := fmt.Sprintf("stmt:%s:%s:%s", f.name, t.name, constCat(k, t))
						if strings.HasSuffix(constCat(k, t), "-negfloat") {
							group = fmt.Sprintf("stmt:negfloat:%s:%s", t.name, strings.TrimSuffix(constCat(k, t), "-negfloat"))
						}
						id := fmt.Sprintf("%s/%s/%s/k%s/%s", group, f.name, a.cls, k.text, mode)

						if dropped(id) {
							continue
						}

						body := append(declare("x", a.v), printStmt("x"), f.stmt, printStmt("x"))
						what := fmt.Sprintf("x=%s(%v); %s [%s]", t.name, a.v, f.stmt, mode)

						out = append(out, &cell{
							id: id, fam: "stmtK", group: group, mode: mode, body: body, solo: end != endOK,
							eval:  seqEval(group, []opnd{{t, a.cls, a.v}}, []string{show(want)}, end, what),
							agree: fmt.Sprintf("agree:%s:%s:%s/%s/k%s/%s", opNames[op], t.name, constCat(k, t), a.cls, k.text, mode),
						})
					}
				}
			}
		}
	}

	return out
}

// stmtMixed: x op= b against x = x op b with b a typed variable of another kind.
// dynamic: the variable takes the type of the expression x op b; relaxed: the
// variable keeps its type and the value is converted; strict: rejected.
func famStmtMixed(mode string, vals map[string][]nval) []*cell {
	var out []*cell

	for _, t1 := range numTypes {
		for _, t2 := range numTypes {
			if t1.name == t2.name {
				continue
			}

			a, b := pick(vals[t1.name], "mid")[0], pick(vals[t2.name], "rnd")[0]

			for _, op := range []string{"+", "-", "*", "/"} {
				for _, f := range []struct{ name, stmt string }{
					{opNames[op] + "-assign", fmt.Sprintf("x %s= b", op)},
					{"assign-" + opNames[op], fmt.Sprintf("x = x %s b", op)},
				} {
					group := fmt.Sprintf("stmtmixed:%s:%s:%s", f.name, t1.name, t2.name)
					setup := append(declare("x", a.v), declare("b", b.v)...)
					setup = append(setup, printStmt("x", "b"))
					ops2 := []opnd{{t1, a.cls, a.v}, {t2, b.cls, b.v}}
					what := fmt.Sprintf("x=%s(%v) b=%s(%v); %s [%s]", t1.name, a.v, t2.name, b.v, f.stmt, mode)
					id := fmt.Sprintf("%s/%s", group, mode)
					if dropped(id) || (mode == "strict" && (op == "-" || op == "/")) {
						continue // strict rejection depends on the kinds: two operators suffice
					}
					ag := fmt.Sprintf("agree:%s:%s:%s/%s", opNames[op], t1.name, t2.name, mode)

					if mode == "strict" {
						body := append(append([]string{}, setup...), f.stmt, printStmt("x"))
						out = append(out, &cell{id: id, fam: "stmtMixed", group: group, mode: mode, body: body, solo: true, agree: ag,
							eval: seqEval(group, ops2, nil, endReject, what)})

						continue
					}

					body := append(append([]string{}, setup...), fmt.Sprintf("e := x %s b", op), printStmt("e"), f.stmt, printStmt("x"))
					t1c, modec, av, bv, opc := t1, mode, a.v, b.v, op

					out = append(out, &cell{id: id, fam: "stmtMixed", group: group, mode: mode, body: body, agree: ag,
						eval: func(o outcome) []finding {
							if o.panic != "" {
								return []finding{{Base: "panic:" + group, Desc: what + ": Go panic", Expected: "no panic", Observed: firstLine(o.panic)}}
							}

							if f := setupCheck(o, ops2, what); f != nil {
								return []finding{*f}
							}

							if len(o.lines) < 2 {
								return nil // the expression itself failed: that is the mixed family's finding, not this one's
							}

							if et, _ := splitTV(o.lines[1]); modec == "relaxed" && o.err != "" && len(o.lines) == 2 && strings.HasPrefix(et, "complex") && t1c.class != kComplex {
								return nil // complex -> real is documented as never implicit: relaxed assignment may refuse it
							}

							if o.err != "" || len(o.lines) != 3 {
								return []finding{{Base: group, Desc: what + ": the statement failed although the same expression succeeded", Expected: "value of " + o.lines[1], Observed: strings.Join(o.lines[2:], " / ") + errSuffix(o)}}
							}

							e, x := o.lines[1], o.lines[2]

							if modec == "dynamic" {
								if x != e {
									return []finding{{Base: group, Desc: what + ": variable does not take the type/value of the expression (dynamic mode)", Expected: e, Observed: x}}
								}

								return nil
							}

							// relaxed: type stays, value converted from the expression's value
							xt, _ := splitTV(x)
							if xt != t1c.name {
								return []finding{{Base: group, Desc: what + ": relaxed mode changed the variable's type", Expected: t1c.name + " ...", Observed: x}}
							}

							// value: Go's computation in the expression's type, converted to the variable's type
							et, _ := splitTV(e)
							ca, ok1 := conv(av, et)
							cb, ok2 := conv(bv, et)

							if ok1 && ok2 {
								if w, ok := arith(opc, ca, cb); ok {
									if cw, ok := conv(w, t1c.name); ok && show(cw) != x {
										return []finding{{Base: group, Desc: what + ": relaxed mode stored a value that is not the expression's value converted to the variable's type", Expected: show(cw), Observed: x}}
									}
								}
							}

							return nil
						},
					})
				}
			}
		}
	}

	return out
}

// neg: unary minus on every signed and floating type (complex and unsigned are
// executed and counted but not judged: the property does not name them).
func famNeg(mode string, vals map[string][]nval) []*cell {
	var out []*cell

	for _, t := range numTypes {
		if t.class != kSigned && t.class != kFloat {
			continue
		}

		for _, a := range vals[t.name] {
			want := negate(a.v)

			for _, f := range []struct {
				src  string
				body []string
			}{
				{"var", []string{"r := -a", printStmt("r")}},
				{"stmt", []string{"a = -a", printStmt("a")}},
				{"paren", []string{"r := -(a)", printStmt("r")}},
				{"double", []string{"r := -(-a)", printStmt("r")}},
			} {
				w := want
				if f.src == "double" {
					w = negate(want)
				}

				group := fmt.Sprintf("neg:%s:%s", t.name, f.src)
				id := fmt.Sprintf("%s/%s/%s", group, a.cls, mode)

				if dropped(id) {
					continue
				}

				body := append(declare("a", a.v), printStmt("a"))
				body = append(body, f.body...)
				what := fmt.Sprintf("a=%s(%v); %s [%s]", t.name, a.v, f.body[0], mode)

				out = append(out, &cell{
					id: id, fam: "neg", group: group, mode: mode, body: body,
					eval: seqEval(group, []opnd{{t, a.cls, a.v}}, []string{show(w)}, endOK, what),
				})
			}
		}
	}

	return out
}

// buildC03 enumerates the whole table for one seed (the seed only chooses the
// "rnd" value of each type; every coordinate is enumerated).
func buildC03(seed int64) []*cell {
	rng := rand.New(rand.NewSource(seed*7919 + 3))
	vals := map[string][]nval{}

	for _, t := range numTypes {
		vals[t.name] = valuesOf(t, rng)
	}

	var out []*cell

	for _, m := range modes {
		out = append(out, famSame(m, vals)...)
		out = append(out, famConst(m, vals)...)
		out = append(out, famMixed(m, vals)...)
		out = append(out, famStmt1(m, vals)...)
		out = append(out, famStmtK(m, vals)...)
		out = append(out, famStmtMixed(m, vals)...)
		out = append(out, famNeg(m, vals)...)
		out = append(out, famNamed(m, vals)...)
	}

	out = append(out, famRetyped()...)

	return out
}
