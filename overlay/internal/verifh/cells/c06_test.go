package cells

// C06 — Literal values agree with Go.
//
// Events: for every generated literal spelling, the line printed by Go and the line
// printed by Ego for the same expression through the same explicit verb
// (%d integers and runes, %b floats (exact binary form), %b %b real/imag parts, %q strings).
// Oracle: Go itself — one batch Go program is built and run with the Go toolchain at
// run time; lines must be equal. Only spellings that go/scanner and strconv accept
// are ever emitted.

import (
	"encoding/json"
	"fmt"
	"os"
	"os/exec"
	"path/filepath"
	"sort"
	"strings"
	"testing"

	"github.com/tucats/ego/internal/verifh/egorun"
	"github.com/tucats/ego/internal/verifh/vh"
)

// the HOME the test process was started with: the go command needs it (module and
// build cache, toolchain switch); egorun.Init() later points $HOME at an isolated directory.
var origHome = os.Getenv("HOME")

type c06Case struct {
	Kind    int    `json:"kind"`
	Text    string `json:"text"`
	Ctx     string `json:"ctx"`
	Config  string `json:"config"`
	Program string `json:"program"`
}

const goChunk = 400

func goProgram(items []litItem) string {
	var b strings.Builder

	b.WriteString("package main\n\nimport \"fmt\"\n\n")

	nf := 0

	for i := 0; i < len(items); i += goChunk {
		fmt.Fprintf(&b, "func f%d() {\n", nf)

		for j := i; j < i+goChunk && j < len(items); j++ {
			b.WriteString("\t" + items[j].stmt(j) + "\n")
		}

		b.WriteString("}\n\n")

		nf++
	}

	b.WriteString("func main() {\n")

	for i := 0; i < nf; i++ {
		fmt.Fprintf(&b, "\tf%d()\n", i)
	}

	b.WriteString("}\n")

	return b.String()
}

// runGoBatch builds and runs the batch Go program; returns one output line per item.
func runGoBatch(dir string, items []litItem) ([]string, error) {
	if err := os.MkdirAll(dir, 0o755); err != nil {
		return nil, err
	}

	if err := os.WriteFile(filepath.Join(dir, "go.mod"), []byte("module batch\n\ngo 1.26\n"), 0o644); err != nil {
		return nil, err
	}

	if err := os.WriteFile(filepath.Join(dir, "main.go"), []byte(goProgram(items)), 0o644); err != nil {
		return nil, err
	}

	var env []string

	for _, e := range os.Environ() {
		if strings.HasPrefix(e, "HOME=") || strings.HasPrefix(e, "GOFLAGS=") || strings.HasPrefix(e, "GOPROXY=") || strings.HasPrefix(e, "EGO_") {
			continue
		}

		env = append(env, e)
	}

	home := origHome
	if home == "" {
		home = "/root"
	}

	env = append(env, "HOME="+home, "GOFLAGS=-mod=mod", "GOPROXY=off")

	build := exec.Command("go", "build", "-o", "batch", ".")
	build.Dir, build.Env = dir, env

	if out, err := build.CombinedOutput(); err != nil {
		return nil, fmt.Errorf("go build of the reference batch failed: %v\n%s", err, vh.Trunc(string(out), 3000))
	}

	run := exec.Command(filepath.Join(dir, "batch"))
	run.Dir = dir

	out, err := run.Output()
	if err != nil {
		return nil, fmt.Errorf("reference batch failed: %v", err)
	}

	lines := strings.Split(strings.TrimSuffix(string(out), "\n"), "\n")
	if len(lines) != len(items) {
		return nil, fmt.Errorf("reference batch printed %d lines for %d literals", len(lines), len(items))
	}

	return lines, nil
}

func egoProgram(items []litItem, base int) string {
	var b strings.Builder

	b.WriteString("import \"fmt\"\n\nfunc main() {\n")

	for j, it := range items {
		b.WriteString("\t" + it.stmt(base+j) + "\n")
	}

	b.WriteString("}\n")

	return b.String()
}

type egoLine struct {
	line string
	err  string
	prog string
}

// runEgoItems prints every item with Ego under cfg: batches of one class, and a batch
// that does not yield exactly one line per item (compile error, runtime error) is
// re-run one literal per program so the failing spelling is identified.
func runEgoItems(items []litItem, cfg egorun.Config, st *runStats) []egoLine {
	out := make([]egoLine, len(items))

	solo := func(i int) {
		src := egoProgram(items[i:i+1], i)
		res := egorun.Run(src, cfg)
		st.programs++
		st.soloRuns++

		l := strings.TrimSuffix(res.Out, "\n")
		e := res.Err

		if res.Panic != "" {
			e = "PANIC " + firstLine(res.Panic)
		}

		out[i] = egoLine{line: l, err: e, prog: src}
	}

	for i := 0; i < len(items); {
		j := i
		for j < len(items) && j-i < 100 && items[j].class == items[i].class {
			j++
		}

		src := egoProgram(items[i:j], i)
		res := egorun.Run(src, cfg)
		st.programs++

		lines := strings.Split(strings.TrimSuffix(res.Out, "\n"), "\n")

		if res.Err == "" && res.Panic == "" && len(lines) == j-i {
			for k := i; k < j; k++ {
				out[k] = egoLine{line: lines[k-i], prog: ""}
			}
		} else {
			st.batchBreaks++

			for k := i; k < j; k++ {
				solo(k)
			}
		}

		i = j
	}

	return out
}

func TestC06(t *testing.T) {
	r := vh.New("C06", "literals")
	r.Rule = "spellings enumerated from the Go spec literal grammar: 40 boundary integers x every radix/prefix/case spelling, '_' at every single position, every pair of positions and all positions of digit strings in every radix (and after the prefix), " +
		"mantissa-shape x exponent-shape products for decimal and hex floats, imaginary forms of every number shape, every ASCII rune, all 256 octal and hex rune escapes, \\u/\\U escapes at encoding boundaries, every escape in 8 string positions, raw strings with newlines/backslashes/quotes/CR, " +
		"int64/uint64/float64 boundary values; a fixed quarter also through a variable; thorough adds PRNG compositions of the same grammar. distinct = distinct (spelling, context, configuration); non-trivial = every literal except the bare digits 0-9."
	r.Assume("the Go toolchain (go build at run time) is the reference for what a literal denotes; go/scanner + strconv decide which spellings Go accepts")
	r.Assume("fmt.Printf with %d/%b/%q inside Ego hands the value to Go's fmt; a literal that becomes a value of another type shows as a %!verb line and is reported")

	known := vh.KnownKeys("C06")
	rng := vh.Rand("c06-random")
	ls := enumerateLiterals()
	nEnum := len(ls.items)

	var replay *c06Case

	if rc := vh.ReplayCase(); rc != nil {
		replay = &c06Case{}
		if err := json.Unmarshal(rc, replay); err != nil || replay.Text == "" {
			t.Fatalf("replay case unreadable: %v", err)
		}

		if !goAccepts(litKind(replay.Kind), replay.Text) {
			t.Fatalf("replay: %q is not a literal Go accepts", replay.Text)
		}

		ls.items = []litItem{{kind: litKind(replay.Kind), text: replay.Text, class: classify(litKind(replay.Kind), replay.Text), ctx: replay.Ctx, from: "replay"},
			{kind: litInt, text: "1", class: "int:dec", ctx: "arg", from: "replay"}}
		nEnum = len(ls.items)
	} else if nr := vh.N(0, 20000); nr > 0 {
		skipped := randomLiterals(rng, nEnum+nr, known, ls)
		r.Count("random.skipped-known-class", int64(skipped))
	}

	items := ls.items
	sort.SliceStable(items, func(i, j int) bool { return items[i].class < items[j].class })

	r.Count("literals.enumerated", int64(nEnum))
	r.Count("literals.random", int64(len(items)-nEnum))
	r.Count("generator.rejected-by-go-scanner", int64(ls.drops))

	arena := os.Getenv("VERIF_ARENA")
	if arena == "" {
		arena = os.TempDir()
	}

	goLines, err := runGoBatch(filepath.Join(arena, "c06-go"), items)
	if err != nil {
		t.Fatalf("harness: %v", err)
	}

	r.Count("reference.go-lines", int64(len(goLines)))

	egorun.Init()

	var st runStats

	configs := []struct {
		name string
		cfg  egorun.Config
	}{{"dynamic-o0", egorun.Config{Types: "dynamic", Opt: 0}}, {"strict-o2", egorun.Config{Types: "strict", Opt: 2}}}

	failedMain := map[int]bool{}
	classTotal, classBad := map[string]int{}, map[string]int{}

	for ci, c := range configs {
		got := runEgoItems(items, c.cfg, &st)

		for i, it := range items {
			trivial := it.kind == litInt && len(it.text) == 1
			r.Eval(fmt.Sprintf("%d/%s/%s/%s", it.kind, it.text, it.ctx, c.name), !trivial)
			r.Count("compared."+[]string{"int", "float", "imag", "rune", "string", "raw"}[it.kind], 1)

			if ci == 0 {
				classTotal[it.class]++
			}

			g := got[i]
			if g.err == "" && g.line == goLines[i] {
				r.Count("equal."+c.name, 1)

				continue
			}

			key := it.class
			if ci > 0 {
				if failedMain[i] {
					continue // same spelling already reported under the main configuration
				}

				key += ":" + c.name
			} else {
				failedMain[i] = true
				classBad[it.class]++
			}

			obs := g.line
			if g.err != "" {
				obs = "error: " + g.err
			}

			prog := g.prog
			if prog == "" {
				prog = egoProgram(items[i:i+1], i)
			}

			r.Violate(vh.Violation{Key: key, Desc: fmt.Sprintf("[%s, %s] literal %s (%s): Go prints %q, Ego %s", c.name, it.ctx, vh.Trunc(it.text, 120), it.from, vh.Trunc(goLines[i], 200), vh.Trunc(obs, 200)),
				Case:     c06Case{Kind: int(it.kind), Text: it.text, Ctx: it.ctx, Config: c.name, Program: prog},
				Expected: goLines[i], Observed: obs})
		}
	}

	// per-class picture (which classes exist, how many spellings, how many differ)
	var cls []string
	for k := range classTotal {
		cls = append(cls, k)
	}

	sort.Strings(cls)

	var pic []string

	for _, k := range cls {
		pic = append(pic, fmt.Sprintf("%s=%d/%d", k, classTotal[k]-classBad[k], classTotal[k]))
	}

	r.Note("classes (equal/total, main configuration): " + strings.Join(pic, " "))
	r.Count("classes", int64(len(cls)))
	r.Count("run.ego-programs", st.programs)
	r.Count("run.ego-solo-programs", st.soloRuns)

	for i := 0; i < len(items) && len(r.Samples) < 6; i += len(items)/6 + 1 {
		r.Sample(map[string]any{"literal": vh.Trunc(items[i].text, 80), "class": items[i].class, "ctx": items[i].ctx, "go": vh.Trunc(goLines[i], 80)})
	}

	if replay != nil {
		r.Distinct = 2
	}

	if r.Evaluations == 0 {
		t.Fatal("observed nothing")
	}

	if err := r.Write(); err != nil {
		t.Fatal(err)
	}
}
