package cells

// Batch runner for enumerated cells: several cells per Ego program (one function
// per cell, a marker line before each call) so a failing cell stays attributable;
// a cell that stops a batch is re-run alone and the rest of the batch is re-batched.

import (
	"fmt"
	"strings"

	"github.com/tucats/ego/internal/verifh/egorun"
)

// outcome of one cell in one configuration.
type outcome struct {
	lines   []string // stdout lines of the cell, normalised
	err     string   // Ego error text ("" = completed)
	compile bool     // the error was a compile error
	panic   string   // recovered Go panic
	program string   // the program text that produced this outcome
	solo    bool     // produced by a one-cell program
}

func (o outcome) sig() string {
	s := strings.Join(o.lines, "|")
	if o.panic != "" {
		return s + "|PANIC"
	}

	if o.err != "" {
		return s + "|ERR"
	}

	return s
}

// finding is an oracle complaint about one cell; base is the key without the
// mode / optimizer coordinates (those are added by the collector).
type finding struct {
	Base     string `json:"base"`
	Desc     string `json:"desc"`
	Expected string `json:"expected"`
	Observed string `json:"observed"`
}

type cell struct {
	id    string   // unique within the table; contains the value-class names, not the values
	fam   string   // family name (evidence counters)
	group string   // coordinates without value class and mode: unit of level-2 sampling
	mode  string   // dynamic | relaxed | strict
	solo  bool     // must run alone (an error is an acceptable/expected outcome)
	pre   []string // file-scope declarations placed before the cell function ("@N@" = the cell's index in the program)
	body  []string // Ego statements of the cell function ("@N@" as above)
	cfold bool     // compile with same-unit constant folding on (ego.compiler.constfold, the default); off for the classic families
	eval  func(o outcome) []finding
	agree string // non-empty: cells sharing this tag (same mode/level) must have equal outcome signatures
}

// pad makes a cell function long enough for optimizer level 1 (which only
// optimizes bytecode of >= 50 instructions) to actually run its rules.
var padLines = func() []string {
	var out []string
	for i := 0; i < 14; i++ {
		out = append(out, fmt.Sprintf("zp%d := %d", i, i), fmt.Sprintf("_ = zp%d", i))
	}

	return out
}()

func cellFunc(idx int, c *cell, opt int) string {
	var b strings.Builder

	n := fmt.Sprint(idx)

	for _, l := range c.pre {
		b.WriteString(strings.ReplaceAll(l, "@N@", n) + "\n")
	}

	fmt.Fprintf(&b, "func c%d() {\n", idx)

	if opt == 1 {
		for _, l := range padLines {
			b.WriteString("\t" + l + "\n")
		}
	}

	for _, l := range c.body {
		b.WriteString("\t" + strings.ReplaceAll(l, "@N@", n) + "\n")
	}

	b.WriteString("}\n")

	return b.String()
}

func program(cs []*cell, opt int) string {
	var b strings.Builder

	b.WriteString("import \"fmt\"\n\n")

	for i, c := range cs {
		b.WriteString(cellFunc(i, c, opt))
	}

	b.WriteString("func main() {\n")

	for i := range cs {
		fmt.Fprintf(&b, "\tfmt.Println(\"#%d\")\n\tc%d()\n", i, i)
	}

	b.WriteString("\tfmt.Println(\"#end\")\n}\n")

	return b.String()
}

// runCfg is the part of the interpreter configuration that is a table coordinate:
// optimizer level and the global-reference cache (ego.runtime.globalcache).
type runCfg struct {
	Opt int  `json:"opt"`
	GC  bool `json:"gc"`
}

func cfgFor(c *cell, rc runCfg) egorun.Config {
	return egorun.Config{Types: c.mode, Opt: rc.Opt, GlobalCache: rc.GC, ConstFold: c.cfold}
}

type runStats struct {
	programs, soloRuns, batchBreaks int64
}

// runSolo runs one cell as its own program.
func runSolo(c *cell, rc runCfg, st *runStats) outcome {
	opt := rc.Opt
	src := program([]*cell{c}, opt)
	res := egorun.Run(src, cfgFor(c, rc))
	st.programs++
	st.soloRuns++

	o := outcome{err: res.Err, compile: res.CompileErr, panic: res.Panic, program: src, solo: true}

	for _, l := range strings.Split(res.Out, "\n") {
		l = strings.TrimRight(l, "\r")
		if l == "" || l == "#0" || l == "#end" {
			continue
		}

		o.lines = append(o.lines, normLine(l))
	}

	return o
}

// runCells runs all cells (one mode, one configuration) and calls done for each.
func runCells(all []*cell, rc runCfg, batch int, st *runStats, done func(c *cell, o outcome)) {
	// constant folding is a compile-time switch: one pass per value
	for _, cf := range []bool{false, true} {
		var cs []*cell

		for _, c := range all {
			if c.cfold == cf {
				cs = append(cs, c)
			}
		}

		if len(cs) > 0 {
			runCellsOne(cs, rc, batch, st, done)
		}
	}
}

func runCellsOne(cs []*cell, rc runCfg, batch int, st *runStats, done func(c *cell, o outcome)) {
	var pending []*cell

	opt := rc.Opt
	breaksInARow := 0

	flush := func() {
		for len(pending) > 0 {
			n := len(pending)
			if n > batch {
				n = batch
			}

			group := pending[:n]
			pending = pending[n:]

			if breaksInARow >= 2 {
				// a cluster of failing cells: re-batching after every failure is quadratic, run them alone
				for _, c := range group {
					done(c, runSolo(c, rc, st))
				}

				breaksInARow = 0

				continue
			}

			src := program(group, opt)
			res := egorun.Run(src, cfgFor(group[0], rc))
			st.programs++

			// split the output at the markers
			segs := make([][]string, len(group))
			cur, seenEnd := -1, false

			for _, l := range strings.Split(res.Out, "\n") {
				l = strings.TrimRight(l, "\r")
				if l == "" {
					continue
				}

				if l == "#end" {
					seenEnd = true

					continue
				}

				if strings.HasPrefix(l, "#") {
					var k int
					if _, err := fmt.Sscanf(l, "#%d", &k); err == nil && k == cur+1 && k < len(group) {
						cur = k

						continue
					}
				}

				if cur >= 0 {
					segs[cur] = append(segs[cur], normLine(l))
				}
			}

			complete := cur // cells [0,complete) finished for sure
			if res.Err == "" && res.Panic == "" && seenEnd {
				complete = len(group)
			}

			if complete < 0 {
				complete = 0
			}

			for i := 0; i < complete; i++ {
				done(group[i], outcome{lines: segs[i], program: src})
			}

			if complete == len(group) {
				breaksInARow = 0
			}

			if complete < len(group) {
				// the cell that stopped the batch is judged on its own program; the rest is re-batched
				st.batchBreaks++
				breaksInARow++

				if res.CompileErr || cur < 0 {
					// nothing ran: every cell alone
					for _, c := range group {
						done(c, runSolo(c, rc, st))
					}

					continue
				}

				bad := group[complete]
				o := runSolo(bad, rc, st)

				if o.err == "" && o.panic == "" {
					// alone it completes, in the batch it stopped the program: report the batch outcome as it happened
					o = outcome{lines: segs[complete], err: res.Err, panic: res.Panic, program: src}
				}

				done(bad, o)

				pending = append(append([]*cell{}, group[complete+1:]...), pending...)
			}
		}
	}

	for _, c := range cs {
		if c.solo {
			done(c, runSolo(c, rc, st))

			continue
		}

		pending = append(pending, c)
		if len(pending) >= batch {
			flush()
		}
	}

	flush()
}
