package conc

// Process plumbing shared by C08 and C42: the test binary re-executes itself as a worker
// (one child process per batch, inputs written to disk first), with the Go race detector's
// log sent to a file of its own, so that
//   - a Go fatal error (concurrent map writes, ...) or a deadlock ends one worker, not the check;
//   - every race report can be attributed to the run that was executing when it was written;
//   - race blocks are keyed by the full function names of the two conflicting accesses.

import (
	"bufio"
	"encoding/json"
	"fmt"
	"os"
	"os/exec"
	"path/filepath"
	"regexp"
	"runtime"
	"sort"
	"strings"
	"sync/atomic"
	"syscall"
	"time"

	"github.com/tucats/ego/internal/language/bytecode"
)

// RaceBlock is one "WARNING: DATA RACE" report.
type RaceBlock struct {
	Key  string `json:"key"`
	Text string `json:"text"`
}

var frameRE = regexp.MustCompile(`^\s+(github\.com/tucats/ego/\S+?)\(\)\s*$`)

// ParseRaceBlocks splits race-detector output into blocks and keys each by the innermost ego
// frame (full function name, no line numbers) of each of the two conflicting accesses, in
// sorted order (the detector reports the two accesses in either order).
func ParseRaceBlocks(text string) []RaceBlock {
	var out []RaceBlock

	parts := strings.Split(text, "WARNING: DATA RACE")
	for _, b := range parts[1:] {
		if end := strings.Index(b, "=================="); end > 0 {
			b = b[:end]
		}

		out = append(out, RaceBlock{Key: raceKey(b), Text: "WARNING: DATA RACE" + b})
	}

	return out
}

func raceKey(block string) string {
	// sections are separated by blank lines: access 1, access 2, goroutine creation stacks...
	var tops []string

	for _, sec := range strings.Split(block, "\n\n") {
		lines := strings.Split(strings.TrimLeft(sec, "\n"), "\n")
		if len(lines) == 0 {
			continue
		}

		head := lines[0]
		isAccess := strings.Contains(head, " at 0x") && (strings.Contains(head, "ead") || strings.Contains(head, "rite"))

		if !isAccess {
			continue
		}

		top, first := "non-ego", true

		for _, ln := range lines[1:] {
			m := frameRE.FindStringSubmatch(ln)
			if m == nil {
				continue
			}

			f := strings.TrimPrefix(strings.TrimPrefix(m[1], "github.com/tucats/ego/internal/"), "github.com/tucats/ego/")

			if first {
				top, first = f, false
			}

			// Walking outwards: reaching the interpreter's run loop or the router's ServeHTTP first
			// means the access was made by ego on behalf of a program or request; reaching a harness
			// frame first means the harness itself called into ego (settings, cache flush) and the
			// access is the harness's own doing.
			// (Contains, not equality: deferred parts of these functions appear as ServeHTTP.deferwrap2, Run.func1 ...)
			if strings.Contains(f, "bytecode.(*Context).Run") || strings.Contains(f, "router.(*Router).ServeHTTP") {
				break
			}

			if strings.HasPrefix(f, "verifh/") {
				top = "verifh/<-" + top

				break
			}
		}

		tops = append(tops, top)
	}

	sort.Strings(tops)

	if len(tops) == 0 {
		return "race:unknown"
	}

	for _, t := range tops {
		if strings.HasPrefix(t, "verifh/") {
			return "harness-race:" + strings.Join(tops, "~")
		}
	}

	return "race:" + strings.Join(tops, "~")
}

// isHarnessRace: one of the two accesses was made by harness code itself (e.g. a global setting
// written between two executions while a goroutine of the previous program was still returning).
func isHarnessRace(key string) bool { return strings.HasPrefix(key, "harness-race:") }

// workerResult is what happened to one worker process.
type workerResult struct {
	ExitCode int
	Fatal    string // text of a Go "fatal error:" / unrecovered panic with its first stack, "" if none
	Timeout  bool   // the parent's watchdog had to end it
	LogTail  string
	RaceText string // everything the race detector wrote for this process
}

// raceLogPath returns the log_path prefix used for worker number n.
func raceLogPrefix(dir string, tag string) string {
	return filepath.Join(dir, "race-"+tag)
}

// runWorker re-executes the test binary running only testName, with extra env, and waits.
// idle is the watchdog: if the progress file does not grow for that long the worker gets SIGQUIT
// (its goroutine dump lands in the log) and the result is marked Timeout.
func runWorker(testName string, env map[string]string, logPath, racePrefix, progressFile string, idle time.Duration) workerResult {
	var res workerResult

	cmd := exec.Command(os.Args[0], "-test.run", "^"+testName+"$", "-test.timeout", "0", "-test.count", "1", "-test.v")
	cmd.Env = os.Environ()

	for k, v := range env {
		cmd.Env = append(cmd.Env, k+"="+v)
	}

	cmd.Env = append(cmd.Env, "GORACE=halt_on_error=0 log_path="+racePrefix)

	lf, err := os.Create(logPath)
	if err != nil {
		res.Fatal = "cannot create worker log: " + err.Error()
		res.ExitCode = -1

		return res
	}

	cmd.Stdout, cmd.Stderr = lf, lf

	if err := cmd.Start(); err != nil {
		lf.Close()

		res.Fatal = "cannot start worker: " + err.Error()
		res.ExitCode = -1

		return res
	}

	done := make(chan error, 1)
	go func() { done <- cmd.Wait() }()

	lastSize, lastChange := int64(-1), time.Now()
	tick := time.NewTicker(500 * time.Millisecond)

	defer tick.Stop()

wait:
	for {
		select {
		case err = <-done:
			break wait
		case <-tick.C:
			if st, e := os.Stat(progressFile); e == nil && st.Size() != lastSize {
				lastSize, lastChange = st.Size(), time.Now()
			}

			if time.Since(lastChange) > idle && !res.Timeout {
				res.Timeout = true
				_ = cmd.Process.Signal(syscall.SIGQUIT)
				lastChange = time.Now() // give it the same time again before SIGKILL
			} else if res.Timeout && time.Since(lastChange) > 20*time.Second {
				_ = cmd.Process.Kill()
			}
		}
	}

	lf.Close()

	if cmd.ProcessState != nil {
		res.ExitCode = cmd.ProcessState.ExitCode()
	}

	_ = err

	b, _ := os.ReadFile(logPath)
	log := string(b)

	if len(log) > 20000 {
		res.LogTail = log[len(log)-20000:]
	} else {
		res.LogTail = log
	}

	if !res.Timeout {
		res.Fatal = fatalOf(log)
	}

	// race log(s) of this process (log_path.<pid>)
	if cmd.Process != nil {
		if rb, e := os.ReadFile(fmt.Sprintf("%s.%d", racePrefix, cmd.Process.Pid)); e == nil {
			res.RaceText = string(rb)
		}
	}

	return res
}

// fatalOf extracts a Go fatal error or unrecovered panic (header + first goroutine stack).
func fatalOf(log string) string {
	idx := -1

	for _, marker := range []string{"fatal error: ", "\npanic: "} {
		if i := strings.Index(log, marker); i >= 0 && (idx < 0 || i < idx) {
			idx = i
		}
	}

	if idx < 0 {
		return ""
	}

	s := log[idx:]
	if len(s) > 6000 {
		s = s[:6000]
	}

	return strings.TrimSpace(s)
}

// fatalKey: kind of fatal error plus the first two ego frames of the crashing goroutine.
func fatalKey(fatal string) string {
	first := strings.SplitN(strings.TrimPrefix(strings.TrimSpace(fatal), "panic: "), "\n", 2)[0]
	first = strings.TrimPrefix(first, "fatal error: ")

	if i := strings.Index(first, " ["); i > 0 {
		first = first[:i]
	}

	words := strings.Fields(first)
	if len(words) > 6 {
		words = words[:6]
	}

	re := regexp.MustCompile(`(?m)^(github\.com/tucats/ego/\S+)\(`)

	var frames []string

	for _, m := range re.FindAllStringSubmatch(fatal, -1) {
		if strings.Contains(m[1], "/verifh/") {
			continue
		}

		f := strings.TrimPrefix(m[1], "github.com/tucats/ego/internal/")
		frames = append(frames, strings.TrimPrefix(f, "github.com/tucats/ego/"))

		if len(frames) == 2 {
			break
		}
	}

	return "fatal:" + strings.Join(words, "_") + ":" + strings.Join(frames, "|")
}

// readJSONL reads a JSON-lines file, ignoring a torn last line.
func readJSONL[T any](path string) []T {
	f, err := os.Open(path)
	if err != nil {
		return nil
	}

	defer f.Close()

	var out []T

	sc := bufio.NewScanner(f)
	sc.Buffer(make([]byte, 1<<20), 64<<20)

	for sc.Scan() {
		var v T
		if json.Unmarshal(sc.Bytes(), &v) == nil {
			out = append(out, v)
		}
	}

	return out
}

type jsonlWriter struct{ f *os.File }

func newJSONL(path string) (*jsonlWriter, error) {
	f, err := os.OpenFile(path, os.O_CREATE|os.O_WRONLY|os.O_APPEND, 0o644)

	return &jsonlWriter{f}, err
}

func (w *jsonlWriter) put(v any) {
	b, _ := json.Marshal(v)
	_, _ = w.f.Write(append(b, '\n'))
}

// allStacks returns every goroutine's stack (watchdog evidence).
func allStacks() string {
	buf := make([]byte, 1<<20)
	n := runtime.Stack(buf, true)

	return string(buf[:n])
}

// raceLogReader reads what the race detector appended to this process's log since the last call.
type raceLogReader struct {
	path string
	off  int64
}

func newRaceLogReader() *raceLogReader {
	// GORACE="... log_path=X" -> file X.<pid>
	for _, f := range strings.Fields(os.Getenv("GORACE")) {
		if strings.HasPrefix(f, "log_path=") {
			return &raceLogReader{path: fmt.Sprintf("%s.%d", strings.TrimPrefix(f, "log_path="), os.Getpid())}
		}
	}

	return &raceLogReader{}
}

func (r *raceLogReader) next() string {
	if r.path == "" {
		return ""
	}

	f, err := os.Open(r.path)
	if err != nil {
		return ""
	}

	defer f.Close()

	st, err := f.Stat()
	if err != nil || st.Size() <= r.off {
		return ""
	}

	buf := make([]byte, st.Size()-r.off)
	n, _ := f.ReadAt(buf, r.off)
	r.off += int64(n)

	return string(buf[:n])
}

func instrCount() int64 { return atomic.LoadInt64(&bytecode.InstructionsExecuted) }

// thoroughWorkers: parallel worker processes of the thorough tier, fewer at high GOMAXPROCS so that
// the machine (16 cores) is not oversubscribed many times over.
func thoroughWorkers(gmp int) int {
	w := 32 / gmp
	if w < 2 {
		w = 2
	}

	if w > 8 {
		w = 8
	}

	return w
}
