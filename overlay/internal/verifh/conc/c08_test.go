package conc

// C08 — Concurrent Ego programs cannot corrupt the interpreter.
//
// Events observed: for every (program, yield seed, density) execution under the Go race detector:
// what the program printed, its Ego error / Go panic, every race-detector block written while it
// ran, Go fatal errors of the process, yields injected by hook H1, instructions executed.
// Oracles: (1) no race block, no fatal error; (2)+(3) printed text equals what the Go rendering of
// the same program printed (the Go rendering is itself run under the race detector at three CPU
// counts and must be race-free and stable there — that is what "synchronised by construction"
// rests on). Equality with one fixed reference for every seed and every GOMAXPROCS part gives
// schedule- and CPU-count-independence.

import (
	"encoding/json"
	"fmt"
	"math/rand"
	"os"
	"os/exec"
	"path/filepath"
	"runtime"
	"sort"
	"strconv"
	"strings"
	"sync"
	"testing"
	"time"

	"github.com/tucats/ego/internal/language/bytecode"
	"github.com/tucats/ego/internal/verifh/egorun"
	"github.com/tucats/ego/internal/verifh/vh"
)

var c08Densities = []int64{1, 3, 10, 50, 500}

const c08StepBudget = 5_000_000 // logical step budget per execution (typical program: 10^3..10^5)

// c08Run is one planned execution.
type c08Run struct {
	Prog    int    `json:"prog"` // index into the job's program list
	Seed    uint64 `json:"seed"`
	Density int64  `json:"density"`
	Opt     int    `json:"opt"` // optimizer level of this execution (rotates 0..3 over a program's executions)
}

type c08Job struct {
	Progs []Prog   `json:"progs"`
	Runs  []c08Run `json:"runs"`
	Start int      `json:"start"`
	Out   string   `json:"out"`
}

// c08Rec is one line of a worker's result file.
type c08Rec struct {
	Run      int    `json:"run"`             // index into job.Runs
	Begin    bool   `json:"begin,omitempty"` // written before the execution starts
	Out      string `json:"out,omitempty"`
	Err      string `json:"err,omitempty"`
	Panic    string `json:"panic,omitempty"`
	Yields   int64  `json:"yields,omitempty"`
	Instr    int64  `json:"instr,omitempty"`
	Budget   int64  `json:"budget_hits,omitempty"`
	Race     string `json:"race,omitempty"`
	Watchdog string `json:"watchdog,omitempty"` // goroutine dump when the in-worker watchdog fired
}

func progConfig(p Prog) egorun.Config {
	return egorun.Config{Types: p.Types, Opt: p.Opt, Registers: p.Registers, ConstFold: p.ConstFold, GlobalCache: p.GCache}
}

// TestC08Worker executes the runs of a job file sequentially in this process.
func TestC08Worker(t *testing.T) {
	jobPath := os.Getenv("CONC_C08_JOB")
	if jobPath == "" {
		t.Skip("worker half of TestC08")
	}

	var job c08Job

	b, err := os.ReadFile(jobPath)
	if err != nil || json.Unmarshal(b, &job) != nil {
		t.Fatalf("job file: %v", err)
	}

	w, err := newJSONL(job.Out)
	if err != nil {
		t.Fatal(err)
	}

	rl := newRaceLogReader()
	perRun := 90 * time.Second

	if s := os.Getenv("CONC_RUN_WATCHDOG_S"); s != "" {
		if n, e := strconv.Atoi(s); e == nil {
			perRun = time.Duration(n) * time.Second
		}
	}

	for i := job.Start; i < len(job.Runs); i++ {
		run := job.Runs[i]
		p := job.Progs[run.Prog]

		w.put(c08Rec{Run: i, Begin: true})

		// watchdog: wall clock only decides "inconclusive", never a verdict
		idx := i
		wd := time.AfterFunc(perRun, func() {
			w.put(c08Rec{Run: idx, Watchdog: allStacks()})
			os.Exit(3)
		})

		bytecode.VerifYieldDensity.Store(run.Density)
		bytecode.VerifYieldSeed.Store(run.Seed)

		y0, b0 := bytecode.VerifYields.Load(), bytecode.VerifBudgetHits.Load()
		i0 := instrCount()
		bytecode.VerifStepLimit.Store(i0 + c08StepBudget)

		// names carrying the marker are made unique to this execution (cold conformance cache)
		cfg := progConfig(p)
		cfg.Opt = run.Opt

		res := egorun.Run(strings.ReplaceAll(p.Ego, uniqMarker, fmt.Sprintf("U%dr%d_", run.Prog, i)), cfg)

		wd.Stop()
		bytecode.VerifYieldDensity.Store(0)
		bytecode.VerifStepLimit.Store(0)

		rec := c08Rec{Run: i, Out: res.Out, Err: res.Err, Panic: res.Panic,
			Yields: bytecode.VerifYields.Load() - y0, Instr: instrCount() - i0, Budget: bytecode.VerifBudgetHits.Load() - b0}
		rec.Race = rl.next()
		w.put(rec)
	}
}

// goReference compiles the Go rendering of all programs once (with -race) and runs it at
// GOMAXPROCS 1, 4 and 16. Returns id -> output. Any race report, panic or instability there is a
// harness error (the generator's by-construction claim would be false).
func goReference(all []Prog, base string) (map[int]string, error) {
	out := map[int]string{}

	// chunks of 250 programs keep each Go file at a size the compiler handles in seconds
	for lo := 0; lo < len(all); lo += 250 {
		hi := lo + 250
		if hi > len(all) {
			hi = len(all)
		}

		var texts []any
		for _, p := range all[lo:hi] {
			texts = append(texts, p.Go)
		}

		m, err := goReferenceChunk(all[lo:hi], filepath.Join(base, vh.Hash(texts...)))
		if err != nil {
			return nil, err
		}

		for k, v := range m {
			out[k] = v
		}
	}

	return out, nil
}

func goReferenceChunk(progs []Prog, dir string) (map[int]string, error) {
	cache := filepath.Join(dir, "reference.json")
	if b, err := os.ReadFile(cache); err == nil {
		var m map[int]string
		if json.Unmarshal(b, &m) == nil && len(m) == len(progs) {
			return m, nil
		}
	}

	if err := os.MkdirAll(dir, 0o755); err != nil {
		return nil, err
	}

	_ = os.WriteFile(filepath.Join(dir, "go.mod"), []byte("module batch\n\ngo 1.26\n"), 0o644)
	_ = os.WriteFile(filepath.Join(dir, "main.go"), []byte(GoBatch(progs)), 0o644)

	env := append(os.Environ(), "GOFLAGS=-mod=mod", "GOPROXY=off", "GOMAXPROCS=", "GORACE=")
	build := exec.Command("go", "build", "-race", "-o", "batch.bin", ".")
	build.Dir, build.Env = dir, env

	if out, err := build.CombinedOutput(); err != nil {
		return nil, fmt.Errorf("go build of the reference rendering failed (generator error): %v\n%s", err, vh.Trunc(string(out), 3000))
	}

	var ref map[int]string

	for _, procs := range []int{1, 4, 16} {
		run := exec.Command(filepath.Join(dir, "batch.bin"))
		run.Dir = dir
		run.Env = append(os.Environ(), fmt.Sprintf("GOMAXPROCS=%d", procs), "GORACE=halt_on_error=0")

		var stderr strings.Builder

		run.Stderr = &stderr

		done := make(chan struct{})
		timer := time.AfterFunc(10*time.Minute, func() { _ = run.Process.Kill() })
		out, err := run.Output()

		timer.Stop()
		close(done)

		if strings.Contains(stderr.String(), "DATA RACE") {
			return nil, fmt.Errorf("the GO rendering has a data race: the generator is not race-free by construction (harness error)\n%s", vh.Trunc(stderr.String(), 4000))
		}

		if err != nil {
			return nil, fmt.Errorf("reference run GOMAXPROCS=%d: %v\n%s", procs, err, vh.Trunc(stderr.String(), 3000))
		}

		m := map[int]string{}

		for _, ln := range strings.Split(strings.TrimSpace(string(out)), "\n") {
			var r struct {
				ID    int    `json:"id"`
				Out   string `json:"out"`
				Panic string `json:"panic"`
			}

			if json.Unmarshal([]byte(ln), &r) != nil {
				continue
			}

			if r.Panic != "" {
				return nil, fmt.Errorf("reference program %d panics in Go (generator error): %s", r.ID, r.Panic)
			}

			m[r.ID] = r.Out
		}

		if len(m) != len(progs) {
			return nil, fmt.Errorf("reference run produced %d results for %d programs", len(m), len(progs))
		}

		if ref == nil {
			ref = m

			continue
		}

		for id, o := range m {
			if ref[id] != o {
				return nil, fmt.Errorf("GO rendering of program %d prints different text at GOMAXPROCS=%d: generator is not schedule-independent (harness error)\n%q\n%q", id, procs, ref[id], o)
			}
		}
	}

	b, _ := json.Marshal(ref)
	_ = os.WriteFile(cache, b, 0o644)

	return ref, nil
}

func progRand(id int) *rand.Rand {
	return vh.Rand(fmt.Sprintf("c08-prog-%d", id))
}

// featureKey names the construct set of a failing program coarsely enough to be stable.
func sceneKey(p Prog) string {
	var s []string

	for _, f := range p.Features {
		if strings.HasPrefix(f, "scene:") {
			s = append(s, strings.TrimPrefix(f, "scene:"))
		}
	}

	return strings.Join(s, "+")
}

func TestC08(t *testing.T) {
	r := vh.New("C08", "programs")
	r.Rule = "programs generated from a PRNG as 1-4 scenes (mutex-guarded shared state by closure capture / pointers / package level; channel fan-in; worker pool; " +
		"pipeline; nested goroutines; RWMutex; ping-pong; transfers), fully synchronised by construction (the Go rendering is race-detector clean); " +
		"a case = (program text, yield seed, yield density); distinct by hash of all three; non-trivial = at least 2 goroutines launched and at least one yield injected"
	r.Assume("Go's race detector and the Go toolchain (reference rendering compiled with `go build -race`)")
	r.Assume("goroutine counts per program are known from the generator (loop bounds are literals), confirmed by the printed sums equalling Go's")

	defer func() { _ = r.Write() }()

	arena := os.Getenv("VERIF_ARENA")
	if arena == "" {
		arena = t.TempDir()
	}

	gmp := runtime.GOMAXPROCS(0)
	work := filepath.Join(arena, fmt.Sprintf("c08-p%d", gmp))
	_ = os.MkdirAll(work, 0o755)

	var progs []Prog

	nSeeds := vh.N(5, 20)
	replay := vh.ReplayCase()

	var replayRun *c08Run

	if replay != nil {
		var rc struct {
			Program Prog   `json:"program"`
			Seed    uint64 `json:"seed"`
			Density int64  `json:"density"`
		}

		if err := json.Unmarshal(replay, &rc); err != nil || rc.Program.Ego == "" {
			t.Fatalf("replay case: %v", err)
		}

		rc.Program.ID = 0
		progs = []Prog{rc.Program}
		replayRun = &c08Run{Seed: rc.Seed, Density: rc.Density}
		// the stored program carries its Go rendering only if it was generated; re-render is not possible from Ego text
	} else {
		n := vh.N(60, 1500)
		avoid := map[string]bool{}

		for k := range vh.KnownKeys("C08") {
			// every listed race whose writer is a store through a pointer is the argument type check
			// reading the pointee (see probe ptr-arg-typecheck): keep *int arguments out of the main stream
			if strings.Contains(k, "storeViaPointerByteCode") {
				avoid["int-pointer-argument"] = true
				r.Note("avoid set: *int arguments (known finding " + k + "); kept under test by probe ptr-arg-typecheck")
			}
		}

		for i := 0; i < n; i++ {
			progs = append(progs, GenProgram(progRand(i), i, avoid))
		}

		for _, p := range ProbePrograms(n) {
			progs = append(progs, p)
			r.Probe("probe:" + p.Probe + ":" + p.Types)
		}
	}

	// reference outputs
	ref := map[int]string{}

	if replay == nil || progs[0].Go != "" {
		var err error

		ref, err = goReference(progs, filepath.Join(arena, "c08-go"))
		if err != nil {
			t.Fatalf("%v", err)
		}

		r.Count("reference.go_programs_compiled_with_race_detector", int64(len(progs)))
	}

	// plan
	var runs []c08Run

	seedRng := vh.Rand("c08-yield-seeds")

	for pi := range progs {
		if replayRun != nil {
			for k := 0; k < 25; k++ {
				runs = append(runs, c08Run{Prog: pi, Seed: replayRun.Seed + uint64(k/5), Density: replayRun.Density, Opt: k % 4})
			}

			continue
		}

		for s := 0; s < nSeeds; s++ {
			runs = append(runs, c08Run{Prog: pi, Seed: seedRng.Uint64(), Density: c08Densities[s%len(c08Densities)], Opt: (s + pi) % 4})
		}
	}

	// workers: W processes in parallel, each executing its share sequentially (egorun is process-global)
	W := 4
	if s := os.Getenv("CONC_WORKERS"); s != "" {
		if n, e := strconv.Atoi(s); e == nil && n > 0 {
			W = n
		}
	} else if vh.Tier() == "thorough" {
		W = thoroughWorkers(gmp)
	}

	if W > len(progs) {
		W = len(progs)
	}

	type shard struct {
		job  c08Job
		recs []c08Rec
	}

	// workers only need the Ego text
	slim := make([]Prog, len(progs))
	copy(slim, progs)

	for i := range slim {
		slim[i].Go = ""
	}

	shards := make([]*shard, W)
	for w := range shards {
		shards[w] = &shard{}
		shards[w].job.Progs = slim
	}

	for _, ru := range runs {
		s := shards[ru.Prog%W]
		s.job.Runs = append(s.job.Runs, ru)
	}

	type fatalEvt struct {
		run   c08Run
		fatal string
	}

	var (
		mu       sync.Mutex
		fatals   []fatalEvt
		timeouts []string
		lostRace []RaceBlock
		wg       sync.WaitGroup
	)

	for w, s := range shards {
		wg.Add(1)

		go func(w int, s *shard) {
			defer wg.Done()

			start, attempt := 0, 0

			for start < len(s.job.Runs) {
				attempt++
				tag := fmt.Sprintf("w%d-a%d", w, attempt)
				s.job.Start = start
				s.job.Out = filepath.Join(work, tag+".jsonl")
				jobPath := filepath.Join(work, tag+".job.json")
				jb, _ := json.Marshal(s.job)
				_ = os.WriteFile(jobPath, jb, 0o644)

				wr := runWorker("TestC08Worker", map[string]string{"CONC_C08_JOB": jobPath}, filepath.Join(work, tag+".log"),
					raceLogPrefix(work, tag), s.job.Out, 150*time.Second)

				recs := readJSONL[c08Rec](s.job.Out)
				last, lastDone := -1, -1
				attributed := 0

				for _, rc := range recs {
					if rc.Begin {
						last = rc.Run

						continue
					}

					if rc.Watchdog != "" {
						mu.Lock()
						timeouts = append(timeouts, fmt.Sprintf("in-worker watchdog (%s) on run %+v; goroutine dump: %s", tag, s.job.Runs[rc.Run], vh.Trunc(rc.Watchdog, 3000)))
						mu.Unlock()

						lastDone = rc.Run

						continue
					}

					attributed += len(rc.Race)
					lastDone = rc.Run
					s.recs = append(s.recs, rc)
				}

				// race text written after the last completed run (or while a crashed run executed)
				if len(wr.RaceText) > attributed {
					extra := ParseRaceBlocks(wr.RaceText[attributed:])

					mu.Lock()
					lostRace = append(lostRace, extra...)
					mu.Unlock()
				}

				next := lastDone + 1

				if last > lastDone {
					// the worker died or hung inside run `last`
					switch {
					case wr.Fatal != "":
						mu.Lock()
						fatals = append(fatals, fatalEvt{s.job.Runs[last], wr.Fatal})
						mu.Unlock()
					default:
						mu.Lock()
						timeouts = append(timeouts, fmt.Sprintf("worker %s ended (exit %d, timeout=%t) inside run %+v without a Go fatal error; log tail: %s",
							tag, wr.ExitCode, wr.Timeout, s.job.Runs[last], vh.Trunc(tailOf(wr.LogTail, 2500), 2600)))
						mu.Unlock()
					}

					next = last + 1
				} else if next < len(s.job.Runs) && wr.Fatal == "" && !wr.Timeout && next == start {
					// no progress at all and no explanation: harness problem; do not loop forever
					mu.Lock()
					timeouts = append(timeouts, fmt.Sprintf("worker %s made no progress (exit %d): %s", tag, wr.ExitCode, vh.Trunc(tailOf(wr.LogTail, 1500), 1600)))
					mu.Unlock()

					next = len(s.job.Runs)
				}

				if next <= start {
					next = start + 1
				}

				start = next
			}
		}(w, s)
	}

	wg.Wait()

	// evaluate
	patterns := map[string]bool{}
	raceBlocks := 0
	completed := 0

	for _, s := range shards {
		for _, rc := range s.recs {
			run := s.job.Runs[rc.Run]
			p := progs[run.Prog]
			completed++

			caseID := vh.Hash(p.Ego, run.Seed, run.Density)
			r.Eval(caseID, p.Goroutines >= 2 && rc.Yields > 0)
			r.Count("executions", 1)
			r.Count("yields.injected", rc.Yields)
			r.Count("instructions.executed", rc.Instr)
			r.Count("goroutines.launched", int64(p.Goroutines))
			r.Max("goroutines.max_per_program", int64(p.Goroutines))
			r.Count(fmt.Sprintf("density:%d", run.Density), 1)
			r.Count("types:"+p.Types, 1)
			r.Count(fmt.Sprintf("optimizer_level:%d", run.Opt), 1)

			if rc.Yields > 0 {
				patterns[fmt.Sprintf("%d/%d", run.Density, run.Seed)] = true
			}

			witness := map[string]any{"program": p, "seed": run.Seed, "density": run.Density, "opt": run.Opt, "gomaxprocs": gmp, "expected": ref[p.ID]}

			for _, rb := range ParseRaceBlocks(rc.Race) {
				if isHarnessRace(rb.Key) {
					r.Inconcl("race report in which one access is the harness's own (not judged): " + rb.Key + "\n" + vh.Trunc(rb.Text, 1500))

					continue
				}

				raceBlocks++

				if p.Probe != "" {
					r.Probe(rb.Key)
				}

				r.Violate(vh.Violation{Key: rb.Key, Desc: fmt.Sprintf("race detector report while a fully synchronised Ego program ran (GOMAXPROCS=%d density=%d seed=%d scenes=%s): %s",
					gmp, run.Density, run.Seed, sceneKey(p), vh.Trunc(rb.Text, 1800)), Case: witness, Observed: vh.Trunc(rb.Text, 6000)})
			}

			if rc.Budget > 0 {
				r.Inconcl(fmt.Sprintf("program %d seed %d density %d hit the logical step budget (%d steps); output not judged", p.ID, run.Seed, run.Density, c08StepBudget))

				continue
			}

			want, have := ref[p.ID]

			switch {
			case rc.Panic != "":
				r.Violate(vh.Violation{Key: "go-panic:" + panicKey(rc.Panic), Desc: "Go panic inside the interpreter while running a synchronised program: " + vh.Trunc(rc.Panic, 1500), Case: witness, Expected: want, Observed: rc.Panic})
			case rc.Err != "":
				r.Violate(vh.Violation{Key: "ego-error:" + errKey(rc.Err) + ":" + sceneKey(p), Desc: fmt.Sprintf("program that Go runs cleanly ends with an Ego error under density=%d seed=%d GOMAXPROCS=%d: %s", run.Density, run.Seed, gmp, rc.Err),
					Case: witness, Expected: want, Observed: rc.Err + "\n" + rc.Out})
			case have && rc.Out != want:
				r.Violate(vh.Violation{Key: "output-differs:" + sceneKey(p), Desc: fmt.Sprintf("printed result differs from Go's under density=%d seed=%d GOMAXPROCS=%d", run.Density, run.Seed, gmp),
					Case: witness, Expected: want, Observed: rc.Out})
			default:
				r.Count("outputs.equal_to_go", 1)
			}

			for _, f := range p.Features {
				if rc.Run%nSeeds == 0 || replay != nil {
					r.Count("feature:"+f, 1)
				}
			}

			if completed%977 == 1 {
				r.Sample(map[string]any{"ego": vh.Trunc(p.Ego, 1500), "seed": run.Seed, "density": run.Density, "yields": rc.Yields, "instructions": rc.Instr,
					"goroutines": p.Goroutines, "printed": vh.Trunc(rc.Out, 300), "config": progConfig(p).String()})
			}
		}
	}

	for _, rb := range lostRace {
		if isHarnessRace(rb.Key) {
			r.Inconcl("race report in which one access is the harness's own (not judged): " + rb.Key)

			continue
		}

		raceBlocks++

		r.Violate(vh.Violation{Key: rb.Key, Desc: "race detector report (written outside a completed execution): " + vh.Trunc(rb.Text, 1800), Case: map[string]any{"race_block": rb.Text}})
	}

	for _, f := range fatals {
		p := progs[f.run.Prog]

		r.Violate(vh.Violation{Key: fatalKey(f.fatal), Desc: fmt.Sprintf("Go fatal error / unrecovered panic killed the interpreter process while a synchronised program ran (GOMAXPROCS=%d density=%d seed=%d): %s",
			gmp, f.run.Density, f.run.Seed, vh.Trunc(f.fatal, 1500)), Case: map[string]any{"program": p, "seed": f.run.Seed, "density": f.run.Density, "gomaxprocs": gmp, "expected": ref[p.ID]}, Observed: f.fatal})
		r.Count("fatal.errors", 1)
	}

	for _, s := range timeouts {
		r.Inconcl(s)
	}

	r.Count("race.blocks", int64(raceBlocks))
	r.Count("yield.patterns.distinct", int64(len(patterns)))
	r.Count("programs", int64(len(progs)))
	r.Count("gomaxprocs", int64(gmp))
	r.Count("executions.planned", int64(len(runs)))
	r.Note(fmt.Sprintf("GOMAXPROCS=%d; %d worker processes; race logs and worker logs under %s", gmp, W, work))

	if completed == 0 && len(fatals) == 0 {
		_ = r.Write()

		t.Fatal("observed nothing: no execution completed")
	}
}

func tailOf(s string, n int) string {
	if len(s) > n {
		return s[len(s)-n:]
	}

	return s
}

// errKey reduces an Ego error text to its message class (positions and names removed).
func errKey(e string) string {
	if i := strings.Index(e, ", "); i >= 0 && strings.HasPrefix(e, "at ") {
		e = e[i+2:]
	}

	if i := strings.Index(e, ":"); i > 0 {
		e = e[:i]
	}

	f := strings.Fields(e)
	if len(f) > 6 {
		f = f[:6]
	}

	return strings.Join(f, "_")
}

// panicKey: first line of the panic value plus first ego frame.
func panicKey(p string) string {
	first := strings.SplitN(p, "\n", 2)[0]
	f := strings.Fields(first)

	if len(f) > 6 {
		f = f[:6]
	}

	fr := ""

	for _, ln := range strings.Split(p, "\n") {
		if strings.HasPrefix(ln, "github.com/tucats/ego/internal/") && !strings.Contains(ln, "/verifh/") && !strings.Contains(ln, "runtime/debug") {
			fr = strings.TrimPrefix(ln, "github.com/tucats/ego/internal/")
			if i := strings.LastIndex(fr, "("); i > 0 {
				fr = fr[:i]
			}

			break
		}
	}

	return strings.Join(f, "_") + ":" + fr
}

var _ = sort.Strings
