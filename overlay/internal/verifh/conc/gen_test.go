package conc

// Generator of concurrent Ego programs that are fully synchronised BY CONSTRUCTION, rendered
// twice from one neutral text: as Ego source and as Go source (C08).
//
// Rules that make every program race-free and schedule-independent:
//   - mutable state reachable from two goroutines is touched only between Lock/Unlock of one
//     mutex that guards it (or RLock/RUnlock for reads of keys no writer touches), or is handed
//     over through a channel, or is read by the launcher only after WaitGroup.Wait();
//   - values captured by closures and never written after the launch may be read freely;
//   - every channel is closed exactly once, by its only producer or by a closer goroutine that
//     waits for all producers; receivers use range / the two-value receive;
//   - a goroutine that fills a channel whose consumer only starts later is never the launcher
//     itself unless the channel's capacity covers everything sent (no deadlock in Go with
//     capacity 0, hence none with Ego's minimum capacity of 1);
//   - results are sums, counts, or collections sorted before printing; loop bounds are literals;
//     arithmetic stays non-negative and far below 2^31.
//
// The Go rendering of every batch is compiled with the Go race detector too: a report there would
// mean the generator broke these rules (harness error), so a clean reference run is the evidence
// that "the program itself is race-free" is a fact and not a hope.

import (
	"fmt"
	"math/rand"
	"sort"
	"strings"
)

// Prog is one generated program.
type Prog struct {
	ID         int      `json:"id"`
	Ego        string   `json:"ego"`
	Go         string   `json:"go,omitempty"` // declarations with prefix pN_; entry pN_main(w io.Writer)
	Features   []string `json:"features"`
	Goroutines int      `json:"goroutines"` // launched per execution, known by construction
	Types      string   `json:"types"`
	Opt        int      `json:"opt"`
	Registers  bool     `json:"registers"`
	ConstFold  bool     `json:"constfold"`
	GCache     bool     `json:"globalcache"`
	Probe      string   `json:"probe,omitempty"` // directed probe: name of the construct it keeps under test
}

// probeNeutral are hand-written directed programs (neutral syntax). They keep under test the constructs
// that findings were made on, whatever the random stream does.
var probeNeutral = map[string]string{
	// a *int argument shared under a mutex: binding the argument type-checks the pointer by reading
	// the pointee while other workers are storing through it (known finding)
	"ptr-arg-typecheck": `func «P»pw(id int, mu *sync.Mutex, wg *sync.WaitGroup, total *int) {
	for j := 0; j < 20; j++ {
		mu.Lock()
		*total = *total + id
		mu.Unlock()
	}
	wg.Done()
}

func «MAIN» {
	var mu sync.Mutex
	var wg sync.WaitGroup
	total := 0
	for i := 0; i < 8; i++ {
		wg.Add(1)
		go «P»pw(i, &mu, &wg, &total)
	}
	wg.Wait()
	«PRINT»("%d\n", total)
«WAIT»}
`,
	// the launcher calls a function immediately after each go statement (the new goroutine used to
	// read the launcher's current symbol table while the launcher was replacing it)
	"launcher-calls-after-go": `func «P»pf(x int) int {
	return x + 1
}

func «MAIN» {
	var wg sync.WaitGroup
	s := 0
	for i := 0; i < 8; i++ {
		wg.Add(1)
		go func() {
			wg.Done()
		}()
		s = s + «P»pf(i)
	}
	wg.Wait()
	«PRINT»("%d\n", s)
«WAIT»}
`,
}

func init() {
	// several goroutines validate DIFFERENT (struct type, interface) pairs for the first time at once
	// (strict typing checks an argument against a parameter of interface type); names are unique per execution
	probeNeutral["interface-first-conformance"] = `type «U»Shape interface {
	Area() int
	Tag() string
}

type «U»A struct {
	a     int
	onlyA int
}

func (v «U»A) Area() int {
	return v.a * 2
}

func (v «U»A) Tag() string {
	return "a"
}

type «U»B struct {
	a     int
	onlyB int
}

func (v «U»B) Area() int {
	return v.a * 3
}

func (v «U»B) Tag() string {
	return "bb"
}

type «U»C struct {
	a     int
	onlyC int
}

func (v «U»C) Area() int {
	return v.a * 5
}

func (v «U»C) Tag() string {
	return "ccc"
}

type «U»D struct {
	a     int
	onlyD int
}

func (v «U»D) Area() int {
	return v.a * 7
}

func (v «U»D) Tag() string {
	return "dddd"
}

func «U»use(s «U»Shape, k int) int {
	return s.Area()*k + len(s.Tag())
}

func «MAIN» {
	var mu sync.Mutex
	var wg sync.WaitGroup
	total := 0
	for i := 0; i < 8; i++ {
		wg.Add(1)
		go func(id int) {
			defer wg.Done()
			v := 0
			if id%4 == 0 {
				v = «U»use(«U»A{a: id + 1}, 2)
			} else if id%4 == 1 {
				v = «U»use(«U»B{a: id + 1}, 2)
			} else if id%4 == 2 {
				v = «U»use(«U»C{a: id + 1}, 2)
			} else {
				v = «U»use(«U»D{a: id + 1}, 2)
			}
			mu.Lock()
			total = total + v
			mu.Unlock()
		}(i)
	}
	wg.Wait()
	«PRINT»("%d\n", total)
«WAIT»}
`
}

// ProbePrograms renders the directed probes with ids starting at firstID.
func ProbePrograms(firstID int) []Prog {
	var out []Prog

	names := []string{}
	for n := range probeNeutral {
		names = append(names, n)
	}

	sort.Strings(names)

	for _, n := range names {
		for _, types := range []string{"dynamic", "strict"} {
			id := firstID + len(out)
			out = append(out, Prog{ID: id, Ego: renderEgo(probeNeutral[n]), Go: renderGo(probeNeutral[n], id), Features: []string{"probe:" + n},
				Goroutines: 8, Types: types, Opt: 2, Probe: n})
		}
	}

	return out
}

type gen struct {
	r     *rand.Rand
	decls strings.Builder // top-level declarations (neutral syntax)
	feats map[string]bool
	gor   int
	nfun  int
	avoid map[string]bool
}

func (g *gen) feat(s string) { g.feats[s] = true }

func (g *gen) pick(n int) int { return g.r.Intn(n) }

func (g *gen) rng(lo, hi int) int { return lo + g.r.Intn(hi-lo+1) }

func (g *gen) name(stem string) string {
	g.nfun++

	return fmt.Sprintf("«P»%s%d", stem, g.nfun)
}

// helper emits a pure int->int function and returns its name.
func (g *gen) helper() string {
	n := g.name("h")
	a, b, m := g.rng(2, 9), g.rng(1, 50), []int{97, 101, 251, 509, 997, 1009}[g.pick(6)]
	d := &g.decls

	fmt.Fprintf(d, "func %s(x int) int {\n\tr := x %% 1000\n", n)

	switch g.pick(4) {
	case 0:
		fmt.Fprintf(d, "\tfor i := 0; i < %d; i++ {\n\t\tr = (r*%d + i + %d) %% %d\n\t}\n", g.rng(1, 6), a, b, m)
	case 1:
		fmt.Fprintf(d, "\tif r %% 2 == 0 {\n\t\tr = r + %d\n\t} else {\n\t\tr = (r * %d) %% %d\n\t}\n", b, a, m)
	case 2:
		g.feat("local-slice")
		fmt.Fprintf(d, "\ttmp := []int{}\n\tfor i := 0; i < %d; i++ {\n\t\ttmp = append(tmp, (r+i*%d) %% %d)\n\t}\n\tr = 0\n\tfor _, t := range tmp {\n\t\tr = r + t\n\t}\n", g.rng(2, 5), a, m)
	default:
		g.feat("local-map")
		fmt.Fprintf(d, "\tlm := map[string]int{\"a\": r, \"b\": %d}\n\tlm[\"c\"] = lm[\"a\"] + lm[\"b\"]\n\tr = (lm[\"c\"] * %d) %% %d\n", b, a, m)
	}

	fmt.Fprintf(d, "\treturn r\n}\n\n")

	return n
}

// recHelper emits a small recursive function (call frames per goroutine).
func (g *gen) recHelper() string {
	n := g.name("rec")
	g.feat("recursion")
	fmt.Fprintf(&g.decls, "func %s(n int) int {\n\tif n <= 1 {\n\t\treturn 1\n\t}\n\treturn (%s(n-1)*%d + n) %% 10007\n}\n\n", n, n, g.rng(2, 5))

	return n
}

// strHelper emits an int->string function using lib packages.
func (g *gen) strHelper() string {
	n := g.name("sh")
	g.feat("strings-pkg")

	switch g.pick(3) {
	case 0:
		fmt.Fprintf(&g.decls, "func %s(x int) string {\n\treturn strings.Repeat(\"ab\", x%%3+1) + strconv.Itoa(x)\n}\n\n", n)
	case 1:
		fmt.Fprintf(&g.decls, "func %s(x int) string {\n\treturn strings.ToUpper(\"v\" + strconv.Itoa(x%%1000)) + \"-\" + strconv.Itoa(x%%7)\n}\n\n", n)
	default:
		fmt.Fprintf(&g.decls, "func %s(x int) string {\n\treturn fmt.Sprintf(\"%%d:%%s\", x%%100, strings.ToLower(\"Q\"+strconv.Itoa(x)))\n}\n\n", n)
	}

	return n
}

// compute returns an int expression over the given variables using helper functions.
func (g *gen) compute(h string, vars ...string) string {
	e := vars[0]
	for _, v := range vars[1:] {
		e = fmt.Sprintf("%s*%d + %s", e, g.rng(3, 40), v)
	}

	return fmt.Sprintf("%s(%s + %d)", h, e, g.rng(0, 99))
}

// mainWork: statements the launcher executes between launching and joining; they create new
// variables in the very scope the closures captured (symbol-table growth while goroutines read it).
func (g *gen) mainWork(h string, tag string) string {
	if g.pick(3) == 0 {
		return ""
	}

	g.feat("launcher-works-while-goroutines-run")

	n := g.rng(3, 25)

	return fmt.Sprintf("\tbusy%s := 0\n\tfor q%s := 0; q%s < %d; q%s++ {\n\t\tloc%s := %s(q%s)\n\t\tbusy%s = busy%s + loc%s\n\t}\n",
		tag, tag, tag, n, tag, tag, h, tag, tag, tag, tag)
}

// scene returns the body of a function `func() string` (neutral syntax) that builds and returns `out`.
type scene struct {
	name string
	body string
}

func (g *gen) sceneMutex(id int) scene {
	k, iters := g.rng(2, 8), g.rng(1, 5)
	h := g.helper()
	form := g.pick(4) // 0 closure in loop, 1 named+pointers, 2 unrolled closures, 3 globals + named
	useList, useMap, useStruct, useStr := g.pick(2) == 0, g.pick(2) == 0, g.pick(2) == 0, g.pick(3) == 0
	deferUnlock := g.pick(3) == 0
	var b strings.Builder

	// known finding (see probe "ptr-arg-typecheck"): binding a *int argument reads the pointee outside
	// the program's mutex. With that key listed, the main stream keeps the named-worker form but
	// shares the total through the struct pointer only.
	noIntPtr := form == 1 && g.avoid["int-pointer-argument"]
	if noIntPtr {
		useStruct, useStr = true, false
	}

	acc := ""
	if useStruct {
		acc = g.name("Acc")
		g.feat("shared-struct-method")
		fmt.Fprintf(&g.decls, "type %s struct {\n\tn   int\n\tsum int\n}\n\nfunc (a *%s) add(v int) {\n\ta.n = a.n + 1\n\ta.sum = a.sum + v\n}\n\n", acc, acc)
	}

	sh := ""
	if useStr {
		sh = g.strHelper()
	}

	g.gor += k

	switch form {
	case 0, 2:
		// state lives in the scene function's scope and is captured by the closures
		g.feat(map[int]string{0: "go-closure-in-loop", 2: "go-closure-unrolled"}[form])
		g.feat("captured-state-under-mutex")
		b.WriteString("\tvar mu sync.Mutex\n\tvar wg sync.WaitGroup\n\ttotal := 0\n")
		fmt.Fprintf(&b, "\tbase := %d\n", g.rng(1, 90))
		g.feat("captured-readonly-scalar")

		if useList {
			b.WriteString("\tlst := []int{}\n")
			g.feat("shared-slice-append")
		}

		if useMap {
			b.WriteString("\tm := map[string]int{}\n")
			g.feat("shared-map-insert")
		}

		if useStruct {
			fmt.Fprintf(&b, "\taccv := %s{}\n\tacc := &accv\n", acc)
		}

		if useStr {
			b.WriteString("\tslen := 0\n")
		}

		critical := func(idExpr, ind string) string {
			var c strings.Builder

			fmt.Fprintf(&c, "%sv := %s\n", ind, g.compute(h, idExpr, "j", "base"))

			upd := ind + "total = total + v\n"
			if useList {
				upd += ind + "lst = append(lst, v)\n"
			}

			if useMap {
				upd += ind + "m[\"k\"+strconv.Itoa(" + idExpr + ")+\"_\"+strconv.Itoa(j)] = v\n"
			}

			if useStruct {
				upd += ind + "acc.add(v)\n"
			}

			if useStr {
				upd += ind + "slen = slen + len(" + sh + "(v))\n"
			}

			if deferUnlock {
				g.feat("defer-unlock-in-literal")
				fmt.Fprintf(&c, "%sfunc() {\n%s\tmu.Lock()\n%s\tdefer mu.Unlock()\n%s%s}()\n", ind, ind, ind, strings.ReplaceAll(upd, ind, ind+"\t"), ind)
			} else {
				fmt.Fprintf(&c, "%smu.Lock()\n%s%smu.Unlock()\n", ind, upd, ind)
			}

			return c.String()
		}

		if form == 0 {
			fmt.Fprintf(&b, "\tfor i := 0; i < %d; i++ {\n\t\twg.Add(1)\n\t\tgo func(id int) {\n\t\t\tdefer wg.Done()\n\t\t\tfor j := 0; j < %d; j++ {\n%s\t\t\t}\n\t\t}(i)\n\t}\n",
				k, iters, critical("id", "\t\t\t\t"))
		} else {
			fmt.Fprintf(&b, "\twg.Add(%d)\n", k)

			for w := 0; w < k; w++ {
				fmt.Fprintf(&b, "\tgo func() {\n\t\tfor j := 0; j < %d; j++ {\n%s\t\t}\n\t\twg.Done()\n\t}()\n", iters, critical(fmt.Sprint(w), "\t\t\t"))
			}
		}

		b.WriteString(g.mainWork(h, "a"))
		b.WriteString("\twg.Wait()\n")
		fmt.Fprintf(&b, "\tout := fmt.Sprintf(\"S%d total=%%d\", total)\n", id)
	case 1:
		// named worker, state passed by pointer
		g.feat("go-named-function")
		g.feat("state-by-pointer-under-mutex")
		useList, useMap = false, false // slices and maps are not passed as arguments (Ego copies arguments)
		w := g.name("w")
		params := "id int, iters int, mu *sync.Mutex, wg *sync.WaitGroup, total *int"
		args := "i, " + fmt.Sprint(iters) + ", &mu, &wg, &total"
		updTotal := "\t\t*total = *total + v\n"

		if noIntPtr {
			params = "id int, iters int, mu *sync.Mutex, wg *sync.WaitGroup"
			args = "i, " + fmt.Sprint(iters) + ", &mu, &wg"
			updTotal = ""
		} else {
			g.feat("int-pointer-argument")
		}

		if useStruct {
			params += ", acc *" + acc
			args += ", acc"
		}

		if useStr {
			params += ", slen *int"
			args += ", &slen"
		}

		fmt.Fprintf(&g.decls, "func %s(%s) {\n\tdefer wg.Done()\n\tfor j := 0; j < iters; j++ {\n\t\tv := %s\n\t\tmu.Lock()\n%s", w, params, g.compute(h, "id", "j"), updTotal)

		if useStruct {
			g.decls.WriteString("\t\tacc.add(v)\n")
		}

		if useStr {
			fmt.Fprintf(&g.decls, "\t\t*slen = *slen + len(%s(v))\n", sh)
		}

		g.decls.WriteString("\t\tmu.Unlock()\n\t}\n}\n\n")

		b.WriteString("\tvar mu sync.Mutex\n\tvar wg sync.WaitGroup\n\ttotal := 0\n")

		if useStruct {
			fmt.Fprintf(&b, "\taccv := %s{}\n\tacc := &accv\n", acc)
		}

		if useStr {
			b.WriteString("\tslen := 0\n")
		}

		fmt.Fprintf(&b, "\tfor i := 0; i < %d; i++ {\n\t\twg.Add(1)\n\t\tgo %s(%s)\n\t}\n", k, w, args)
		b.WriteString(g.mainWork(h, "a"))
		b.WriteString("\twg.Wait()\n")

		if noIntPtr {
			b.WriteString("\ttotal = acc.sum\n")
		}

		fmt.Fprintf(&b, "\tout := fmt.Sprintf(\"S%d total=%%d\", total)\n", id)
	default:
		// package-level state guarded by a package-level mutex
		g.feat("go-named-function")
		g.feat("package-level-state-under-mutex")
		useMap = false
		gt, gm, gl, ga, gs := g.name("gtotal"), g.name("gmu"), g.name("glst"), g.name("gacc"), g.name("gslen")
		fmt.Fprintf(&g.decls, "var %s int\nvar %s sync.Mutex\n", gt, gm)

		if useList {
			fmt.Fprintf(&g.decls, "var %s []int\n", gl)
			g.feat("shared-slice-append")
		}

		if useStruct {
			fmt.Fprintf(&g.decls, "var %s %s\n", ga, acc)
		}

		if useStr {
			fmt.Fprintf(&g.decls, "var %s int\n", gs)
		}

		w := g.name("w")
		fmt.Fprintf(&g.decls, "\nfunc %s(id int, wg *sync.WaitGroup) {\n\tdefer wg.Done()\n\tfor j := 0; j < %d; j++ {\n\t\tv := %s\n\t\t%s.Lock()\n\t\t%s = %s + v\n", w, iters, g.compute(h, "id", "j"), gm, gt, gt)

		if useList {
			fmt.Fprintf(&g.decls, "\t\t%s = append(%s, v)\n", gl, gl)
		}

		if useStruct {
			fmt.Fprintf(&g.decls, "\t\t%s.n = %s.n + 1\n\t\t%s.sum = %s.sum + v\n", ga, ga, ga, ga)
		}

		if useStr {
			fmt.Fprintf(&g.decls, "\t\t%s = %s + len(%s(v))\n", gs, gs, sh)
		}

		fmt.Fprintf(&g.decls, "\t\t%s.Unlock()\n\t}\n}\n\n", gm)

		b.WriteString("\tvar wg sync.WaitGroup\n")
		fmt.Fprintf(&b, "\tfor i := 0; i < %d; i++ {\n\t\twg.Add(1)\n\t\tgo %s(i, &wg)\n\t}\n", k, w)
		b.WriteString(g.mainWork(h, "a"))
		b.WriteString("\twg.Wait()\n")
		fmt.Fprintf(&b, "\tout := fmt.Sprintf(\"S%d total=%%d\", %s)\n", id, gt)

		if useList {
			fmt.Fprintf(&b, "\tlst := %s\n", gl)
		}

		if useStruct {
			fmt.Fprintf(&b, "\tacc := &%s\n", ga)
		}

		if useStr {
			fmt.Fprintf(&b, "\tslen := %s\n", gs)
		}
	}

	if strings.Contains(b.String(), "busya") {
		b.WriteString("\tout = out + fmt.Sprintf(\" busy=%d\", busya)\n")
	}

	if useList {
		b.WriteString("\tsort.Ints(lst)\n\tfor _, e := range lst {\n\t\tout = out + fmt.Sprintf(\" %d\", e)\n\t}\n")
	}

	if useMap {
		b.WriteString("\tms := 0\n\tfor _, e := range m {\n\t\tms = ms + e\n\t}\n\tout = out + fmt.Sprintf(\" map=%d/%d\", len(m), ms)\n")
	}

	if useStruct {
		b.WriteString("\tout = out + fmt.Sprintf(\" acc=%d/%d\", acc.n, acc.sum)\n")
	}

	if useStr {
		b.WriteString("\tout = out + fmt.Sprintf(\" slen=%d\", slen)\n")
	}

	b.WriteString("\treturn out\n")

	return scene{"mutex", b.String()}
}

// chanSpec picks an element kind and capacity.
type chanSpec struct {
	kind string // int | string | struct
	typ  string // Go element type
	cap  int
	mk   func(valExpr, idExpr string) string // expression sent
	val  func(recv string) string           // int contribution of a received value
}

func (g *gen) chanSpec(forceCap int) chanSpec {
	c := chanSpec{cap: []int{0, 0, 1, 2, 5, 64}[g.pick(6)]}
	if forceCap > 0 {
		c.cap = forceCap
	}

	if c.cap == 0 {
		g.feat("chan-unbuffered")
	} else {
		g.feat("chan-buffered")
	}

	switch g.pick(4) {
	case 0:
		sh := g.strHelper()
		c.kind, c.typ = "string", "string"
		c.mk = func(v, id string) string { return sh + "(" + v + ")" }
		c.val = func(r string) string { return "len(" + r + ")" }

		g.feat("chan-of-string")
	case 1:
		t := g.name("Msg")
		fmt.Fprintf(&g.decls, "type %s struct {\n\tfrom int\n\tval  int\n}\n\n", t)
		c.kind, c.typ = "struct", t
		c.mk = func(v, id string) string { return t + "{from: " + id + ", val: " + v + "}" }
		c.val = func(r string) string { return "(" + r + ".val + " + r + ".from)" }

		g.feat("chan-of-struct")
	default:
		c.kind, c.typ = "int", "int"
		c.mk = func(v, id string) string { return v }
		c.val = func(r string) string { return r }

		g.feat("chan-of-int")
	}

	return c
}

func (c chanSpec) make() string { return fmt.Sprintf("«mk:%s:%d»", c.typ, c.cap) }
func (c chanSpec) ptype() string { return fmt.Sprintf("«ch:%s»", c.typ) }

// drain renders the consumer loop adding val(received) to `sum` and counting `cnt`.
func (g *gen) drain(c chanSpec, ch, ind string, collect bool) string {
	extra := ""
	if collect {
		extra = ind + "\tgot = append(got, " + c.val("v") + ")\n"
	}

	if g.pick(2) == 0 {
		g.feat("recv-range")

		return fmt.Sprintf("%sfor v := range %s {\n%s\tsum = sum + %s\n%s\tcnt = cnt + 1\n%s%s}\n", ind, ch, ind, c.val("v"), ind, extra, ind)
	}

	g.feat("recv-comma-ok")

	return fmt.Sprintf("%sfor {\n%s\tv, ok := <-%s\n%s\tif !ok {\n%s\t\tbreak\n%s\t}\n%s\tsum = sum + %s\n%s\tcnt = cnt + 1\n%s%s}\n",
		ind, ind, ch, ind, ind, ind, ind, c.val("v"), ind, extra, ind)
}

func (g *gen) sceneFanIn(id int) scene {
	k, n := g.rng(1, 6), g.rng(1, 8)
	h := g.helper()
	c := g.chanSpec(0)
	named := g.pick(2) == 0
	consumerIsGoroutine := g.pick(3) == 0
	var b strings.Builder

	fmt.Fprintf(&b, "\tch := %s\n", c.make())
	g.gor += k

	if k == 1 {
		// the only producer closes its channel itself
		g.feat("producer-closes-own-channel")

		if named {
			w := g.name("prod")
			g.feat("go-named-function")
			fmt.Fprintf(&g.decls, "func %s(id int, n int, out %s) {\n\tdefer close(out)\n\tfor i := 0; i < n; i++ {\n\t\tout <- %s\n\t}\n}\n\n", w, c.ptype(), c.mk(g.compute(h, "id", "i"), "id"))
			fmt.Fprintf(&b, "\tgo %s(%d, %d, ch)\n", w, g.rng(1, 9), n)
		} else {
			g.feat("go-closure-unrolled")
			fmt.Fprintf(&b, "\tseed := %d\n\tgo func() {\n\t\tdefer close(ch)\n\t\tfor i := 0; i < %d; i++ {\n\t\t\tch <- %s\n\t\t}\n\t}()\n", g.rng(1, 9), n, c.mk(g.compute(h, "seed", "i"), "seed"))
			g.feat("captured-readonly-scalar")
		}
	} else {
		g.feat("closer-goroutine-after-waitgroup")
		b.WriteString("\tvar pw sync.WaitGroup\n")

		if named {
			w := g.name("prod")
			g.feat("go-named-function")
			fmt.Fprintf(&g.decls, "func %s(id int, n int, out %s, pw *sync.WaitGroup) {\n\tdefer pw.Done()\n\tfor i := 0; i < n; i++ {\n\t\tout <- %s\n\t}\n}\n\n", w, c.ptype(), c.mk(g.compute(h, "id", "i"), "id"))
			fmt.Fprintf(&b, "\tfor p := 0; p < %d; p++ {\n\t\tpw.Add(1)\n\t\tgo %s(p, %d, ch, &pw)\n\t}\n", k, w, n)
		} else {
			g.feat("go-closure-in-loop")
			fmt.Fprintf(&b, "\tfor p := 0; p < %d; p++ {\n\t\tpw.Add(1)\n\t\tgo func(id int) {\n\t\t\tdefer pw.Done()\n\t\t\tfor i := 0; i < %d; i++ {\n\t\t\t\tch <- %s\n\t\t\t}\n\t\t}(p)\n\t}\n", k, n, c.mk(g.compute(h, "id", "i"), "id"))
		}

		b.WriteString("\tgo func() {\n\t\tpw.Wait()\n\t\tclose(ch)\n\t}()\n")
		g.gor++
	}

	if consumerIsGoroutine {
		// consumer goroutine owns sum/cnt/got until it signals completion through `done`
		g.feat("consumer-goroutine-signals-done")
		g.gor++
		b.WriteString("\tsum := 0\n\tcnt := 0\n\tgot := []int{}\n\tdone := «mk:int:1»\n\tgo func() {\n")
		b.WriteString(g.drain(c, "ch", "\t\t", true))
		b.WriteString("\t\tdone <- 1\n\t}()\n")
		b.WriteString(g.mainWork(h, "b"))
		b.WriteString("\tfin := <-done\n\tcnt = cnt + fin - 1\n")
	} else {
		b.WriteString("\tsum := 0\n\tcnt := 0\n\tgot := []int{}\n")
		b.WriteString(g.drain(c, "ch", "\t", true))
	}

	fmt.Fprintf(&b, "\tsort.Ints(got)\n\tout := fmt.Sprintf(\"S%d fanin sum=%%d cnt=%%d\", sum, cnt)\n\tfor _, e := range got {\n\t\tout = out + fmt.Sprintf(\" %%d\", e)\n\t}\n", id)

	if strings.Contains(b.String(), "busyb") {
		b.WriteString("\tout = out + fmt.Sprintf(\" busy=%d\", busyb)\n")
	}

	b.WriteString("\treturn out\n")

	return scene{"fanin", b.String()}
}

func (g *gen) scenePool(id int) scene {
	k, njobs := g.rng(2, 8), g.rng(1, 20)
	h := g.helper()
	jobs := g.chanSpec(0)
	jobs.kind, jobs.typ = "int", "int"
	res := g.chanSpec(0)
	feederIsMain := g.pick(3) == 0
	var b strings.Builder

	if feederIsMain {
		// the launcher sends every job before it reads any result: capacities must cover all of them
		jobs.cap = njobs
		res.cap = njobs
		g.feat("launcher-feeds-buffered-jobs")
	} else {
		g.feat("feeder-goroutine")
		g.gor++
	}

	g.feat("worker-pool")
	g.gor += k + 1

	fmt.Fprintf(&b, "\tjobs := «mk:int:%d»\n\tresults := %s\n\tvar ww sync.WaitGroup\n", jobs.cap, res.make())

	if g.pick(2) == 0 {
		w := g.name("pw")
		g.feat("go-named-function")
		fmt.Fprintf(&g.decls, "func %s(id int, jobs «ch:int», results %s, ww *sync.WaitGroup) {\n\tdefer ww.Done()\n\tfor j := range jobs {\n\t\tresults <- %s\n\t}\n}\n\n", w, res.ptype(), res.mk(g.compute(h, "j")+" + id*0", "j"))
		fmt.Fprintf(&b, "\tfor p := 0; p < %d; p++ {\n\t\tww.Add(1)\n\t\tgo %s(p, jobs, results, &ww)\n\t}\n", k, w)
	} else {
		g.feat("go-closure-in-loop")
		fmt.Fprintf(&b, "\tfor p := 0; p < %d; p++ {\n\t\tww.Add(1)\n\t\tgo func() {\n\t\t\tdefer ww.Done()\n\t\t\tfor j := range jobs {\n\t\t\t\tresults <- %s\n\t\t\t}\n\t\t}()\n\t}\n", k, res.mk(g.compute(h, "j"), "j"))
	}

	g.feat("recv-range")
	b.WriteString("\tgo func() {\n\t\tww.Wait()\n\t\tclose(results)\n\t}()\n")

	feed := fmt.Sprintf("for j := 0; j < %d; j++ {\n\t\tjobs <- j*%d + %d\n\t}\n\tclose(jobs)\n", njobs, g.rng(1, 9), g.rng(0, 30))
	if feederIsMain {
		b.WriteString("\t" + feed)
	} else {
		b.WriteString("\tgo func() {\n\t\t" + strings.ReplaceAll(feed, "\n\t", "\n\t\t") + "}()\n")
		b.WriteString(g.mainWork(h, "c"))
	}

	b.WriteString("\tsum := 0\n\tcnt := 0\n\tgot := []int{}\n")
	b.WriteString(g.drain(res, "results", "\t", true))
	fmt.Fprintf(&b, "\tsort.Ints(got)\n\tout := fmt.Sprintf(\"S%d pool sum=%%d cnt=%%d\", sum, cnt)\n\tfor _, e := range got {\n\t\tout = out + fmt.Sprintf(\" %%d\", e)\n\t}\n", id)

	if strings.Contains(b.String(), "busyc") {
		b.WriteString("\tout = out + fmt.Sprintf(\" busy=%d\", busyc)\n")
	}

	b.WriteString("\treturn out\n")

	return scene{"pool", b.String()}
}

func (g *gen) scenePipeline(id int) scene {
	stages, n := g.rng(2, 4), g.rng(1, 12)
	var b strings.Builder

	g.feat("pipeline")

	caps := []int{0, 1, 3, 16}
	fmt.Fprintf(&b, "\tc0 := «mk:int:%d»\n", caps[g.pick(4)])
	fmt.Fprintf(&b, "\tgo func() {\n\t\tdefer close(c0)\n\t\tfor i := 0; i < %d; i++ {\n\t\t\tc0 <- i*%d + %d\n\t\t}\n\t}()\n", n, g.rng(1, 7), g.rng(0, 20))
	g.gor++
	g.feat("producer-closes-own-channel")

	for s := 1; s <= stages; s++ {
		h := g.helper()
		cp := caps[g.pick(4)]
		if cp == 0 {
			g.feat("chan-unbuffered")
		} else {
			g.feat("chan-buffered")
		}

		fmt.Fprintf(&b, "\tc%d := «mk:int:%d»\n", s, cp)

		width := 1
		if g.pick(3) == 0 {
			width = g.rng(2, 4)
		}

		g.gor += width

		if width == 1 {
			if g.pick(2) == 0 {
				st := g.name("stage")
				g.feat("go-named-function")
				fmt.Fprintf(&g.decls, "func %s(in «ch:int», out «ch:int») {\n\tdefer close(out)\n\tfor v := range in {\n\t\tout <- %s(v)\n\t}\n}\n\n", st, h)
				fmt.Fprintf(&b, "\tgo %s(c%d, c%d)\n", st, s-1, s)
			} else {
				g.feat("go-closure-unrolled")
				fmt.Fprintf(&b, "\tgo func() {\n\t\tdefer close(c%d)\n\t\tfor v := range c%d {\n\t\t\tc%d <- %s(v)\n\t\t}\n\t}()\n", s, s-1, s, h)
			}
		} else {
			g.feat("closer-goroutine-after-waitgroup")
			g.feat("go-closure-in-loop")
			g.gor++
			fmt.Fprintf(&b, "\tvar w%d sync.WaitGroup\n\tfor p := 0; p < %d; p++ {\n\t\tw%d.Add(1)\n\t\tgo func() {\n\t\t\tdefer w%d.Done()\n\t\t\tfor v := range c%d {\n\t\t\t\tc%d <- %s(v)\n\t\t\t}\n\t\t}()\n\t}\n\tgo func() {\n\t\tw%d.Wait()\n\t\tclose(c%d)\n\t}()\n",
				s, width, s, s, s-1, s, h, s, s)
		}
	}

	g.feat("recv-range")
	fmt.Fprintf(&b, "\tsum := 0\n\tcnt := 0\n\tfor v := range c%d {\n\t\tsum = sum + v\n\t\tcnt = cnt + 1\n\t}\n", stages)
	fmt.Fprintf(&b, "\tout := fmt.Sprintf(\"S%d pipe sum=%%d cnt=%%d\", sum, cnt)\n\treturn out\n", id)

	return scene{"pipeline", b.String()}
}

func (g *gen) sceneNested(id int) scene {
	groups, per := g.rng(2, 4), g.rng(2, 4)
	h := g.helper()
	r := g.recHelper()
	var b strings.Builder

	g.feat("nested-goroutines")
	g.feat("go-closure-in-loop")
	g.feat("captured-state-under-mutex")
	g.gor += groups * (per + 1)

	b.WriteString("\tvar mu sync.Mutex\n\tvar outer sync.WaitGroup\n\ttotal := 0\n\tgroupsDone := 0\n")
	fmt.Fprintf(&b, "\tfor gi := 0; gi < %d; gi++ {\n\t\touter.Add(1)\n\t\tgo func(gid int) {\n\t\t\tdefer outer.Done()\n\t\t\tvar inner sync.WaitGroup\n\t\t\tpart := 0\n\t\t\tvar pmu sync.Mutex\n", groups)
	fmt.Fprintf(&b, "\t\t\tfor wi := 0; wi < %d; wi++ {\n\t\t\t\tinner.Add(1)\n\t\t\t\tgo func(wid int) {\n\t\t\t\t\tdefer inner.Done()\n\t\t\t\t\tv := %s + %s(wid+%d)\n\t\t\t\t\tpmu.Lock()\n\t\t\t\t\tpart = part + v\n\t\t\t\t\tpmu.Unlock()\n\t\t\t\t}(wi)\n\t\t\t}\n",
		per, g.compute(h, "gid", "wid"), r, g.rng(2, 7))
	b.WriteString("\t\t\tinner.Wait()\n\t\t\tmu.Lock()\n\t\t\ttotal = total + part\n\t\t\tgroupsDone = groupsDone + 1\n\t\t\tmu.Unlock()\n\t\t}(gi)\n\t}\n")
	b.WriteString(g.mainWork(h, "d"))
	b.WriteString("\touter.Wait()\n")
	fmt.Fprintf(&b, "\tout := fmt.Sprintf(\"S%d nested total=%%d groups=%%d\", total, groupsDone)\n", id)

	if strings.Contains(b.String(), "busyd") {
		b.WriteString("\tout = out + fmt.Sprintf(\" busy=%d\", busyd)\n")
	}

	b.WriteString("\treturn out\n")

	return scene{"nested", b.String()}
}

func (g *gen) sceneRW(id int) scene {
	readers, writers, iters := g.rng(1, 5), g.rng(1, 3), g.rng(1, 4)
	h := g.helper()
	var b strings.Builder

	g.feat("rwmutex")
	g.feat("go-closure-in-loop")
	g.gor += readers + writers

	fmt.Fprintf(&b, "\tvar rw sync.RWMutex\n\tvar mu sync.Mutex\n\tvar wg sync.WaitGroup\n\ttable := map[string]int{\"a\": %d, \"b\": %d, \"w\": 0}\n\trsum := 0\n", g.rng(1, 50), g.rng(1, 50))
	// readers only read keys no writer touches; writers only add to "w"
	fmt.Fprintf(&b, "\tfor i := 0; i < %d; i++ {\n\t\twg.Add(1)\n\t\tgo func(id int) {\n\t\t\tdefer wg.Done()\n\t\t\tfor j := 0; j < %d; j++ {\n\t\t\t\trw.RLock()\n\t\t\t\tv := table[\"a\"]*%d + table[\"b\"]\n\t\t\t\trw.RUnlock()\n\t\t\t\tmu.Lock()\n\t\t\t\trsum = rsum + %s\n\t\t\t\tmu.Unlock()\n\t\t\t}\n\t\t}(i)\n\t}\n",
		readers, iters, g.rng(2, 9), g.compute(h, "v", "id", "j"))
	fmt.Fprintf(&b, "\tfor i := 0; i < %d; i++ {\n\t\twg.Add(1)\n\t\tgo func(id int) {\n\t\t\tdefer wg.Done()\n\t\t\tfor j := 0; j < %d; j++ {\n\t\t\t\trw.Lock()\n\t\t\t\ttable[\"w\"] = table[\"w\"] + id + j + 1\n\t\t\t\trw.Unlock()\n\t\t\t}\n\t\t}(i)\n\t}\n",
		writers, iters)
	b.WriteString(g.mainWork(h, "e"))
	b.WriteString("\twg.Wait()\n")
	fmt.Fprintf(&b, "\tout := fmt.Sprintf(\"S%d rw rsum=%%d w=%%d\", rsum, table[\"w\"])\n", id)

	if strings.Contains(b.String(), "busye") {
		b.WriteString("\tout = out + fmt.Sprintf(\" busy=%d\", busye)\n")
	}

	b.WriteString("\treturn out\n")

	return scene{"rwmutex", b.String()}
}

func (g *gen) scenePingPong(id int) scene {
	n := g.rng(1, 12)
	h := g.helper()
	var b strings.Builder

	g.feat("ping-pong")
	g.feat("recv-single-value-open-channel")
	g.gor += 2

	caps := []int{0, 1, 4}
	fmt.Fprintf(&b, "\tping := «mk:int:%d»\n\tpong := «mk:int:%d»\n\tres := «mk:int:1»\n", caps[g.pick(3)], caps[g.pick(3)])
	fmt.Fprintf(&b, "\tgo func() {\n\t\tacc := 0\n\t\tfor i := 0; i < %d; i++ {\n\t\t\tping <- i + %d\n\t\t\tr := <-pong\n\t\t\tacc = acc + r\n\t\t}\n\t\tres <- acc\n\t}()\n", n, g.rng(1, 30))
	fmt.Fprintf(&b, "\tgo func() {\n\t\tfor i := 0; i < %d; i++ {\n\t\t\tq := <-ping\n\t\t\tpong <- %s(q) + i\n\t\t}\n\t}()\n", n, h)
	b.WriteString(g.mainWork(h, "f"))
	fmt.Fprintf(&b, "\tfinal := <-res\n\tout := fmt.Sprintf(\"S%d pingpong %%d\", final)\n", id)

	if strings.Contains(b.String(), "busyf") {
		b.WriteString("\tout = out + fmt.Sprintf(\" busy=%d\", busyf)\n")
	}

	b.WriteString("\treturn out\n")

	return scene{"pingpong", b.String()}
}

func (g *gen) sceneBank(id int) scene {
	k, iters, na := g.rng(2, 8), g.rng(1, 6), g.rng(2, 5)
	h := g.helper()
	var b strings.Builder

	g.feat("shared-slice-element-update")
	g.feat("captured-state-under-mutex")
	g.feat("go-closure-in-loop")
	g.gor += k

	b.WriteString("\tvar mu sync.Mutex\n\tvar wg sync.WaitGroup\n\taccts := []int{}\n")
	fmt.Fprintf(&b, "\tfor a := 0; a < %d; a++ {\n\t\taccts = append(accts, 100000)\n\t}\n", na)
	fmt.Fprintf(&b, "\tfor i := 0; i < %d; i++ {\n\t\twg.Add(1)\n\t\tgo func(id int) {\n\t\t\tdefer wg.Done()\n\t\t\tfor j := 0; j < %d; j++ {\n\t\t\t\tamt := %s %% 50\n\t\t\t\tfrom := (id + j) %% %d\n\t\t\t\tto := (id*3 + j + 1) %% %d\n\t\t\t\tmu.Lock()\n\t\t\t\taccts[from] = accts[from] - amt\n\t\t\t\taccts[to] = accts[to] + amt\n\t\t\t\tmu.Unlock()\n\t\t\t}\n\t\t}(i)\n\t}\n",
		k, iters, g.compute(h, "id", "j"), na, na)
	b.WriteString(g.mainWork(h, "g"))
	b.WriteString("\twg.Wait()\n\tsum := 0\n")
	fmt.Fprintf(&b, "\tout := \"S%d bank\"\n\tfor _, a := range accts {\n\t\tsum = sum + a\n\t\tout = out + fmt.Sprintf(\" %%d\", a)\n\t}\n\tout = out + fmt.Sprintf(\" sum=%%d\", sum)\n", id)

	if strings.Contains(b.String(), "busyg") {
		b.WriteString("\tout = out + fmt.Sprintf(\" busy=%d\", busyg)\n")
	}

	b.WriteString("\treturn out\n")

	return scene{"bank", b.String()}
}


// sceneIface: a user interface type (1-3 methods), 2-4 struct types implementing it, a function with a
// parameter of the interface type, and goroutines that call it with DIFFERENT concrete types for the first
// time concurrently; comma-ok assertions back to the concrete types; interface values through a channel
// whose receiver calls the interface-typed function again. All type names carry the «U» marker: the Go
// rendering prefixes them like every other name, the Ego text gets a name that is unique per EXECUTION
// (see uniqMarker), so the interpreter's process-wide (type, interface) conformance cache is cold every time.
// (Ego's type switch is not used: `switch v := x.(type)` fails under `ego run` with "invalid or unsupported
// data type" even sequentially, which is outside this property.)
func (g *gen) sceneIface(id int) scene {
	k, nt, nm := g.rng(2, 8), g.rng(2, 4), g.rng(1, 3)
	g.nfun++
	u := fmt.Sprintf("«U»%d", g.nfun)
	iface := u + "Shape"
	d := &g.decls
	var b strings.Builder

	g.feat("interface-parameter")
	g.feat(fmt.Sprintf("interface-methods:%d", nm))
	g.feat("go-closure-in-loop")
	g.feat("chan-of-interface")
	g.feat("type-assertion-comma-ok")
	g.feat("closer-goroutine-after-waitgroup")
	g.feat("recv-range")
	g.gor += k + 1

	fmt.Fprintf(d, "type %s interface {\n\tArea() int\n", iface)

	if nm >= 2 {
		d.WriteString("\tTag() string\n")
	}

	if nm >= 3 {
		d.WriteString("\tScale(k int) int\n")
	}

	d.WriteString("}\n\n")

	for t := 1; t <= nt; t++ {
		tn := fmt.Sprintf("%sT%d", u, t)
		// a field of its own keeps the struct types structurally distinct: Ego's x.(T) on struct types
		// compares shape, not name (a sequential Ego/Go difference that is not this property's business)
		fmt.Fprintf(d, "type %s struct {\n\ta int\n\tb int\n\tonly%d int\n}\n\n", tn, t)
		fmt.Fprintf(d, "func (v %s) Area() int {\n\treturn (v.a*%d + v.b + %d) %% %d\n}\n\n", tn, g.rng(2, 9), g.rng(0, 20), []int{97, 251, 1009}[g.pick(3)])

		if nm >= 2 {
			fmt.Fprintf(d, "func (v %s) Tag() string {\n\treturn \"%s\"\n}\n\n", tn, strings.Repeat("t", t)+fmt.Sprint(t))
		}

		if nm >= 3 {
			fmt.Fprintf(d, "func (v %s) Scale(k int) int {\n\treturn v.a*k + %d\n}\n\n", tn, g.rng(0, 9))
		}
	}

	use, which := u+"use", u+"which"
	body := "s.Area()*k"

	if nm >= 2 {
		body += " + len(s.Tag())"
	}

	if nm >= 3 {
		body += " + s.Scale(k)"
	}

	fmt.Fprintf(d, "func %s(s %s, k int) int {\n\treturn %s\n}\n\n", use, iface, body)
	fmt.Fprintf(d, "func %s(s %s) int {\n", which, iface)

	for t := 1; t <= nt; t++ {
		fmt.Fprintf(d, "\tc%d, ok%d := s.(%sT%d)\n\tif ok%d {\n\t\treturn c%d.a + %d\n\t}\n", t, t, u, t, t, t, t*1000)
	}

	d.WriteString("\treturn 7\n}\n\n")

	fmt.Fprintf(&b, "\tvar mu sync.Mutex\n\tvar wg sync.WaitGroup\n\ttotal := 0\n\tch := «mk:%s:%d»\n", iface, []int{0, 1, 4}[g.pick(3)])
	fmt.Fprintf(&b, "\tfor i := 0; i < %d; i++ {\n\t\twg.Add(1)\n\t\tgo func(id int) {\n\t\t\tdefer wg.Done()\n\t\t\tv := 0\n", k)

	for t := 1; t <= nt; t++ {
		cond := fmt.Sprintf("if id %% %d == %d {", nt, t-1)
		if t > 1 {
			cond = "} else " + cond
		}

		if t == nt && nt > 1 {
			cond = "} else {"
		}

		tn := fmt.Sprintf("%sT%d", u, t)
		fmt.Fprintf(&b, "\t\t\t%s\n\t\t\t\tv = %s(%s{a: id + %d, b: %d}, %d) + %s(%s{a: id, b: 1})\n\t\t\t\tch <- %s{a: id + %d, b: id}\n",
			cond, use, tn, g.rng(1, 9), g.rng(0, 9), g.rng(1, 5), which, tn, tn, g.rng(0, 5))
	}

	b.WriteString("\t\t\t}\n\t\t\tmu.Lock()\n\t\t\ttotal = total + v\n\t\t\tmu.Unlock()\n\t\t}(i)\n\t}\n")
	b.WriteString("\tgo func() {\n\t\twg.Wait()\n\t\tclose(ch)\n\t}()\n")
	fmt.Fprintf(&b, "\tsum := 0\n\tcnt := 0\n\tfor x := range ch {\n\t\tsum = sum + %s(x, %d) + %s(x)\n\t\tcnt = cnt + 1\n\t}\n", use, g.rng(1, 4), which)
	fmt.Fprintf(&b, "\twg.Wait()\n\tout := fmt.Sprintf(\"S%d iface total=%%d sum=%%d cnt=%%d\", total, sum, cnt)\n\treturn out\n", id)

	return scene{"iface", b.String()}
}


// sceneLoopCap: goroutines and plain closures created at nesting depth 0, 1 or 2 inside the body of a
// three-clause for, a for-range or a condition-only for. They capture the loop variables (per iteration in
// Go >= 1.22 and in Ego since BUG-30, tests/flow/for_loopvar.ego) and body-level := locals; in the
// condition-only form, whose counter is one variable in both languages, only per-iteration copies are
// captured. The goroutines wait at a channel gate that the launcher opens AFTER the loop has finished, so a
// variable wrongly shared between iterations would show its final value; what they captured is folded into
// a mutex-protected sum. The stored closures are called after the loop.
func (g *gen) sceneLoopCap(id int) scene {
	n, form, depth := g.rng(2, 7), g.pick(3), g.pick(3)
	h := g.helper()
	var b strings.Builder

	g.feat("loop-capture")
	g.feat([]string{"loop-capture:for3", "loop-capture:range", "loop-capture:cond"}[form])
	g.feat(fmt.Sprintf("loop-capture:depth%d", depth))
	g.feat("gate-after-loop")
	g.feat("captured-state-under-mutex")
	g.gor += n

	k1, k2 := g.rng(2, 12), g.rng(0, 30)
	fmt.Fprintf(&b, "\tvar mu sync.Mutex\n\tvar wg sync.WaitGroup\n\ttotal := 0\n\tlaunched := 0\n\tgate := «mk:int:%d»\n\tfs := «FUNCS»\n", []int{0, 1, 8}[g.pick(3)])

	// what a closure folds in: every captured name, weighted so that a wrong binding changes the sum
	capt := "i*1000 + w"
	launch := func(ind, extra string) string {
		e := capt + extra

		return fmt.Sprintf("%swg.Add(1)\n%slaunched = launched + 1\n%sgo func() {\n%s\tt := <-gate\n%s\tv := %s(%s + t - 1)\n%s\tmu.Lock()\n%s\ttotal = total + v + (%s)\n%s\tmu.Unlock()\n%s\twg.Done()\n%s}()\n%sfs = append(fs, func() int {\n%s\treturn %s\n%s})\n",
			ind, ind, ind, ind, ind, h, e, ind, ind, e, ind, ind, ind, ind, ind, e, ind)
	}

	var body string

	switch depth {
	case 0:
		body = launch("\t\t", "")
	case 1:
		body = "\t\tif w % 2 == 0 {\n" + launch("\t\t\t", "") + "\t\t} else {\n" + launch("\t\t\t", " + 5") + "\t\t}\n"
	default:
		body = "\t\tif w >= 0 {\n\t\t\tu := w + i + 1\n\t\t\tif u % 3 != 0 {\n" + launch("\t\t\t\t", " + u*7") + "\t\t\t} else {\n" + launch("\t\t\t\t", " + u*11 + 1") + "\t\t\t}\n\t\t}\n"
	}

	switch form {
	case 0:
		fmt.Fprintf(&b, "\tfor i := 0; i < %d; i++ {\n\t\tw := i*%d + %d\n%s\t}\n", n, k1, k2, body)
	case 1:
		b.WriteString("\titems := []int{")

		for q := 0; q < n; q++ {
			if q > 0 {
				b.WriteString(", ")
			}

			fmt.Fprintf(&b, "%d", g.rng(1, 90))
		}

		fmt.Fprintf(&b, "}\n\tfor i, x := range items {\n\t\tw := x*%d + i + %d\n%s\t}\n", k1, k2, body)
	default:
		// one counter variable for the whole loop in both languages: closures capture the per-iteration copy
		fmt.Fprintf(&b, "\tc := 0\n\tfor c < %d {\n\t\ti := c\n\t\tw := i*%d + %d\n%s\t\tc = c + 1\n\t}\n", n, k1, k2, body)
	}

	// the loop is over: open the gate, then call the stored closures
	b.WriteString("\tfor q := 0; q < launched; q++ {\n\t\tgate <- 1\n\t}\n\twg.Wait()\n\tfsum := 0\n\tfor q := 0; q < len(fs); q++ {\n\t\tfsum = fsum + fs[q]()\n\t}\n")
	fmt.Fprintf(&b, "\tout := fmt.Sprintf(\"S%d loopcap total=%%d launched=%%d fsum=%%d\", total, launched, fsum)\n\treturn out\n", id)

	return scene{"loopcap", b.String()}
}

// uniqMarker stands in the Ego text for a name prefix that the worker replaces by one that is unique
// to the execution (the interpreter caches interface conformance per (type name, interface name)).
const uniqMarker = "UNIQ0_"

// GenProgram builds program number id from the PRNG.
func GenProgram(r *rand.Rand, id int, avoid map[string]bool) Prog {
	g := &gen{r: r, feats: map[string]bool{}, avoid: avoid}
	ns := g.rng(1, 4)
	var scenes []scene

	makers := []func(int) scene{g.sceneMutex, g.sceneMutex, g.sceneFanIn, g.scenePool, g.scenePipeline, g.sceneNested, g.sceneRW, g.scenePingPong, g.sceneBank, g.sceneIface, g.sceneIface, g.sceneLoopCap, g.sceneLoopCap, g.sceneLoopCap}
	for i := 0; i < ns; i++ {
		scenes = append(scenes, makers[g.pick(len(makers))](i+1))
	}

	var body strings.Builder

	concurrentScenes := ns > 1 && g.pick(3) == 0
	inlineFirst := !concurrentScenes && g.pick(2) == 0

	for i, s := range scenes {
		if i == 0 && inlineFirst {
			continue
		}

		fmt.Fprintf(&g.decls, "func «P»scene%d() string {\n%s}\n\n", i+1, s.body)
	}

	var m strings.Builder

	m.WriteString("func «MAIN» {\n")

	switch {
	case concurrentScenes:
		// every scene runs in its own goroutine; their result lines are collected through a channel and sorted
		g.feat("scenes-run-concurrently")
		g.gor += ns
		fmt.Fprintf(&m, "\tlines := «mk:string:%d»\n", []int{0, 1, ns}[g.pick(3)])

		for i := range scenes {
			fmt.Fprintf(&m, "\tgo func() {\n\t\tlines <- «P»scene%d()\n\t}()\n", i+1)
		}

		fmt.Fprintf(&m, "\tall := []string{}\n\tfor i := 0; i < %d; i++ {\n\t\tl := <-lines\n\t\tall = append(all, l)\n\t}\n\tsort.Strings(all)\n\tfor _, l := range all {\n\t\t«PRINT»(\"%%s\\n\", l)\n\t}\n", ns)
	default:
		for i, s := range scenes {
			if i == 0 && inlineFirst {
				// the first scene's statements run directly in main's scope
				g.feat("scene-inline-in-main")

				inl := strings.Replace(s.body, "\treturn out\n", "\t«PRINT»(\"%s\\n\", out)\n", 1)
				m.WriteString("\t{\n")
				m.WriteString(indent(inl))
				m.WriteString("\t}\n")

				continue
			}

			fmt.Fprintf(&m, "\t«PRINT»(\"%%s\\n\", «P»scene%d())\n", i+1)
		}
	}

	m.WriteString("«WAIT»}\n")
	body.WriteString(g.decls.String())
	body.WriteString(m.String())

	p := Prog{ID: id, Goroutines: g.gor}
	for f := range g.feats {
		p.Features = append(p.Features, f)
	}

	for _, s := range scenes {
		p.Features = append(p.Features, "scene:"+s.name)
	}

	sort.Strings(p.Features)
	p.Features = dedupe(p.Features)

	p.Types = []string{"dynamic", "strict", "relaxed"}[g.pick(3)]

	// interface conformance of arguments is only checked under strict typing
	if g.feats["interface-parameter"] && g.pick(3) != 0 {
		p.Types = "strict"
	}

	p.Opt = []int{2, 2, 0, 1, 3}[g.pick(5)]
	p.Registers = g.pick(3) == 0
	p.ConstFold = g.pick(3) == 0
	p.GCache = g.pick(3) == 0

	neutral := body.String()
	p.Ego = renderEgo(neutral)
	p.Go = renderGo(neutral, id)

	return p
}

func indent(s string) string {
	lines := strings.Split(strings.TrimSuffix(s, "\n"), "\n")
	for i := range lines {
		lines[i] = "\t" + lines[i]
	}

	return strings.Join(lines, "\n") + "\n"
}

func dedupe(s []string) []string {
	out := s[:0]

	for i, x := range s {
		if i == 0 || x != s[i-1] {
			out = append(out, x)
		}
	}

	return out
}

// placeholders: «P» name prefix, «MAIN», «PRINT», «mk:T:N» make(chan), «ch:T» channel type.
func renderEgo(neutral string) string {
	s := strings.ReplaceAll(neutral, "«P»", "")
	s = strings.ReplaceAll(s, "«U»", uniqMarker)
	s = strings.ReplaceAll(s, "«FUNCS»", "[]any{}")
	s = strings.ReplaceAll(s, "«MAIN»", "main()")
	s = strings.ReplaceAll(s, "«PRINT»", "fmt.Printf")
	// every goroutine of the program has been joined or has signalled; @wait lets the ones that
	// signalled (closers, senders of a final result) return before the interpreter run ends
	s = strings.ReplaceAll(s, "«WAIT»", "\t@wait\n")
	s = replacePlaceholders(s, func(kind, typ, n string) string {
		if kind == "ch" {
			return "chan"
		}

		if n == "0" {
			return "make(chan)"
		}

		return "make(chan, " + n + ")"
	})

	return "import \"fmt\"\nimport \"sync\"\nimport \"sort\"\nimport \"strings\"\nimport \"strconv\"\n\n" + s
}

func renderGo(neutral string, id int) string {
	prefix := fmt.Sprintf("p%d_", id)
	s := strings.ReplaceAll(neutral, "«P»", prefix)
	s = strings.ReplaceAll(s, "«U»", prefix+"u")
	s = strings.ReplaceAll(s, "«FUNCS»", "[]func() int{}")
	s = strings.ReplaceAll(s, "«MAIN»", prefix+"main(w io.Writer)")
	s = strings.ReplaceAll(s, "«PRINT»(", "fmt.Fprintf(w, ")
	s = strings.ReplaceAll(s, "«WAIT»", "")
	s = replacePlaceholders(s, func(kind, typ, n string) string {
		if kind == "ch" {
			return "chan " + typ
		}

		if n == "0" {
			return "make(chan " + typ + ")"
		}

		return "make(chan " + typ + ", " + n + ")"
	})

	return s
}

func replacePlaceholders(s string, f func(kind, typ, n string) string) string {
	var b strings.Builder

	for {
		i := strings.Index(s, "«")
		if i < 0 {
			b.WriteString(s)

			return b.String()
		}

		j := strings.Index(s[i:], "»")
		inner := s[i+len("«") : i+j]
		parts := strings.Split(inner, ":")

		if (parts[0] == "mk" && len(parts) == 3) || (parts[0] == "ch" && len(parts) == 2) {
			b.WriteString(s[:i])

			n := ""
			if len(parts) == 3 {
				n = parts[2]
			}

			b.WriteString(f(parts[0], parts[1], n))
		} else {
			b.WriteString(s[:i+j+len("»")])
		}

		s = s[i+j+len("»"):]
	}
}

// GoBatch renders a set of programs as one Go main package. The program prints, for each
// program, a JSON line {"id":N,"out":"...","panic":"..."}.
func GoBatch(progs []Prog) string {
	var b strings.Builder

	b.WriteString("package main\n\nimport (\n\t\"bytes\"\n\t\"encoding/json\"\n\t\"fmt\"\n\t\"io\"\n\t\"os\"\n\t\"sort\"\n\t\"strconv\"\n\t\"strings\"\n\t\"sync\"\n)\n\n")
	b.WriteString("var _ = sort.Ints\nvar _ = strconv.Itoa\nvar _ = strings.ToUpper\nvar _ sync.Mutex\nvar _ io.Writer\n\n")
	b.WriteString("type result struct {\n\tID    int    `json:\"id\"`\n\tOut   string `json:\"out\"`\n\tPanic string `json:\"panic\"`\n}\n\n")
	b.WriteString("func run(id int, f func(io.Writer)) {\n\tvar buf bytes.Buffer\n\tr := result{ID: id}\n\tfunc() {\n\t\tdefer func() {\n\t\t\tif x := recover(); x != nil {\n\t\t\t\tr.Panic = fmt.Sprint(x)\n\t\t\t}\n\t\t}()\n\t\tf(&buf)\n\t}()\n\tr.Out = buf.String()\n\tj, _ := json.Marshal(r)\n\tfmt.Fprintln(os.Stdout, string(j))\n}\n\n")
	b.WriteString("func main() {\n")

	for _, p := range progs {
		fmt.Fprintf(&b, "\trun(%d, p%d_main)\n", p.ID, p.ID)
	}

	b.WriteString("}\n\n")

	for _, p := range progs {
		fmt.Fprintf(&b, "// ---- program %d ----\n%s\n", p.ID, p.Go)
	}

	return b.String()
}
