package conc

// C42 — Concurrent service requests do not see each other.
//
// The real server (router, authentication, service handler, compiled-service cache) runs
// in-process under the Go race detector (srvfix). Generated STATELESS Ego services copy the
// request's parameters, header, body, user and URL parts into locals, compute for a PRNG-chosen
// time, and answer with a digest of those locals. Every request of a batch carries a unique tag.
//
// Events observed: for each batch, the response (status, body, Content-Type, X-Verif-* headers)
// of each of 32 requests served one at a time, then of the same 32 requests served from 32
// goroutines at once with H1 yield injection; race-detector blocks written meanwhile; handler
// panics; Go fatal errors of the process.
// Oracle: concurrent response == serial response of the same request (the serial pass is repeated
// on a mismatch to show the reference itself is stable); a tag of another request inside a wrong
// response names the request it leaked from; zero race blocks.

import (
	"encoding/json"
	"fmt"
	"math/rand"
	"os"
	"path/filepath"
	"runtime"
	"sort"
	"strconv"
	"strings"
	"sync"
	"testing"
	"time"

	"github.com/tucats/ego/internal/cli/settings"
	"github.com/tucats/ego/internal/defs"
	"github.com/tucats/ego/internal/language/bytecode"
	"github.com/tucats/ego/internal/server/services"
	"github.com/tucats/ego/internal/verifh/srvfix"
	"github.com/tucats/ego/internal/verifh/vh"
)

const c42BatchSize = 32

// svcSpec is one generated service.
type svcSpec struct {
	Name   string `json:"name"` // s1..sN -> /services/verif/<name>/{{itempart}}/{{subpart}}
	Method string `json:"method"`
	Auth   bool   `json:"auth"`
	Source string `json:"source"`
	Shape  string `json:"shape"`
}

// svcOpts steers genService. Force* make the directed probe services; Avoid keeps a construct that a
// listed finding is about out of the random stream.
type svcOpts struct {
	ForceNamedPointer bool
	AvoidNamedPointer bool
	ForceAutoImport   bool
	ForceDynStruct    bool
	AvoidAutoImport   bool
}

func genService(r *rand.Rand, k int, o svcOpts) svcSpec {
	s := svcSpec{Name: fmt.Sprintf("s%d", k), Method: []string{"GET", "POST", "PUT"}[r.Intn(3)], Auth: r.Intn(2) == 0}

	var b strings.Builder

	auth := ""
	if s.Auth {
		auth = " authenticated"
	}

	fmt.Fprintf(&b, "@endpoint %s path=\"/services/verif/%s/{{itempart}}/{{subpart}}\" parameter=\"tag:string\",\"n:int\"%s\n\n", strings.ToLower(s.Method), s.Name, auth)
	var shape []string

	// Half of the services import what they use; the other half rely on the server's auto-import
	// (ego.compiler.import, on by default) for fmt, strings, strconv, math and sort. For those the packages
	// reach a request served from the cache only through the symbols saved with the cached service.
	if (r.Intn(2) == 0 || o.AvoidAutoImport) && !o.ForceAutoImport {
		b.WriteString("import \"fmt\"\nimport \"http\"\nimport \"strings\"\nimport \"strconv\"\nimport \"math\"\nimport \"sort\"\n\n")
	} else {
		shape = append(shape, "auto-imported-packages")
		b.WriteString("import \"http\"\n\n")
	}

	// helper functions and a type local to the service file
	a, c, m := 2+r.Intn(8), 1+r.Intn(40), []int{997, 1009, 65521, 1000003}[r.Intn(4)]
	fmt.Fprintf(&b, "func mix(x int, y int) int {\n    r := x\n    for i := 0; i < %d; i++ {\n        r = (r*%d + y + i + %d) %% %d\n    }\n    return r\n}\n\n", 1+r.Intn(5), a, c, m)
	b.WriteString("type record struct {\n    tag  string\n    n    int\n    user string\n}\n\n")
	b.WriteString("func describe(r record) string {\n    return r.tag + \"/\" + strconv.Itoa(r.n) + \"/\" + r.user\n}\n\n")

	// helpers with NAMED results of pointer, struct, map and slice type, assigned piece by piece and
	// returned by a bare return
	namedPtr := (r.Intn(2) == 0 || o.ForceNamedPointer) && !o.AvoidNamedPointer
	namedStruct, namedMap, namedSlice := r.Intn(2) == 0, r.Intn(2) == 0, r.Intn(2) == 0

	if namedPtr || namedStruct {
		b.WriteString("type info struct {\n    user string\n    item string\n    n    int\n}\n\n")
	}

	if namedPtr {
		shape = append(shape, "named-result:pointer")
		b.WriteString("func mkp(user string, item string, n int) (r *info) {\n    r.user = user\n    r.item = item\n    r.n = n\n    return\n}\n\n")
	}

	if namedStruct {
		shape = append(shape, "named-result:struct")
		b.WriteString("func mks(user string, item string, n int) (r info) {\n    r.user = user\n    if n % 2 == 0 {\n        r.item = item\n    }\n    r.n = n\n    return\n}\n\n")
	}

	if namedMap {
		shape = append(shape, "named-result:map")
		b.WriteString("func mkm(tag string, n int) (m map[string]int) {\n    m = map[string]int{}\n    m[tag] = n\n    if n % 3 == 0 {\n        m[\"third\"] = n + 1\n    }\n    return\n}\n\n")
	}

	if namedSlice {
		shape = append(shape, "named-result:slice")
		b.WriteString("func mkl(item string, n int) (l []string) {\n    l = append(l, item)\n    if n % 2 == 1 {\n        l = append(l, strconv.Itoa(n))\n    }\n    return\n}\n\n")
	}

	b.WriteString("func handler(req http.Request, w *http.ResponseWriter) {\n    bare := subpart + \"/\" + itempart\n")
	// 1. copy the request into locals
	b.WriteString("    tag := req.Parameters[\"tag\"][0]\n    n, _ := strconv.Atoi(req.Parameters[\"n\"][0])\n    user := req.Username\n    body := req.Body\n")
	b.WriteString("    item := req.URL.Parts[\"itempart\"]\n    sub := req.URL.Parts[\"subpart\"]\n    hdr := req.Headers[\"X-Verif-Tag\"][0]\n    method := req.Method\n    rec := record{tag: tag, n: n, user: user}\n")
	b.WriteString("    acc := 0\n")

	digestFmt, digestArgs := " bare=%s", ", bare"

	if namedPtr {
		b.WriteString("    np := mkp(user, item, n)\n")
		digestFmt += " np=%s/%s/%d"
		digestArgs += ", np.user, np.item, np.n"
	}

	if namedStruct {
		b.WriteString("    ns := mks(user, item, n)\n")
		digestFmt += " ns=%s/%s/%d"
		digestArgs += ", ns.user, ns.item, ns.n"
	}

	if namedMap {
		b.WriteString("    nm := mkm(tag, n)\n")
		digestFmt += " nm=%d/%d"
		digestArgs += ", len(nm), nm[tag]"
	}

	if namedSlice {
		b.WriteString("    nl := mkl(item, n)\n")
		digestFmt += " nl=%s"
		digestArgs += ", strings.Join(nl, \"+\")"
	}

	// per-request values kept in a DYNAMIC struct made with the empty initializer {} (language extension) whose
	// fields are added afterwards; one field only on some requests; a nested {} ; a copy taken with := before
	// the fields are added (the copy must stay empty of this and of every other request's values)
	dyn := r.Intn(3) != 0 || o.ForceDynStruct
	if dyn {
		shape = append(shape, "dynamic-struct-empty-initializer")
		b.WriteString("    dr := {}\n    dcopy := dr\n    dr.user = user\n    dr.item = item\n    dr.n = n\n    if n % 2 == 0 {\n        dr.opt = tag\n    }\n")
		b.WriteString("    dr.inner = {}\n    dr.inner.tag = tag\n    if n % 3 == 0 {\n        dr.inner.third = hdr\n    }\n")
		digestFmt += " dyn=%s"
		digestArgs += ", dynText"
	}

	// closures over handler locals created with := ; they are called only after the computation below
	closures := r.Intn(3) != 0
	if closures {
		shape = append(shape, "closures-over-locals")
		fmt.Fprintf(&b, "    scale := n + %d\n    calls := 0\n    weigh := func(x int) int {\n        calls = calls + 1\n        return x*scale + len(tag) + len(user)\n    }\n    label := func() string {\n        return sub + \":\" + tag + \":\" + strconv.Itoa(calls)\n    }\n", 1+r.Intn(9))
		digestFmt += " cl=%d/%s"
		digestArgs += ", clv, label()"
	}

	// 2. PRNG-chosen computation; loop lengths depend on n so concurrent requests are out of step
	steps := 1 + r.Intn(4)
	for st := 0; st < steps; st++ {
		switch r.Intn(6) {
		case 0:
			shape = append(shape, "loop")
			fmt.Fprintf(&b, "    for i := 0; i < n*%d + %d; i++ {\n        acc = mix(acc, len(tag)*i + n)\n    }\n", 1+r.Intn(6), r.Intn(20))
		case 1:
			shape = append(shape, "map")
			fmt.Fprintf(&b, "    m%d := map[string]int{}\n    for i := 0; i < n + %d; i++ {\n        m%d[tag + \":\" + strconv.Itoa(i)] = mix(i, n)\n    }\n    for _, v := range m%d {\n        acc = acc + v\n    }\n    acc = acc %% 1000003 + len(m%d)\n", st, 1+r.Intn(10), st, st, st)
		case 2:
			shape = append(shape, "slice")
			fmt.Fprintf(&b, "    l%d := []string{}\n    for i := 0; i < n %% 7 + %d; i++ {\n        l%d = append(l%d, item + \"-\" + strconv.Itoa(mix(i, n)))\n    }\n    sort.Strings(l%d)\n    acc = acc + len(strings.Join(l%d, \",\"))\n", st, 1+r.Intn(8), st, st, st, st)
		case 3:
			shape = append(shape, "lib:math.Factor")
			fmt.Fprintf(&b, "    f%d := math.Factor(n*%d + %d)\n    for _, v := range f%d {\n        acc = acc + v\n    }\n", st, 1+r.Intn(9), 2+r.Intn(50), st)
		case 4:
			shape = append(shape, "lib:strings.Camel")
			fmt.Fprintf(&b, "    c%d := strings.Camel(sub + tag)\n    acc = acc + len(c%d) + len(strings.ToUpper(c%d))\n", st, st, st)
		default:
			shape = append(shape, "struct")
			fmt.Fprintf(&b, "    r%d := record{tag: strings.ToUpper(tag), n: acc + n, user: user}\n    acc = acc + len(describe(r%d))\n", st, st)
		}
	}

	if dyn {
		// rendered after the computation: the text lists whatever fields the structs hold by then
		b.WriteString("    dynText := strings.ReplaceAll(fmt.Sprintf(\"%v|%v\", dr, dcopy), \" \", \"\")\n")
	}

	if closures {
		fmt.Fprintf(&b, "    clv := 0\n    for i := 0; i < n %% 4 + 1; i++ {\n        clv = clv + weigh(acc %% %d + i)\n    }\n", 50+r.Intn(50))
	}

	// 3. read the request again after the computation and answer with a digest of the locals
	b.WriteString("    tagAgain := req.Parameters[\"tag\"][0]\n    userAgain := req.Username\n")
	fmt.Fprintf(&b, "    digest := fmt.Sprintf(\"svc=%s method=%%s tag=%%s again=%%s user=%%s/%%s item=%%s sub=%%s hdr=%%s n=%%d acc=%%d rec=%%s%s bodylen=%%d body=%%s\", method, tag, tagAgain, user, userAgain, item, sub, hdr, n, acc, describe(rec)%s, len(body), body)\n", s.Name, digestFmt, digestArgs)
	b.WriteString("    w.Header().Add(\"X-Verif-Echo\", tag)\n    w.Header().Add(\"X-Verif-User\", user)\n")
	b.WriteString("    w.WriteHeader(200 + n % 3)\n    w.Write([]byte(digest))\n}\n")

	s.Source = b.String()
	sort.Strings(shape)
	s.Shape = strings.Join(dedupe(shape), "+")

	return s
}

// c42Req is one request of a batch.
type c42Req struct {
	Tag    string `json:"tag"`
	Svc    int    `json:"svc"`
	Path   string `json:"path"`
	User   string `json:"user"`
	Body   string `json:"body"`
	Method string `json:"method"`
}

type c42Resp struct {
	Status int    `json:"status"`
	Body   string `json:"body"`
	Hdr    string `json:"hdr"` // Content-Type and X-Verif-* headers, canonical text
	Panic  string `json:"panic,omitempty"`
}

func (a c42Resp) same(b c42Resp) bool {
	return a.Status == b.Status && a.Body == b.Body && a.Hdr == b.Hdr && a.Panic == b.Panic
}

type c42Mismatch struct {
	Req        c42Req   `json:"request"`
	Serial     c42Resp  `json:"serial"`
	Concurrent c42Resp  `json:"concurrent"`
	Serial2    *c42Resp `json:"serial_again,omitempty"`
	Foreign    []string `json:"foreign_tags"`
}

// c42Rec is one line of the worker's result file.
type c42Rec struct {
	Batch      int           `json:"batch"`
	Begin      bool          `json:"begin,omitempty"`
	Services   []string      `json:"services,omitempty"`
	CacheMax   int           `json:"cache_max,omitempty"`
	Flushed    bool          `json:"flushed,omitempty"`
	Cold       bool          `json:"cold,omitempty"` // cache flushed, CONCURRENT burst first (no serial warm-up), serial reference afterwards
	ForeignAny int           `json:"foreign_any,omitempty"`
	Density    int64         `json:"density,omitempty"`
	Opt        int           `json:"opt"` // ego.compiler.optimize for this batch (services are recompiled when it changes)
	Seed       uint64        `json:"seed,omitempty"`
	Requests   int           `json:"requests,omitempty"`
	Status     map[int]int   `json:"status,omitempty"`
	Mismatch   []c42Mismatch `json:"mismatch,omitempty"`
	Unstable   int           `json:"unstable_reference,omitempty"`
	Yields     int64         `json:"yields,omitempty"`
	Instr      int64         `json:"instr,omitempty"`
	Race       string        `json:"race,omitempty"`
	Watchdog   string        `json:"watchdog,omitempty"`
	CacheSizes []int         `json:"cache_sizes,omitempty"`
	Sample     *c42Mismatch  `json:"sample,omitempty"` // one (request, serial, concurrent) triple that agreed
	SetupError string        `json:"setup_error,omitempty"`
}

// c42Fatal is a Go fatal error / unrecovered panic that ended a server process inside a batch.
type c42Fatal struct {
	Job   c42Job
	Batch int
	Text  string
}

type c42Job struct {
	Services []svcSpec `json:"services"`
	Batches  int       `json:"batches"`
	Start    int       `json:"start"`
	Stream   string    `json:"stream"` // PRNG stream name for this worker
	Out      string    `json:"out"`
	// NoEviction: keep the cache limit at or above the number of services of the batch (main stream
	// while the route first-use lock finding is listed as known). EvictionProbe: the directed probe
	// for that finding: three services, cache limit 1, every batch.
	ColdProbe     bool `json:"cold_probe,omitempty"` // every batch is a cold concurrent burst
	NoEviction    bool `json:"no_eviction,omitempty"`
	EvictionProbe bool `json:"eviction_probe,omitempty"`
}

var c42Users = []string{"", "alice", "bob", "carol", "dave"}

func hdrText(r srvfix.Response) string {
	var keys []string

	for k := range r.Header {
		if k == "Content-Type" || strings.HasPrefix(k, "X-Verif-") {
			keys = append(keys, k)
		}
	}

	sort.Strings(keys)

	var b strings.Builder
	for _, k := range keys {
		fmt.Fprintf(&b, "%s=%s;", k, strings.Join(r.Header[k], ","))
	}

	return b.String()
}

func serve(f *srvfix.Fixture, q c42Req) c42Resp {
	h := map[string]string{"Accept": "text/plain", "X-Verif-Tag": "h-" + q.Tag}
	if q.User != "" {
		h["Authorization"] = srvfix.Basic(q.User, f.Password(q.User))
	}

	r := f.Do(srvfix.Request{Method: q.Method, Path: q.Path, Header: h, Body: []byte(q.Body)})

	return c42Resp{Status: r.Status, Body: string(r.Body), Hdr: hdrText(r), Panic: vh.Trunc(r.Panic, 3000)}
}

// batchRand derives the PRNG of batch b of a worker stream, so a batch can be regenerated alone.
func batchRand(stream string, b int) *rand.Rand { return vh.Rand(fmt.Sprintf("%s/batch-%d", stream, b)) }

func genBatch(r *rand.Rand, batch int, svcs []svcSpec, forceServices int) (reqs []c42Req, chosen []int) {
	ns := 1 + r.Intn(3)
	if forceServices > 0 {
		ns = forceServices
	}

	if ns > len(svcs) {
		ns = len(svcs)
	}

	perm := r.Perm(len(svcs))
	chosen = perm[:ns]

	for i := 0; i < c42BatchSize; i++ {
		si := chosen[r.Intn(ns)]
		s := svcs[si]
		tag := fmt.Sprintf("T%dx%02dq%04d", batch, i, r.Intn(10000))
		n := r.Intn(40)
		user := c42Users[r.Intn(len(c42Users))]

		if s.Auth && user == "" {
			user = "alice"
		}

		q := c42Req{Tag: tag, Svc: si, User: user, Method: s.Method,
			Path: fmt.Sprintf("/services/verif/%s/i%s/S%d?tag=%s&n=%d", s.Name, tag, r.Intn(1000), tag, n)}

		if s.Method != "GET" {
			q.Body = fmt.Sprintf("{\"payload\":\"b-%s\",\"pad\":\"%s\"}", tag, strings.Repeat("x", r.Intn(60)))
		}

		reqs = append(reqs, q)
	}

	return reqs, chosen
}

// TestC42Worker starts the server once and runs the batches of its job.
func TestC42Worker(t *testing.T) {
	jobPath := os.Getenv("CONC_C42_JOB")
	if jobPath == "" {
		t.Skip("worker half of TestC42")
	}

	var job c42Job

	b, err := os.ReadFile(jobPath)
	if err != nil || json.Unmarshal(b, &job) != nil {
		t.Fatalf("job file: %v", err)
	}

	w, err := newJSONL(job.Out)
	if err != nil {
		t.Fatal(err)
	}

	svcFiles := map[string]string{}
	for _, s := range job.Services {
		svcFiles["services/verif/"+s.Name+".ego"] = s.Source
	}

	f, err := srvfix.Start(srvfix.Options{Arena: filepath.Join(filepath.Dir(job.Out), fmt.Sprintf("srv-%d", os.Getpid())), Services: svcFiles, PanicRecovery: false,
		// the default profile of a real server (profile.RuntimeDefaults) has auto-import on
		Settings: map[string]string{defs.AutoImportSetting: "true"}})
	if err != nil {
		w.put(c42Rec{Batch: job.Start, SetupError: err.Error()})
		t.Fatalf("fixture: %v", err)
	}

	rl := newRaceLogReader()
	_ = rl.next() // anything written during start-up is not attributed to a batch (the parent still sees it)

	perBatch := 240 * time.Second
	lastOpt := -1

	for bi := job.Start; bi < job.Batches; bi++ {
		r := batchRand(job.Stream, bi)
		force := 0
		if job.EvictionProbe {
			force = 3
		}

		reqs, chosen := genBatch(r, bi, job.Services, force)
		rec := c42Rec{Batch: bi, Requests: len(reqs), Status: map[int]int{}}

		for _, c := range chosen {
			rec.Services = append(rec.Services, job.Services[c].Name)
		}

		rec.CacheMax = []int{20, 1, 1, 2}[r.Intn(4)]
		rec.Flushed = r.Intn(2) == 0

		switch {
		case job.EvictionProbe:
			rec.CacheMax, rec.Flushed = 1, false
		case job.NoEviction && rec.CacheMax < len(chosen):
			rec.CacheMax = len(chosen)
		}
		rec.Density = []int64{1, 3, 10, 50, 500}[r.Intn(5)]
		rec.Seed = r.Uint64()

		w.put(c42Rec{Batch: bi, Begin: true})

		idx := bi
		wd := time.AfterFunc(perBatch, func() {
			w.put(c42Rec{Batch: idx, Watchdog: allStacks()})
			os.Exit(3)
		})

		rec.Opt = r.Intn(4)

		// quiescent here: no request in flight
		services.MaxCachedEntries = rec.CacheMax

		if rec.Opt != lastOpt {
			// what `ego --optimize N` does (commands/run.go configureOptimizer); the compiled services of
			// the previous level are dropped so this batch compiles its services at its own level
			settings.SetDefault(defs.OptimizerSetting, strconv.Itoa(rec.Opt))
			settings.SetDefault(defs.RegistersSetting, strconv.FormatBool(rec.Opt > 2))
			settings.SetDefault(defs.ConstFoldSetting, strconv.FormatBool(rec.Opt > 2))
			services.FlushServiceCache()

			lastOpt = rec.Opt
		}

		serial := make([]c42Resp, len(reqs))
		conc := make([]c42Resp, len(reqs))

		// serial pass = reference
		serialPass := func() {
			bytecode.VerifYieldDensity.Store(0)

			for i, q := range reqs {
				serial[i] = serve(f, q)
				rec.Status[serial[i].Status]++

				if os.Getenv("CONC_C42_DEBUG") != "" && i < 3 {
					fmt.Printf("DEBUG %+v\n -> %+v\n", q, serial[i])
				}
			}
		}

		var y0, i0 int64

		// concurrent pass with yield injection
		concPass := func() {
			y0, i0 = bytecode.VerifYields.Load(), instrCount()
			bytecode.VerifYieldSeed.Store(rec.Seed)
			bytecode.VerifYieldDensity.Store(rec.Density)

			var (
				wg    sync.WaitGroup
				start = make(chan struct{})
			)

			for i := range reqs {
				wg.Add(1)

				go func(i int) {
					defer wg.Done()
					<-start
					conc[i] = serve(f, reqs[i])
				}(i)
			}

			close(start)
			wg.Wait()
			bytecode.VerifYieldDensity.Store(0)

			rec.Yields, rec.Instr = bytecode.VerifYields.Load()-y0, instrCount()-i0
		}

		rec.Cold = r.Intn(2) == 0 || job.ColdProbe

		if rec.Cold {
			// the services' first executions after compilation are the concurrent burst itself
			services.FlushServiceCache()
			concPass()
			serialPass()
		} else {
			serialPass()

			if rec.Flushed {
				services.FlushServiceCache()
			}

			concPass()
		}

		rec.CacheSizes = append(rec.CacheSizes, len(services.ServiceCache))

		tags := map[string]bool{}
		for _, q := range reqs {
			tags[q.Tag] = true
		}

		for i, q := range reqs {
			if conc[i].same(serial[i]) {
				foreign := []string{}

				for tg := range tags {
					if tg != q.Tag && (strings.Contains(conc[i].Body, tg) || strings.Contains(conc[i].Hdr, tg)) {
						foreign = append(foreign, tg)
					}
				}

				if len(foreign) > 0 {
					// serial and concurrent answers agree, and both carry another request's value
					sort.Strings(foreign)
					rec.ForeignAny++
					rec.Mismatch = append(rec.Mismatch, c42Mismatch{Req: q, Serial: serial[i], Concurrent: conc[i], Foreign: foreign})

					continue
				}

				if rec.Sample == nil && i == int(rec.Seed%uint64(len(reqs))) {
					rec.Sample = &c42Mismatch{Req: q, Serial: serial[i], Concurrent: conc[i]}
				}

				continue
			}

			// is the reference itself stable? serve it alone once more
			again := serve(f, q)
			if !again.same(serial[i]) {
				rec.Unstable++

				continue
			}

			mm := c42Mismatch{Req: q, Serial: serial[i], Concurrent: conc[i], Serial2: &again}

			for tg := range tags {
				if tg != q.Tag && (strings.Contains(conc[i].Body, tg) || strings.Contains(conc[i].Hdr, tg)) {
					mm.Foreign = append(mm.Foreign, tg)
				}
			}

			sort.Strings(mm.Foreign)
			rec.Mismatch = append(rec.Mismatch, mm)
		}

		wd.Stop()

		rec.Race = rl.next()
		w.put(rec)
	}
}

func TestC42(t *testing.T) {
	r := vh.New("C42", "services")
	r.Rule = "a case = one batch: 1-3 generated stateless services (method, authentication and computation chosen by PRNG) and 32 requests with unique tags, users and " +
		"parameters, served serially and then concurrently under yield injection (density and seed PRNG-chosen) with a PRNG-chosen service-cache limit (20, 2 or 1) and optional cache flush; " +
		"distinct by hash of the batch's requests; non-trivial = at least 2 distinct tags answered 2xx and at least one yield injected during the concurrent pass"
	r.Assume("the generated services are deterministic functions of the request (checked: a request whose concurrent answer differs is served alone again and must reproduce the serial answer)")
	r.Assume("srvfix serves requests through the real router with httptest recorders instead of sockets")

	defer func() { _ = r.Write() }()

	arena := os.Getenv("VERIF_ARENA")
	if arena == "" {
		arena = t.TempDir()
	}

	gmp := runtime.GOMAXPROCS(0)
	work := filepath.Join(arena, fmt.Sprintf("c42-p%d", gmp))
	_ = os.MkdirAll(work, 0o755)

	// per GOMAXPROCS part: quick 2 parts x (46 random + 4 directed probe batches) = 100 batches,
	// thorough 5 parts x 2000 = 10 000 batches
	total := vh.N(46, 2000)
	W := 4

	if vh.Tier() == "thorough" {
		W = thoroughWorkers(gmp)
	}

	if s := os.Getenv("CONC_WORKERS"); s != "" {
		if n, e := strconv.Atoi(s); e == nil && n > 0 {
			W = n
		}
	}

	if W > total {
		W = total
	}

	replay := vh.ReplayCase()

	// known finding: evicting a compiled service while requests for it are in flight breaks the route's
	// first-use lock (fatal error in Route.Unlock, races on Route.needsLock)
	noEviction := false

	for k := range vh.KnownKeys("C42") {
		if strings.Contains(k, "router.(*Route).") {
			noEviction = true
		}
	}

	// known finding: a named result of pointer type is one instance shared by all calls
	var so svcOpts

	for k := range vh.KnownKeys("C42") {
		switch k {
		case "response-differs:np":
			so.AvoidNamedPointer = true
		case "response-differs:status-500:unknown-identifier":
			// known finding: a request that finds a just-recompiled service in the cache before its first
			// execution has saved its symbols runs without the auto-imported packages
			so.AvoidAutoImport = true
		}
	}

	type shard struct {
		job  c42Job
		recs []c42Rec
	}

	var shards []*shard

	if replay != nil {
		var rc struct {
			Job   c42Job `json:"job"`
			Batch int    `json:"batch"`
			Seed  int64  `json:"verif_seed"`
		}

		if err := json.Unmarshal(replay, &rc); err != nil || len(rc.Job.Services) == 0 {
			t.Fatalf("replay case: %v", err)
		}

		if rc.Seed != 0 {
			// the batch is regenerated from (seed, stream, batch number); workers inherit the environment
			os.Setenv("VERIF_SEED", strconv.FormatInt(rc.Seed, 10))
		}

		rc.Job.Start, rc.Job.Batches = rc.Batch, rc.Batch+1
		shards = []*shard{{job: rc.Job}}
		W = 1
	} else {
		for w := 0; w < W; w++ {
			stream := fmt.Sprintf("c42-w%d", w)
			sr := vh.Rand(stream + "/services")
			job := c42Job{Stream: stream, Batches: total / W}

			if w < total%W {
				job.Batches++
			}

			for k := 1; k <= 9; k++ {
				job.Services = append(job.Services, genService(sr, k, so))
			}

			job.NoEviction = noEviction
			shards = append(shards, &shard{job: job})
		}

		// always-run directed probe: services whose helper has a named result of POINTER type
		{
			sr := vh.Rand("c42-probe-np/services")
			job := c42Job{Stream: "c42-probe-np", Batches: 2, NoEviction: noEviction}

			for k := 1; k <= 2; k++ {
				job.Services = append(job.Services, genService(sr, k, svcOpts{ForceNamedPointer: true}))
			}

			shards = append(shards, &shard{job: job})

			r.Probe("probe:named-pointer-result")

			if so.AvoidNamedPointer {
				r.Note("avoid set: helpers with a named result of pointer type (known finding response-differs:np); kept under test by probe c42-probe-np")
			}
		}

		// always-run directed probe: dynamic {} structs, every batch a cold concurrent burst
		{
			sr := vh.Rand("c42-probe-dyn/services")
			job := c42Job{Stream: "c42-probe-dyn", Batches: 2, ColdProbe: true, NoEviction: noEviction}

			for k := 1; k <= 2; k++ {
				job.Services = append(job.Services, genService(sr, k, svcOpts{ForceDynStruct: true, AvoidNamedPointer: so.AvoidNamedPointer, AvoidAutoImport: so.AvoidAutoImport}))
			}

			shards = append(shards, &shard{job: job})

			r.Probe("probe:dynamic-struct-cold-burst")
		}

		// always-run directed probe: services that rely on auto-imported packages, cache limit 1, three services
		{
			sr := vh.Rand("c42-probe-autoimport/services")
			job := c42Job{Stream: "c42-probe-autoimport", Batches: 2, EvictionProbe: true}

			for k := 1; k <= 3; k++ {
				job.Services = append(job.Services, genService(sr, k, svcOpts{ForceAutoImport: true, AvoidNamedPointer: true}))
			}

			shards = append(shards, &shard{job: job})

			r.Probe("probe:auto-import-with-eviction")

			if so.AvoidAutoImport {
				r.Note("avoid set: services without explicit imports (known finding response-differs:status-500:unknown-identifier); kept under test by probe c42-probe-autoimport")
			}
		}

		if noEviction {
			// directed probe for the listed finding: eviction while requests are in flight
			sr := vh.Rand("c42-probe/services")
			job := c42Job{Stream: "c42-probe", Batches: 2, EvictionProbe: true}

			for k := 1; k <= 3; k++ {
				job.Services = append(job.Services, genService(sr, k, so))
			}

			shards = append(shards, &shard{job: job})

			r.Probe("probe:eviction-during-concurrent-requests")
			r.Note("avoid set: cache limit below the number of services of a batch (known finding on the route first-use lock); kept under test by the eviction probe")
		}
	}

	var (
		mu       sync.Mutex
		inconcl  []string
		lostRace []RaceBlock
		fatals   []c42Fatal
		wg       sync.WaitGroup
	)

	for w, s := range shards {
		wg.Add(1)

		go func(w int, s *shard) {
			defer wg.Done()

			start, attempt := s.job.Start, 0

			for start < s.job.Batches {
				attempt++
				tag := fmt.Sprintf("w%d-a%d", w, attempt)
				s.job.Start = start
				s.job.Out = filepath.Join(work, tag+".jsonl")
				jobPath := filepath.Join(work, tag+".job.json")
				jb, _ := json.Marshal(s.job)
				_ = os.WriteFile(jobPath, jb, 0o644)

				wr := runWorker("TestC42Worker", map[string]string{"CONC_C42_JOB": jobPath}, filepath.Join(work, tag+".log"),
					raceLogPrefix(work, tag), s.job.Out, 300*time.Second)

				recs := readJSONL[c42Rec](s.job.Out)
				last, lastDone, attributed := start-1, start-1, 0
				setupErr := ""

				for _, rc := range recs {
					switch {
					case rc.SetupError != "":
						setupErr = rc.SetupError
					case rc.Begin:
						last = rc.Batch
					case rc.Watchdog != "":
						mu.Lock()
						inconcl = append(inconcl, fmt.Sprintf("in-worker watchdog (%s) in batch %d; goroutine dump: %s", tag, rc.Batch, vh.Trunc(rc.Watchdog, 3000)))
						mu.Unlock()

						lastDone = rc.Batch
					default:
						attributed += len(rc.Race)
						lastDone = rc.Batch
						s.recs = append(s.recs, rc)
					}
				}

				if blocks := ParseRaceBlocks(wr.RaceText); len(blocks) > 0 {
					// blocks not attributed to a batch (server start-up, or written while a batch crashed)
					seen := map[string]bool{}

					for _, rc := range recs {
						for _, rb := range ParseRaceBlocks(rc.Race) {
							seen[rb.Text] = true
						}
					}

					mu.Lock()
					for _, rb := range blocks {
						if !seen[rb.Text] {
							lostRace = append(lostRace, rb)
						}
					}
					mu.Unlock()
				}

				next := lastDone + 1

				switch {
				case setupErr != "":
					mu.Lock()
					inconcl = append(inconcl, "server fixture failed to start: "+setupErr)
					mu.Unlock()

					next = s.job.Batches
				case last > lastDone:
					mu.Lock()
					if wr.Fatal != "" {
						fatals = append(fatals, c42Fatal{Job: c42Job{Services: s.job.Services, Stream: s.job.Stream, NoEviction: s.job.NoEviction, EvictionProbe: s.job.EvictionProbe, ColdProbe: s.job.ColdProbe}, Batch: last, Text: wr.Fatal})
					} else {
						inconcl = append(inconcl, fmt.Sprintf("worker %s ended (exit %d, timeout=%t) inside batch %d; log tail: %s", tag, wr.ExitCode, wr.Timeout, last, vh.Trunc(tailOf(wr.LogTail, 2500), 2600)))
					}
					mu.Unlock()

					next = last + 1
				case next < s.job.Batches && next == start:
					mu.Lock()
					inconcl = append(inconcl, fmt.Sprintf("worker %s made no progress (exit %d): %s", tag, wr.ExitCode, vh.Trunc(tailOf(wr.LogTail, 2000), 2100)))
					mu.Unlock()

					next = s.job.Batches
				}

				if next <= start {
					next = start + 1
				}

				start = next
			}
		}(w, s)
	}

	wg.Wait()

	raceBlocks, completed := 0, 0
	patterns := map[string]bool{}

	for _, s := range shards {
		for _, rc := range s.recs {
			completed++

			ok2xx := 0
			for st, n := range rc.Status {
				r.Count(fmt.Sprintf("status:%d", st), int64(n))

				if st >= 200 && st < 300 {
					ok2xx += n
				}
			}

			caseID := vh.Hash(s.job.Stream, rc.Batch, vh.Seed())
			r.Eval(caseID, ok2xx >= 2 && rc.Yields > 0)
			r.Count("batches", 1)
			r.Count("requests.serial", int64(rc.Requests))
			r.Count("requests.concurrent", int64(rc.Requests))
			r.Count("responses.compared", int64(rc.Requests))
			r.Count("responses.equal", int64(rc.Requests-len(rc.Mismatch)-rc.Unstable))
			r.Count("yields.injected", rc.Yields)
			r.Count("instructions.concurrent_pass", rc.Instr)
			r.Count(fmt.Sprintf("cache_max:%d", rc.CacheMax), 1)
			r.Count(fmt.Sprintf("services_in_batch:%d", len(rc.Services)), 1)
			r.Count(fmt.Sprintf("density:%d", rc.Density), 1)
			r.Count(fmt.Sprintf("optimizer_level:%d", rc.Opt), 1)

			if rc.Flushed && !rc.Cold {
				r.Count("cache.flushed_before_concurrent_pass", 1)
			}

			if rc.Cold {
				r.Count("batches.cold_concurrent_burst_first", 1)
			}

			if rc.CacheMax < len(rc.Services) {
				r.Count("batches.with_cache_eviction_during_concurrent_pass", 1)
			}

			if rc.Yields > 0 {
				patterns[fmt.Sprintf("%d/%d", rc.Density, rc.Seed)] = true
			}

			witness := map[string]any{"job": c42Job{Services: s.job.Services, Stream: s.job.Stream, NoEviction: s.job.NoEviction, EvictionProbe: s.job.EvictionProbe, ColdProbe: s.job.ColdProbe}, "batch": rc.Batch, "gomaxprocs": gmp, "verif_seed": vh.Seed(),
				"cache_max": rc.CacheMax, "flushed": rc.Flushed, "density": rc.Density, "seed": rc.Seed}

			if rc.Unstable > 0 {
				r.Inconcl(fmt.Sprintf("batch %d (%s): %d requests whose SERIAL answer did not reproduce; not judged", rc.Batch, s.job.Stream, rc.Unstable))
			}

			for _, mm := range rc.Mismatch {
				key := "response-differs:" + mismatchKind(mm)
				witness["mismatch"] = mm

				if strings.HasPrefix(s.job.Stream, "c42-probe") {
					r.Probe(key)
				}

				r.Violate(vh.Violation{Key: key, Desc: fmt.Sprintf("request %s (service %s, user %q) answered differently when served concurrently (GOMAXPROCS=%d density=%d cache_max=%d flushed=%t); foreign tags in the answer: %v",
					mm.Req.Tag, s.job.Services[mm.Req.Svc].Name, mm.Req.User, gmp, rc.Density, rc.CacheMax, rc.Flushed, mm.Foreign),
					Case: witness, Expected: mm.Serial, Observed: mm.Concurrent})
			}

			for _, rb := range ParseRaceBlocks(rc.Race) {
				if isHarnessRace(rb.Key) {
					r.Inconcl("race report in which one access is the harness's own (not judged): " + rb.Key + "\n" + vh.Trunc(rb.Text, 1500))

					continue
				}

				raceBlocks++

				r.Violate(vh.Violation{Key: rb.Key, Desc: fmt.Sprintf("race detector report while a batch of concurrent service requests ran (GOMAXPROCS=%d density=%d cache_max=%d flushed=%t services=%v): %s",
					gmp, rc.Density, rc.CacheMax, rc.Flushed, rc.Services, vh.Trunc(rb.Text, 1800)), Case: witness, Observed: vh.Trunc(rb.Text, 6000)})
			}

			if rc.Sample != nil && completed%37 == 1 {
				r.Sample(map[string]any{"request": rc.Sample.Req, "serial": rc.Sample.Serial, "concurrent_equal": true, "services": rc.Services, "cache_max": rc.CacheMax, "yields": rc.Yields})
			}
		}
	}

	for _, rb := range lostRace {
		if isHarnessRace(rb.Key) {
			r.Inconcl("race report in which one access is the harness's own (not judged): " + rb.Key + "\n" + vh.Trunc(rb.Text, 1500))

			continue
		}

		raceBlocks++

		r.Violate(vh.Violation{Key: rb.Key, Desc: "race detector report (outside a completed batch: server start-up or a crashed batch): " + vh.Trunc(rb.Text, 1800), Case: map[string]any{"race_block": rb.Text}})
	}

	for _, f := range fatals {
		key := fatalKey(f.Text)
		if f.Job.EvictionProbe {
			r.Probe(key)
		}

		r.Violate(vh.Violation{Key: key, Desc: fmt.Sprintf("Go fatal error / unrecovered panic killed the server process during the concurrent requests of batch %d (%s, GOMAXPROCS=%d): %s", f.Batch, f.Job.Stream, gmp, vh.Trunc(f.Text, 1800)),
			Case: map[string]any{"job": f.Job, "batch": f.Batch, "gomaxprocs": gmp, "verif_seed": vh.Seed()}, Observed: vh.Trunc(f.Text, 6000)})
		r.Count("fatal.errors", 1)
	}

	for _, s := range inconcl {
		r.Inconcl(s)
	}

	r.Count("race.blocks", int64(raceBlocks))
	r.Count("yield.patterns.distinct", int64(len(patterns)))
	r.Count("gomaxprocs", int64(gmp))

	if len(shards) > 0 {
		for _, s := range shards[0].job.Services {
			r.Count("service_shape:"+s.Shape, 1)
		}

		if len(shards[0].job.Services) > 0 {
			r.Sample(map[string]any{"service_source": vh.Trunc(shards[0].job.Services[0].Source, 2500)})
		}
	}

	r.Note(fmt.Sprintf("GOMAXPROCS=%d; %d server processes; race logs, server logs and worker logs under %s", gmp, W, work))

	if replay != nil {
		r.Distinct += 2 // a replay evaluates one batch
	}

	if completed == 0 && len(fatals) == 0 {
		_ = r.Write()

		t.Fatalf("observed nothing: no batch completed (%v)", inconcl)
	}
}

// mismatchKind classifies how a concurrent answer differs: by the names of the digest fields that differ
// (the body is a list of name=value words), so that a leak through one construct gets one narrow key.
func mismatchKind(m c42Mismatch) string {
	switch {
	case m.Concurrent.Panic != "":
		return "handler-panic"
	case m.Concurrent.Status == 500 && strings.Contains(m.Concurrent.Body, "unknown identifier: "):
		// the handler ran without a symbol the serial run had (package, function, type)
		return "status-500:unknown-identifier"
	case m.Concurrent.Status != m.Serial.Status:
		return fmt.Sprintf("status-%d-for-%d", m.Concurrent.Status, m.Serial.Status)
	}

	fields := func(body string) map[string]string {
		out := map[string]string{}

		for _, w := range strings.Fields(body) {
			if i := strings.Index(w, "="); i > 0 {
				out[w[:i]] = w[i+1:]
			}
		}

		return out
	}

	a, b := fields(m.Serial.Body), fields(m.Concurrent.Body)

	var diff []string

	for k, v := range a {
		if b[k] != v {
			diff = append(diff, k)
		}
	}

	for k := range b {
		if _, ok := a[k]; !ok {
			diff = append(diff, k)
		}
	}

	sort.Strings(diff)

	if len(diff) == 0 && len(m.Foreign) > 0 && m.Concurrent.Hdr == m.Serial.Hdr {
		// both answers agree and both carry another request's value: name the fields that hold it
		for k, v := range b {
			for _, tg := range m.Foreign {
				if strings.Contains(v, tg) {
					diff = append(diff, k)

					break
				}
			}
		}

		sort.Strings(diff)

		return "foreign-value-in:" + strings.Join(diff, "+")
	}

	switch {
	case len(diff) == 0 && m.Concurrent.Hdr != m.Serial.Hdr:
		return "headers"
	case len(diff) == 0:
		return "body"
	case len(diff) > 3:
		return "many-fields"
	default:
		return strings.Join(diff, "+")
	}
}
