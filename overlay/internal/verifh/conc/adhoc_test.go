package conc

import (
	"fmt"
	"os"
	"strconv"
	"testing"

	"github.com/tucats/ego/internal/language/bytecode"
	"github.com/tucats/ego/internal/verifh/egorun"
)

// TestConcAdhoc is a development aid: CONC_ADHOC=<file.ego> runs one program in-process
// (CONC_DENSITY, CONC_SEED, CONC_REPEAT optional) and prints what it printed.
func TestConcAdhoc(t *testing.T) {
	p := os.Getenv("CONC_ADHOC")
	if p == "" {
		t.Skip("development aid")
	}

	src, err := os.ReadFile(p)
	if err != nil {
		t.Fatal(err)
	}

	d, _ := strconv.Atoi(os.Getenv("CONC_DENSITY"))
	s, _ := strconv.Atoi(os.Getenv("CONC_SEED"))
	n, _ := strconv.Atoi(os.Getenv("CONC_REPEAT"))
	if n < 1 {
		n = 1
	}

	for i := 0; i < n; i++ {
		bytecode.VerifYieldDensity.Store(int64(d))
		bytecode.VerifYieldSeed.Store(uint64(s + i))
		r := egorun.Run(string(src), egorun.Config{Types: os.Getenv("CONC_TYPES"), Opt: 2})
		fmt.Printf("--- run %d yields=%d\nOUT: %s\nERR: %s\nPANIC: %s\n", i, bytecode.VerifYields.Load(), r.Out, r.Err, r.Panic)
	}
}
