package conc

import (
	"fmt"
	"os"
	"strconv"
	"testing"

	"github.com/tucats/ego/internal/language/bytecode"
	"github.com/tucats/ego/internal/verifh/egorun"
)

// TestConcAdhoc is a development aid: CONC_ADHOC=<file.ego> runs one program in-process
// (CONC_DENSITY, CONC_SEED, CONC_REPEAT optional) and prints what it printed.
func TestConcAdhoc(t *testing.T) {
	p := os.Getenv("CONC_ADHOC")
	if p == "" {
		t.Skip("development aid")
	}

	src, err := os.ReadFile(p)
	if err != nil {
		t.Fatal(err)
	}

	d, _ := strconv.Atoi(os.Getenv("CONC_DENSITY"))
	s, _ := strconv.Atoi(os.Getenv("CONC_SEED"))
	n, _ := strconv.Atoi(os.Getenv("CONC_REPEAT"))
	if n < 1 {
		n = 1
	}

	for i := 0; i < n; i++ {
		bytecode.VerifYieldDensity.Store(int64(d))
		bytecode.VerifYieldSeed.Store(uint64(s + i))
		r := egorun.Run(string(src), egorun.Config{Types: os.Getenv("CONC_TYPES"), Opt: 2})
		fmt.Printf("--- run %d yields=%d\nOUT: %s\nERR: %s\nPANIC: %s\n", i, bytecode.VerifYields.Load(), r.Out, r.Err, r.Panic)
	}
}

// TestConcRaceKeys pins the keying of race-detector blocks (formats taken from real reports).
func TestConcRaceKeys(t *testing.T) {
	const pre = "  github.com/tucats/ego/internal/"

	cases := []struct{ want, text string }{
		{"race:router.(*Route).NeedsLock~router.(*Route).Unlock", "WARNING: DATA RACE\nWrite at 0x00c0 by goroutine 165:\n" +
			pre + "router.(*Route).NeedsLock()\n      x/router.go:435 +0x73c\n" + pre + "server/services.addToCache()\n      x.go:1 +0x1\n" + pre + "router.(*Router).ServeHTTP()\n      x.go:1 +0x1\n" + pre + "verifh/srvfix.(*Fixture).Do()\n      x.go:1 +0x1\n" +
			"\nPrevious read at 0x00c0 by goroutine 162:\n" + pre + "router.(*Route).Unlock()\n      x.go:1 +0x1\n" + pre + "router.(*Router).ServeHTTP.deferwrap2()\n      x.go:1 +0x1\n  runtime.deferreturn()\n      runtime/panic.go:668 +0x5d\n" + pre + "verifh/srvfix.(*Fixture).Do()\n      x.go:1 +0x1\n" +
			"\nGoroutine 165 (running) created at:\n" + pre + "verifh/conc.TestC42Worker()\n      x.go:1 +0x1\n"},
		{"harness-race:language/bytecode.loadByteCode~verifh/<-verifh/egorun.Apply", "WARNING: DATA RACE\nWrite at 0x01 by goroutine 9:\n" +
			pre + "verifh/egorun.Apply()\n      x.go:1 +0x1\n" + pre + "verifh/egorun.Run()\n      x.go:1 +0x1\n" +
			"\nPrevious read at 0x01 by goroutine 77:\n" + pre + "language/bytecode.loadByteCode()\n      x.go:1 +0x1\n" + pre + "language/bytecode.(*Context).RunFromAddress()\n      x.go:1 +0x1\n" + pre + "language/bytecode.(*Context).Run()\n      x.go:1 +0x1\n" + pre + "language/bytecode.GoRoutine()\n      x.go:1 +0x1\n"},
		{"harness-race:cli/settings.Get~verifh/<-cli/settings.SetDefault", "WARNING: DATA RACE\nWrite at 0x01 by goroutine 9:\n" +
			pre + "cli/settings.SetDefault()\n      x.go:1 +0x1\n" + pre + "verifh/egorun.Apply()\n      x.go:1 +0x1\n" +
			"\nPrevious read at 0x01 by goroutine 77:\n" + pre + "cli/settings.Get()\n      x.go:1 +0x1\n" + pre + "language/bytecode.(*Context).Run()\n      x.go:1 +0x1\n"},
		{"race:language/bytecode.(*Context).callFramePop~language/bytecode.GoRoutine", "WARNING: DATA RACE\nRead at 0x01 by goroutine 1185:\n" +
			pre + "language/bytecode.GoRoutine()\n      x.go:139 +0x111\n" + pre + "language/bytecode.goByteCode.gowrap1()\n      x.go:89 +0x70\n" +
			"\nPrevious write at 0x01 by goroutine 9:\n" + pre + "language/bytecode.(*Context).callFramePop()\n      x.go:1 +0x1\n" + pre + "language/bytecode.returnByteCode()\n      x.go:1 +0x1\n" + pre + "language/bytecode.(*Context).RunFromAddress()\n      x.go:1 +0x1\n" + pre + "language/bytecode.(*Context).Run()\n      x.go:1 +0x1\n" + pre + "verifh/egorun.runLocked()\n      x.go:1 +0x1\n"},
	}

	for _, c := range cases {
		got := ParseRaceBlocks("==================\n" + c.text + "==================\n")
		if len(got) != 1 || got[0].Key != c.want {
			t.Errorf("key = %v, want %s", got, c.want)
		}
	}
}
