package authchk

// C20 — Routes run only for authorized requests.
//
// Events: whether a route's handler was invoked (every handler is a recorder that notes the
// invocation and the session and calls nothing) and the HTTP status, for requests served by the
// real (*router.Router).ServeHTTP.
// Populations: (a) the server's real route table (srvfix), handlers swapped through a scratch-only
// export in internal/router; (b) generated declarations: permutations of subsets of the builder calls
// on a recording handler, each on its own small router.
// Oracle: recorder fired => the declared requirements hold for the identity the credentials really
// establish. The identity is ground truth of the monitor (it made the users, tokens, revocations), the
// declaration is read independently of builder call order.
import (
	"bytes"
	"encoding/base64"
	"encoding/json"
	"fmt"
	"net/http"
	"net/http/httptest"
	"os"
	"runtime/debug"
	"sort"
	"strings"
	"testing"
	"time"

	"github.com/google/uuid"

	"github.com/tucats/ego/internal/cli/settings"
	"github.com/tucats/ego/internal/defs"
	"github.com/tucats/ego/internal/language/tokens"
	"github.com/tucats/ego/internal/router"
	"github.com/tucats/ego/internal/server/auth"
	"github.com/tucats/ego/internal/verifh/srvfix"
	"github.com/tucats/ego/internal/verifh/vh"
)

// ---- identities and credential forms ----

const (
	authNo     = 0 // the credentials establish no identity (absent, malformed, wrong, expired, altered, revoked…)
	authYes    = 1 // valid credentials of an existing user who may log on
	authEither = 2 // the property does not say (right password of a user without the logon permission, valid token of a deleted user, body credentials on a route that did not ask for them)
)

type identity struct {
	Auth  int      // authNo / authYes / authEither
	User  string   // the user the credentials name ("" when they name nobody)
	Perms []string // that user's permissions in the user store at request time (nil if no such user)
	Class string   // anon | failed | noperm-candidate (used for finding keys)
}

type credForm struct {
	Name      string
	Header    string            // Authorization header ("" = none)
	Body      string            // request body carrying credentials ("" = the route's ordinary body)
	BodyCreds bool              // identity only applies on routes that declared Credentials(true)
	ID        identity          // ground truth
	Costly    bool              // needs an Argon2 decryption on every presentation (never cached)
	Extra     map[string]string // extra headers
}

func b64(s string) string { return base64.StdEncoding.EncodeToString([]byte(s)) }

func hasPerm(perms []string, p string) bool {
	for _, x := range perms {
		if strings.EqualFold(x, p) {
			return true
		}
	}

	return false
}

// ---- declarations ----

// declared is what a route declaration asks for, independent of the order of builder calls.
type declared struct {
	AuthRequired bool
	Perms        []string
	BodyCreds    bool // Credentials(true) was the last Credentials call
}

// judge: may the handler run for this identity?
func (d declared) allows(id identity) (bool, string) {
	if len(d.Perms) > 0 {
		if id.Auth == authNo {
			return false, "permissions required but the request is not authenticated"
		}

		if !hasPerm(id.Perms, defs.RootPermission) {
			for _, p := range d.Perms {
				if !hasPerm(id.Perms, p) {
					return false, "identity lacks required permission " + p + " and is not an administrator"
				}
			}
		}

		return true, ""
	}

	if d.AuthRequired && id.Auth == authNo {
		return false, "authentication required but the request is not authenticated"
	}

	return true, ""
}

// ---- recorder ----

type firing struct {
	fired bool
	user  string
	auth  bool
	admin bool
}

var lastFire firing

func recorder(s *router.Session, w http.ResponseWriter, r *http.Request) int {
	lastFire = firing{fired: true, user: s.User, auth: s.Authenticated, admin: s.Admin}

	w.WriteHeader(http.StatusOK)

	return http.StatusOK
}

type reqShape struct {
	Method string
	Path   string
	Body   *string // nil = request without a body
	Accept string
}

type served struct {
	Fired  bool
	Status int
	Panic  string
	Sess   firing
}

func serve(m *router.Router, sh reqShape, cf credForm) (out served) {
	defer func() {
		if p := recover(); p != nil {
			out.Panic = fmt.Sprintf("%v\n%s", p, debug.Stack())
		}
	}()

	lastFire = firing{}

	var req *http.Request

	body := sh.Body
	if cf.Body != "" {
		body = &cf.Body
	}

	if body != nil {
		req = httptest.NewRequest(sh.Method, "http://localhost"+sh.Path, bytes.NewReader([]byte(*body)))
		req.Header.Set("Content-Type", "application/json")
	} else {
		req = httptest.NewRequest(sh.Method, "http://localhost"+sh.Path, nil)
	}

	req.RemoteAddr = "127.0.0.1:55555"

	if sh.Accept != "" {
		req.Header.Set("Accept", sh.Accept)
	}

	if cf.Header != "" {
		req.Header.Set("Authorization", cf.Header)
	}

	for k, v := range cf.Extra {
		req.Header.Set(k, v)
	}

	w := httptest.NewRecorder()
	m.ServeHTTP(w, req)

	out.Status = w.Code
	out.Fired = lastFire.fired
	out.Sess = lastFire

	return out
}

// ---- set-up of users, tokens and forms (real handlers still in place) ----

type c20env struct {
	f     *srvfix.Fixture
	r     *vh.Report
	forms []credForm
	perms map[string][]string
}

func mint(t *testing.T, user, interval string) string {
	t.Helper()

	tok, err := tokens.New(user, "", interval, uuid.NewString(), 0)
	if err != nil || tok == "" {
		t.Fatalf("mint token for %s: %v", user, err)
	}

	return tok
}

// flipHex changes one hex digit of a token string.
func flipHex(tok string, pos int) string {
	b := []byte(tok)
	if b[pos] == '0' {
		b[pos] = '1'
	} else {
		b[pos] = '0'
	}

	return string(b)
}

var c20cached *c20env

func setupC20(t *testing.T, r *vh.Report) *c20env {
	if c20cached != nil { // both parts in one process: users and tokens are made once
		c20cached.r = r

		return c20cached
	}

	f := startFixture(t)
	e := &c20env{f: f, r: r, perms: map[string][]string{}}
	c20cached = e

	// lockout after failed logins is C24's subject; here it would only hide routes from the wrong-password forms
	settings.SetDefault(defs.AuthMaxAttemptsSetting, "0")

	for _, u := range f.Users {
		e.perms[u.Name] = u.Permissions
	}

	admin := srvfix.Basic("admin", f.Password("admin"))

	// a user that is created, logs on and is deleted again, all through the server's own handlers
	rsp := f.Do(srvfix.Request{Method: "POST", Path: "/admin/users/", Header: map[string]string{"Authorization": admin, "Accept": "application/json", "Content-Type": "application/json"},
		Body: []byte(`{"name":"zoe","password":"zoepw-R8","permissions":["ego.logon","ego.root"]}`)})
	if rsp.Status != 200 && rsp.Status != 201 {
		t.Fatalf("create user zoe: %d %s %s", rsp.Status, rsp.Body, rsp.Panic)
	}

	f.Users = append(f.Users, srvfix.User{Name: "zoe", Password: "zoepw-R8"})

	zoeTok, err := f.Logon("zoe")
	if err != nil {
		t.Fatal(err)
	}

	// present it once while zoe exists, so that whatever the server caches about it is cached
	if rsp = f.Do(srvfix.Request{Method: "GET", Path: "/admin/users/", Header: map[string]string{"Authorization": "Bearer " + zoeTok, "Accept": "application/json"}}); rsp.Status != 200 {
		t.Fatalf("zoe's token not accepted while zoe exists: %d %s", rsp.Status, rsp.Body)
	}

	if rsp = f.Do(srvfix.Request{Method: "DELETE", Path: "/admin/users/zoe", Header: map[string]string{"Authorization": admin, "Accept": "application/json"}}); rsp.Status != 200 {
		t.Fatalf("delete user zoe: %d %s", rsp.Status, rsp.Body)
	}

	if _, err := auth.AuthService.ReadUser(0, "zoe", true); err == nil {
		t.Fatal("zoe still in the user store after DELETE")
	}

	// tokens
	adminTok, err := f.Logon("admin") // through the real logon handler
	if err != nil {
		t.Fatal(err)
	}

	valid := map[string]string{"admin": adminTok}
	for _, u := range []string{"alice", "bob", "carol", "dave"} {
		valid[u] = mint(t, u, "1h")
	}

	expired := mint(t, "admin", "-1h") // issued by this server, unaltered, expiry one hour in the past

	// revoked: used once (so it is cached), then put on the revocation list
	revoked := mint(t, "admin", "1h")

	rt, err := tokens.Unwrap(revoked, 0)
	if err != nil {
		t.Fatal(err)
	}

	_ = f.Do(srvfix.Request{Method: "GET", Path: "/admin/users/", Header: map[string]string{"Authorization": "Bearer " + revoked, "Accept": "application/json"}})

	if err := tokens.Blacklist(rt.TokenID.String()); err != nil {
		t.Fatalf("blacklist: %v", err)
	}

	if bl, err := tokens.IsBlacklisted(*rt); err != nil || !bl {
		t.Fatalf("revocation list not in force (blacklisted=%v err=%v): the revoked-token form would be vacuous", bl, err)
	}

	// issued under another server key
	key := settings.Get(defs.ServerTokenKeySetting)
	settings.SetDefault(defs.ServerTokenKeySetting, strings.Repeat("c3", 64))
	otherKey := mint(t, "admin", "1h")
	settings.SetDefault(defs.ServerTokenKeySetting, key)

	if _, err := tokens.Unwrap(otherKey, 0); err == nil {
		t.Fatal("token issued under another key validates: key switch did not take effect")
	}

	// a token that is valid when issued and used, and presented again after its lifetime lapsed. It is made last
	// (Blacklist above purges the decrypted-token cache) so that it is still cached when it is presented again:
	// the cached-token path has its own expiry check, and that is the one this form exercises
	// (the lifetime is doubled until the fresh token could be used once: the machine may be busy)
	var (
		lapsing string
		lt      *tokens.Token
	)

	for life := 3; ; life *= 2 {
		lapsing = mint(t, "admin", fmt.Sprintf("%ds", life))

		lt, err = tokens.Unwrap(lapsing, 0)
		if err == nil {
			if rsp = f.Do(srvfix.Request{Method: "GET", Path: "/admin/users/", Header: map[string]string{"Authorization": "Bearer " + lapsing, "Accept": "application/json"}}); rsp.Status == 200 {
				break
			}
		}

		if life > 60 {
			t.Fatalf("short-lived token never accepted while fresh: %v", err)
		}
	}

	// wait (watchdog-bounded) until the short-lived token has lapsed by the clock the server reads
	for i := 0; time.Now().Before(lt.Expires.Add(1500 * time.Millisecond)); i++ {
		if i > 300 {
			r.Inconcl("short-lived token did not lapse within the watchdog; form token-lapsed dropped")

			lapsing = ""

			break
		}

		time.Sleep(100 * time.Millisecond)
	}

	id := func(user string) identity {
		return identity{Auth: authYes, User: user, Perms: e.perms[user], Class: "noperm"}
	}
	anon := identity{Auth: authNo, Class: "anon"}
	failedAs := func(user string) identity { // names a user, proves nothing
		return identity{Auth: authNo, User: user, Perms: e.perms[user], Class: "failed"}
	}

	pw := f.Password
	add := func(cf credForm) { e.forms = append(e.forms, cf) }

	add(credForm{Name: "none", ID: anon})
	add(credForm{Name: "basic-not-base64", Header: "Basic !!!!", ID: anon})
	add(credForm{Name: "basic-no-colon", Header: "Basic " + b64("admin"), ID: anon})
	add(credForm{Name: "basic-empty-password", Header: "Basic " + b64("admin:"), ID: failedAs("admin")})
	add(credForm{Name: "basic-wrong-password:admin", Header: srvfix.Basic("admin", "not-the-password"), ID: failedAs("admin")})
	add(credForm{Name: "basic-wrong-password:bob", Header: srvfix.Basic("bob", pw("alice")), ID: failedAs("bob")})
	add(credForm{Name: "basic-wrong-password:carol", Header: srvfix.Basic("carol", "x"), ID: failedAs("carol")})
	add(credForm{Name: "basic-unknown-user", Header: srvfix.Basic("ghost", "ghostpw"), ID: anon})
	add(credForm{Name: "basic-deleted-user", Header: srvfix.Basic("zoe", "zoepw-R8"), ID: failedAs("zoe")})
	add(credForm{Name: "unknown-scheme", Header: "Digest username=\"admin\"", ID: anon})
	add(credForm{Name: "token-in-basic-scheme", Header: "Basic " + adminTok, ID: anon})

	for _, u := range []string{"admin", "alice", "bob", "carol", "dave"} {
		add(credForm{Name: "basic-right-password:" + u, Header: srvfix.Basic(u, pw(u)), ID: id(u)})
		add(credForm{Name: "token-valid:" + u, Header: "Bearer " + valid[u], ID: id(u)})
	}

	// right password, but the account has neither ego.logon nor ego.root: whether that counts as
	// authenticated is C25's subject; permissions are still judged
	add(credForm{Name: "basic-right-password:nologon", Header: srvfix.Basic("nologon", pw("nologon")),
		ID: identity{Auth: authEither, User: "nologon", Perms: e.perms["nologon"], Class: "noperm"}})
	add(credForm{Name: "token-valid-uppercase-scheme:alice", Header: "BEARER " + valid["alice"], ID: id("alice")})
	add(credForm{Name: "token-deleted-user", Header: "Bearer " + zoeTok, ID: identity{Auth: authEither, User: "zoe", Perms: nil, Class: "noperm"}})

	add(credForm{Name: "token-expired", Header: "Bearer " + expired, ID: failedAs("admin"), Costly: true})

	if lapsing != "" {
		add(credForm{Name: "token-lapsed", Header: "Bearer " + lapsing, ID: failedAs("admin"), Costly: true})
	}

	add(credForm{Name: "token-revoked", Header: "Bearer " + revoked, ID: failedAs("admin"), Costly: true})
	add(credForm{Name: "token-other-key", Header: "Bearer " + otherKey, ID: failedAs("admin"), Costly: true})
	add(credForm{Name: "token-altered-first-byte", Header: "Bearer " + flipHex(adminTok, 1), ID: failedAs("admin"), Costly: true})
	add(credForm{Name: "token-altered-middle", Header: "Bearer " + flipHex(adminTok, len(adminTok)/2), ID: failedAs("admin"), Costly: true})
	add(credForm{Name: "token-altered-last-byte", Header: "Bearer " + flipHex(adminTok, len(adminTok)-1), ID: failedAs("admin"), Costly: true})
	add(credForm{Name: "token-truncated", Header: "Bearer " + adminTok[:len(adminTok)-2], ID: failedAs("admin"), Costly: true})
	add(credForm{Name: "bearer-empty", Header: "Bearer ", ID: anon})
	add(credForm{Name: "bearer-garbage", Header: "Bearer zzzz-not-hex", ID: anon})
	add(credForm{Name: "bearer-short-hex", Header: "Bearer ff454733", ID: anon})

	// credentials in the request body: they count only where the route declared Credentials(true)
	add(credForm{Name: "body-right-password:admin", Body: `{"username":"admin","password":"` + pw("admin") + `"}`, BodyCreds: true, ID: id("admin")})
	add(credForm{Name: "body-right-password:alice", Body: `{"username":"alice","password":"` + pw("alice") + `"}`, BodyCreds: true, ID: id("alice")})
	add(credForm{Name: "body-wrong-password:admin", Body: `{"username":"admin","password":"nope"}`, BodyCreds: true, ID: failedAs("admin")})

	r.Note("JWT credential forms not reached: the OAuth resource-server role needs an identity provider (discovery + JWKS over HTTP); JWT validation is C22's subject")

	return e
}

// identityFor resolves the ground-truth identity of a form on a route with the given declaration.
func identityFor(cf credForm, d declared, method string) identity {
	if !cf.BodyCreds {
		return cf.ID
	}

	if d.BodyCreds && (method == "POST" || method == "PUT") {
		return cf.ID
	}

	// body credentials on a route that did not ask for them: the route must treat the request as
	// carrying no credentials, but honouring a right password would not be a breach either
	id := cf.ID
	if id.Auth == authYes {
		id.Auth = authEither
	}

	return id
}

func formClass(name string) string {
	if i := strings.Index(name, ":"); i >= 0 {
		return name[:i]
	}

	return name
}

// ---- part (a): the real table ----

func instantiate(ep string) string {
	parts := []string{}

	for _, s := range pathSegs(ep) {
		switch {
		case isGlobSeg(s):
			parts = append(parts, "dashboard", "x.css")
		case isVarSeg(s):
			parts = append(parts, "v1")
		default:
			parts = append(parts, s)
		}
	}

	p := "/" + strings.Join(parts, "/")
	if strings.HasSuffix(ep, "/") && p != "/" {
		p += "/"
	}

	return p
}

var conformingBodies = []string{
	`{"name":"yan","password":"yanpw-1","permissions":["ego.logon"]}`,
	`{"loggers":{"AUTH":true}}`,
	`{"name":"d1","provider":"sqlite","database":"/tmp/verif-none.db"}`,
	`{"dsn":"d1","user":"alice","actions":["+read"]}`,
	`{"ego.compiler.constfold":true}`,
	`{}`,
	`[]`,
}

func TestC20Real(t *testing.T) {
	r := vh.New("C20", "real")
	r.Rule = "case = (route of the server's real table, credential form); the request is the route's own method, its endpoint with variables instantiated, Accept: application/json and a body that conforms to the route's validation " +
		"(found by a positive control: the administrator's Basic credentials must reach the recorder); distinct = distinct (method, endpoint, form); non-trivial = the route declares a requirement (authentication or permissions) and the positive control reached its handler"
	r.Assume("for the real table the declared requirement is read from the route's flags after the server's own set-up code ran (mustAuthenticate or a non-empty permission list); an order-dependent builder chain inside that set-up code would be invisible here and is covered by the generated declarations")
	r.Assume("ground truth of identities: users, passwords, tokens, the revocation and the user deletion were all made by the monitor through the server's own functions before the handlers were swapped")

	e := setupC20(t, r)
	m := e.f.Router

	type realRoute struct {
		rt    *router.Route
		fl    router.VerifC20Flags
		decl  declared
		shape reqShape
		reach bool
	}

	routes := []*realRoute{}
	adminForm := credForm{Name: "positive-control", Header: srvfix.Basic("admin", e.f.Password("admin")), ID: identity{Auth: authYes, User: "admin", Perms: e.perms["admin"]}}

	for _, rt := range m.VerifC32Routes() {
		rt.VerifC20SwapHandler(recorder)

		fl := rt.VerifC20Flags()
		rr := &realRoute{rt: rt, fl: fl, decl: declared{AuthRequired: fl.MustAuthenticate || len(fl.Permissions) > 0, Perms: fl.Permissions, BodyCreds: fl.CheckCredentials}}
		method := fl.Method

		if method == router.AnyMethod {
			method = "GET"
		}

		rr.shape = reqShape{Method: method, Path: instantiate(fl.Endpoint), Accept: "application/json"}
		routes = append(routes, rr)

		// positive control: find a body with which the administrator reaches the handler
		var candidates []*string

		if len(fl.Validations) > 0 {
			for i := range conformingBodies {
				candidates = append(candidates, &conformingBodies[i])
			}
		}

		empty := "{}"
		candidates = append(candidates, &empty, nil)

		for _, b := range candidates {
			rr.shape.Body = b
			if fl.CheckCredentials && b == nil {
				continue // Authenticate reads the body of such routes; a real server never sees a nil body
			}

			if out := serve(m, rr.shape, adminForm); out.Fired {
				rr.reach = true

				break
			}
		}

		switch {
		case rr.reach:
			r.Count("real.routes_reached_by_positive_control", 1)
		case fl.Redirect != "":
			r.Count("real.routes_redirect_only", 1)
		default:
			r.Count("real.routes_not_reached", 1)
			r.Note(fmt.Sprintf("positive control did not reach %s %s (handler never fires for any body tried)", fl.Method, fl.Endpoint))
		}

		if fl.Lightweight {
			r.Note("lightweight real route: " + fl.Method + " " + fl.Endpoint + fmt.Sprintf(" (mustAuthenticate=%v permissions=%v)", fl.MustAuthenticate, fl.Permissions))
		}
	}

	r.Count("real.routes", int64(len(routes)))
	r.Count("real.credential_forms", int64(len(e.forms)))

	if rc := vh.ReplayCase(); rc != nil {
		var cs struct{ Method, Endpoint, Form string }

		_ = json.Unmarshal(rc, &cs)

		for _, rr := range routes {
			for _, cf := range e.forms {
				if rr.fl.Method == cs.Method && rr.fl.Endpoint == cs.Endpoint && cf.Name == cs.Form {
					judgeReal(r, m, rr.fl, rr.decl, rr.shape, rr.reach, cf)
				}
			}
		}

		r.Distinct = 2
		_ = r.Write()

		return
	}

	// forms that cost an Argon2 decryption per presentation: quick sends three of them to each route
	// (rotating, so every form meets every third route), thorough sends all
	nCostly := 0

	for ri, rr := range routes {
		k := 0

		for _, cf := range e.forms {
			if cf.Costly {
				k++

				if vh.Tier() != "thorough" && (k+ri)%3 != 0 {
					continue
				}

				nCostly++
			}

			judgeReal(r, m, rr.fl, rr.decl, rr.shape, rr.reach, cf)
		}
	}

	r.Count("real.costly_form_presentations", int64(nCostly))

	if r.Counters["events.requests"] == 0 || r.Counters["events.handler_fired"] == 0 {
		t.Fatal("observed nothing")
	}

	if err := r.Write(); err != nil {
		t.Fatal(err)
	}
}

func judgeReal(r *vh.Report, m *router.Router, fl router.VerifC20Flags, d declared, sh reqShape, reach bool, cf credForm) {
	if cf.Body != "" && !(sh.Method == "POST" || sh.Method == "PUT" || sh.Method == "PATCH") {
		return
	}

	out := serve(m, sh, cf)
	id := identityFor(cf, d, sh.Method)

	r.Eval(fl.Method+" "+fl.Endpoint+" "+cf.Name, reach && d.AuthRequired)
	r.Count("events.requests", 1)
	r.Count(fmt.Sprintf("events.status.%d", out.Status), 1)

	if out.Panic != "" {
		r.Count("events.panics", 1)
		r.Note("panic while serving " + fl.Method + " " + fl.Endpoint + " with " + cf.Name + ": " + vh.Trunc(out.Panic, 300))
	}

	if !out.Fired {
		r.Count("events.handler_not_fired", 1)

		return
	}

	r.Count("events.handler_fired", 1)
	r.Count("fired.form."+formClass(cf.Name), 1)

	if cf.Name == "token-deleted-user" && len(d.Perms) == 0 {
		r.Count("observed.deleted_user_token_reached_handler", 1)
	}

	if ok, why := d.allows(id); !ok {
		r.Violate(vh.Violation{
			Key:  "real:" + fl.Method + ":" + fl.Endpoint + ":" + formClass(cf.Name),
			Desc: fmt.Sprintf("%s %s: handler ran for credential form %q: %s (session: user=%q authenticated=%v admin=%v, status %d)", fl.Method, fl.Endpoint, cf.Name, why, out.Sess.user, out.Sess.auth, out.Sess.admin, out.Status),
			Case: map[string]any{"method": fl.Method, "endpoint": fl.Endpoint, "form": cf.Name, "path": sh.Path},
			Expected: fmt.Sprintf("handler not invoked (declared: authentication=%v permissions=%v)", d.AuthRequired, d.Perms),
			Observed: fmt.Sprintf("handler invoked; identity user=%q perms=%v", id.User, id.Perms)})
	}

	if r.Evaluations%701 == 3 {
		r.Sample(map[string]any{"route": fl.Method + " " + fl.Endpoint, "form": cf.Name, "declared_auth": d.AuthRequired, "declared_perms": d.Perms, "fired": out.Fired, "status": out.Status})
	}
}

// ---- part (b): generated declarations ----

type builderOp struct {
	Name  string
	Apply func(*router.Route) *router.Route
}

var builderOps = []builderOp{
	{"Authentication(true)", func(r *router.Route) *router.Route { return r.Authentication(true) }},
	{"Authentication(false)", func(r *router.Route) *router.Route { return r.Authentication(false) }},
	{"Permissions(ego.table.read)", func(r *router.Route) *router.Route { return r.Permissions("ego.table.read") }},
	{"Permissions(ego.table.read,ego.sql)", func(r *router.Route) *router.Route { return r.Permissions("ego.table.read", "ego.sql") }},
	{"Permissions(ego.root)", func(r *router.Route) *router.Route { return r.Permissions(defs.RootPermission) }},
	{"LightWeight(true)", func(r *router.Route) *router.Route { return r.LightWeight(true) }},
	{"LightWeight(false)", func(r *router.Route) *router.Route { return r.LightWeight(false) }},
	{"CanAuthenticate(true)", func(r *router.Route) *router.Route { return r.CanAuthenticate(true) }},
	{"CanAuthenticate(false)", func(r *router.Route) *router.Route { return r.CanAuthenticate(false) }},
	{"Credentials(true)", func(r *router.Route) *router.Route { return r.Credentials(true) }},
	{"AllowRedirects(false)", func(r *router.Route) *router.Route { return r.AllowRedirects(false) }},
	{"AcceptMedia(application/json)", func(r *router.Route) *router.Route { return r.AcceptMedia("application/json") }},
	{"Class(admin)", func(r *router.Route) *router.Route { return r.Class(router.AdminRequestCounter) }},
	{"LargeResponse()", func(r *router.Route) *router.Route { return r.LargeResponse() }},
}

// declOf reads a declaration the order-independent way: authentication is required iff Permissions was
// called or the last Authentication call said true; LightWeight is a logging attribute and waives nothing.
func declOf(seq []int) declared {
	d := declared{}
	permSet := map[string]bool{}

	for _, i := range seq {
		switch n := builderOps[i].Name; {
		case n == "Authentication(true)":
			d.AuthRequired = true
		case n == "Authentication(false)":
			d.AuthRequired = false
		case strings.HasPrefix(n, "Permissions("):
			for _, p := range strings.Split(strings.TrimSuffix(strings.TrimPrefix(n, "Permissions("), ")"), ",") {
				permSet[p] = true
			}
		case n == "Credentials(true)":
			d.BodyCreds = true
		}
	}

	for p := range permSet {
		d.Perms = append(d.Perms, p)
	}

	sort.Strings(d.Perms)

	if len(d.Perms) > 0 {
		d.AuthRequired = true
	}

	return d
}

func seqNames(seq []int) []string {
	out := []string{}
	for _, i := range seq {
		out = append(out, builderOps[i].Name)
	}

	return out
}

// causeOf names, from the declaration alone, which order dependence a failing declaration exhibits.
func causeOf(seq []int) string {
	lastLW, lastLWTrue, lastAssert, lastAuthFalse, perms := -1, false, -1, -1, false

	for pos, i := range seq {
		switch n := builderOps[i].Name; {
		case n == "LightWeight(true)":
			lastLW, lastLWTrue = pos, true
		case n == "LightWeight(false)":
			lastLW, lastLWTrue = pos, false
		case n == "Authentication(true)":
			lastAssert = pos
		case strings.HasPrefix(n, "Permissions("):
			lastAssert, perms = pos, true
		case n == "Authentication(false)":
			lastAuthFalse = pos
		}
	}

	switch {
	case lastLW >= 0 && lastLWTrue && lastAssert >= 0 && lastAssert < lastLW:
		return "builder-order:auth-then-lightweight"
	case lastLW >= 0 && lastLWTrue && lastAssert > lastLW:
		return "lightweight-skips-gate:lightweight-then-auth"
	case perms && lastAuthFalse > lastAssert:
		return "builder-order:permissions-then-authentication-false"
	default:
		return "declaration:" + strings.ReplaceAll(strings.Join(seqNames(seq), "."), " ", "")
	}
}

type genRun struct {
	e          *c20env
	r          *vh.Report
	seenStates map[string]bool
	cheap      []credForm
	costly     []credForm
	n          int
	rot        int
}

func (g *genRun) one(seq []int, forms []credForm, costlySample bool) {
	m := router.NewRouter("c20-gen")
	rt := m.New("/g/decl", recorder, "POST")

	for _, i := range seq {
		rt = builderOps[i].Apply(rt)
	}

	d := declOf(seq)
	fl := rt.VerifC20Flags()
	state := fmt.Sprintf("must=%v lw=%v can=%v cred=%v perms=%v", fl.MustAuthenticate, fl.Lightweight, fl.CanAuthenticate, fl.CheckCredentials, fl.Permissions)
	g.r.Count("generated.declarations", 1)

	use := append([]credForm{}, forms...)
	if !g.seenStates[state] || costlySample {
		// forms that cost an Argon2 decryption per request: on the first declaration reaching each
		// distinct flag state and on a PRNG sample of the others (quick: two of them, rotating)
		for k, cf := range g.costly {
			if vh.Tier() == "thorough" || (k+g.rot)%4 == 0 {
				use = append(use, cf)
			}
		}

		g.rot++
		g.seenStates[state] = true
	}

	body := "{}"
	sh := reqShape{Method: "POST", Path: "/g/decl", Body: &body, Accept: "application/json"}

	for _, cf := range use {
		out := serve(m, sh, cf)
		id := identityFor(cf, d, "POST")

		g.r.Eval(strings.Join(seqNames(seq), ".")+" "+cf.Name, d.AuthRequired)
		g.r.Count("events.requests", 1)

		if out.Panic != "" {
			g.r.Count("events.panics", 1)
			g.r.Note("panic: " + strings.Join(seqNames(seq), ".") + " with " + cf.Name + ": " + vh.Trunc(out.Panic, 300))
		}

		if !out.Fired {
			g.r.Count("events.handler_not_fired", 1)

			continue
		}

		g.r.Count("events.handler_fired", 1)

		if ok, why := d.allows(id); !ok {
			g.r.Violate(vh.Violation{
				Key:  causeOf(seq) + ":" + id.Class,
				Desc: fmt.Sprintf("New(…).%s: handler ran for credential form %q: %s (final flags: %s; session user=%q authenticated=%v; status %d)", strings.Join(seqNames(seq), "."), cf.Name, why, state, out.Sess.user, out.Sess.auth, out.Status),
				Case: map[string]any{"decl": seqNames(seq), "form": cf.Name},
				Expected: fmt.Sprintf("handler not invoked (declared independent of order: authentication=%v permissions=%v)", d.AuthRequired, d.Perms),
				Observed: fmt.Sprintf("handler invoked; identity user=%q perms=%v class=%s", id.User, id.Perms, id.Class)})
		}

		if g.r.Evaluations%2003 == 5 {
			g.r.Sample(map[string]any{"decl": strings.Join(seqNames(seq), "."), "form": cf.Name, "declared_auth": d.AuthRequired, "declared_perms": d.Perms, "fired": out.Fired, "status": out.Status, "flags": state})
		}
	}
}

func opIndex(name string) int {
	for i, o := range builderOps {
		if o.Name == name {
			return i
		}
	}

	panic("no builder op " + name)
}

func TestC20Generated(t *testing.T) {
	r := vh.New("C20", "generated")
	r.Rule = "case = (declaration, credential form); declaration = a sequence without repetition of builder calls from {Authentication(true|false), Permissions(1 perm|2 perms|root), LightWeight(true|false), CanAuthenticate(true|false), Credentials(true), " +
		"AllowRedirects(false), AcceptMedia, Class, LargeResponse} applied to New(path, recorder, POST) on its own router; quick: every sequence of length <= 2 plus PRNG sequences of length 3-5; thorough: every sequence of length <= 4 plus PRNG sequences of length 5; " +
		"distinct = distinct (sequence, form); non-trivial = the declaration requires authentication or permissions"
	r.Assume("declared requirement: authentication required iff Permissions was called or the last Authentication call said true; LightWeight is a logging attribute and waives nothing; an administrator (ego.root) satisfies any permission requirement")
	r.Assume("credential forms that cost an Argon2 decryption per presentation (expired, lapsed, revoked, other-key, altered, truncated tokens) are sent to the first declaration reaching each distinct final flag state and to a PRNG sample (quick 3 %, thorough 1 %) of the others; quick sends two of the eight per such declaration, rotating")

	e := setupC20(t, r)
	g := &genRun{e: e, r: r, seenStates: map[string]bool{}}

	for _, cf := range e.forms {
		if cf.Costly {
			g.costly = append(g.costly, cf)
		} else {
			g.cheap = append(g.cheap, cf)
		}
	}

	// the six forms every quick declaration gets
	quickNames := map[string]bool{"none": true, "basic-wrong-password:bob": true, "basic-right-password:alice": true, "basic-right-password:bob": true, "token-valid:admin": true, "token-valid:alice": true, "body-wrong-password:admin": true}
	six := []credForm{}

	for _, cf := range g.cheap {
		if quickNames[cf.Name] {
			six = append(six, cf)
		}
	}

	forms := six
	if vh.Tier() == "thorough" {
		forms = g.cheap
	}

	if rc := vh.ReplayCase(); rc != nil {
		var cs struct {
			Decl []string
			Form string
		}

		_ = json.Unmarshal(rc, &cs)

		seq := []int{}
		for _, n := range cs.Decl {
			seq = append(seq, opIndex(n))
		}

		for _, cf := range e.forms {
			if cf.Name == cs.Form {
				g.costly = nil
				g.one(seq, []credForm{cf}, false)
			}
		}

		r.Distinct = 2
		_ = r.Write()

		return
	}

	rng := vh.Rand("c20-gen")
	sampleP := 0.03

	if vh.Tier() == "thorough" {
		sampleP = 0.01
	}

	// directed probes for the known order dependences (always run, all forms)
	for _, probe := range [][]string{
		{"Authentication(true)", "LightWeight(true)"},
		{"LightWeight(true)", "Authentication(true)"},
		{"Permissions(ego.table.read)", "Authentication(false)"},
		{"Permissions(ego.root)", "LightWeight(true)"},
	} {
		seq := []int{}
		for _, n := range probe {
			seq = append(seq, opIndex(n))
		}

		g.one(seq, g.cheap, true)
		r.Probe(causeOf(seq))
	}

	// exhaustive part
	maxFull := 2
	if vh.Tier() == "thorough" {
		maxFull = 4
	}

	var rec func(seq []int, used uint32)

	rec = func(seq []int, used uint32) {
		g.one(seq, forms, rng.Float64() < sampleP)
		g.n++

		if len(seq) == maxFull {
			return
		}

		for i := range builderOps {
			if used&(1<<i) == 0 {
				rec(append(append([]int{}, seq...), i), used|1<<i)
			}
		}
	}

	rec(nil, 0)
	r.Count("generated.exhaustive_up_to_length", int64(maxFull))
	r.Count("generated.exhaustive_declarations", int64(g.n))

	// PRNG part
	nRandom := vh.N(2000, 40000)
	for k := 0; k < nRandom; k++ {
		l := maxFull + 1 + rng.Intn(5-maxFull)
		perm := rng.Perm(len(builderOps))[:l]
		g.one(perm, forms, rng.Float64() < sampleP)
	}

	r.Count("generated.distinct_final_flag_states", int64(len(g.seenStates)))

	if r.Counters["events.requests"] == 0 || r.Counters["events.handler_fired"] == 0 {
		t.Fatal("observed nothing")
	}

	_ = os.Stdout.Sync()

	if err := r.Write(); err != nil {
		t.Fatal(err)
	}
}
