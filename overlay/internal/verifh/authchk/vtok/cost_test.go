package vtok

import (
	"fmt"
	"os"
	"testing"
	"time"
)

// TestCost prints what one token validation costs on this machine (sizing aid; not a check part).
func TestCost(t *testing.T) {
	if os.Getenv("VERIF_C21_COST") == "" {
		t.Skip("sizing aid")
	}

	rec, err := issue("alice", "1h", keyA, false)
	if err != nil {
		t.Fatal(err)
	}

	n := 20

	for round := 0; round < 4; round++ {
		t0 := time.Now()

		for i := 0; i < n; i++ {
			doorValidate(rec.Str)
		}

		fmt.Printf("cipher.Validate: %.1f ms per call (round %d)\n", float64(time.Since(t0).Milliseconds())/float64(n), round)
	}
}
