package vtok

// C21, concurrent part — real time, no expiry involved (not built with -race: see c21_race_test.go).
//
// Events: every call of 8 clients mixing validate (three doors) / blacklist / delete-from-blacklist / flush /
// cache purge on the same three tokens, recorded at the client boundary with call and return stamps
// taken from one atomic counter.
// Oracle: porcupine linearizability check of the recorded history against the token model of doors_test.go
// (here: accepted <=> id not revoked; key, expiry and integrity are constant), partitioned by token id.
// A purge is a no-op of the model. This is where a decrypted-token cache entry added after a concurrent
// revocation shows: a validation that starts after Blacklist returned and is accepted.
import (
	"encoding/json"
	"fmt"
	"math/rand"
	"os"
	"sort"
	"sync"
	"sync/atomic"
	"testing"

	"github.com/anishathalye/porcupine"

	"github.com/tucats/ego/internal/caches"
	"github.com/tucats/ego/internal/language/tokens"
	"github.com/tucats/ego/internal/verifh/vh"
)

type concOp struct {
	Client int    `json:"c"`
	Kind   string `json:"k"` // validate | blacklist | unblacklist | flush | purge
	Tok    int    `json:"t"`
	Arg    string `json:"a,omitempty"` // door or cache class
	Call   int64  `json:"call"`
	Ret    int64  `json:"ret"`
	OK     bool   `json:"ok"` // validate: accepted; blacklist/unblacklist: no error
}

type concIn struct {
	Kind string
	Door string
}

// the model of one token: state = revoked?
var tokenModel = porcupine.Model{
	Init: func() any { return false },
	Step: func(state, input, output any) (bool, any) {
		revoked, in, ok := state.(bool), input.(concIn), output.(bool)

		switch in.Kind {
		case "validate":
			return ok == !revoked, revoked
		case "blacklist":
			if !ok {
				return true, revoked // the call reported an error (already listed, or it failed): nothing promised
			}

			return true, true
		case "unblacklist", "flush":
			return true, false
		}

		return true, revoked
	},
	Equal: func(a, b any) bool { return a.(bool) == b.(bool) },
	DescribeOperation: func(input, output any) string {
		in := input.(concIn)

		return fmt.Sprintf("%s(%s) -> %v", in.Kind, in.Door, output)
	},
}

type concPlan struct {
	Index int        `json:"index"`
	Plan  [][]concOp `json:"plan"` // per client: the ops it will issue (Kind, Tok, Arg)
}

func genPlan(rng *rand.Rand, index, clients, ops int) concPlan {
	p := concPlan{Index: index, Plan: make([][]concOp, clients)}

	for i := 0; i < ops; i++ {
		c := i % clients
		op := concOp{Client: c, Tok: rng.Intn(3)}

		switch x := rng.Float64(); {
		case x < 0.50:
			op.Kind, op.Arg = "validate", "authenticate"
		case x < 0.56:
			op.Kind, op.Arg = "validate", doorNames[1+rng.Intn(2)]
		case x < 0.72:
			op.Kind = "blacklist"
		case x < 0.85:
			op.Kind = "unblacklist"
		case x < 0.88:
			op.Kind = "flush"
		default:
			op.Kind, op.Arg = "purge", []string{"token", "token", "blacklist", "auth"}[rng.Intn(4)]
		}

		p.Plan[c] = append(p.Plan[c], op)
	}

	return p
}

func runPlan(t *testing.T, r *vh.Report, p concPlan, toks []tokRec) {
	// clean start
	if _, err := tokens.Flush(); err != nil {
		t.Fatalf("flush: %v", err)
	}

	for _, id := range cacheClasses {
		caches.Purge(id)
	}

	var (
		clock atomic.Int64
		mu    sync.Mutex
		hist  []concOp
		wg    sync.WaitGroup
		start = make(chan struct{})
	)

	for c := range p.Plan {
		wg.Add(1)

		go func(c int) {
			defer wg.Done()
			<-start

			local := []concOp{}

			for _, op := range p.Plan[c] {
				tok := toks[op.Tok]
				op.Call = clock.Add(1)

				switch op.Kind {
				case "validate":
					op.OK, _ = door(op.Arg, tok.Str)
				case "blacklist":
					op.OK = tokens.Blacklist(tok.ID) == nil
				case "unblacklist":
					op.OK = tokens.Delete(tok.ID) == nil
				case "flush":
					_, err := tokens.Flush()
					op.OK = err == nil
				case "purge":
					caches.Purge(cacheClasses[op.Arg])
					op.OK = true
				}

				op.Ret = clock.Add(1)
				local = append(local, op)
			}

			mu.Lock()
			hist = append(hist, local...)
			mu.Unlock()
		}(c)
	}

	close(start)
	wg.Wait()

	sort.Slice(hist, func(i, j int) bool { return hist[i].Call < hist[j].Call })

	overlaps := 0

	for i := 1; i < len(hist); i++ {
		if hist[i].Call < hist[i-1].Ret {
			overlaps++
		}
	}

	r.Count("events.calls_recorded", int64(len(hist)))
	r.Count("events.calls_overlapping_their_predecessor", int64(overlaps))

	for ti := range toks {
		ops := []porcupine.Operation{}
		mine := []concOp{}

		for _, op := range hist {
			if op.Kind == "purge" || (op.Kind != "flush" && op.Tok != ti) {
				continue
			}

			mine = append(mine, op)
			ops = append(ops, porcupine.Operation{ClientId: op.Client, Input: concIn{op.Kind, op.Arg}, Call: op.Call, Output: op.OK, Return: op.Ret})
		}

		nVal := 0

		for _, op := range mine {
			if op.Kind == "validate" {
				nVal++
				r.Count("observed."+op.Arg+"."+map[bool]string{true: "accepted", false: "rejected"}[op.OK], 1)
			}
		}

		r.Eval(fmt.Sprintf("%d/%d", p.Index, ti), nVal > 0 && len(mine) > nVal)
		r.Count("events.partitions_checked", 1)

		if porcupine.CheckOperations(tokenModel, ops) {
			continue
		}

		// not linearizable: name the offending validation if a simple certain case exists
		key, desc := "conc:not-linearizable", "history of one token is not linearizable against the token model"

		for _, v := range mine {
			if v.Kind != "validate" {
				continue
			}

			// S = the calls that change the token's state. If the one that returned last before v began
			// ("last") is ordered after every other member of S that could precede v's return, the state
			// during v is the one "last" leaves.
			certainlyRevoked, certainlyClear := false, false
			changes := func(o *concOp) bool {
				return (o.Kind == "blacklist" && o.OK) || o.Kind == "unblacklist" || o.Kind == "flush"
			}

			var last *concOp

			for i := range mine {
				if o := &mine[i]; changes(o) && o.Ret < v.Call && (last == nil || o.Ret > last.Ret) {
					last = o
				}
			}

			if last != nil {
				clean := true

				for i := range mine {
					o := &mine[i]
					if o != last && changes(o) && !(o.Ret < last.Call || o.Call > v.Ret) {
						clean = false
					}
				}

				// a Blacklist call that reported an error while overlapping is no help either way
				for i := range mine {
					if o := &mine[i]; o.Kind == "blacklist" && !o.OK && !(o.Ret < last.Call || o.Call > v.Ret) {
						clean = false
					}
				}

				if clean {
					certainlyRevoked = last.Kind == "blacklist"
					certainlyClear = !certainlyRevoked
				}
			}

			if certainlyRevoked && v.OK {
				key = "conc:" + v.Arg + ":accepts-after-revocation-returned"
				desc = fmt.Sprintf("%s (call %d..%d) accepted token %d although Blacklist(id) had returned at %d and no un-revocation overlapped", v.Arg, v.Call, v.Ret, ti, last.Ret)

				break
			}

			if certainlyClear && !v.OK {
				key = "conc:" + v.Arg + ":rejects-after-unrevocation-returned"
				desc = fmt.Sprintf("%s (call %d..%d) rejected token %d although %s had returned at %d and no revocation overlapped", v.Arg, v.Call, v.Ret, ti, last.Kind, last.Ret)

				break
			}
		}

		r.Violate(vh.Violation{Key: key, Desc: fmt.Sprintf("concurrent history %d: %s", p.Index, desc),
			Case: map[string]any{"plan": p, "token": ti, "recorded": mine}, Expected: "a linearization exists in which every validation is accepted iff the id is not revoked", Observed: "porcupine: not linearizable"})
	}
}

func TestC21Concurrent(t *testing.T) {
	r := vh.New("C21", "concurrent")
	r.Rule = "history = 60 calls by 8 clients (released together) on 3 tokens: validate through Session.Authenticate (mostly; it is the door with the decrypted-token cache), cipher.Validate, cipher.Extract; blacklist; delete-from-blacklist; flush; purge of the token / blacklist / auth cache; " +
		"distinct = distinct (history, token) partitions; non-trivial = the partition has validations and state changes"
	r.Assume("call/return stamps from one atomic counter bracket each call; porcupine decides linearizability per token id against the model accepted <=> not revoked (a failed Blacklist call promises nothing)")
	r.Assume("token lifetimes (1 h) exceed the run; the server key is constant")
	r.Assume("not built with -race and sized at quick 16 / thorough 1 600 histories x 60 calls because a validation costs an Argon2id derivation (unaffordable under the race detector: more than a minute each); the window in which a stale cache entry arises is a few microseconds behind that derivation, so stress is complemented by the directed probe that holds a request inside it")

	setKey(keyA)

	toks := []tokRec{}

	for i := 0; i < 3; i++ {
		rec, err := issue(users[i%2], "1h", keyA, i%2 == 0)
		if err != nil {
			t.Fatal(err)
		}

		toks = append(toks, rec)
	}

	if rc := vh.ReplayCase(); rc != nil {
		var cs struct {
			Plan concPlan `json:"plan"`
		}

		if err := json.Unmarshal(rc, &cs); err != nil {
			t.Fatal(err)
		}

		for i := 0; i < 50; i++ { // an interleaving is not reproducible from its record: retry the same plan
			runPlan(t, r, cs.Plan, toks)
		}

		r.Distinct = 2
		_ = r.Write()

		return
	}

	// the directed probe for the one window stress does not reach (see c21_probe_test.go)
	staleCacheProbe(r)
	_ = r.Write()

	if os.Getenv("VERIF_C21_ONLY_PROBE") != "" {
		_ = r.Write()

		return
	}

	n := vh.N(16, 1600)

	for h := 0; h < n; h++ {
		runPlan(t, r, genPlan(vh.Rand(fmt.Sprintf("c21-conc-%d", h)), h, 8, 60), toks)
		r.Count("histories", 1)

		if h%4 == 3 {
			_ = r.Write() // a watchdog kill still leaves what was observed so far
		}
	}

	if r.Counters["events.calls_recorded"] == 0 {
		t.Fatal("observed nothing")
	}

	if r.Counters["events.calls_overlapping_their_predecessor"] == 0 {
		r.Inconcl("no two recorded calls overlapped: the concurrent part degenerated into a sequential one")
	}

	if err := r.Write(); err != nil {
		t.Fatal(err)
	}
}
