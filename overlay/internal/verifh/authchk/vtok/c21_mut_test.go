package vtok

// C21, mutation part — no altered token string is ever accepted.
//
// Events: accepted / rejected at cipher.Validate for every mutation (and at Session.Authenticate and
// cipher.Extract for a sample) of valid token strings: substitution of each character by other hex digits
// and by a non-hex character, deletion of each character, insertion at each position, truncation to every
// length. Oracle: never accepted, unless the mutated string decodes to the very same bytes (an upper-case
// hex digit), which is the same token.
import (
	"encoding/hex"
	"fmt"
	"runtime"
	"strings"
	"sync"
	"testing"

	"github.com/tucats/ego/internal/verifh/vh"
)

type mutation struct {
	Token int    `json:"token"`
	Kind  string `json:"kind"` // subst | subst-nonhex | upper | delete | insert | insert-nonhex | truncate
	Pos   int    `json:"pos"`
	Ch    string `json:"ch,omitempty"`
	Str   string `json:"-"`
}

// region names the part of the encrypted token a string position falls into:
// 4 bytes magic, 16 bytes salt, 12 bytes nonce, ciphertext, 16 bytes GCM tag.
func region(pos, strLen int) string {
	b, n := pos/2, strLen/2

	switch {
	case b < 4:
		return "magic"
	case b < 20:
		return "salt"
	case b < 32:
		return "nonce"
	case b >= n-16:
		return "tag"
	default:
		return "ciphertext"
	}
}

const hexDigits = "0123456789abcdef"

// mutationsOf lists the mutations of one token string. alt = how many other hex digits are substituted per
// position (15 = all); stride thins the costly classes (every stride-th position) for tokens after the first.
func mutationsOf(ti int, s string, alt, stride int, rng interface{ Intn(int) int }) []mutation {
	out := []mutation{}

	for i := 0; i < len(s); i++ {
		// other hex digits at this position (each costs an Argon2id derivation)
		if i%stride == 0 {
			perm := []byte(hexDigits)
			for k := len(perm) - 1; k > 0; k-- {
				j := rng.Intn(k + 1)
				perm[k], perm[j] = perm[j], perm[k]
			}

			n := 0

			for _, c := range perm {
				if c == s[i] || n >= alt {
					continue
				}

				n++

				out = append(out, mutation{Token: ti, Kind: "subst", Pos: i, Ch: string(c), Str: s[:i] + string(c) + s[i+1:]})
			}
		}

		// a non-hex character and, for letters, the upper-case spelling of the same digit
		nh := []string{"g", " ", "\x00", "-", "Z"}[i%5]
		out = append(out, mutation{Token: ti, Kind: "subst-nonhex", Pos: i, Ch: nh, Str: s[:i] + nh + s[i+1:]})

		if s[i] >= 'a' && s[i] <= 'f' && i%stride == 0 { // same bytes, so a full (costly) validation: thinned like subst
			out = append(out, mutation{Token: ti, Kind: "upper", Pos: i, Str: s[:i] + strings.ToUpper(s[i:i+1]) + s[i+1:]})
		}

		out = append(out, mutation{Token: ti, Kind: "delete", Pos: i, Str: s[:i] + s[i+1:]})
	}

	for i := 0; i <= len(s); i++ {
		c := string(hexDigits[rng.Intn(16)])
		out = append(out, mutation{Token: ti, Kind: "insert", Pos: i, Ch: c, Str: s[:i] + c + s[i:]})
		out = append(out, mutation{Token: ti, Kind: "insert-nonhex", Pos: i, Ch: "x", Str: s[:i] + "x" + s[i:]})
	}

	for l := 0; l < len(s); l++ {
		if l%2 == 0 && l/2 > 32 && (l/2)%stride != 0 {
			continue // even lengths beyond the header cost a key derivation each: thinned for later tokens
		}

		out = append(out, mutation{Token: ti, Kind: "truncate", Pos: l, Str: s[:l]})
	}

	return out
}

func TestC21Mutations(t *testing.T) {
	r := vh.New("C21", "mutations")
	r.Rule = "case = one mutation of a valid token string: each position x {other hex digits, a non-hex character, upper-case spelling, deletion}, insertion of a hex digit and of a non-hex character at each position, truncation to every length; " +
		"quick: token 1 gets 1 other hex digit at every 4th position and every 4th even-length truncation beyond the header, tokens 2-3 every 16th (the free classes - non-hex, odd lengths, deletions, insertions - are complete for all); thorough: 3 tokens with all 15 other digits at every position and every truncation, 47 more tokens thinned like quick; " +
		"distinct = distinct mutated strings; non-trivial = the mutated string is still well-formed hex of even length (so the decryption is attempted)"
	r.Assume("a mutated string whose hex decoding equals the original bytes (upper-case digit) is the same token and may be accepted")

	setKey(keyA)

	nTokens, alt := 3, 1
	if vh.Tier() == "thorough" {
		nTokens, alt = 50, 15
	}

	rng := vh.Rand("c21-mut")
	lives := []string{"1h", "10m", "2d"}
	toks := []tokRec{}
	all := []mutation{}

	for i := 0; i < nTokens; i++ {
		rec, err := issue(users[i%2], lives[i%3], keyA, i%2 == 0)
		if err != nil {
			t.Fatal(err)
		}

		if ok, _ := doorValidate(rec.Str); !ok {
			t.Fatalf("a freshly issued token is not accepted")
		}

		toks = append(toks, rec)

		// each hex-valid substitution and each even-length truncation costs an Argon2id derivation
		// (45 ms to more than a second on this VM), which sizes the quick tier
		a, stride := alt, 1

		switch {
		case vh.Tier() != "thorough" && i == 0:
			a, stride = 1, 4
		case vh.Tier() != "thorough":
			a, stride = 1, 16
		case i >= 3:
			a, stride = 1, 4
		}

		all = append(all, mutationsOf(i, rec.Str, a, stride, rng)...)
	}

	if rc := vh.ReplayCase(); rc != nil {
		t.Skip("mutation cases are keyed by class; rerun the part to reproduce (token strings are made per run)")
	}

	r.Count("tokens", int64(nTokens))
	r.Count("token_string_length", int64(len(toks[0].Str)))

	type verdict struct {
		m        mutation
		accepted map[string]bool
	}

	work := make(chan mutation, 256)
	res := make(chan verdict, 256)

	var wg sync.WaitGroup

	for w := 0; w < runtime.GOMAXPROCS(0); w++ {
		wg.Add(1)

		go func() {
			defer wg.Done()

			for m := range work {
				v := verdict{m: m, accepted: map[string]bool{}}
				v.accepted["cipher.Validate"], _ = doorValidate(m.Str)

				if (m.Pos+len(m.Kind))%16 == 0 || v.accepted["cipher.Validate"] {
					v.accepted["authenticate"], _ = doorAuth(m.Str)
					v.accepted["cipher.Extract"], _ = doorExtract(m.Str)
				}

				res <- v
			}
		}()
	}

	go func() {
		for _, m := range all {
			work <- m
		}

		close(work)
		wg.Wait()
		close(res)
	}()

	for v := range res {
		m := v.m
		orig := toks[m.Token].Str
		raw, err := hex.DecodeString(m.Str)
		wellFormed := err == nil
		origRaw, _ := hex.DecodeString(orig)
		same := wellFormed && string(raw) == string(origRaw)
		reg := region(m.Pos, len(orig))

		r.Eval(vh.Hash(m.Str), wellFormed)
		r.Count("mutations."+m.Kind, 1)

		if wellFormed && !same {
			r.Count("events.decryption_attempted."+reg, 1)
		}

		for d, acc := range v.accepted {
			r.Count("events.presentations."+d, 1)

			if !acc {
				continue
			}

			if same {
				r.Count("observed.same_bytes_accepted."+d, 1)

				continue
			}

			r.Violate(vh.Violation{Key: "mut:" + d + ":" + m.Kind + ":" + reg,
				Desc:     fmt.Sprintf("%s accepted a token string altered by %s at position %d of %d (%s region, char %q)", d, m.Kind, m.Pos, len(orig), reg, m.Ch),
				Case:     map[string]any{"mutation": m, "original": orig, "mutated": m.Str},
				Expected: "rejected", Observed: "accepted"})
		}

		if r.Evaluations%1000 == 999 {
			_ = r.Write() // a watchdog kill still leaves what was observed so far
		}

		if r.Evaluations%2503 == 11 {
			r.Sample(map[string]any{"kind": m.Kind, "pos": m.Pos, "region": reg, "well_formed_hex": wellFormed, "accepted": v.accepted})
		}
	}

	if r.Evaluations == 0 {
		t.Fatal("observed nothing")
	}

	if err := r.Write(); err != nil {
		t.Fatal(err)
	}
}
