package vtok

// C21, directed probe for one interleaving that stress cannot reach: the window in Session.Authenticate
// between "tokens.Unwrap found the id not revoked" and "the decrypted token is added to the token cache"
// is a few microseconds wide behind a 50 ms decryption. The probe holds a request inside that window
// without any source hook: the AUTH logger is on and the log file is a FIFO whose pipe buffer the probe
// has filled, so the request blocks in the "auth.decrypted" log line that Unwrap writes right after its
// revocation check. While it is held there, Blacklist(id) runs to completion (it purges the caches), the
// FIFO is drained, the request finishes and adds its now stale entry. The oracle is the ordinary one:
// a validation that STARTS after Blacklist returned must be rejected.
import (
	"fmt"
	"os"
	"path/filepath"
	"runtime"
	"strings"
	"syscall"
	"time"

	"github.com/tucats/ego/internal/caches"
	"github.com/tucats/ego/internal/cli/ui"
	"github.com/tucats/ego/internal/language/tokens"
	"github.com/tucats/ego/internal/verifh/vh"
)

const staleKey = "conc:authenticate:accepts-after-revocation-returned"

func staleCacheProbe(r *vh.Report) {
	r.Probe(staleKey)

	fifo := filepath.Join(arenaDir, "log.fifo")
	_ = os.Remove(fifo)

	if err := syscall.Mkfifo(fifo, 0o600); err != nil {
		r.Inconcl("stale-cache probe: mkfifo: " + err.Error())

		return
	}

	// our ends of the pipe are raw non-blocking descriptors (an *os.File would park the goroutine in the
	// poller instead of reporting "empty" / "full"); the read end first, so that nothing can block on open
	rd, err := syscall.Open(fifo, syscall.O_RDONLY|syscall.O_NONBLOCK, 0)
	if err != nil {
		r.Inconcl("stale-cache probe: open fifo: " + err.Error())

		return
	}

	defer syscall.Close(rd)

	if err := ui.OpenLogFile(fifo, false); err != nil {
		r.Inconcl("stale-cache probe: log to fifo: " + err.Error())

		return
	}

	defer func() {
		_ = ui.OpenLogFile(filepath.Join(arenaDir, "vtok-after-probe.log"), false)
	}()

	wasActive := ui.IsActive(ui.AuthLogger)
	ui.Active(ui.AuthLogger, true)

	defer ui.Active(ui.AuthLogger, wasActive)

	rec, err := issue("alice", "1h", keyA, false)
	if err != nil {
		r.Inconcl("stale-cache probe: issue: " + err.Error())

		return
	}

	// drain what issuing logged, make sure the token is in no cache, then fill the pipe to the brim
	drain := func() {
		buf := make([]byte, 1<<16)

		for {
			if n, err := syscall.Read(rd, buf); n <= 0 || err != nil {
				return
			}
		}
	}

	drain()

	for _, id := range cacheClasses {
		caches.Purge(id)
	}

	wr, err := syscall.Open(fifo, syscall.O_WRONLY|syscall.O_NONBLOCK, 0)
	if err != nil {
		r.Inconcl("stale-cache probe: open fifo for filling: " + err.Error())

		return
	}

	junk := []byte(strings.Repeat("#", 4095) + "\n")
	for {
		if n, err := syscall.Write(wr, junk); err != nil || n <= 0 {
			break
		}
	}

	for b := []byte("#"); ; {
		if n, err := syscall.Write(wr, b); err != nil || n <= 0 {
			break
		}
	}

	syscall.Close(wr)

	// request A: runs until it blocks writing "auth.decrypted" (after the revocation check, before caches.Add)
	type res struct{ ok bool }

	done := make(chan res, 1)

	go func() {
		ok, _ := doorAuth(rec.Str)
		done <- res{ok}
	}()

	held := false

	for i := 0; i < 1200 && !held; i++ { // watchdog 120 s
		select {
		case <-done:
			r.Inconcl("stale-cache probe: the request was not held in the window (it returned)")
			drain()

			return
		default:
		}

		time.Sleep(100 * time.Millisecond)

		buf := make([]byte, 1<<20)
		for _, g := range strings.Split(string(buf[:runtime.Stack(buf, true)]), "\n\n") {
			if strings.Contains(g, "ui.WriteLogString") && strings.Contains(g, "tokens.Unwrap") && strings.Contains(g, "router.(*Session).Authenticate") {
				held = true
			}
		}
	}

	if !held {
		r.Inconcl("stale-cache probe: the request never reached the log line inside tokens.Unwrap within the watchdog")
		drain()

		return
	}

	r.Count("probe.request_held_between_revocation_check_and_cache_add", 1)

	// the revocation, start to finish, while A is held
	if err := tokens.Blacklist(rec.ID); err != nil {
		r.Inconcl("stale-cache probe: Blacklist: " + err.Error())
		drain()

		return
	}

	// release A and keep the pipe drained from now on
	stop := make(chan struct{})

	go func() {
		for {
			select {
			case <-stop:
				return
			default:
				drain()
				time.Sleep(time.Millisecond)
			}
		}
	}()

	a := <-done
	r.Count(fmt.Sprintf("probe.overlapping_request_accepted.%v", a.ok), 1) // either answer is linearizable

	// a validation that starts now started after Blacklist returned
	accepted := 0

	for i := 0; i < 3; i++ {
		if ok, _ := doorAuth(rec.Str); ok {
			accepted++
		}
	}

	other, _ := doorValidate(rec.Str)

	close(stop)

	r.Eval("stale-cache-probe", true)
	r.Count("probe.later_authenticate_accepted", int64(accepted))

	if accepted > 0 {
		r.Violate(vh.Violation{Key: staleKey,
			Desc: fmt.Sprintf("Session.Authenticate accepted a revoked token %d times out of 3, each call starting after tokens.Blacklist(id) had returned: a request that passed the revocation check before the Blacklist call "+
				"added its decrypted token to the token cache after Blacklist had purged it (cipher.Validate on the same token: accepted=%v)", accepted, other),
			Case:     map[string]any{"probe": "stale-cache", "steps": []string{"authenticate(T) held after revocation check", "Blacklist(T.id) returns", "release", "authenticate(T)"}},
			Expected: "rejected", Observed: "accepted (served from the decrypted-token cache)"})
	}

	_ = tokens.Delete(rec.ID)
}
