// Package vtok holds the C21 monitors (native bearer tokens are honoured exactly while valid).
//
// It deliberately does NOT use the srvfix full-server fixture: the sequential part runs inside
// testing/synctest bubbles, and packages whose init() starts real-time sweepers (server/admin and
// therefore commands) must not be linked into a virtual-time harness. The minimal pieces are built
// directly: the tokens package with a SQLite revocation store, the caches, router.Session.Authenticate,
// the Ego runtime functions cipher.Validate / cipher.Extract, and a file user store written here.
package vtok

import (
	"encoding/json"
	"fmt"
	"os"
	"path/filepath"
	"runtime"
	"strings"
	"testing"

	"github.com/google/uuid"
	"golang.org/x/crypto/bcrypt"

	"github.com/tucats/ego/internal/cli/settings"
	"github.com/tucats/ego/internal/cli/ui"
	"github.com/tucats/ego/internal/defs"
	"github.com/tucats/ego/internal/language/tokens"
	"github.com/tucats/ego/internal/router"
	"github.com/tucats/ego/internal/server/auth"
)

var (
	keyA = strings.Repeat("5a", 64)
	keyB = strings.Repeat("c3", 64)

	arenaDir string
	users    = []string{"alice", "bob"}
)

func setKey(k string) { settings.SetDefault(defs.ServerTokenKeySetting, k) }

// ballast: every token validation derives an Argon2id key over a fresh 32 MiB block. With Go's default
// pacing that block is collected and its pages handed back to the kernel after almost every call, and
// touching them again costs far more than the derivation itself on this VM (measured: 0.1-1 s per
// validation without, 45 ms with). A never-touched live allocation of about (concurrent validations x 32 MiB)
// raises the heap goal just enough for the freed blocks to be reused instead of returned.
var ballast []byte

func TestMain(m *testing.M) {
	mb := 64
	if v := os.Getenv("VERIF_C21_BALLAST_MB"); v != "" {
		fmt.Sscanf(v, "%d", &mb)
	}

	ballast = make([]byte, mb<<20)

	if err := setup(); err != nil {
		fmt.Fprintln(os.Stderr, "vtok set-up failed:", err)
		os.Exit(2)
	}

	rc := m.Run()

	runtime.KeepAlive(ballast)
	os.Exit(rc)
}

// setup runs OUTSIDE any synctest bubble: it opens the database/sql handle of the revocation store and
// starts the process-lifetime goroutine of the login rate limiter, so that neither belongs to a bubble.
func setup() error {
	arenaDir = os.Getenv("VERIF_C21_SHARD_DIR")
	if arenaDir == "" {
		base := os.Getenv("VERIF_ARENA")
		if base == "" {
			base, _ = os.MkdirTemp("", "verif-vtok-")
		}

		arenaDir = filepath.Join(base, fmt.Sprintf("vtok-%d", os.Getpid()))
	}

	home := filepath.Join(arenaDir, "home")
	if err := os.MkdirAll(filepath.Join(home, ".ego"), 0o700); err != nil {
		return err
	}

	os.Setenv("HOME", home)
	os.Unsetenv("EGO_SERVER_TOKEN_KEY")
	os.Unsetenv("EGO_REALM")

	if err := settings.Load("ego", "default"); err != nil {
		return fmt.Errorf("settings load: %v", err)
	}

	settings.SetDefault(defs.LogFormatSetting, "json")
	ui.LogFormat = ui.JSONFormat

	if err := ui.OpenLogFile(filepath.Join(arenaDir, "vtok.log"), false); err != nil {
		return err
	}

	setKey(keyA)

	// the user store: two users, cost-4 bcrypt hashes
	data := map[string]defs.User{}

	for _, u := range users {
		h, _ := bcrypt.GenerateFromPassword([]byte(u+"-pw"), bcrypt.MinCost)
		data[u] = defs.User{Name: u, ID: uuid.New(), Password: string(h), Permissions: []string{"ego.logon"}}
	}

	b, _ := json.MarshalIndent(data, "", " ")
	path := filepath.Join(arenaDir, "users.json")

	if err := os.WriteFile(path, b, 0o600); err != nil {
		return err
	}

	svc, err := auth.NewFileService(path, "", "")
	if err != nil {
		return fmt.Errorf("user store: %v", err)
	}

	auth.AuthService = svc

	// the revocation store (SQLite through database/sql), opened and warmed here
	if err := tokens.SetDatabasePath("sqlite3://" + filepath.Join(arenaDir, "blacklist.db")); err != nil {
		return fmt.Errorf("revocation store: %v", err)
	}

	if _, err := tokens.List(); err != nil {
		return fmt.Errorf("revocation store list: %v", err)
	}

	router.CheckRateLimit("warm-up") // starts router.startRateLimitScan outside any bubble

	return nil
}
