package vtok

// C21, revocation-store part — built with -race.
//
// A token validation costs an Argon2id derivation over 32 MiB, which the race detector's shadow memory
// makes unaffordable (more than a minute per validation on this machine), so the -race build cannot go
// through the three token doors. It drives the layer below them instead, where the revocation decision
// and its cache live: tokens.IsBlacklisted (the check every door ends in), Blacklist, Delete, Flush and the
// cache purges, from 8 clients on the ids of 3 tokens, recorded at the client boundary and checked with
// porcupine against the same model (listed <=> revoked), partitioned by id; the race detector watches
// blacklist.go, the caches and the resources layer meanwhile.
import (
	"fmt"
	"math/rand"
	"sort"
	"sync"
	"sync/atomic"
	"testing"
	"time"

	"github.com/anishathalye/porcupine"
	"github.com/google/uuid"

	"github.com/tucats/ego/internal/caches"
	"github.com/tucats/ego/internal/language/tokens"
	"github.com/tucats/ego/internal/verifh/vh"
)

func TestC21RevocationRace(t *testing.T) {
	r := vh.New("C21", "revocation-race")
	r.Rule = "history = 64 calls by 8 clients (released together) on 3 token ids: tokens.IsBlacklisted, Blacklist, Delete, Flush, purge of the token / blacklist / auth cache; " +
		"distinct = distinct (history, id) partitions; non-trivial = the partition has lookups and state changes"
	r.Assume("this part does not decrypt tokens (Argon2id under -race is unaffordable); it observes the revocation decision that all three doors delegate to")

	if vh.ReplayCase() != nil {
		t.Skip("an interleaving cannot be replayed from its record; rerun the part")
	}

	ids := []tokens.Token{}
	for i := 0; i < 3; i++ {
		ids = append(ids, tokens.Token{Name: users[i%2], TokenID: uuid.New(), Created: time.Now(), Expires: time.Now().Add(time.Hour)})
	}

	n := vh.N(400, 20000)

	for h := 0; h < n; h++ {
		rng := rand.New(rand.NewSource(vh.Rand(fmt.Sprintf("c21-race-%d", h)).Int63()))

		if _, err := tokens.Flush(); err != nil {
			t.Fatalf("flush: %v", err)
		}

		for _, id := range cacheClasses {
			caches.Purge(id)
		}

		plan := make([][]concOp, 8)

		for i := 0; i < 64; i++ {
			op := concOp{Client: i % 8, Tok: rng.Intn(3)}

			switch x := rng.Float64(); {
			case x < 0.50:
				op.Kind = "validate"
			case x < 0.68:
				op.Kind = "blacklist"
			case x < 0.82:
				op.Kind = "unblacklist"
			case x < 0.86:
				op.Kind = "flush"
			default:
				op.Kind, op.Arg = "purge", []string{"token", "blacklist", "auth"}[rng.Intn(3)]
			}

			plan[op.Client] = append(plan[op.Client], op)
		}

		var (
			clock atomic.Int64
			mu    sync.Mutex
			hist  []concOp
			wg    sync.WaitGroup
			start = make(chan struct{})
		)

		for c := range plan {
			wg.Add(1)

			go func(c int) {
				defer wg.Done()
				<-start

				local := []concOp{}

				for _, op := range plan[c] {
					id := ids[op.Tok]
					op.Call = clock.Add(1)

					switch op.Kind {
					case "validate":
						listed, err := tokens.IsBlacklisted(id)
						op.OK = !listed // "accepted" in the sense of the model
						if err != nil {
							op.Arg = "error:" + err.Error()
						}
					case "blacklist":
						op.OK = tokens.Blacklist(id.TokenID.String()) == nil
					case "unblacklist":
						op.OK = tokens.Delete(id.TokenID.String()) == nil
					case "flush":
						_, err := tokens.Flush()
						op.OK = err == nil
					case "purge":
						caches.Purge(cacheClasses[op.Arg])
						op.OK = true
					}

					op.Ret = clock.Add(1)
					local = append(local, op)
				}

				mu.Lock()
				hist = append(hist, local...)
				mu.Unlock()
			}(c)
		}

		close(start)
		wg.Wait()

		sort.Slice(hist, func(i, j int) bool { return hist[i].Call < hist[j].Call })

		for i := 1; i < len(hist); i++ {
			if hist[i].Call < hist[i-1].Ret {
				r.Count("events.calls_overlapping_their_predecessor", 1)
			}
		}

		r.Count("events.calls_recorded", int64(len(hist)))
		r.Count("histories", 1)

		for ti := range ids {
			ops := []porcupine.Operation{}
			mine := []concOp{}
			lookups, errs := 0, 0

			for _, op := range hist {
				if op.Kind == "purge" || (op.Kind != "flush" && op.Tok != ti) {
					continue
				}

				if op.Kind == "validate" {
					lookups++

					if op.Arg != "" {
						errs++

						continue // a lookup that reported a database error decided nothing
					}

					r.Count("observed.IsBlacklisted."+map[bool]string{true: "not-listed", false: "listed"}[op.OK], 1)
				}

				mine = append(mine, op)
				ops = append(ops, porcupine.Operation{ClientId: op.Client, Input: concIn{op.Kind, op.Arg}, Call: op.Call, Output: op.OK, Return: op.Ret})
			}

			r.Count("events.lookup_errors", int64(errs))
			r.Eval(fmt.Sprintf("%d/%d", h, ti), lookups > 0 && len(mine) > lookups)
			r.Count("events.partitions_checked", 1)

			if !porcupine.CheckOperations(tokenModel, ops) {
				r.Violate(vh.Violation{Key: "race:revocation-store-not-linearizable", Desc: fmt.Sprintf("history %d: IsBlacklisted/Blacklist/Delete/Flush calls on one id are not linearizable against listed <=> revoked", h),
					Case: map[string]any{"history": h, "id": ti, "recorded": mine}, Expected: "linearizable", Observed: "porcupine: not linearizable"})
			}
		}
	}

	if r.Counters["events.calls_recorded"] == 0 {
		t.Fatal("observed nothing")
	}

	if r.Counters["events.calls_overlapping_their_predecessor"] == 0 {
		r.Inconcl("no two recorded calls overlapped")
	}

	if err := r.Write(); err != nil {
		t.Fatal(err)
	}
}
