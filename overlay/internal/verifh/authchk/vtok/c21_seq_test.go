package vtok

// C21, sequential part — histories under the testing/synctest virtual clock.
//
// Events: accepted / rejected (and the identity reported) at three doors — router.Session.Authenticate
// with a Bearer header, the Ego runtime functions cipher.Validate and cipher.Extract — after each step of a
// history over three token slots and two users: issue (with lifetimes), blacklist(id), delete-from-blacklist,
// flush, purge of each cache class, advance of the virtual clock (past token expiry, past the 60 s cache
// lifetime, across sweeps, to the exact expiry instant and one nanosecond either side), change of the
// server token key, presentation of a one-digit-altered token.
// Oracle: the model in doors_test.go: accepted <=> issued under the current key, unaltered, now < expiry,
// id not in the revoked set now.
import (
	"encoding/json"
	"fmt"
	"math/rand"
	"os"
	"os/exec"
	"path/filepath"
	"runtime"
	"strconv"
	"strings"
	"syscall"
	"testing"
	"testing/synctest"
	"time"

	"github.com/tucats/ego/internal/caches"
	"github.com/tucats/ego/internal/language/tokens"
	"github.com/tucats/ego/internal/verifh/vh"
)

type seqOp struct {
	K string `json:"k"`           // issue | blacklist | unblacklist | flush | purge | advance | setkey | validate | altered
	S int    `json:"s,omitempty"` // token slot
	A string `json:"a,omitempty"` // lifetime / cache class / duration or "expiry-1ns|expiry|expiry+1ns" / key name / door
	P int    `json:"p,omitempty"` // altered: position of the changed hex digit
}

var lifetimes = []string{"45s", "90s", "10m", "1h", "2d"}
var advances = []string{"1s", "7s", "31s", "59s", "61s", "2m", "5m", "11m", "61m", "49h", "expiry-1ns", "expiry", "expiry+1ns"}

func genHistory(rng *rand.Rand, steps int) []seqOp {
	ops := []seqOp{}
	for s := 0; s < 3; s++ {
		ops = append(ops, seqOp{K: "issue", S: s, A: lifetimes[rng.Intn(len(lifetimes))]})
	}

	for len(ops) < steps {
		s := rng.Intn(3)

		switch p := rng.Float64(); {
		case p < 0.05:
			ops = append(ops, seqOp{K: "issue", S: s, A: lifetimes[rng.Intn(len(lifetimes))]})
		case p < 0.20:
			ops = append(ops, seqOp{K: "blacklist", S: s})
		case p < 0.27:
			ops = append(ops, seqOp{K: "unblacklist", S: s})
		case p < 0.30:
			ops = append(ops, seqOp{K: "flush"})
		case p < 0.38:
			ops = append(ops, seqOp{K: "purge", A: []string{"token", "blacklist", "auth"}[rng.Intn(3)]})
		case p < 0.50:
			ops = append(ops, seqOp{K: "advance", S: s, A: advances[rng.Intn(len(advances))]})
		case p < 0.55:
			ops = append(ops, seqOp{K: "setkey", A: []string{"A", "B"}[rng.Intn(2)]})
		case p < 0.60:
			ops = append(ops, seqOp{K: "altered", S: s, A: doorNames[rng.Intn(3)], P: rng.Intn(1 << 20)})
		default:
			ops = append(ops, seqOp{K: "validate", S: s, A: doorNames[rng.Intn(3)]})
		}
	}

	return ops
}

type seqCase struct {
	Index int     `json:"index"`
	Ops   []seqOp `json:"ops"`
}

// runHistory executes one history inside a synctest bubble and judges every validation.
func runHistory(t *testing.T, r *vh.Report, cs seqCase) {
	synctest.Test(t, func(t *testing.T) {
		m := newModel()
		slots := [3]*tokRec{}
		lastChange := [3]string{"never", "never", "never"}

		// a clean start: key A, empty revocation list, empty caches
		setKey(keyA)

		if _, err := tokens.Flush(); err != nil {
			t.Fatalf("flush: %v", err)
		}

		for _, id := range cacheClasses {
			caches.Purge(id)
		}

		trace := []string{}

		for i, op := range cs.Ops {
			r.Count("ops."+op.K, 1)

			switch op.K {
			case "issue":
				rec, err := issue(users[op.S%2], op.A, m.curKey, i%2 == 0)
				if err != nil {
					t.Fatalf("issue: %v", err)
				}

				want := time.Now().Add(parseLife(op.A))
				if !rec.Expires.Equal(want) {
					r.Violate(vh.Violation{Key: "seq:issue:expiry-differs-from-lifetime", Desc: fmt.Sprintf("token issued with lifetime %s at %s carries expiry %s", op.A, time.Now().Format(time.RFC3339Nano), rec.Expires.Format(time.RFC3339Nano)),
						Case: cs, Expected: want.String(), Observed: rec.Expires.String()})
				}

				slots[op.S] = &rec
				lastChange[op.S] = "issue"
			case "blacklist":
				if slots[op.S] != nil {
					if err := tokens.Blacklist(slots[op.S].ID); err != nil {
						r.Count("ops.blacklist.error", 1)
						trace = append(trace, fmt.Sprintf("%d blacklist error %v", i, err))

						break // the call reported failure: the model does not change (a duplicate insert)
					}

					m.revoked[slots[op.S].ID] = true
					lastChange[op.S] = "blacklist"
				}
			case "unblacklist":
				if slots[op.S] != nil {
					err := tokens.Delete(slots[op.S].ID)
					if err == nil != m.revoked[slots[op.S].ID] {
						r.Count("notes.unblacklist_result_differs_from_model", 1)
					}

					if m.revoked[slots[op.S].ID] {
						lastChange[op.S] = "unblacklist"
					}

					delete(m.revoked, slots[op.S].ID)
				}
			case "flush":
				if _, err := tokens.Flush(); err != nil {
					t.Fatalf("flush: %v", err)
				}

				for s := range slots {
					if slots[s] != nil && m.revoked[slots[s].ID] {
						lastChange[s] = "flush"
					}
				}

				m.revoked = map[string]bool{}
			case "purge":
				caches.Purge(cacheClasses[op.A])
			case "advance":
				d, ok := advanceBy(op, slots[op.S])
				if ok {
					time.Sleep(d)
					r.Count("virtual_seconds_advanced", int64(d/time.Second))
				}
			case "setkey":
				k := keyA
				if op.A == "B" {
					k = keyB
				}

				if k != m.curKey {
					for s := range slots {
						lastChange[s] = "setkey"
					}
				}

				setKey(k)
				m.curKey = k
			case "validate", "altered":
				rec := slots[op.S]
				str := "00"
				altered := op.K == "altered"

				if rec != nil {
					str = rec.Str
					if altered {
						str = flipHexDigit(str, op.P%len(str))
					}
				}

				now := time.Now()
				want, why := m.expect(rec, altered, now)
				got, who := door(op.A, str)

				if time.Now() != now {
					t.Fatalf("virtual clock moved during a validation")
				}

				state := why
				if rec != nil && m.revoked[rec.ID] && why != "revoked" {
					state += "+revoked"
				}

				r.Eval(fmt.Sprintf("%d/%d", cs.Index, i), rec != nil)
				r.Count("events.validations", 1)
				r.Count("observed."+op.A+"."+state+"."+map[bool]string{true: "accepted", false: "rejected"}[got], 1)
				trace = append(trace, fmt.Sprintf("%d %s slot%d %s -> %v (model %s)", i, op.K, op.S, op.A, got, why))

				switch {
				case want == mustReject && got:
					r.Violate(vh.Violation{Key: "seq:" + op.A + ":accepts:" + why,
						Desc: fmt.Sprintf("history %d step %d: %s accepted a token that is %s (virtual now %s, expiry %s, revoked=%v, issued under current key=%v)", cs.Index, i, op.A, why,
							now.Format(time.RFC3339Nano), expiryOf(rec), rec != nil && m.revoked[rec.ID], rec != nil && rec.Key == m.curKey),
						Case: cs, Expected: "rejected", Observed: strings.Join(tail(trace, 12), " ; ")})
				case want == mustAccept && !got:
					r.Violate(vh.Violation{Key: "seq:" + op.A + ":rejects:valid:after-" + lastChange[op.S],
						Desc: fmt.Sprintf("history %d step %d: %s rejected a token that was issued under the current key, is unaltered, unexpired (now %s < expiry %s) and not revoked", cs.Index, i, op.A,
							now.Format(time.RFC3339Nano), expiryOf(rec)),
						Case: cs, Expected: "accepted", Observed: strings.Join(tail(trace, 12), " ; ")})
				case got && want != mustReject && !identityOK(op.A, *rec, who):
					r.Violate(vh.Violation{Key: "seq:" + op.A + ":wrong-identity",
						Desc: fmt.Sprintf("history %d step %d: %s accepted the token of %s/%s but reported %q", cs.Index, i, op.A, rec.User, rec.ID, who), Case: cs, Expected: rec.User, Observed: who})
				}

				if r.Evaluations%1499 == 7 {
					r.Sample(map[string]any{"history": cs.Index, "step": i, "door": op.A, "model": why, "accepted": got, "virtual_now": now.Format(time.RFC3339), "trace_tail": tail(trace, 5)})
				}
			}
		}

		// every goroutine started inside the bubble must end: purge every cache class that was touched so
		// that each caches.expire loop finds its cache gone at its next 60 s wake-up, and wait for that
		setKey(keyA)
		caches.PurgeAll()
		time.Sleep(61 * time.Second)
		synctest.Wait()
	})
}

func tail(s []string, n int) []string {
	if len(s) > n {
		return s[len(s)-n:]
	}

	return s
}

func expiryOf(t *tokRec) string {
	if t == nil {
		return "-"
	}

	return t.Expires.Format(time.RFC3339Nano)
}

func parseLife(s string) time.Duration {
	if strings.HasSuffix(s, "d") {
		n, _ := strconv.Atoi(strings.TrimSuffix(s, "d"))

		return time.Duration(n) * 24 * time.Hour
	}

	d, _ := time.ParseDuration(s)

	return d
}

func advanceBy(op seqOp, rec *tokRec) (time.Duration, bool) {
	if !strings.HasPrefix(op.A, "expiry") {
		d, err := time.ParseDuration(op.A)

		return d, err == nil
	}

	if rec == nil {
		return 0, false
	}

	d := time.Until(rec.Expires)

	switch op.A {
	case "expiry-1ns":
		d -= time.Nanosecond
	case "expiry+1ns":
		d += time.Nanosecond
	}

	return d, d > 0
}

func flipHexDigit(s string, pos int) string {
	b := []byte(s)
	if b[pos] == '0' {
		b[pos] = '1'
	} else {
		b[pos] = '0'
	}

	return string(b)
}

// TestC21Sequential: without VERIF_C21_SHARD it is the parent that splits the histories over child
// processes of this same test binary (ego's settings, caches and revocation store are process-global, and
// each validation costs an Argon2id key derivation, so one process cannot run the histories in parallel);
// with it, it runs its share.
func TestC21Sequential(t *testing.T) {
	r := vh.New("C21", "sequential")
	r.Rule = "history = 40 PRNG-chosen steps over 3 token slots / 2 users: issue (45s…2d lifetimes, through cipher.New and tokens.New), blacklist, delete-from-blacklist, flush, purge of the token / blacklist / auth cache, " +
		"virtual-clock advances (1 s … 49 h, and to expiry-1ns / expiry / expiry+1ns of a slot), server key change A<->B, validation of the slot's token or of a one-digit-altered copy through one of three doors; " +
		"distinct = distinct (history, step) validations; non-trivial = the slot holds an issued token"
	r.Assume("testing/synctest virtual clock: time.Now/Sleep inside the bubble are virtual, the cache sweepers run in bubble time; the SQLite handle of the revocation store was opened outside the bubble")
	r.Assume("counts are sized by the measured cost of a token validation (an Argon2id derivation over 32 MiB: 45 ms at best, more than a second when the machine is busy), not by the design's 50 ms estimate: quick 64 histories x 40 steps over 16 child processes, thorough x 50")
	r.Assume("at the exact expiry instant either answer is accepted (the property says 'has not expired'); one nanosecond before must accept, one after must reject")

	total := vh.N(64, 3200)
	steps := 40

	if rc := vh.ReplayCase(); rc != nil {
		var cs seqCase
		if err := json.Unmarshal(rc, &cs); err != nil {
			t.Fatal(err)
		}

		runHistory(t, r, cs)
		r.Distinct = 2
		_ = r.Write()

		return
	}

	if sh := os.Getenv("VERIF_C21_SHARD"); sh != "" {
		var i, k int

		fmt.Sscanf(sh, "%d/%d", &i, &k)

		if i == 0 {
			// directed probe for the recorded finding seq:authenticate:accepts:other-key (kept under test on
			// every run, whatever the PRNG histories happen to contain): cache a token through Authenticate,
			// change the server key, present it again through every door
			r.Probe("seq:authenticate:accepts:other-key")
			runHistory(t, r, seqCase{Index: -1, Ops: []seqOp{{K: "issue", S: 0, A: "1h"}, {K: "validate", S: 0, A: "authenticate"}, {K: "setkey", A: "B"},
				{K: "validate", S: 0, A: "authenticate"}, {K: "validate", S: 0, A: "cipher.Validate"}, {K: "validate", S: 0, A: "cipher.Extract"},
				{K: "advance", S: 0, A: "59s"}, {K: "validate", S: 0, A: "authenticate"}, {K: "setkey", A: "A"}, {K: "validate", S: 0, A: "authenticate"}}})
		}

		for h := i; h < total; h += k {
			rng := vh.Rand(fmt.Sprintf("c21-seq-%d", h))
			runHistory(t, r, seqCase{Index: h, Ops: genHistory(rng, steps)})
			r.Count("histories", 1)
		}

		if err := r.Write(); err != nil {
			t.Fatal(err)
		}

		return
	}

	// parent
	k := runtime.NumCPU()
	if k > 16 {
		k = 16
	}

	if k > total {
		k = total
	}

	shards := runShards(t, "TestC21Sequential", k)
	mergeShards(r, shards)

	r.Count("shards", int64(k))

	if r.Counters["events.validations"] == 0 {
		t.Fatal("observed nothing")
	}

	if err := r.Write(); err != nil {
		t.Fatal(err)
	}
}

// ---- sharding over child processes ----

type shardReport struct {
	Evaluations  int64            `json:"evaluations"`
	Distinct     int64            `json:"distinct_nontrivial"`
	Samples      []any            `json:"samples"`
	Violations   []vh.Violation   `json:"violations"`
	Inconclusive []string         `json:"inconclusive"`
	Counters     map[string]int64 `json:"counters"`
	Notes        []string         `json:"notes"`
	ProbesRun    []string         `json:"probes_run"`
}

func runShards(t *testing.T, test string, k int) []shardReport {
	base := filepath.Join(arenaDir, "shards-"+test)
	_ = os.MkdirAll(base, 0o700)

	type res struct {
		i   int
		rep shardReport
		err error
		log string
	}

	ch := make(chan res, k)

	for i := 0; i < k; i++ {
		go func(i int) {
			dir := filepath.Join(base, fmt.Sprint(i))
			_ = os.MkdirAll(dir, 0o700)
			out := filepath.Join(dir, "report.json")

			cmd := exec.Command(os.Args[0], "-test.run", "^"+test+"$", "-test.timeout", "0", "-test.count", "1")
			cmd.Env = append(os.Environ(), fmt.Sprintf("VERIF_C21_SHARD=%d/%d", i, k), "VERIF_C21_SHARD_DIR="+dir, "VERIF_OUT="+out, "VERIF_C21_BALLAST_MB=64")
			cmd.SysProcAttr = &syscall.SysProcAttr{Pdeathsig: syscall.SIGKILL}

			b, err := cmd.CombinedOutput()
			rs := res{i: i, err: err, log: string(b)}

			if data, rerr := os.ReadFile(out); rerr == nil {
				if jerr := json.Unmarshal(data, &rs.rep); jerr != nil && err == nil {
					rs.err = jerr
				}
			} else if err == nil {
				rs.err = rerr
			}

			ch <- rs
		}(i)
	}

	out := make([]shardReport, 0, k)

	for i := 0; i < k; i++ {
		rs := <-ch
		if rs.err != nil {
			// a child that died is a harness failure or a crash of the code under test: surface its log
			// (the driver turns a Go fatal error / panic in this log into a child-crash violation)
			fmt.Println(rs.log)
			t.Fatalf("shard %d failed: %v", rs.i, rs.err)
		}

		out = append(out, rs.rep)
	}

	return out
}

func mergeShards(r *vh.Report, shards []shardReport) {
	for _, s := range shards {
		r.Evaluations += s.Evaluations
		r.Distinct += s.Distinct

		for k, v := range s.Counters {
			if strings.HasPrefix(k, "violations_") {
				continue
			}

			r.Count(k, v)
		}

		for _, v := range s.Violations {
			r.Violate(v)
		}

		for _, x := range s.Samples {
			r.Sample(x)
		}

		for _, x := range s.Inconclusive {
			r.Inconcl(x)
		}

		for _, x := range s.Notes {
			r.Note(x)
		}

		for _, x := range s.ProbesRun {
			r.Probe(x)
		}
	}
}
